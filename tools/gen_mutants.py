#!/usr/bin/env python3
"""Writes /verif/rendlint/mutants/Cxx.json: stored one-instance breaks ("mutant", must be flagged by the
expected rule) and behaviour-preserving variants ("variant", must stay silent). They are applied as in-memory
overlays on /repo's current files by `rendlint check --tier thorough` / `rendlint mutants` (self-validation of
the checker; never part of a verdict). A pattern that no longer occurs in the tree is skipped."""
import json, os

ROOT = os.path.dirname(os.path.dirname(os.path.abspath(__file__)))
M = {}


def mut(prop, name, file, find, replace, expect, why="", nth=0, kind="mutant"):
    M.setdefault(prop, []).append({"name": name, "kind": kind, "file": file, "find": find, "replace": replace,
                                   "nth": nth, "expect": expect, "why": why})


def var(prop, name, file, find, replace, why="", nth=0):
    mut(prop, name, file, find, replace, "", why, nth, "variant")


L1L2 = "orcas/l1l2.go"
BATCH = "orcas/l1l2batch.go"
LOCKED = "orcas/locked.go"
LOOP = "server/default.go"
LISTEN = "server/listen.go"
STD = "handlers/memcached/std/handler.go"
STDL = "handlers/memcached/std/localComm.go"
CH = "handlers/memcached/chunked/handler.go"
CHL = "handlers/memcached/chunked/localComm.go"
BH = "handlers/memcached/batched/handler.go"
BC = "handlers/memcached/batched/conn.go"
BP = "protocol/binprot/parser.go"
BR = "protocol/binprot/respond.go"
BT = "protocol/binprot/types.go"
BCMD = "protocol/binprot/commands.go"
BHDR = "protocol/binprot/headers.go"
TP = "protocol/textprot/parser.go"
TR = "protocol/textprot/respond.go"
INMEM = "handlers/inmem/inmem.go"

# ---------------------------------------------------------------- C01
mut("C01", "dispatch-add-as-set", LOOP, "err = s.orca.Add(request.(common.SetRequest))", "err = s.orca.Set(request.(common.SetRequest))", "R1.1",
    "an add is executed as a set")
mut("C01", "batch-add-populates-l1", BATCH, "err = l.l1.Replace(req)", "err = l.l1.Add(req)", "R1.2", nth=2)
mut("C01", "getres-flags-from-exptime", L1L2, "Flags:  res.Flags,\n\t\t\t\t\tData:   res.Data,\n\t\t\t\t\tMiss:   res.Miss,", "Flags:  res.Exptime,\n\t\t\t\t\tData:   res.Data,\n\t\t\t\t\tMiss:   res.Miss,", "R1.7")
mut("C01", "delete-l2-miss-replies-success", L1L2, "\t\t\tmetrics.IncCounter(MetricCmdDeleteMissesL2)\n\t\t\tmetrics.IncCounter(MetricCmdDeleteMisses)\n\t\t\treturn err", "\t\t\tmetrics.IncCounter(MetricCmdDeleteMissesL2)\n\t\t\tmetrics.IncCounter(MetricCmdDeleteMisses)\n\t\t\treturn l.res.Delete(req.Opaque)", "R1.3")
mut("C01", "std-add-writes-set", STD, "binprot.WriteAddCmd(h.Rw.Writer", "binprot.WriteSetCmd(h.Rw.Writer", "R1.5")
mut("C01", "text-delete-says-stored", TR, 'return t.resp("DELETED")', 'return t.resp("STORED")', "R1.9")
mut("C01", "errorToCode-exists-as-notstored", BT, "\tcase common.ErrKeyExists:\n\t\treturn StatusKeyExists", "\tcase common.ErrKeyExists:\n\t\treturn StatusNotStored", "R1.6")
mut("C08", "l1only-set-error-swallowed", "orcas/l1only.go", "\t} else {\n\t\tmetrics.IncCounter(MetricCmdSetErrorsL1)\n\t\tmetrics.IncCounter(MetricCmdSetErrors)\n\t}\n\n\treturn err", "\t} else {\n\t\tmetrics.IncCounter(MetricCmdSetErrorsL1)\n\t\tmetrics.IncCounter(MetricCmdSetErrors)\n\t\terr = nil\n\t}\n\n\treturn err", "R8.1",
    "failed set returns nil without a reply (caught by the reply-discipline rule)")
mut("C01", "binary-touch-replies-with-delete-opcode", BR, "writeSuccessResponseHeader(b.writer, OpcodeTouch, 0, 0, 0, opaque, true)", "writeSuccessResponseHeader(b.writer, OpcodeDelete, 0, 0, 0, opaque, true)", "R1.9")
var("C01", "l1only-set-early-return-style", "orcas/l1only.go", "\tif err == nil {\n\t\tmetrics.IncCounter(MetricCmdSetSuccessL1)\n\t\tmetrics.IncCounter(MetricCmdSetSuccess)\n\n\t\terr = l.res.Set(req.Opaque, req.Quiet)\n\n\t} else {\n\t\tmetrics.IncCounter(MetricCmdSetErrorsL1)\n\t\tmetrics.IncCounter(MetricCmdSetErrors)\n\t}\n\n\treturn err",
    "\tif err != nil {\n\t\tmetrics.IncCounter(MetricCmdSetErrorsL1)\n\t\tmetrics.IncCounter(MetricCmdSetErrors)\n\t\treturn err\n\t}\n\tmetrics.IncCounter(MetricCmdSetSuccessL1)\n\tmetrics.IncCounter(MetricCmdSetSuccess)\n\treturn l.res.Set(req.Opaque, req.Quiet)")
var("C01", "loop-switch-order", LOOP, "\t\tcase common.RequestSet:\n\t\t\tmetrics.IncCounter(MetricCmdSet)\n\t\t\terr = s.orca.Set(request.(common.SetRequest))\n\t\tcase common.RequestAdd:\n\t\t\tmetrics.IncCounter(MetricCmdAdd)\n\t\t\terr = s.orca.Add(request.(common.SetRequest))",
    "\t\tcase common.RequestAdd:\n\t\t\tmetrics.IncCounter(MetricCmdAdd)\n\t\t\terr = s.orca.Add(request.(common.SetRequest))\n\t\tcase common.RequestSet:\n\t\t\tmetrics.IncCounter(MetricCmdSet)\n\t\t\terr = s.orca.Set(request.(common.SetRequest))")

# ---------------------------------------------------------------- C02
mut("C02", "l1-set-before-l2", L1L2, "\terr := l.l2.Set(req)\n", "\tl.l1.Set(req)\n\terr := l.l2.Set(req)\n", "R2.1")
mut("C02", "batch-set-uses-l1-set", BATCH, "err = l.l1.Replace(req)", "err = l.l1.Set(req)", "R2.2", nth=1)
mut("C02", "drop-compensating-delete", L1L2, "\t\terr = l.l1.Delete(dcmd)\n\t\tmetrics.ObserveHist(HistDeleteL1, timer.Since(start))", "\t\terr = nil\n\t\t_ = dcmd\n\t\tmetrics.ObserveHist(HistDeleteL1, timer.Since(start))", "R2.3")
mut("C02", "backfill-ttl-zero", L1L2, "\t\t\t\t\t\tExptime: res.Exptime,\n", "\t\t\t\t\t\tExptime: 0,\n", "R2.5")
mut("C02", "delete-l1-first", L1L2, "\terr := l.l2.Delete(req)\n", "\tl.l1.Delete(req)\n\terr := l.l2.Delete(req)\n", "R2.1")
var("C02", "compensation-in-switch-form", L1L2, "\t\tif err == common.ErrKeyNotFound {\n\t\t\tmetrics.IncCounter(MetricCmdSetL1ErrorDeleteMissesL1)\n\t\t} else if err != nil {\n\t\t\tmetrics.IncCounter(MetricCmdSetL1ErrorDeleteErrorsL1)\n\t\t} else {\n\t\t\tmetrics.IncCounter(MetricCmdSetL1ErrorDeleteHitsL1)\n\t\t}",
    "\t\tswitch {\n\t\tcase err == common.ErrKeyNotFound:\n\t\t\tmetrics.IncCounter(MetricCmdSetL1ErrorDeleteMissesL1)\n\t\tcase err != nil:\n\t\t\tmetrics.IncCounter(MetricCmdSetL1ErrorDeleteErrorsL1)\n\t\tdefault:\n\t\t\tmetrics.IncCounter(MetricCmdSetL1ErrorDeleteHitsL1)\n\t\t}")

# ---------------------------------------------------------------- C03
mut("C03", "touch-takes-read-lock", LOCKED, "func (l *LockedOrca) Touch(req common.TouchRequest) error {\n\tlock := l.getlock(req.Key, false)", "func (l *LockedOrca) Touch(req common.TouchRequest) error {\n\tlock := l.getlock(req.Key, true)", "R3.1")
mut("C03", "selector-hashes-other-bytes", LOCKED, "\th.Write(key)\n", "\th.Write(key[:1])\n", "R3.2")
mut("C03", "set-locks-by-data", LOCKED, "func (l *LockedOrca) Set(req common.SetRequest) error {\n\tlock := l.getlock(req.Key, false)", "func (l *LockedOrca) Set(req common.SetRequest) error {\n\tlock := l.getlock(req.Data, false)", "R3.2")
mut("C03", "batch-port-fresh-lock-set", "app/memproxy.go", "\t\t\to = orcas.LockedWithExisting(o, lockset)", "\t\t\t_ = lockset\n\t\t\to, _ = orcas.Locked(o, false, uint8(concurrency))", "R3.4")
mut("C03", "multi-reader-with-chunking", "app/memproxy.go", "\t\tif chunked || !multiReader {", "\t\tif !multiReader {", "R3.5")
mut("C03", "selector-returns-write-table-for-reads", LOCKED, "\tif read {\n\t\treturn l.rlocks[bucket]\n\t}", "\tif read {\n\t\treturn l.locks[bucket]\n\t}", "R3.1",
    "reads serialise (still safe) - flagged because the kind table no longer matches the flag")
mut("C03", "gat-wrapped-call-after-unlock", LOCKED, "func (l *LockedOrca) Gat(req common.GATRequest) error {\n\tlock := l.getlock(req.Key, false)\n\tlock.Lock()\n\tdefer lock.Unlock()\n\tret := l.wrapped.Gat(req)", "func (l *LockedOrca) Gat(req common.GATRequest) error {\n\tlock := l.getlock(req.Key, false)\n\tlock.Lock()\n\tlock.Unlock()\n\tret := l.wrapped.Gat(req)", "R3.3")
var("C03", "mask-written-differently", LOCKED, "\tbucket &= len(l.locks) - 1\n", "\tbucket = bucket & (len(l.locks) - 1)\n")

# ---------------------------------------------------------------- C04
mut("C04", "touch-addresses-raw-key", CH, "\t\tchunkKey := chunkKey(cmd.Key, i)\n\t\tif err := binprot.WriteTouchCmd(h.rw.Writer, chunkKey, cmd.Exptime, 0)", "\t\tif err := binprot.WriteTouchCmd(h.rw.Writer, cmd.Key, cmd.Exptime, 0)", "R4.1")
_blk = "\treturn append(key[:len(key):len(key)], ([]byte(\"-meta\"))...)\n}\n\nfunc chunkKey(key []byte, chunk int) []byte {\n\t// TODO: POOL ME PLEASE\n\t// or maybe not since pooling adds interface{} conversion overhead anyway\n\t//\n\t// The capacity is clamped so that append always copies, see metaKey.\n\tkey = key[:len(key):len(key)]\n"
mut("C04", "derived-keys-append-in-place-again", "handlers/memcached/chunked/keys.go", _blk, "\treturn append(key, ([]byte(\"-meta\"))...)\n}\n\nfunc chunkKey(key []byte, chunk int) []byte {\n", "R4.2", "both constructors write into the caller's spare capacity: foo-meta becomes foo-1eta (defect F5)")
var("C04", "metakey-alone-appends-in-place", "handlers/memcached/chunked/keys.go", "return append(key[:len(key):len(key)], ([]byte(\"-meta\"))...)", "return append(key, ([]byte(\"-meta\"))...)", "only the metadata key may share the caller's spare capacity; chunk keys copy, so nothing overwrites it")
mut("C04", "delete-loop-starts-at-1", CH, "\tfor i := 0; i < int(metaData.NumChunks); i++ {\n\t\tchunkKey := chunkKey(cmd.Key, i)\n\t\tif err := binprot.WriteDeleteCmd", "\tfor i := 1; i < int(metaData.NumChunks); i++ {\n\t\tchunkKey := chunkKey(cmd.Key, i)\n\t\tif err := binprot.WriteDeleteCmd", "R4.3")
mut("C04", "touch-acks-without-request", CH, "func (h Handler) Touch(cmd common.TouchRequest) error {\n", "func (h Handler) Touch(cmd common.TouchRequest) error {\n\tif cmd.Exptime == 0 {\n\t\treturn nil\n\t}\n", "R4.4")
mut("C04", "getmetadata-uses-raw-key", CHL, "\tif err := binprot.WriteGetCmd(rw, metaKey, 0); err != nil {", "\tif err := binprot.WriteGetCmd(rw, key, 0); err != nil {", "R4.1")
var("C04", "chunkkey-copy-instead-of-clamp", "handlers/memcached/chunked/keys.go", "\tkey = key[:len(key):len(key)]\n", "\tkey = append(make([]byte, 0, len(key)+5), key...)\n\tkey = key[:len(key):len(key)]\n")

# ---------------------------------------------------------------- C05
mut("C05", "token-compare-removed-in-get", CH, "\t\t\tif !bytes.Equal(metaData.Token[:], tokenBuf) {\n\t\t\t\t//fmt.Println(id, \"Get miss", "\t\t\tif false {\n\t\t\t\t//fmt.Println(id, \"Get miss", "R5.2")
mut("C05", "count-check-removed-in-gat", CH, "\tif miss || chunk != int(metaData.NumChunks) {\n\t\t//fmt.Println(\"GAT miss because of missing chunk\")", "\tif miss {\n\t\t//fmt.Println(\"GAT miss because of missing chunk\")", "R5.3")
mut("C05", "token-from-constant", CH, "\ttoken := <-tokens\n", "\tvar token [tokenSize]byte\n", "R5.1")
mut("C05", "token-mismatch-does-not-set-miss", CH, "\t\t\t\tmetrics.IncCounter(MetricCmdGatMissesToken)\n\t\t\t\tmiss = true", "\t\t\t\tmetrics.IncCounter(MetricCmdGatMissesToken)", "R5.2")
var("C05", "count-check-as-separate-if", CH, "\tif miss || chunk != int(metaData.NumChunks) {\n\t\t//fmt.Println(\"GAT miss because of missing chunk\")\n\t\treturn missResponse, nil\n\t}", "\tif chunk != int(metaData.NumChunks) {\n\t\treturn missResponse, nil\n\t}\n\tif miss {\n\t\treturn missResponse, nil\n\t}")

# ---------------------------------------------------------------- C06
mut("C06", "reshadow-res", BH, "\t\tres = <-reschan\n", "\t\tres := <-reschan\n\t\t_ = res\n", "R6.1")
mut("C06", "gat-submits-get", BH, "gr, err := h.doRequest(cmd, common.RequestGat)", "gr, err := h.doRequest(cmd, common.RequestGet)", "R6.2")
mut("C06", "serialiser-add-writes-set", BC, "binprot.WriteAddCmd(buf, cmd.Key", "binprot.WriteSetCmd(buf, cmd.Key", "R6.2")
mut("C06", "opaque-not-incremented-in-get-loop", BC, "\t\t\t\t\treschan: req.reschan,\n\t\t\t\t}\n\t\t\t\topaque++\n\t\t\t}\n\n\t\t\tnumExpected = len(cmd.Keys)\n\n\t\tcase common.RequestGetE:", "\t\t\t\t\treschan: req.reschan,\n\t\t\t\t}\n\t\t\t}\n\n\t\t\tnumExpected = len(cmd.Keys)\n\n\t\tcase common.RequestGetE:", "R6.3")
mut("C06", "reader-miss-for-every-command-again", BC, "\t\t\t\t\tif !isGet || err != common.ErrKeyNotFound {", "\t\t\t\t\tif _ = isGet; err != common.ErrKeyNotFound {", "R6.4")
mut("C06", "touch-registered-without-channel", BC, "\t\t\tbinprot.WriteTouchCmd(buf, cmd.Key, cmd.Exptime, opaque)\n\t\t\tresponses[opaque] = reshandle{\n\t\t\t\tkey:     cmd.Key,\n\t\t\t\topaque:  cmd.Opaque,\n\t\t\t\tquiet:   cmd.Quiet,\n\t\t\t\treschan: req.reschan,\n\t\t\t}", "\t\t\tbinprot.WriteTouchCmd(buf, cmd.Key, cmd.Exptime, opaque)\n\t\t\tresponses[opaque+1] = reshandle{\n\t\t\t\tkey:     cmd.Key,\n\t\t\t\topaque:  cmd.Opaque,\n\t\t\t\tquiet:   cmd.Quiet,\n\t\t\t\treschan: req.reschan,\n\t\t\t}", "R6.3")

# ---------------------------------------------------------------- C07
mut("C07", "flags-exptime-swapped", BP, "\t\tFlags:   flags,\n\t\tExptime: exptime,\n\t\tOpaque:  reqHeader.OpaqueToken,\n\t\tData:    dataBuf,", "\t\tFlags:   exptime,\n\t\tExptime: flags,\n\t\tOpaque:  reqHeader.OpaqueToken,\n\t\tData:    dataBuf,", "R7.4")
mut("C07", "setq-not-quiet", BP, "return setRequest(b.reader, reqHeader, common.RequestSet, true, start)", "return setRequest(b.reader, reqHeader, common.RequestSet, false, start)", "R7.2")
mut("C07", "delete-key-read-with-extralength", BP, "\tcase OpcodeDelete:\n\t\t// key\n\t\tkey, err := readString(b.reader, reqHeader.KeyLength)", "\tcase OpcodeDelete:\n\t\t// key\n\t\tkey, err := readString(b.reader, uint16(reqHeader.ExtraLength))", "R7.4")
mut("C07", "opaque-from-wrong-offset", BHDR, "\trh.OpaqueToken = binary.BigEndian.Uint32(buf[12:16])\n", "\trh.OpaqueToken = binary.BigEndian.Uint32(buf[8:12])\n", "R7.3", nth=1)
mut("C07", "appendq-decoded-as-prepend", BP, "return appendPrependRequest(b.reader, reqHeader, common.RequestAppend, true, start)", "return appendPrependRequest(b.reader, reqHeader, common.RequestPrepend, true, start)", "R7.2")
mut("C07", "touch-skips-exptime-read", BP, "\tcase OpcodeTouch:\n\t\t// exptime, key\n\t\texptime, err := readUInt32(b.reader)", "\tcase OpcodeTouch:\n\t\t// exptime, key\n\t\texptime, err := uint32(0), error(nil)", "R7.5")
mut("C07", "short-read-of-value", BP, "\tn, err := io.ReadAtLeast(r, dataBuf, int(realLength))\n\tmetrics.IncCounterBy(common.MetricBytesReadRemote, uint64(n))\n\tif err != nil {\n\t\treturn common.SetRequest{}, reqType, start, err\n\t}\n\n\treturn common.SetRequest{\n\t\tQuiet:   quiet,\n\t\tKey:     key,\n\t\tFlags:   flags,", "\tn, err := io.ReadAtLeast(r, dataBuf, 1)\n\tmetrics.IncCounterBy(common.MetricBytesReadRemote, uint64(n))\n\tif err != nil {\n\t\treturn common.SetRequest{}, reqType, start, err\n\t}\n\n\treturn common.SetRequest{\n\t\tQuiet:   quiet,\n\t\tKey:     key,\n\t\tFlags:   flags,", "R7.6")
mut("C07", "text-flags-from-word-3", TP, "flags, err := strconv.ParseUint(strings.TrimSpace(clParts[2]), 10, 32)", "flags, err := strconv.ParseUint(strings.TrimSpace(clParts[3]), 10, 32)", "R7.8")
mut("C07", "binary-magic-accepts-0x81", "protocol/binprot/components.go", "return headerByte[0] == MagicRequest, nil", "return headerByte[0] >= MagicRequest, nil", "R7.7")
mut("C07", "batch-get-opaque-from-previous-header", BP, "\t\tkeys = append(keys, key)\n\t\topaques = append(opaques, header.OpaqueToken)\n\t\tquiet = append(quiet, true)\n\n\t\t// read in the next header\n\t\tif !first {\n\t\t\treqHeadPool.Put(header)\n\t\t} else {\n\t\t\tfirst = false\n\t\t}\n\t\theader, err = readRequestHeader(r)",
    "\t\tkeys = append(keys, key)\n\t\tquiet = append(quiet, true)\n\n\t\t// read in the next header\n\t\tif !first {\n\t\t\treqHeadPool.Put(header)\n\t\t} else {\n\t\t\tfirst = false\n\t\t}\n\t\theader, err = readRequestHeader(r)\n\t\tif err == nil {\n\t\t\topaques = append(opaques, header.OpaqueToken)\n\t\t}", "R7.2", nth=1)

# ---------------------------------------------------------------- C08
mut("C08", "getend-dropped-in-all-hit-branch", L1L2, "\t\tif err != nil {\n\t\t\treturn err\n\t\t}\n\t\treturn l.res.GetEnd(req.NoopOpaque, req.NoopEnd)\n\t}", "\t\tif err != nil {\n\t\t\treturn err\n\t\t}\n\t\treturn nil\n\t}", "R8.1")
mut("C08", "getcommon-declares-8-extras", BR, "\ttotalBodyLength := len(response.Data) + 4\n\twriteSuccessResponseHeader(w, opcode, 0, 4, totalBodyLength, response.Opaque, false)", "\ttotalBodyLength := len(response.Data) + 8\n\twriteSuccessResponseHeader(w, opcode, 0, 4, totalBodyLength, response.Opaque, false)", "R8.4")
mut("C08", "error-reply-not-flushed", BR, "\tif err := w.Flush(); err != nil {\n\t\tresHeadPool.Put(header)\n\t\treturn err\n\t}\n\n\tmetrics.IncCounterBy(common.MetricBytesWrittenRemote, resHeaderLen)\n\tresHeadPool.Put(header)\n\n\treturn nil\n}\n", "\tmetrics.IncCounterBy(common.MetricBytesWrittenRemote, resHeaderLen)\n\tresHeadPool.Put(header)\n\n\treturn nil\n}\n", "R8.5")
mut("C08", "touch-replies-twice", L1L2, "\t\t\treturn l.res.Touch(req.Opaque)\n\t\t}", "\t\t\tl.res.Touch(req.Opaque)\n\t\t\treturn l.res.Touch(req.Opaque)\n\t\t}", "R8.1")
mut("C08", "stat-terminator-opaque-zero-again", BR, "writeSuccessResponseHeader(b.writer, OpcodeStat, 0, 0, 0, opaque, false)", "writeSuccessResponseHeader(b.writer, OpcodeStat, 0, 0, 0, 0, false)", "R8.3")
mut("C08", "locked-get-never-unmutes", LOCKED, "\t\t\tnoopEnd = req.NoopEnd\n\t\t\tl.res.mute = false\n\t\t}\n\n\t\tsubreq := common.GetRequest{\n\t\t\tKeys:       [][]byte{key},\n\t\t\tOpaques:    []uint32{req.Opaques[idx]},\n\t\t\tQuiet:      []bool{req.Quiet[idx]},\n\t\t\tNoopOpaque: noopOpaque,\n\t\t\tNoopEnd:    noopEnd,\n\t\t}\n\n\t\t// Make the actual request\n\t\tret = l.wrapped.Get(subreq)", "\t\t\tnoopEnd = req.NoopEnd\n\t\t}\n\t\tl.res.mute = false\n\n\t\tsubreq := common.GetRequest{\n\t\t\tKeys:       [][]byte{key},\n\t\t\tOpaques:    []uint32{req.Opaques[idx]},\n\t\t\tQuiet:      []bool{req.Quiet[idx]},\n\t\t\tNoopOpaque: noopOpaque,\n\t\t\tNoopEnd:    noopEnd,\n\t\t}\n\n\t\t// Make the actual request\n\t\tret = l.wrapped.Get(subreq)", "R8.2",
    "the mute flag is cleared for every key again: one END per key")
mut("C08", "miss-response-opaque-from-first-key", STD, "\t\t\t\t\tMiss:   true,\n\t\t\t\t\tQuiet:  cmd.Quiet[idx],\n\t\t\t\t\tOpaque: cmd.Opaques[idx],\n\t\t\t\t\tFlags:  flags,\n\t\t\t\t\tKey:    key,", "\t\t\t\t\tMiss:   true,\n\t\t\t\t\tQuiet:  cmd.Quiet[idx],\n\t\t\t\t\tOpaque: cmd.Opaques[0],\n\t\t\t\t\tFlags:  flags,\n\t\t\t\t\tKey:    key,", "R8.3", nth=1)
mut("C08", "error-reply-loses-opaque", "orcas/l1l2.go", "\tif req != nil {\n\t\topaque = req.GetOpaque()\n\t\tquiet = req.IsQuiet()\n\t}", "\tif req != nil {\n\t\tquiet = req.IsQuiet()\n\t}", "R8.7")
var("C08", "stat-two-flushes", BR, "\tn, _ := b.writer.WriteString(\"version\" + common.Version)\n\tmetrics.IncCounterBy(common.MetricBytesWrittenRemote, uint64(n))\n", "\tn, _ := b.writer.WriteString(\"version\" + common.Version)\n\tmetrics.IncCounterBy(common.MetricBytesWrittenRemote, uint64(n))\n\tif err := b.writer.Flush(); err != nil {\n\t\treturn err\n\t}\n")

# ---------------------------------------------------------------- C09
mut("C09", "backfill-ttl-zero", L1L2, "\t\t\t\t\t\tExptime: res.Exptime,\n", "\t\t\t\t\t\tExptime: 0,\n", "R9.1")
mut("C09", "gat-l2-touch-passes-opaque-as-ttl", L1L2, "\t\ttouchreq := common.TouchRequest{\n\t\t\tKey:     req.Key,\n\t\t\tExptime: req.Exptime,\n\t\t}", "\t\ttouchreq := common.TouchRequest{\n\t\t\tKey:     req.Key,\n\t\t\tExptime: req.Opaque,\n\t\t}", "R9.1")
mut("C09", "chunk-set-constant-ttl", CH, "binprot.WriteSetCmd(h.rw.Writer, key, cmd.Flags, cmd.Exptime, fullSize, 0)", "binprot.WriteSetCmd(h.rw.Writer, key, cmd.Flags, 0, fullSize, 0)", "R9.2")
mut("C09", "touch-exptime-at-wrong-offset", BCMD, "\tbuf := make([]byte, len(key)+4)\n\tbinary.BigEndian.PutUint32(buf[0:4], exptime)", "\tbuf := make([]byte, len(key)+4)\n\tbinary.LittleEndian.PutUint32(buf[0:4], exptime)", "R9.3")
mut("C09", "chunked-touch-keeps-old-metadata-expiry", CH, "\tmetaData.Exptime, _ = exptime(cmd.Exptime)\n", "", "R9.4")
mut("C09", "std-gete-does-not-read-exp", STD, "data, flags, exp, err := GetLocal(rw, true)", "data, flags, exp, err := GetLocal(rw, false)", "R9.5")
mut("C09", "batched-gat-ttl-from-flags", BC, "binprot.WriteGATCmd(buf, cmd.Key, cmd.Exptime, opaque)", "binprot.WriteGATCmd(buf, cmd.Key, cmd.Opaque, opaque)", "R9.2")
var("C09", "touchreq-built-in-two-steps", L1L2, "\t\ttouchreq := common.TouchRequest{\n\t\t\tKey:     req.Key,\n\t\t\tExptime: req.Exptime,\n\t\t}", "\t\ttouchreq := common.TouchRequest{\n\t\t\tKey: req.Key,\n\t\t}\n\t\ttouchreq.Exptime = req.Exptime")

# ---------------------------------------------------------------- C10
mut("C10", "batch-set-compensation-dropped", BATCH, "\t\t\terr = l.l1.Delete(dcmd)\n", "\t\t\terr, _ = nil, dcmd\n", "R10.1")
mut("C10", "reply-loop-continues-on-io-error", CH, "\t\t\t\tlastErr = err\n\t\t\t\tif !common.IsAppError(err) {\n\t\t\t\t\t// the connection is broken, there is nothing left to read\n\t\t\t\t\tbreak\n\t\t\t\t}", "\t\t\t\tlastErr = err", "R10.2", nth=1)
mut("C10", "loop-continues-on-io-error", LOOP, "\t\t\t} else {\n\t\t\t\tmetrics.IncCounter(MetricErrUnrecoverable)\n\t\t\t\tabort(s.conns, err)\n\t\t\t\treturn\n\t\t\t}", "\t\t\t} else {\n\t\t\t\tmetrics.IncCounter(MetricErrUnrecoverable)\n\t\t\t}", "R10.3")
mut("C10", "std-set-error-body-not-drained", STD, "\t\tn, ioerr := h.Rw.Discard(int(resHeader.TotalBodyLength))\n\t\tmetrics.IncCounterBy(common.MetricBytesReadLocal, uint64(n))\n\t\tif ioerr != nil {\n\t\t\treturn ioerr\n\t\t}", "\t\t_ = resHeader", "R10.5", nth=1)
mut("C10", "chunked-reset-before-discard-again", CH, "\t\t\t// Discard response body\n\t\t\tn, ioerr := h.rw.Discard(int(resHeader.TotalBodyLength))", "\t\t\th.reset()\n\t\t\t// Discard response body\n\t\t\tn, ioerr := h.rw.Discard(int(resHeader.TotalBodyLength))", "R10.5")
mut("C10", "isapperror-forgets-nomem", "common/datatypes.go", "\t\terr == ErrNoMem ||\n", "", "R10.3")
mut("C10", "locked-gete-swallows-panic", LOCKED, "\t\t\tif lock != nil {\n\t\t\t\tlock.Unlock()\n\t\t\t}\n\n\t\t\tpanic(r)\n\t\t}\n\t}()\n\n\tfor idx, key := range req.Keys {\n\t\t// Acquire read lock (true == read)\n\t\tlock = l.getlock(key, true)\n\t\tlock.Lock()\n\n\t\t// The last request will have these set to complete the interaction\n\t\tnoopOpaque := uint32(0)\n\t\tnoopEnd := false\n\t\tl.res.mute = true\n\t\tif idx == len(req.Keys)-1 {\n\t\t\tnoopOpaque = req.NoopOpaque\n\t\t\tnoopEnd = req.NoopEnd\n\t\t\tl.res.mute = false\n\t\t}\n\n\t\tsubreq := common.GetRequest{\n\t\t\tKeys:       [][]byte{key},\n\t\t\tOpaques:    []uint32{req.Opaques[idx]},\n\t\t\tQuiet:      []bool{req.Quiet[idx]},\n\t\t\tNoopOpaque: noopOpaque,\n\t\t\tNoopEnd:    noopEnd,\n\t\t}\n\n\t\t// Make the actual request\n\t\tret = l.wrapped.GetE(subreq)",
    "\t\t\tif lock != nil {\n\t\t\t\tlock.Unlock()\n\t\t\t}\n\t\t}\n\t}()\n\n\tfor idx, key := range req.Keys {\n\t\t// Acquire read lock (true == read)\n\t\tlock = l.getlock(key, true)\n\t\tlock.Lock()\n\n\t\t// The last request will have these set to complete the interaction\n\t\tnoopOpaque := uint32(0)\n\t\tnoopEnd := false\n\t\tl.res.mute = true\n\t\tif idx == len(req.Keys)-1 {\n\t\t\tnoopOpaque = req.NoopOpaque\n\t\t\tnoopEnd = req.NoopEnd\n\t\t\tl.res.mute = false\n\t\t}\n\n\t\tsubreq := common.GetRequest{\n\t\t\tKeys:       [][]byte{key},\n\t\t\tOpaques:    []uint32{req.Opaques[idx]},\n\t\t\tQuiet:      []bool{req.Quiet[idx]},\n\t\t\tNoopOpaque: noopOpaque,\n\t\t\tNoopEnd:    noopEnd,\n\t\t}\n\n\t\t// Make the actual request\n\t\tret = l.wrapped.GetE(subreq)", "R10.4")
mut("C10", "reply-loop-leaves-on-anything-but-miss", CH, "\t\t\t\tlastErr = err\n\t\t\t\tif !common.IsAppError(err) {\n\t\t\t\t\t// the connection is broken, there is nothing left to read\n\t\t\t\t\tbreak\n\t\t\t\t}", "\t\t\t\tlastErr = err\n\t\t\t\tbreak", "R10.16",
    "was kept as a silent variant of R10.2 (an I/O error still leaves the loop); with R10.16 it is a break: an application status on one chunk reply leaves the other replies unread", nth=1)

# ---------------------------------------------------------------- C11
mut("C11", "length-guard-removed", BP, "\tif reqHeader.TotalBodyLength < uint32(reqHeader.ExtraLength)+uint32(reqHeader.KeyLength) {\n\t\treturn common.SetRequest{}, reqType, start, common.ErrInvalidArgs\n\t}\n", "", "R11.1")
mut("C11", "length-guard-too-weak", BP, "\tif reqHeader.TotalBodyLength < uint32(reqHeader.ExtraLength)+uint32(reqHeader.KeyLength) {", "\tif reqHeader.TotalBodyLength < uint32(reqHeader.KeyLength) {", "R11.1", nth=1)
mut("C11", "loop-continues-on-invalid-args", LOOP, "\t\t\t\terr == common.ErrBadExptime {", "\t\t\t\terr == common.ErrBadExptime || err == common.ErrInvalidArgs {", "R11.2",
    "the binary parser returns ErrInvalidArgs before consuming the body: the loop would parse the body as requests")
mut("C11", "loop-continues-on-any-parse-error", LOOP, "\t\t\t} else {\n\t\t\t\t// Otherwise IO error. Abort!\n\t\t\t\tabort(s.conns, err)\n\t\t\t\treturn\n\t\t\t}", "\t\t\t} else {\n\t\t\t\tcontinue\n\t\t\t}", "R11.2")
mut("C11", "text-parser-returns-wrong-type-for-touch", TP, "\t\treturn common.TouchRequest{\n\t\t\tKey:     key,\n\t\t\tExptime: uint32(exptime),\n\t\t\tOpaque:  uint32(0),\n\t\t}, common.RequestTouch, start, nil", "\t\treturn common.TouchRequest{\n\t\t\tKey:     key,\n\t\t\tExptime: uint32(exptime),\n\t\t\tOpaque:  uint32(0),\n\t\t}, common.RequestGat, start, nil", "R11.3")
mut("C11", "key-buffer-sized-by-product", BP, "func readString(r io.Reader, l uint16) ([]byte, error) {\n\tbuf := make([]byte, l)", "func readString(r io.Reader, l uint16) ([]byte, error) {\n\tbuf := make([]byte, int(l)*int(l))", "R11.4")
var("C11", "guard-written-the-other-way-round", BP, "\tif reqHeader.TotalBodyLength < uint32(reqHeader.ExtraLength)+uint32(reqHeader.KeyLength) {", "\tif uint32(reqHeader.ExtraLength)+uint32(reqHeader.KeyLength) > reqHeader.TotalBodyLength {", nth=1)

# ---------------------------------------------------------------- C12
mut("C12", "defer-removed-from-touch", LOCKED, "func (l *LockedOrca) Touch(req common.TouchRequest) error {\n\tlock := l.getlock(req.Key, false)\n\tlock.Lock()\n\tdefer lock.Unlock()\n\tret := l.wrapped.Touch(req)\n\treturn ret", "func (l *LockedOrca) Touch(req common.TouchRequest) error {\n\tlock := l.getlock(req.Key, false)\n\tlock.Lock()\n\tret := l.wrapped.Touch(req)\n\tlock.Unlock()\n\treturn ret", "R12.1")
mut("C12", "get-recover-swallows-again", LOCKED, "\t\t\tif lock != nil {\n\t\t\t\tlock.Unlock()\n\t\t\t}\n\n\t\t\tpanic(r)\n\t\t}\n\t}()\n", "\t\t\tif lock != nil {\n\t\t\t\tlock.Unlock()\n\t\t\t}\n\t\t}\n\t}()\n", "R12.3", nth=1)
mut("C12", "get-break-before-unlock", LOCKED, "\t\tret = l.wrapped.Get(subreq)\n\n\t\t// release read lock\n\t\tlock.Unlock()\n", "\t\tret = l.wrapped.Get(subreq)\n\t\tif ret != nil {\n\t\t\tbreak\n\t\t}\n\n\t\t// release read lock\n\t\tlock.Unlock()\n", "R12.1")
mut("C12", "recover-without-unlock", LOCKED, "\t\t\tl.res.mute = false\n\t\t\tif lock != nil {\n\t\t\t\tlock.Unlock()\n\t\t\t}\n\n\t\t\tpanic(r)", "\t\t\tl.res.mute = false\n\n\t\t\tpanic(r)", "R12.1", nth=1)
mut("C12", "loop-recover-does-not-abort", LOOP, "\t\t\tabort(s.conns, fmt.Errorf(\"Runtime panic: %v\", r))", "\t\t\t_ = fmt.Errorf(\"Runtime panic: %v\", r)", "R12.3")
mut("C12", "locked-wraps-locked", "app/memproxy.go", "\t\t\to = orcas.LockedWithExisting(o, lockset)", "\t\t\to = orcas.LockedWithExisting(o, lockset)\n\t\t\to = orcas.LockedWithExisting(o, lockset)", "R12.2")
var("C12", "unlock-in-deferred-closure", LOCKED, "func (l *LockedOrca) Delete(req common.DeleteRequest) error {\n\tlock := l.getlock(req.Key, false)\n\tlock.Lock()\n\tdefer lock.Unlock()", "func (l *LockedOrca) Delete(req common.DeleteRequest) error {\n\tlock := l.getlock(req.Key, false)\n\tlock.Lock()\n\tdefer func() { lock.Unlock() }()")

# ---------------------------------------------------------------- C13
mut("C13", "error-edge-without-recovery", BC, "\t\t\t\tif err != nil {\n\t\t\t\t\t// jump to error handling / reconnect / reset\n\t\t\t\t\trecovery = true\n\t\t\t\t\tcontinue readerOuter\n\t\t\t\t}\n\t\t\t\tserverFlags := binary.BigEndian.Uint32(b)", "\t\t\t\tif err != nil {\n\t\t\t\t\tcontinue readerOuter\n\t\t\t\t}\n\t\t\t\tserverFlags := binary.BigEndian.Uint32(b)", "R13.1")
mut("C13", "recovery-does-not-close-channels", BC, "\t\t\tclose(ch)\n\t\t}\n\n\t\t// The batcher may still be writing", "\t\t}\n\n\t\t// The batcher may still be writing", "R13.2")
mut("C13", "marker-returned-to-caller", BH, "\tif res.err == errRetryRequestBecauseOfConnectionFailure {\n\t\treturn common.GetEResponse{}, common.ErrInternal\n\t}\n", "", "R13.3")
# the fix of F22: recovery waits for the batcher's per-batch "done" signal before it replaces the stream
mut("C13", "recovery-does-not-wait-for-batcher", BC, "\t\tc.conn.Close()\n\t\t<-c.written\n", "\t\tc.conn.Close()\n", "R13.14",
    "F22 again: the batcher reads c.rw while reconnect assigns it; the batch can go out on the new connection")
mut("C13", "recovery-waits-after-reconnect", BC, "\t\t<-c.written\n\n\t\t// true meaning delay a little bit before trying to connect\n\t\tc.reconnect(true)\n", "\t\t// true meaning delay a little bit before trying to connect\n\t\tc.reconnect(true)\n\t\t<-c.written\n", "R13.14")
mut("C13", "recovery-waits-without-closing", BC, "\t\tc.conn.Close()\n\t\t<-c.written\n", "\t\t<-c.written\n", "R13.14",
    "a batcher blocked in the write never signals: the pool never reconnects")
mut("C13", "reader-leaves-done-signal", BC, "\t\t// the batcher has finished writing this batch (all its replies are in)\n\t\t<-c.written\n", "", "R13.14",
    "the batcher blocks on the second batch's signal, recovery takes a stale one")
mut("C13", "batcher-signals-before-write", BC, "\t\t\t// Write out the whole buffer\n\t\t\tn, _ := c.rw.Write(buf.Bytes())", "\t\t\tc.written <- struct{}{}\n\t\t\tn, _ := c.rw.Write(buf.Bytes())", "R13.14")
mut("C13", "batcher-never-signals", BC, "\t\t\t// done with the connection for this batch\n\t\t\tc.written <- struct{}{}\n", "", "R13.14")
var("C13", "done-signal-unbuffered", BC, "written: make(chan struct{}, 1),", "written: make(chan struct{}),",
    "the batcher then waits for the reader before gathering the next batch: slower, same outcomes")
mut("C14", "reconnect-shares-batcher-rand", BC, "delay := time.Duration(rand.Intn(100))", "delay := time.Duration(c.rand.Intn(100))", "R14.12",
    "F23 again: *rand.Rand is not safe for concurrent use; batcher and recovery both draw from it")
mut("C14", "batcher-reads-swapped-stream", BC, "\t\tc.conn.Close()\n\t\t<-c.written\n", "\t\tc.conn.Close()\n", "R14.11")
mut("C13", "reader-released-before-reconnect", BC, "\t\tc.reconnect(true)\n\t\tc.recovered <- struct{}{}", "\t\tc.recovered <- struct{}{}\n\t\tc.reconnect(true)", "R13.2")
mut("C13", "drained-batch-channels-not-closed", BC, "\t\tfor ch := range batch.channels {\n\t\t\tclose(ch)\n\t\t}\n\t}\n}", "\t}\n}", "R13.1")
mut("C13", "reconnect-gives-up", BC, "\t\t\ti++\n\t\t\tcontinue\n\t\t}\n\n\t\tmetrics.IncCounter(MetricBatchConnectionsCreated)", "\t\t\ti++\n\t\t\tif i > connectTries {\n\t\t\t\tbreak\n\t\t\t}\n\t\t\tcontinue\n\t\t}\n\n\t\tmetrics.IncCounter(MetricBatchConnectionsCreated)", "R13.2")

# ---------------------------------------------------------------- C14
mut("C14", "counter-plain-increment", "metrics/counters.go", "\tatomic.AddUint64(&counters[id], 1)", "\tcounters[id]++", "R14.1")
mut("C14", "dial-hoisted-out-of-closure", "handlers/memcached/constructors.go", "func Regular(sock string) handlers.HandlerConst {\n\treturn func() (handlers.Handler, error) {\n\t\tconn, err := net.Dial(\"unix\", sock)", "func Regular(sock string) handlers.HandlerConst {\n\tconn, err := net.Dial(\"unix\", sock)\n\treturn func() (handlers.Handler, error) {", "R14.4")
mut("C14", "relays-read-without-lock", "handlers/memcached/batched/relay.go", "\trelayLock.RLock()\n\tif r, ok := relays[sock]; ok {\n\t\trelayLock.RUnlock()\n\t\treturn r\n\t}\n\trelayLock.RUnlock()", "\tif r, ok := relays[sock]; ok {\n\t\treturn r\n\t}", "R14.5")
mut("C14", "header-used-after-put", STDL, "\tdefer binprot.PutResponseHeader(resHeader)\n\n\terr = binprot.DecodeError(resHeader)\n\tif err != nil {\n\t\tn, ioerr := rw.Discard(int(resHeader.TotalBodyLength))\n\t\tmetrics.IncCounterBy(common.MetricBytesReadLocal, uint64(n))\n\t\tif ioerr != nil {\n\t\t\treturn ioerr\n\t\t}\n\t\treturn err\n\t}", "\terr = binprot.DecodeError(resHeader)\n\tbinprot.PutResponseHeader(resHeader)\n\tif err != nil {\n\t\tn, ioerr := rw.Discard(int(resHeader.TotalBodyLength))\n\t\tmetrics.IncCounterBy(common.MetricBytesReadLocal, uint64(n))\n\t\tif ioerr != nil {\n\t\t\treturn ioerr\n\t\t}\n\t\treturn err\n\t}", "R14.3")
mut("C14", "bhists-copied-by-value-again", "metrics/histograms.go", "extractBHist(&bhists[i])", "func(b bhist) [numAtlasBuckets]uint64 { return b.buckets }(bhists[i])", "R14.2", "plain copy of counters that observers update atomically (defect F11)")
mut("C14", "hashpool-replaced-by-shared-hash", LOCKED, "\thashpool := &sync.Pool{\n\t\tNew: func() interface{} {\n\t\t\treturn fnv.New32a()\n\t\t},\n\t}\n\n\treturn func(l1, l2 handlers.Handler, res protocol.Responder) Orca {\n\t\tmres := &endMutingResponder{Responder: res}\n\t\treturn &LockedOrca{\n\t\t\twrapped: oc(l1, l2, mres),\n\t\t\tres:     mres,\n\t\t\tlocks:   locks[slot],", "\thashpool := &sync.Pool{\n\t\tNew: func() interface{} {\n\t\t\treturn fnv.New32a()\n\t\t},\n\t}\n\tshared := map[string]int{}\n\n\treturn func(l1, l2 handlers.Handler, res protocol.Responder) Orca {\n\t\tshared[\"conns\"]++\n\t\tmres := &endMutingResponder{Responder: res}\n\t\treturn &LockedOrca{\n\t\t\twrapped: oc(l1, l2, mres),\n\t\t\tres:     mres,\n\t\t\tlocks:   locks[slot],", "R14.6")
mut("C14", "new-unsynchronised-global", "handlers/memcached/std/handler.go", "func (h Handler) Close() error {\n\treturn h.conn.Close()\n}", "var closedConns int\n\nfunc (h Handler) Close() error {\n\tclosedConns++\n\treturn h.conn.Close()\n}", "R14.1")

# ---------------------------------------------------------------- C15
mut("C15", "l1-close-dropped-on-l2-failure", LISTEN, "\t\t\tl1.Close()\n\t\t\tremote.Close()\n\t\t\tcontinue", "\t\t\tremote.Close()\n\t\t\tcontinue", "R15.3")
mut("C15", "loop-returns-after-quit-without-abort", LOOP, "\t\t\ts.orca.Quit(request.(common.QuitRequest))\n\t\t\tabort(s.conns, err)\n\t\t\treturn", "\t\t\ts.orca.Quit(request.(common.QuitRequest))\n\t\t\treturn", "R15.1")
mut("C15", "l2-omitted-from-closer-slice", LISTEN, "server := s([]io.Closer{remoteConn, l1, l2}, reqParser, o(l1, l2, responder))", "server := s([]io.Closer{remoteConn, l1}, reqParser, o(l1, l2, responder))", "R15.3")
mut("C15", "abort-stops-at-first-nil", "server/utils.go", "\t\tif c != nil {\n\t\t\tc.Close()\n\t\t}", "\t\tif c == nil {\n\t\t\tbreak\n\t\t}\n\t\tc.Close()", "R15.2")
mut("C15", "std-close-is-a-noop", STD, "func (h Handler) Close() error {\n\treturn h.conn.Close()\n}", "func (h Handler) Close() error {\n\treturn nil\n}", "R15.4")
mut("C15", "configure-failure-leaks-remote", LISTEN, "\t\t\tlog.Println(\"Error configuring connection after accept:\", err.Error())\n\t\t\tremote.Close()\n\t\t\tcontinue", "\t\t\tlog.Println(\"Error configuring connection after accept:\", err.Error())\n\t\t\tcontinue", "R15.3")

# ---------------------------------------------------------------- C16
mut("C16", "overhead-without-key-suffix", CH, "\tchunkOverhead = 67 + 4\n", "\tchunkOverhead = 67\n", "R16.1")
mut("C16", "chunk-write-declares-payload-size", CH, "binprot.WriteSetCmd(h.rw.Writer, key, cmd.Flags, cmd.Exptime, fullSize, 0)", "binprot.WriteSetCmd(h.rw.Writer, key, cmd.Flags, cmd.Exptime, fullSize-tokenSize, 0)", "R16.2")
mut("C16", "metadata-gains-a-field", "handlers/memcached/chunked/types.go", "\tExptime   uint32\n\tToken     [tokenSize]byte\n}", "\tExptime   uint32\n\tVersion   uint32\n\tToken     [tokenSize]byte\n}", "R16.3")
mut("C16", "reader-swaps-two-fields", "handlers/memcached/chunked/types.go", "\tm.Instime = binary.BigEndian.Uint32(buf[16:20])\n\tm.Exptime = binary.BigEndian.Uint32(buf[20:24])", "\tm.Exptime = binary.BigEndian.Uint32(buf[16:20])\n\tm.Instime = binary.BigEndian.Uint32(buf[20:24])", "R16.3")
mut("C16", "chunk-size-from-data-length", CH, "dataSize, fullSize := chunkSize(len(cmd.Key))", "dataSize, fullSize := chunkSize(len(cmd.Data) % 250)", "R16.2")
mut("C16", "metadata-count-uses-full-size", CH, "numChunks := int(math.Ceil(float64(len(cmd.Data)) / float64(dataSize)))", "numChunks := int(math.Ceil(float64(len(cmd.Data)) / float64(fullSize)))", "R16.4")

# ---------------------------------------------------------------- C17
mut("C17", "set-under-rlock", INMEM, "func (h *Handler) Set(cmd common.SetRequest) error {\n\th.mutex.Lock()", "func (h *Handler) Set(cmd common.SetRequest) error {\n\th.mutex.RLock()", "R17.1")
mut("C17", "replace-missing-unlock", INMEM, "\tif !ok || e.isExpired() {\n\t\tdelete(h.data, string(cmd.Key))\n\t\th.mutex.Unlock()\n\t\treturn common.ErrKeyNotFound\n\t}\n\n\tvar exptime uint32", "\tif !ok || e.isExpired() {\n\t\tdelete(h.data, string(cmd.Key))\n\t\treturn common.ErrKeyNotFound\n\t}\n\n\tvar exptime uint32", "R17.1")
mut("C17", "add-ignores-expiry-again", INMEM, "\tif ok && !e.isExpired() {", "\tif ok && (cmd.Exptime >= 0 || !e.isExpired()) {", "R17.2")
mut("C17", "touch-creates-missing-key", INMEM, "\tif !ok || e.isExpired() {\n\t\tdelete(h.data, string(cmd.Key))\n\t\th.mutex.Unlock()\n\t\treturn common.ErrKeyNotFound\n\t}\n\n\tif cmd.Exptime > 0 {\n\t\te.exptime = uint32(time.Now().Unix()) + cmd.Exptime\n\t} else {\n\t\te.exptime = 0\n\t}\n\n\th.data[string(cmd.Key)] = e\n\n\th.mutex.Unlock()\n\n\treturn nil", "\tif ok && e.isExpired() {\n\t\tdelete(h.data, string(cmd.Key))\n\t\th.mutex.Unlock()\n\t\treturn common.ErrKeyNotFound\n\t}\n\n\tif cmd.Exptime > 0 {\n\t\te.exptime = uint32(time.Now().Unix()) + cmd.Exptime\n\t} else {\n\t\te.exptime = 0\n\t}\n\n\th.data[string(cmd.Key)] = e\n\n\th.mutex.Unlock()\n\n\treturn nil", "R17.2")
mut("C17", "get-serves-expired-entries", INMEM, "\t\tif !ok || e.isExpired() {\n\t\t\tdataOut <- common.GetResponse{", "\t\tif !ok {\n\t\t\tdataOut <- common.GetResponse{", "R17.2")
mut("C17", "delete-under-rlock", INMEM, "func (h *Handler) Delete(cmd common.DeleteRequest) error {\n\th.mutex.Lock()\n\te, ok := h.data[string(cmd.Key)]\n\tdelete(h.data, string(cmd.Key))\n\th.mutex.Unlock()", "func (h *Handler) Delete(cmd common.DeleteRequest) error {\n\th.mutex.RLock()\n\te, ok := h.data[string(cmd.Key)]\n\tdelete(h.data, string(cmd.Key))\n\th.mutex.RUnlock()", "R17.1")
var("C17", "set-with-deferred-unlock", INMEM, "func (h *Handler) Close() error {\n\treturn nil\n}", "func (h *Handler) Close() error {\n\th.mutex.RLock()\n\tn := len(h.data)\n\th.mutex.RUnlock()\n\t_ = n\n\treturn nil\n}")

# ---------------------------------------------------------------- C18
mut("C18", "gauge-plain-store", "metrics/gauges.go", "\tatomic.StoreUint64(&intgauges[id], value)", "\tintgauges[id] = value", "R18.1")
mut("C18", "observe-without-lock", "metrics/histograms.go", "\th.lock.RLock()\n\n\t// Keep a running total for average\n", "\n\t// Keep a running total for average\n", "R18.2", "RUnlock without RLock and updates outside the lock")
mut("C18", "sampled-return-keeps-lock", "metrics/histograms.go", "\t\tif (c & 0x3) > 0 {\n\t\t\th.lock.RUnlock()\n\t\t\treturn\n\t\t}", "\t\tif (c & 0x3) > 0 {\n\t\t\treturn\n\t\t}", "R18.2")
mut("C18", "extract-under-read-lock", "metrics/histograms.go", "func extractHist(h *hist) hdat {\n\th.lock.Lock()", "func extractHist(h *hist) hdat {\n\th.lock.RLock()", "R18.2")
mut("C18", "count-read-plainly", "metrics/histograms.go", "\tc := atomic.AddUint64(&h.dat.count, 1)\n", "\th.dat.count++\n\tc := h.dat.count\n", "R18.1")
mut("C18", "counter-id-not-atomic", "metrics/counters.go", "\tid := atomic.AddUint32(curCounterID, 1) - 1\n\n\tif id >= maxNumCounters {", "\tid := *curCounterID\n\t*curCounterID = id + 1\n\n\tif id >= maxNumCounters {", "R18.1")

# ---------------------------------------------------------------- C19
mut("C19", "point-includes-listing-index", "handlers/memcached/cluster/ketama.go", 'ss := fmt.Sprintf("%s-%d", b.Label(), k)', 'ss := fmt.Sprintf("%s-%d-%d", b.Label(), i, k)', "R19.2")
mut("C19", "get-hashes-key-suffix", "handlers/memcached/cluster/handler.go", "handle := h.Continuum.Hash(key).(Node).handler", "handle := h.Continuum.Hash(key[1:]).(Node).handler", "R19.3")
mut("C19", "less-compares-points-only-again", "handlers/memcached/cluster/ketama.go", "\tif c[i].point != c[j].point {\n\t\treturn c[i].point < c[j].point\n\t}\n\t// equal points of different buckets must not be ordered by how the buckets were listed\n\treturn c[i].bucket.Label() < c[j].bucket.Label()", "\treturn c[i].point < c[j].point", "R19.2")
mut("C19", "set-goes-to-first-node", "handlers/memcached/cluster/handler.go", "return h.Continuum.Hash(cmd.Key).(Node).handler.Set(cmd)", "return h.nodes[0].handler.Set(cmd)", "R19.3")
var("C19", "less-with-explicit-else", "handlers/memcached/cluster/ketama.go", "\tif c[i].point != c[j].point {\n\t\treturn c[i].point < c[j].point\n\t}\n\t// equal points of different buckets must not be ordered by how the buckets were listed\n\treturn c[i].bucket.Label() < c[j].bucket.Label()", "\tif c[i].point == c[j].point {\n\t\treturn c[i].bucket.Label() < c[j].bucket.Label()\n\t}\n\treturn c[i].point < c[j].point")

os.makedirs(os.path.join(ROOT, "rendlint", "mutants"), exist_ok=True)
# --- fourth round: key scheme (R4.7) and expiry boundary (R9.6)
KEYS = "handlers/memcached/chunked/keys.go"
mut("C04", "meta-suffix-is-a-chunk-number", KEYS, "([]byte(\"-meta\"))...)", "([]byte(\"-0\"))...)", "R4.7", "metadata entry collides with chunk 0 of the same key")
mut("C04", "chunk-zero-without-dash", KEYS, "\tif chunk == 0 {\n\t\tkey = append(key, '-')\n\t}\n", "", "R4.7", "key a-1 chunk 0 = a-10 = key a chunk 10")
mut("C04", "chunk-index-not-negated", KEYS, "strconv.AppendInt(key, int64(-chunk), 10)", "strconv.AppendInt(key, int64(chunk), 10)", "R4.7", "no dash for chunks >= 1")
var("C04", "chunk-index-in-hex", KEYS, "strconv.AppendInt(key, int64(-chunk), 10)", "strconv.AppendInt(key, int64(-chunk), 16)", "meta is no hex number: still injective")
mut("C04", "chunk-index-base-36", KEYS, "strconv.AppendInt(key, int64(-chunk), 10)", "strconv.AppendInt(key, int64(-chunk), 36)", "R4.7", "meta is a base-36 number: key k chunk 1045630 = k-meta")
mut("C09", "thirty-days-exactly-is-absolute", CH, "\tif ttl > realTimeMaxDelta {", "\tif ttl >= realTimeMaxDelta {", "R9.6")
mut("C09", "boundary-31-days", CH, "const realTimeMaxDelta = 60 * 60 * 24 * 30", "const realTimeMaxDelta = 60 * 60 * 24 * 31", "R9.6")
mut("C09", "absolute-ttl-added-to-now", CH, "\t\treturn ttl, (ttl < now)", "\t\treturn now + ttl, (ttl < now)", "R9.6")
mut("C09", "zero-ttl-not-special", CH, "\tif ttl == 0 {\n\t\treturn 0, false\n\t}\n\n\tnow := uint32", "\tnow := uint32", "R9.6")
var("C09", "expiry-branches-reordered", CH, "\tif ttl > realTimeMaxDelta {\n\t\treturn ttl, (ttl < now)\n\t}\n\n\t// otherwise, this is a normal differential TTL\n\treturn now + ttl, false", "\tif ttl <= realTimeMaxDelta {\n\t\treturn now + ttl, false\n\t}\n\treturn ttl, (ttl < now)")
var("C09", "boundary-written-the-other-way-round", CH, "\tif ttl > realTimeMaxDelta {", "\tif realTimeMaxDelta < ttl {")

# --- R18.5 bit-count routines
LZ = "metrics/lzcnt.go"
LZS = "metrics/lzcnt_amd64.s"
mut("C18", "portable-lzcnt-zero-guard-removed", LZ, "\tif x == 0 {\n\t\treturn 64\n\t}\n", "", "R18.5", "defect F17 again: 63 for input 0")
mut("C18", "portable-lzcnt-step-adds-15", LZ, "\t\tn = n + 16\n", "\t\tn = n + 15\n", "R18.5")
mut("C18", "portable-lzcnt-tests-one-bit-less", LZ, "if (x >> (32 + 16 + 8)) == 0 {", "if (x >> (32 + 16 + 7)) == 0 {", "R18.5", "shifts a set bit out")
mut("C18", "portable-lzcnt-final-bit", LZ, "n = n - (x >> 63)", "n = n - (x >> 62)", "R18.5")
mut("C18", "asm-lzcnt-off-by-one", LZS, "SUBQ  $63, AX", "SUBQ  $64, AX", "R18.5")
mut("C18", "asm-lzcnt-zero-gives-63", LZS, "MOVQ $64, ret+8(FP)", "MOVQ $63, ret+8(FP)", "R18.5")
mut("C18", "asm-lzcnt-no-zero-branch", LZS, "        JZ zero\n", "", "R18.5", "BSR leaves the destination undefined for 0")
var("C18", "portable-lzcnt-guard-after-init", LZ, "\tif x == 0 {\n\t\treturn 64\n\t}\n\n\tn = 1\n", "\tn = 1\n\tif x == 0 {\n\t\treturn n + 63\n\t}\n")

# --- R19.5 / R18.6
CLH = "handlers/memcached/cluster/handler.go"
mut("C19", "get-selects-node-once-per-request", CLH, "\tfor idx, key := range cmd.Keys {\n\t\thandle := h.Continuum.Hash(key).(Node).handler\n", "\thandle := h.Continuum.Hash(cmd.Keys[0]).(Node).handler\n\tfor idx, key := range cmd.Keys {\n", "R19.5", "every key of a batch is asked of the node owning the first key")
mut("C19", "set-hashes-another-commands-key", CLH, "return h.Continuum.Hash(cmd.Key).(Node).handler.Set(cmd)", "return h.Continuum.Hash(cmd.Key).(Node).handler.Set(common.SetRequest{Key: cmd.Data, Data: cmd.Data})", "R19.5")
HI = "metrics/histograms.go"
mut("C18", "observer-slot-one-based-again", HI, "idx := (atomic.AddUint64(&h.dat.kept, 1) - 1) & buflen", "idx := atomic.AddUint64(&h.dat.kept, 1) & buflen", "R18.6", "defect F18: newest observation outside buf[:kept], stale slot 0 reported")
mut("C18", "ring-one-slot-short", HI, "\t\t\tbuf: make([]uint64, buflen+1),\n", "\t\t\tbuf: make([]uint64, buflen),\n", "R18.6")
mut("C18", "backup-ring-larger-than-mask", HI, "\t\tbakbuf: make([]uint64, buflen+1),\n", "\t\tbakbuf: make([]uint64, 2*(buflen+1)),\n", "R18.6", "slots above the mask are never written but sorted into the percentiles once kept >= len")
var("C18", "observer-slot-in-two-steps", HI, "idx := (atomic.AddUint64(&h.dat.kept, 1) - 1) & buflen", "n := atomic.AddUint64(&h.dat.kept, 1)\n\tidx := (n - 1) & buflen")

# --- round 5: R7.8/R11.4 read-together variant, R19.6-R19.8, R10.8
_TXT_OLD = "\tdataBuf := make([]byte, length)\n\tn, err := io.ReadAtLeast(r, dataBuf, int(length))\n\tmetrics.IncCounterBy(common.MetricBytesReadRemote, uint64(n))\n\tif err != nil {\n\t\treturn common.SetRequest{}, reqType, start, common.ErrInternal\n\t}\n\n\t// Consume the last two bytes \"\\r\\n\"\n\tr.ReadString(byte('\\n'))\n\tmetrics.IncCounterBy(common.MetricBytesReadRemote, 2)\n"
_TXT_NEW = "\tdataBuf := make([]byte, length+2)\n\tn, err := io.ReadFull(r, dataBuf)\n\tmetrics.IncCounterBy(common.MetricBytesReadRemote, uint64(n))\n\tif err != nil {\n\t\treturn common.SetRequest{}, reqType, start, common.ErrInternal\n\t}\n\tdataBuf = dataBuf[:length]\n"
var("C07", "text-data-and-terminator-read-in-one-full-read", TP, _TXT_OLD, _TXT_NEW, "data block and CRLF read together with a full read: same bytes consumed")
var("C11", "text-data-and-terminator-read-in-one-full-read", TP, _TXT_OLD, _TXT_NEW)
mut("C07", "text-data-and-terminator-read-with-short-minimum", TP, _TXT_OLD, _TXT_NEW.replace("io.ReadFull(r, dataBuf)", "io.ReadAtLeast(r, dataBuf, int(length))"), "R7.6", "seed C07G: the terminator may be left in the stream")
KET = "handlers/memcached/cluster/ketama.go"
mut("C19", "unreachable-node-skipped", CLH, "\t\t\treturn emptyClusterHandler(), err\n\t\t}\n\t\tnodes[ix]", "\t\t\tcontinue\n\t\t}\n\t\tnodes[ix]", "R19.6", "seed C19F: a connection built while a node is down routes over a smaller ring")
mut("C19", "replica-count-in-float64", KET, "limit := int(float32(float64(pct) * 40.0 * float64(numbuckets)))", "limit := int(float64(pct) * 40.0 * float64(numbuckets))", "R19.7", "seeds C19A/C/G: 39 replicas at 25, 29, 31 ... nodes")
var("C19", "replica-count-in-integer-arithmetic", KET, "limit := int(float32(float64(pct) * 40.0 * float64(numbuckets)))", "limit := int(uint64(b.Weight()) * 40 * uint64(numbuckets) / uint64(totalweight))\n\t\t_ = pct", "exact replica count: R19.7 has nothing to report (the known finding K3 disappears)")
var("C19", "replica-count-rounded", KET, "limit := int(float32(float64(pct) * 40.0 * float64(numbuckets)))", "limit := int(math.Round(float64(pct) * 40.0 * float64(numbuckets)))", "rounded to nearest")
mut("C19", "listing-position-stored-in-point", KET, "\t\t\t\t\tbucket: buckets[i],\n", "\t\t\t\t\tbucket: buckets[i],\n\t\t\t\t\tidx:    i,\n", "R19.8", "does not compile unless the field exists: skipped then")
mut("C10", "reset-onto-second-unflushed-writer", CH, "\th.rw.Writer.Reset(h.conn)\n", "\th.rw.Writer.Reset(bufio.NewWriter(h.conn))\n", "R10.8", "defect F20 again")

_LK_OLD = "\tif multipleReaders {\n\t\tfor idx := range locks[slot] {\n\t\t\ttemp := &sync.RWMutex{}\n\t\t\tlocks[slot][idx] = temp\n\t\t\trlocks[slot][idx] = temp.RLocker()\n\t\t}\n\t} else {\n\t\tfor idx := range locks[slot] {\n\t\t\ttemp := &sync.Mutex{}\n\t\t\tlocks[slot][idx] = temp\n\t\t\trlocks[slot][idx] = temp\n\t\t}\n\t}\n"
_LK_MERGED = "\tfor idx := range locks[slot] {\n\t\tvar w, r sync.Locker\n\t\tif multipleReaders {\n\t\t\ttemp := &sync.RWMutex{}\n\t\t\tw, r = temp, temp.RLocker()\n\t\t} else {\n\t\t\ttemp := &sync.Mutex{}\n\t\t\tw, r = temp, temp\n\t\t}\n\t\tlocks[slot][idx], rlocks[slot][idx] = w, r\n\t}\n"
_LK_SPLIT = "\tfor idx := range locks[slot] {\n\t\tvar w, r sync.Locker = &sync.Mutex{}, &sync.Mutex{}\n\t\tif multipleReaders {\n\t\t\ttemp := &sync.RWMutex{}\n\t\t\tw, r = temp, temp.RLocker()\n\t\t}\n\t\tlocks[slot][idx], rlocks[slot][idx] = w, r\n\t}\n"
var("C03", "lock-tables-filled-in-one-loop", LOCKED, _LK_OLD, _LK_MERGED, "one loop, both modes, one mutex per bucket")
mut("C03", "single-reader-mode-two-mutexes-per-bucket", LOCKED, _LK_OLD, _LK_SPLIT, "R3.6", "seed C03E: a get no longer excludes a set of the same key")
mut("C03", "reader-lock-of-a-second-rwmutex", LOCKED, "\t\t\trlocks[slot][idx] = temp.RLocker()\n", "\t\t\trlocks[slot][idx] = (&sync.RWMutex{}).RLocker()\n", "R3.6")

# --- round 5/6 probes (rules R7.10, R4.15, R18.10, R6.11, R17.6, R8.14, R9.9, R5.5, R13.13)
mut("C07", "text-set-terminator-not-consumed", TP, "\t// Consume the last two bytes \"\\r\\n\"\n\tr.ReadString(byte('\\n'))\n", "\t// terminator left for the next parse\n", "R7.10")
mut("C08", "text-set-terminator-not-consumed", TP, "\t// Consume the last two bytes \"\\r\\n\"\n\tr.ReadString(byte('\\n'))\n", "\t// terminator left for the next parse\n", "R8.13")
mut("C04", "touch-skips-chunk-0", CH, "\tfor i := 0; i < int(metaData.NumChunks); i++ {\n\t\tchunkKey := chunkKey(cmd.Key, i)\n\t\tif err := binprot.WriteTouchCmd", "\tfor i := 1; i < int(metaData.NumChunks); i++ {\n\t\tchunkKey := chunkKey(cmd.Key, i)\n\t\tif err := binprot.WriteTouchCmd", "R4.15")
mut("C09", "touch-skips-chunk-0", CH, "\tfor i := 0; i < int(metaData.NumChunks); i++ {\n\t\tchunkKey := chunkKey(cmd.Key, i)\n\t\tif err := binprot.WriteTouchCmd", "\tfor i := 1; i < int(metaData.NumChunks); i++ {\n\t\tchunkKey := chunkKey(cmd.Key, i)\n\t\tif err := binprot.WriteTouchCmd", "R9.10")
mut("C04", "set-writes-chunk-n-under-n-plus-1", CH, "\t\tkey := chunkKey(cmd.Key, chunkNum)", "\t\tkey := chunkKey(cmd.Key, chunkNum+1)", "R4.15")
MC = "metrics/counters.go"
MG = "metrics/gauges.go"
mut("C18", "inccounterby-ignores-amount", MC, "atomic.AddUint64(&counters[id], amount)", "atomic.AddUint64(&counters[id], 1)", "R18.10")
mut("C18", "counters-reported-under-the-next-name", MC, "\t\t\tVal:  atomic.LoadUint64(&counters[i]),", "\t\t\tVal:  atomic.LoadUint64(&counters[(i+1)%numIDs]),", "R18.10")
mut("C18", "setintgauge-writes-the-float-table", MG, "atomic.StoreUint64(&intgauges[id], value)", "atomic.StoreUint64(&floatgauges[id], value)", "R18.10")
mut("C06", "batched-touch-drops-the-outcome", BH, "func (h Handler) Touch(cmd common.TouchRequest) error {\n\t_, err := h.doRequest(cmd, common.RequestTouch)\n\treturn err", "func (h Handler) Touch(cmd common.TouchRequest) error {\n\t_, err := h.doRequest(cmd, common.RequestTouch)\n\t_ = err\n\treturn nil", "R6.11")
mut("C17", "append-stores-new-before-old", INMEM, "\t\tdata:    append(e.data, cmd.Data...),", "\t\tdata:    append(cmd.Data, e.data...),", "R17.6")
mut("C17", "gat-keeps-the-old-expiry", INMEM, "\te.exptime = expiry(cmd.Exptime)\n", "\t_ = expiry(cmd.Exptime)\n", "R17.6", nth=1)
mut("C17", "expiry-without-the-30-day-boundary", INMEM, "\tif ttl > realTimeMaxDelta {\n\t\treturn ttl\n\t}\n", "", "R17.5", "defect F21 again")
mut("C09", "inmem-expiry-without-the-30-day-boundary", INMEM, "\tif ttl > realTimeMaxDelta {\n\t\treturn ttl\n\t}\n", "", "R9.9", "defect F21 again")
mut("C08", "gete-reply-expiry-before-flags", BR, "\tbinary.Write(b.writer, binary.BigEndian, response.Flags)\n\tbinary.Write(b.writer, binary.BigEndian, response.Exptime)\n", "\tbinary.Write(b.writer, binary.BigEndian, response.Exptime)\n\tbinary.Write(b.writer, binary.BigEndian, response.Flags)\n", "R8.14")

# --- round 6 probes (R7.3/R7.11 byte order, R18.11, R1.18/R2.9 wiring, R4.11 expiry)
mut("C07", "request-key-length-little-endian", BHDR, "\trh.KeyLength = binary.BigEndian.Uint16(buf[2:4])", "\trh.KeyLength = binary.LittleEndian.Uint16(buf[2:4])", "R7.11", nth=1)
mut("C07", "set-exptime-little-endian", BCMD, "\tbinary.BigEndian.PutUint32(buf[4:8], exptime)", "\tbinary.LittleEndian.PutUint32(buf[4:8], exptime)", "R7.11")
mut("C18", "observer-count-read-not-added", HI, "\tc := atomic.AddUint64(&h.dat.count, 1)\n", "\tc := atomic.LoadUint64(&h.dat.count) + 1\n", "R18.11")
mut("C01", "accept-loop-swaps-the-tiers", LISTEN, "reqParser, o(l1, l2, responder))", "reqParser, o(l2, l1, responder))", "R1.18")
mut("C02", "accept-loop-swaps-the-tiers", LISTEN, "reqParser, o(l1, l2, responder))", "reqParser, o(l2, l1, responder))", "R2.9")
mut("C02", "batch-port-gets-l2-as-l1", "app/memproxy.go", "\t\tgo server.ListenAndServe(l, protocols, server.Default, o, h1, h2)\n\t}", "\t\tgo server.ListenAndServe(l, protocols, server.Default, o, h2, h2)\n\t}", "R2.9")
mut("C09", "append-restores-with-the-commands-ttl", CH, "\t\tExptime: metaData.Exptime,", "\t\tExptime: cmd.Exptime,", "R9.11", "append/prepend carry no TTL: the item would never expire again")

# --- hand-written probes of round 6/7 kept as mutants
mut("C01", "getq-serialised-as-get", "protocol/binprot/commands.go", "\treturn writeKeyCmd(w, OpcodeGetQ, key, opaque)", "\treturn writeKeyCmd(w, OpcodeGet, key, opaque)", "R1.5", nth=0)
mut("C08", "text-value-missing-crlf", "protocol/textprot/respond.go", "\tn, err = t.writer.WriteString(\"\\r\\n\")\n\tmetrics.IncCounterBy(common.MetricBytesWrittenRemote, uint64(n))\n\tif err != nil {\n\t\treturn err\n\t}\n\n\tt.writer.Flush()", "\tt.writer.Flush()", "R8.15", nth=0)
mut("C07", "listen-parser-responder-of-different-protocols", "server/listen.go", "\t\t\t\t\tresponder = p.NewResponder(remoteWriter)\n\t\t\t\t\tmatched = true", "\t\t\t\t\tresponder = ps[0].NewResponder(remoteWriter)\n\t\t\t\t\tmatched = true", "R7.12", nth=0)
mut("C07", "listen-match-ignored", "server/listen.go", "\t\t\t\tif match {\n\t\t\t\t\treqParser", "\t\t\t\tif match || true {\n\t\t\t\t\treqParser", "R7.12", nth=0)
mut("C01", "std-get-reads-exptime-extras", "handlers/memcached/std/handler.go", "\t\tdata, flags, _, err := GetLocal(rw, false)", "\t\tdata, flags, _, err := GetLocal(rw, true)", "R1.21", nth=0)
mut("C01", "std-gat-hit-flags-zero", "handlers/memcached/std/handler.go", "\t\tOpaque: cmd.Opaque,\n\t\tFlags:  flags,\n\t\tKey:    cmd.Key,\n\t\tData:   data,\n\t}, nil", "\t\tOpaque: cmd.Opaque,\n\t\tFlags:  0,\n\t\tKey:    cmd.Key,\n\t\tData:   data,\n\t}, nil", "R1.21", nth=0)
mut("C01", "std-getlocal-exp-read-before-flags", "handlers/memcached/std/localComm.go", "\tvar serverFlags uint32\n\tbinary.Read(rw, binary.BigEndian, &serverFlags)\n\tmetrics.IncCounterBy(common.MetricBytesReadLocal, 4)\n\n\tvar serverExp uint32\n\tif readExp {\n\t\tbinary.Read(rw, binary.BigEndian, &serverExp)\n\t\tmetrics.IncCounterBy(common.MetricBytesReadLocal, 4)\n\t}\n", "\tvar serverFlags uint32\n\tvar serverExp uint32\n\tif readExp {\n\t\tbinary.Read(rw, binary.BigEndian, &serverExp)\n\t\tmetrics.IncCounterBy(common.MetricBytesReadLocal, 4)\n\t}\n\tbinary.Read(rw, binary.BigEndian, &serverFlags)\n\tmetrics.IncCounterBy(common.MetricBytesReadLocal, 4)\n", "R1.21", nth=0)
mut("C01", "std-getlocal-returns-flags-as-exp", "handlers/memcached/std/localComm.go", "\treturn buf, serverFlags, serverExp, nil", "\treturn buf, serverExp, serverFlags, nil", "R1.21", nth=0)
mut("C06", "batched-reader-flags-exp-swapped", "handlers/memcached/batched/conn.go", "\t\t\t\t\t\t\tFlags:   serverFlags,\n\t\t\t\t\t\t\tExptime: serverExp,", "\t\t\t\t\t\t\tFlags:   serverExp,\n\t\t\t\t\t\t\tExptime: serverFlags,", "R6.13", nth=0)
mut("C06", "batched-reader-reads-exp-for-gat", "handlers/memcached/batched/conn.go", "\t\t\t\tif resHeader.Opcode == binprot.OpcodeGetE || resHeader.Opcode == binprot.OpcodeGetEQ {\n\t\t\t\t\tn, err = io.ReadAtLeast(c.rw, b, 4)", "\t\t\t\tif resHeader.Opcode == binprot.OpcodeGetE || resHeader.Opcode == binprot.OpcodeGat {\n\t\t\t\t\tn, err = io.ReadAtLeast(c.rw, b, 4)", "R6.13", nth=0)
mut("C04", "chunked-getlocal-does-not-skip-flags", "handlers/memcached/chunked/localComm.go", "\t// instead of reading and parsing flags, just discard\n\trw.Discard(4)\n\tmetrics.IncCounterBy(common.MetricBytesReadLocal, 4)\n\n\t// Read in token if requested", "\t// Read in token if requested", "R4.17", nth=0)
mut("C04", "chunked-get-hit-flags-zero", "handlers/memcached/chunked/handler.go", "\t\t\tFlags:  metaData.OrigFlags,", "\t\t\tFlags:  0,", "R4.12", nth=1)
mut("C05", "chunked-get-hit-data-is-token-buffer", "handlers/memcached/chunked/handler.go", "\t\t\tData:   dataBuf,", "\t\t\tData:   tokenBuf,", "R5.7", nth=1)
mut("C08", "l1l2-get-l2-results-hits-only", "orcas/l1l2.go", "\t\t\t\tl.res.Get(getres)\n\t\t\t}\n\n\t\tcase getErr, ok := <-errChan:\n\t\t\tif !ok {\n\t\t\t\terrChan = nil", "\t\t\t\tif !getres.Miss {\n\t\t\t\t\tl.res.Get(getres)\n\t\t\t\t}\n\t\t\t}\n\n\t\tcase getErr, ok := <-errChan:\n\t\t\tif !ok {\n\t\t\t\terrChan = nil", "R8.16", nth=0)
mut("C08", "binresp-error-header-declares-body", "protocol/binprot/respond.go", "\theader.Status = status\n\theader.TotalBodyLength = uint32(0)", "\theader.Status = status\n\theader.TotalBodyLength = uint32(4)", "R8.4", nth=0)
mut("C08", "l1l2-get-l1-hit-not-forwarded", "orcas/l1l2.go", "\t\t\t\t\tmetrics.IncCounter(MetricCmdGetHitsL1)\n\t\t\t\t\tl.res.Get(res)", "\t\t\t\t\tmetrics.IncCounter(MetricCmdGetHitsL1)\n\t\t\t\t\t_ = res", "R8.16", nth=0)
mut("C18", "inccounterby-load-then-store", MC, "\tatomic.AddUint64(&counters[id], amount)\n", "\tatomic.StoreUint64(&counters[id], atomic.LoadUint64(&counters[id])+amount)\n", "R18.13", "seed C18K: lost updates")
mut("C18", "power-of-4-table-digits-transposed", HI, "149, 158, 167, 176, 185, 194", "149, 158, 167, 176, 158, 194", "R18.14", "seed C18M")

# ---------------------------------------------------------------- round 7 rules
mut("C19", "backfill-key-const", "orcas/backfill.go", "Key: res.Key, Data: res.Data, Exptime: 1500", "Key: req.Keys[0], Data: res.Data, Exptime: 1500", "R19.10")
mut("C10", "append-loop-break-on-miss", "handlers/memcached/chunked/handler.go", "\t\t\t\t\tmiss = true\n\t\t\t\t}\n\t\t\t\tcontinue\n\t\t\t}\n\n\t\t\tlastErr = err", "\t\t\t\t\tmiss = true\n\t\t\t\t}\n\t\t\t\tbreak\n\t\t\t}\n\n\t\t\tlastErr = err", "R10.16")
mut("C04", "append-loop-break-on-miss", "handlers/memcached/chunked/handler.go", "\t\t\t\t\tmiss = true\n\t\t\t\t}\n\t\t\t\tcontinue\n\t\t\t}\n\n\t\t\tlastErr = err", "\t\t\t\t\tmiss = true\n\t\t\t\t}\n\t\t\t\tbreak\n\t\t\t}\n\n\t\t\tlastErr = err", "R4.19")
mut("C14", "chunked-defer-put-before-check", "handlers/memcached/chunked/localComm.go", "\tresHeader, err := binprot.ReadResponseHeader(rw)\n\tif err != nil {\n\t\treturn false, err\n\t}\n\tdefer binprot.PutResponseHeader(resHeader)\n", "\tresHeader, err := binprot.ReadResponseHeader(rw)\n\tdefer binprot.PutResponseHeader(resHeader)\n\tif err != nil {\n\t\treturn false, err\n\t}\n", "R14.13")
mut("C10", "chunked-defer-put-before-check", "handlers/memcached/chunked/localComm.go", "\tresHeader, err := binprot.ReadResponseHeader(rw)\n\tif err != nil {\n\t\treturn false, err\n\t}\n\tdefer binprot.PutResponseHeader(resHeader)\n", "\tresHeader, err := binprot.ReadResponseHeader(rw)\n\tdefer binprot.PutResponseHeader(resHeader)\n\tif err != nil {\n\t\treturn false, err\n\t}\n", "R10.19")
mut("C11", "chunked-defer-put-before-check", "handlers/memcached/chunked/localComm.go", "\tresHeader, err := binprot.ReadResponseHeader(rw)\n\tif err != nil {\n\t\treturn false, err\n\t}\n\tdefer binprot.PutResponseHeader(resHeader)\n", "\tresHeader, err := binprot.ReadResponseHeader(rw)\n\tdefer binprot.PutResponseHeader(resHeader)\n\tif err != nil {\n\t\treturn false, err\n\t}\n", "R11.9")
mut("C14", "error-header-defer-and-put", "protocol/binprot/respond.go", "func writeErrorResponseHeader(w *bufio.Writer, opcode uint8, status uint16, opaque uint32) error {\n\theader := resHeadPool.Get().(*ResponseHeader)\n", "func writeErrorResponseHeader(w *bufio.Writer, opcode uint8, status uint16, opaque uint32) error {\n\theader := resHeadPool.Get().(*ResponseHeader)\n\tdefer resHeadPool.Put(header)\n", "R14.3")
mut("C07", "error-header-defer-and-put", "protocol/binprot/respond.go", "func writeErrorResponseHeader(w *bufio.Writer, opcode uint8, status uint16, opaque uint32) error {\n\theader := resHeadPool.Get().(*ResponseHeader)\n", "func writeErrorResponseHeader(w *bufio.Writer, opcode uint8, status uint16, opaque uint32) error {\n\theader := resHeadPool.Get().(*ResponseHeader)\n\tdefer resHeadPool.Put(header)\n", "R7.13")
mut("C17", "inmem-signed-compare", "handlers/inmem/inmem.go", "return e.exptime != 0 && e.exptime < uint32(time.Now().Unix())", "return e.exptime != 0 && int32(e.exptime) < int32(time.Now().Unix())", "R17.8")
var("C17", "inmem-int64-diff", "handlers/inmem/inmem.go", "return e.exptime != 0 && e.exptime < uint32(time.Now().Unix())", "return e.exptime != 0 && int64(uint32(time.Now().Unix()))-int64(e.exptime) > 0", "a difference formed in 64 bits is exact")
mut("C06", "reader-discards-extras-only", "handlers/memcached/batched/conn.go", "\t\t\t\t// Discard the message for non-get responses\n\t\t\t\tn, err := c.rw.Discard(int(resHeader.TotalBodyLength))", "\t\t\t\tn, err := c.rw.Discard(int(resHeader.ExtraLength))", "R6.15")
mut("C06", "relay-signals-before-conn", "handlers/memcached/batched/relay.go", "\tr.addConn()\n\tfirstConnSetup <- struct{}{}\n", "\tfirstConnSetup <- struct{}{}\n\tr.addConn()\n", "R6.16")
mut("C06", "relay-no-wait", "handlers/memcached/batched/relay.go", "\tgo r.monitor(firstConnSetup)\n\t<-firstConnSetup\n", "\tgo r.monitor(firstConnSetup)\n\tgo func() { <-firstConnSetup }()\n", "R6.16")
mut("C13", "pooled-buffer-not-emptied", BC, "\tbuf := batcherPool.Get().(*bytes.Buffer)\n\tbuf.Reset()\n", "\tbuf := batcherPool.Get().(*bytes.Buffer)\n", "R13.16")
mut("C06", "pooled-buffer-not-emptied", BC, "\tbuf := batcherPool.Get().(*bytes.Buffer)\n\tbuf.Reset()\n", "\tbuf := batcherPool.Get().(*bytes.Buffer)\n", "R6.14")
var("C13", "batch-written-with-writeto", BC, "n, _ := c.rw.Write(buf.Bytes())", "n, _ := buf.WriteTo(c.rw)", "draining the buffer while writing is harmless as long as it is emptied when it is taken from the pool")
mut("C18", "bucket-one-lower", "metrics/histograms.go", "\treturn uint64(pos + 1)\n", "\treturn uint64(pos)\n", "R18.15")
mut("C18", "bucket-delta-quarter", "metrics/histograms.go", "delta := prevPowerOf4 / 3", "delta := prevPowerOf4 / 4", "R18.15")
mut("C18", "bucket-small-limit-16", "metrics/histograms.go", "\tif n <= 15 {\n\t\treturn n\n\t}", "\tif n <= 16 {\n\t\treturn n\n\t}", "R18.15")
var("C18", "bucket-small-limit-lt16", "metrics/histograms.go", "\tif n <= 15 {\n\t\treturn n\n\t}", "\tif n < 16 {\n\t\treturn n\n\t}", "same function of the value")
mut("C18", "bucket-offset-rounded-up", "metrics/histograms.go", "offset := int((n - prevPowerOf4) / delta)", "offset := int((n - prevPowerOf4 + delta - 1) / delta)", "R18.15")
mut("C18", "bucket-offset-shifted", "metrics/histograms.go", "offset := int((n - prevPowerOf4) / delta)", "offset := int((n - prevPowerOf4 - 1) / delta)", "R18.15")
var("C18", "bucket-last-clamp-early", "metrics/histograms.go", "\tif pos >= numAtlasBuckets-1 {\n\t\treturn numAtlasBuckets - 1\n\t}", "\tif pos >= numAtlasBuckets-2 {\n\t\treturn numAtlasBuckets - 1\n\t}", "same function of the value")
var("C07", "key-peek-then-copy", "protocol/binprot/parser.go", "\tbuf := make([]byte, l)\n\tn, err := io.ReadAtLeast(r, buf, int(l))", "\tif br, ok := r.(*bufio.Reader); ok && br.Buffered() >= int(l) {\n\t\tp, _ := br.Peek(int(l))\n\t\tkey := append([]byte(nil), p...)\n\t\tbr.Discard(int(l))\n\t\treturn key, nil\n\t}\n\tbuf := make([]byte, l)\n\tn, err := io.ReadAtLeast(r, buf, int(l))", "the peeked bytes are copied before they are handed out")
mut("C07", "key-peek-view", "protocol/binprot/parser.go", "\tbuf := make([]byte, l)\n\tn, err := io.ReadAtLeast(r, buf, int(l))", "\tif br, ok := r.(*bufio.Reader); ok && br.Buffered() >= int(l) {\n\t\tp, _ := br.Peek(int(l))\n\t\tbr.Discard(int(l))\n\t\treturn p, nil\n\t}\n\tbuf := make([]byte, l)\n\tn, err := io.ReadAtLeast(r, buf, int(l))", "R7.14")
mut("C10", "decode-drops-temp-failure", "protocol/binprot/types.go", "\tcase StatusTempFailure:\n\t\treturn common.ErrTempFailure\n\t}\n\treturn nil", "\t}\n\treturn nil", "R10.21")
mut("C06", "reader-miss-quiet-from-opcode", "handlers/memcached/batched/conn.go", "\t\t\t\t\t\t\t\tMiss:   true,\n\t\t\t\t\t\t\t\tQuiet:  rh.quiet,", "\t\t\t\t\t\t\t\tMiss:   true,\n\t\t\t\t\t\t\t\tQuiet:  resHeader.Opcode == binprot.OpcodeGetQ,", "R6.18")
mut("C11", "getq-empty-key-continue", "protocol/binprot/parser.go", "\tfor header.Opcode == OpcodeGetQ {\n", "\tfor header.Opcode == OpcodeGetQ {\n\t\tif header.KeyLength == 0 {\n\t\t\tcontinue\n\t\t}\n", "R11.6")
mut("C13", "jitter-in-milliseconds", "handlers/memcached/batched/conn.go", "jitter := time.Duration(rand.Int63n(int64(total) / 2))", "jitter := time.Duration(rand.Intn(int(total/time.Millisecond)/2)) * time.Millisecond", "R13.17")
mut("C10", "jitter-in-milliseconds", "handlers/memcached/batched/conn.go", "jitter := time.Duration(rand.Int63n(int64(total) / 2))", "jitter := time.Duration(rand.Intn(int(total/time.Millisecond)/2)) * time.Millisecond", "R10.22")
mut("C10", "chunked-set-early-return-on-exists", "handlers/memcached/chunked/handler.go", "\tresHeader, err := readResponseHeader(h.rw.Reader)\n\tif err != nil {\n\t\t// Discard response body", "\tresHeader, err := readResponseHeader(h.rw.Reader)\n\tif err == common.ErrKeyExists {\n\t\treturn err\n\t}\n\tif err != nil {\n\t\t// Discard response body", "R10.5")
mut("C15", "cluster-close-skips-first", "handlers/memcached/cluster/handler.go", "\tfor _, node := range h.nodes {\n\t\tret := node.handler.Close()", "\tfor i := 1; i < len(h.nodes); i++ {\n\t\tret := h.nodes[i].handler.Close()", "R15.9")
var("C15", "cluster-close-indexed", "handlers/memcached/cluster/handler.go", "\tfor _, node := range h.nodes {\n\t\tret := node.handler.Close()", "\tfor i := 0; i < len(h.nodes); i++ {\n\t\tret := h.nodes[i].handler.Close()", "every element is still closed")
var("C15", "cluster-close-peeled", "handlers/memcached/cluster/handler.go", "\tvar err error\n\n\tfor _, node := range h.nodes {\n\t\tret := node.handler.Close()", "\tvar err error\n\tif len(h.nodes) == 0 {\n\t\treturn nil\n\t}\n\terr = h.nodes[0].handler.Close()\n\tfor i := 1; i <= len(h.nodes)-1; i++ {\n\t\tret := h.nodes[i].handler.Close()", "every element is still closed")
var("C01", "sentinel-test-after-discard", "handlers/memcached/std/localComm.go", "\t\tif ioerr != nil {\n\t\t\treturn nil, 0, 0, ioerr\n\t\t}\n\t\treturn nil, 0, 0, err", "\t\tif ioerr != nil {\n\t\t\treturn nil, 0, 0, ioerr\n\t\t}\n\t\tif err == common.ErrKeyNotFound {\n\t\t\treturn nil, 0, 0, common.ErrKeyNotFound\n\t\t}\n\t\treturn nil, 0, 0, err", "the sentinel returned is the one the status was just compared with")
var("C10", "sentinel-test-after-discard", "handlers/memcached/std/localComm.go", "\t\tif ioerr != nil {\n\t\t\treturn nil, 0, 0, ioerr\n\t\t}\n\t\treturn nil, 0, 0, err", "\t\tif ioerr != nil {\n\t\t\treturn nil, 0, 0, ioerr\n\t\t}\n\t\tif err == common.ErrKeyNotFound {\n\t\t\treturn nil, 0, 0, common.ErrKeyNotFound\n\t\t}\n\t\treturn nil, 0, 0, err", "the body is discarded before the status is compared with a sentinel")
mut("C18", "pctl-div-19", "metrics/histograms.go", "idx := len(buf) * i / 20", "idx := len(buf) * i / 19", "R18.16")
mut("C18", "pctl-loop-to-20", "metrics/histograms.go", "\tfor i := 1; i < 20; i++ {\n\t\tidx := len(buf) * i / 20", "\tfor i := 1; i <= 20; i++ {\n\t\tidx := len(buf) * i / 20", "R18.16")
mut("C18", "pctl-999-rounding-up", "metrics/histograms.go", "idx = int(math.Floor(float64(len(buf)) * 99.9 / 100.0))", "idx = int(math.Ceil(float64(len(buf)) * 99.9 / 100.0))", "R18.16")
mut("C18", "pctl-loop-to-23", "metrics/histograms.go", "\tfor i := 1; i < 20; i++ {\n\t\tidx := len(buf) * i / 20\n\t\tpctls[i] = buf[idx]", "\tfor i := 1; i < 24; i++ {\n\t\tidx := len(buf) * i / 24\n\t\tpctls[i] = buf[idx]", "R18.16")
var("C18", "pctl-99-as-990-1000", "metrics/histograms.go", "idx := len(buf) * 99 / 100", "idx := len(buf) * 990 / 1000", "the same fraction")

for prop, ms in sorted(M.items()):
    json.dump(ms, open(os.path.join(ROOT, "rendlint", "mutants", prop + ".json"), "w"), indent=1)
    print(prop, len([m for m in ms if m["kind"] == "mutant"]), "mutants,", len([m for m in ms if m["kind"] == "variant"]), "variants")
