#!/usr/bin/env python3
"""Regenerates /verif/MANIFEST.json from the table below (run after adding a property check)."""
import json, os, sys

ROOT = os.path.dirname(os.path.dirname(os.path.abspath(__file__)))

# property id -> (claimed?, technique, level text, level note, design ref)
CLAIMS = json.load(open(os.path.join(ROOT, "tools", "claims.json")))

props = [json.loads(l) for l in open(os.path.join(ROOT, "properties.jsonl"))]
checks, na = [], []
for p in props:
    pid = p["id"]
    c = CLAIMS.get(pid)
    if not c or not c.get("claimed"):
        na.append({"property_id": pid, "reason": (c or {}).get("reason", "check under construction: no rule of this property is armed yet")})
        continue
    checks.append({
        "property_id": pid,
        "quick_cmd": f"bin/rendlint check --property {pid} --tier quick",
        "thorough_cmd": f"bin/rendlint check --property {pid} --tier thorough",
        "evidence_file": f"/verif/evidence/{pid}.json",
        "replay_cmd_template": "bin/rendlint replay {path}",
        "engine": "rendlint",
        "level_claimed": {"category": "other", "text": c["level_text"], "design_ref": c.get("design_ref", "DESIGN.md section 4, " + pid)},
        "level_note": c["level_note"],
        "technique": c["technique"],
    })

manifest = {
    "version": 1,
    "setup_cmd": "cd /verif/rendlint && GOFLAGS=-mod=mod GOPROXY=off GOSUMDB=off GOTOOLCHAIN=local GOWORK=off go build -o /verif/bin/rendlint ./cmd/rendlint",
    "hooks": {
        "guard": "verif",
        "enable": "none: static analysis needs no instrumentation; no hook commits exist",
        "baseline_off_cmd": "cd /repo && GOFLAGS=-mod=mod go test -json -vet=off -count=1 -timeout 25m ./...",
        "source_commits": [],
        "add_only": True,
    },
    "engines": [{
        "name": "rendlint",
        "path": "/verif/rendlint",
        "serves_properties": [c["property_id"] for c in checks],
        "kind_free_text": "repository-specific static analyser (go/packages + go/types + go/ssa, x/tools v0.29.0): table extraction, CFG path rules with error edge-facts, field provenance, typestate, symbolic lengths, shared-state inventory",
    }],
    "checks": checks,
    "not_applicable": na,
    "notes": "All checks decide structural necessary conditions statically from /repo's working tree (level 'other'); nothing executes rend code. Findings already triaged are in /verif/known_findings.json.",
}
json.dump(manifest, open(os.path.join(ROOT, "MANIFEST.json"), "w"), indent=1)
print("claimed:", [c["property_id"] for c in checks])
print("not applicable:", [n["property_id"] for n in na])
