#!/bin/bash
# usage: eval_patch.sh <patch.diff> [props comma-separated | all]
# Applies the patch in a scratch worktree of /repo (the repository itself is not touched) and prints the alarms the
# quick rules raise against it.
set -u
patch=$(readlink -f "$1"); props="${2:-all}"
BIN=${RENDLINT:-/verif/bin/rendlint}
wt=$(mktemp -d /tmp/wt/eval_XXXXXX); rmdir $wt
git -C /repo worktree add -q --detach $wt HEAD || exit 2
git -C $wt apply "$patch" || { echo "patch does not apply"; git -C /repo worktree remove --force $wt; exit 2; }
$BIN alarms --repo $wt --property $props
git -C /repo worktree remove --force $wt
