#!/bin/bash
# usage: eval_patch.sh <patch.diff> [props...]  -- applies the patch to /repo, runs the quick checks, reverts.
# prints one line per property that raises an alarm, with the rule/obligation lines.
set -u
patch="$1"; shift
props="${@:-C01 C02 C03 C04 C05 C06 C07 C08 C09 C10 C11 C12 C13 C14 C15 C16 C17 C18 C19}"
cd /repo || exit 2
if [ -n "$(git status --porcelain)" ]; then echo "repo not clean"; exit 2; fi
git apply "$patch" || { echo "patch does not apply"; exit 2; }
out=$(mktemp -d); cp /verif/known_findings.json $out/
run() { p=$1; (cd /verif && timeout 600 bin/rendlint check --property $p --verif $out > $out/$p.log 2>&1; echo $? > $out/$p.rc); }
n=0
for p in $props; do run $p & n=$((n+1)); if [ $((n % 5)) -eq 0 ]; then wait; fi; done; wait
git -C /repo checkout -- . 
for p in $props; do
  rc=$(cat $out/$p.rc)
  if [ "$rc" != "0" ]; then echo "ALARM $p:"; grep -E "^(VIOLATED|UNDECIDED)" $out/$p.log | cut -c1-260 | sed 's/^/    /'; fi
done
rm -rf $out
