#!/bin/bash
# usage: eval_patch.sh <patch.diff> [props...]
# Applies the patch in a scratch worktree of /repo (the repository itself is not touched), runs the quick checks
# against it and prints, per property that raises an alarm, the violated/undecided obligations.
set -u
patch="$1"; shift
props="${@:-C01 C02 C03 C04 C05 C06 C07 C08 C09 C10 C11 C12 C13 C14 C15 C16 C17 C18 C19}"
wt=$(mktemp -d /tmp/wt/eval_XXXXXX); rmdir $wt
git -C /repo worktree add -q --detach $wt HEAD || exit 2
( cd $wt && git apply "$patch" ) || { echo "patch does not apply"; git -C /repo worktree remove --force $wt; exit 2; }
out=$(mktemp -d); cp /verif/known_findings.json $out/
n=0
for p in $props; do
  ( cd /verif && timeout 900 bin/rendlint check --property $p --repo $wt --verif $out > $out/$p.log 2>&1; echo $? > $out/$p.rc ) &
  n=$((n+1)); if [ $((n % 5)) -eq 0 ]; then wait; fi
done; wait
git -C /repo worktree remove --force $wt
for p in $props; do
  rc=$(cat $out/$p.rc)
  if [ "$rc" != "0" ]; then echo "ALARM $p:"; grep -E "^(VIOLATED|UNDECIDED)" $out/$p.log | cut -c1-260 | sed 's/^/    /'; fi
done
rm -rf $out
