#!/bin/bash
# usage: import_seed.sh <agent seed dir> <new id> <property> <demo package dir> <-run regex>
# Copies a sub-agent's seeded change into /verif/seeded/<id>/, confirms it with verify_seed.sh and writes meta.json
# (change / needs_to_manifest are filled in by hand afterwards).
set -u
src="$1"; id="$2"; prop="$3"; dest="$4"; re="$5"
out=/verif/seeded/$id; mkdir -p $out
cp $src/patch.diff $out/patch.diff
cp $src/README.md $out/AGENT_README.md
files=()
for f in $src/*_test.go; do b=$(basename $f); case $b in zz_*) n=$b;; *) n=zz_$b;; esac; cp $f $out/$n.txt; files+=("\"$n.txt\""); done
tmp=$(mktemp -d); cp $src/patch.diff $tmp/; for f in $src/*_test.go; do cp $f $tmp/; done
res=$(/verif/tools/verify_seed.sh $tmp $dest "$re" $id | grep '^{')
rm -rf $tmp
echo "$res"
python3 - "$id" "$prop" "$dest" "$re" "$res" "$(IFS=,; echo "${files[*]}")" <<'PY'
import json,sys,subprocess
id,prop,dest,re,res,files=sys.argv[1:7]
r=json.loads(res)
base=subprocess.check_output(['git','-C','/repo','rev-parse','--short','HEAD']).decode().strip()
meta={"id":id,"property":prop,
 "origin":"written by a fresh sub-agent that was given only the text of the property and a scratch worktree of geobeau/rend (nothing from /verif)",
 "base_commit":base,
 "demonstration":{"files":json.loads('['+files+']'),"copy_to":dest,"rename":"strip .txt","command":f"go test -vet=off -count=1 -run '{re}' ./{dest}/"},
 "confirmed":{"how":"tools/verify_seed.sh in a scratch worktree of /repo at base_commit","build_with_change":r.get("build_with_change"),
   "existing_tests_with_change":"pass" if r.get("existing_tests_with_change")=="ok" else r.get("existing_tests_with_change"),
   "demonstration_with_change":r.get("demo_with_change"),"demonstration_without_change":r.get("demo_without_change")},
 "needs_to_manifest":"","change":""}
json.dump(meta,open(f'/verif/seeded/{id}/meta.json','w'),indent=1)
PY
