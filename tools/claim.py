#!/usr/bin/env python3
"""usage: claim.py Cxx '<technique>' '<level text>' '<level note>'  -- adds/updates a claim and regenerates MANIFEST.json"""
import json, os, sys, subprocess
root = os.path.dirname(os.path.dirname(os.path.abspath(__file__)))
p = os.path.join(root, "tools", "claims.json")
c = json.load(open(p))
pid, tech, text, note = sys.argv[1:5]
c[pid] = {"claimed": True, "technique": tech, "level_text": text, "level_note": note}
json.dump(dict(sorted(c.items())), open(p, "w"), indent=1)
subprocess.check_call([sys.executable, os.path.join(root, "tools", "gen_manifest.py")])
