#!/bin/bash
# usage: verify_seed.sh <seed dir with patch.diff + *_test.go> <package dir for the demo> <-run regex> [id]
# Confirms in a scratch worktree of /repo: with the patch the tree builds, the existing tests pass and the
# demonstration fails; without it the demonstration passes. Prints a JSON summary line.
set -u
export GOFLAGS=-mod=mod GOPROXY=off GOSUMDB=off GOTOOLCHAIN=local
seed="$1"; dest="$2"; re="$3"; id="${4:-seed}"
RACE=${SEED_RACE:+-race}
wt=/tmp/wt/verify_$id
git -C /repo worktree remove --force $wt >/dev/null 2>&1
git -C /repo worktree add -q --detach $wt HEAD || exit 2
cd $wt
PK="./common/... ./consul/... ./handlers/... ./metrics/... ./orcas/... ./protocol/... ./server/... ./timer/..."
git apply "$seed/patch.diff" || { echo "{\"id\":\"$id\",\"error\":\"patch does not apply\"}"; exit 1; }
build=ok; go build ./common/... ./handlers/... ./metrics/... ./orcas/... ./protocol/... ./server/... ./timer/... >/dev/null 2>&1 || build=FAIL
for f in app/memproxy.go app/memcached_cluster_proxy.go; do go build -o /dev/null ./$f >/dev/null 2>&1 || build=FAIL; done
tests=ok; go test -vet=off -count=1 $PK > $wt/.existing.log 2>&1 || tests=FAIL
mkdir -p $dest
for f in "$seed"/*_test.go; do b=$(basename $f); case $b in zz_*) cp $f $dest/$b;; *) cp $f $dest/zz_$b;; esac; done
with=PASS; timeout 1500 go test $RACE -vet=off -count=1 -run "$re" ./$dest/ > $wt/.with.log 2>&1 || with=FAIL
git checkout -q -- . 
without=PASS; timeout 1500 go test $RACE -vet=off -count=1 -run "$re" ./$dest/ > $wt/.without.log 2>&1 || without=FAIL
echo "{\"id\":\"$id\",\"build_with_change\":\"$build\",\"existing_tests_with_change\":\"$tests\",\"demo_with_change\":\"$with\",\"demo_without_change\":\"$without\"}"
if [ "$with" != "FAIL" ] || [ "$without" != "PASS" ]; then tail -5 $wt/.with.log $wt/.without.log; fi
cd /; git -C /repo worktree remove --force $wt
