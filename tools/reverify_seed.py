#!/usr/bin/env python3
"""usage: reverify_seed.py <id> [note]  - re-confirms a stored seeded change against /repo's current HEAD
(tools/verify_seed.sh in a scratch worktree) and refreshes base_commit / confirmed in its meta.json."""
import json, os, re, shutil, subprocess, sys, tempfile
sid = sys.argv[1]
note = sys.argv[2] if len(sys.argv) > 2 else None
d = f'/verif/seeded/{sid}'
m = json.load(open(f'{d}/meta.json'))
tmp = tempfile.mkdtemp()
shutil.copy(f'{d}/patch.diff', tmp)
for f in m['demonstration']['files']:
    shutil.copy(f'{d}/{f}', os.path.join(tmp, f[:-4] if f.endswith('.txt') else f))
cmd = m['demonstration']['command']
rx = re.search(r"-run '([^']*)'", cmd)
regex = rx.group(1) if rx else '.'
out = subprocess.run(['/verif/tools/verify_seed.sh', tmp, m['demonstration']['copy_to'], regex, sid], capture_output=True, text=True).stdout
shutil.rmtree(tmp)
line = [l for l in out.splitlines() if l.startswith('{')]
print(out.strip()[-600:])
if line:
    r = json.loads(line[0])
    if 'error' not in r:
        m['base_commit'] = subprocess.check_output(['git', '-C', '/repo', 'rev-parse', '--short', 'HEAD']).decode().strip()
        m['confirmed'].update({'build_with_change': r['build_with_change'],
                               'existing_tests_with_change': 'pass' if r['existing_tests_with_change'] == 'ok' else r['existing_tests_with_change'],
                               'demonstration_with_change': r['demo_with_change'], 'demonstration_without_change': r['demo_without_change']})
        if note:
            m['rebased'] = note
        json.dump(m, open(f'{d}/meta.json', 'w'), indent=1)
