#!/bin/bash
# Runs every quick check against every stored seed (scratch worktrees; /repo is not touched) and records, in
# seeded/<id>/meta.json, which properties' checks raise an alarm and through which rules.
cd /verif
for d in seeded/*/; do
  id=$(basename $d)
  out=$(tools/eval_patch.sh /verif/$d/patch.diff "$@")
  python3 - "$id" <<PY
import json,sys,re
sid=sys.argv[1]
out='''$out'''
det={}
cur=None
for l in out.splitlines():
    m=re.match(r'ALARM (C\d+):',l)
    if m: cur=m.group(1); det[cur]=[]; continue
    m=re.match(r'\s+(VIOLATED|UNDECIDED) (R[\d.]+) (\S+)',l)
    if m and cur: det[cur].append(m.group(2)+' '+m.group(3))
p='/verif/seeded/%s/meta.json'%sid
meta=json.load(open(p)); meta['detected_by']=det; meta['detected_by_own_property']= meta['property'] in det
json.dump(meta,open(p,'w'),indent=1)
print(sid, 'own' if meta['property'] in det else 'NOT-OWN', sorted(det))
PY
done
