#!/bin/bash
# usage: eval_all_seeds.sh [seed ids...]   (default: all)
# Applies every stored seeded change in a scratch worktree of /repo (the repository itself is not touched), runs the
# quick rules of all 19 properties against it (`rendlint alarms`: one load per seed) and records in
# seeded/<id>/meta.json which properties' checks raise an alarm and through which obligations.
cd /verif
BIN=${RENDLINT:-/verif/bin/rendlint}
ids="$@"; [ -z "$ids" ] && ids=$(ls seeded)
one() {
  id=$1
  wt=/tmp/wt/ev_$id
  git -C /repo worktree remove --force $wt >/dev/null 2>&1
  git -C /repo worktree add -q --detach $wt HEAD || { echo "$id worktree failed"; return; }
  if ! git -C $wt apply /verif/seeded/$id/patch.diff; then echo "$id PATCH-DOES-NOT-APPLY"; git -C /repo worktree remove --force $wt; return; fi
  $BIN alarms --repo $wt > /tmp/wt/ev_$id.json 2>/tmp/wt/ev_$id.err
  git -C /repo worktree remove --force $wt
  python3 - "$id" <<'PY'
import json,sys
sid=sys.argv[1]
det=json.load(open('/tmp/wt/ev_%s.json'%sid))
p='/verif/seeded/%s/meta.json'%sid
meta=json.load(open(p))
if det and all(any(x.startswith('R0 ') for x in v) for v in det.values()):
    # the changed code no longer compiles on the current tree (the construct was restructured by a later fix)
    meta['obsolete']='does not compile on the current tree: '+[x for x in det[meta['property']] if x.startswith('R0 ')][0][:200]
    det={}
else:
    meta.pop('obsolete',None)
meta['detected_by']={k:[x.split(': ')[0] for x in v] for k,v in det.items()}
meta['detected_by_own_property']= meta['property'] in det
json.dump(meta,open(p,'w'),indent=1)
print(sid, 'OBSOLETE' if meta.get('obsolete') else 'own' if meta['property'] in det else 'NOT-OWN', sorted(det))
PY
  rm -f /tmp/wt/ev_$id.json /tmp/wt/ev_$id.err
}
n=0
for id in $ids; do one $id & n=$((n+1)); if [ $((n % 4)) -eq 0 ]; then wait; fi; done; wait
