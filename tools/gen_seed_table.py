#!/usr/bin/env python3
"""Prints the markdown table of DESIGN.md section 9.4 (seeded changes vs. the checks that catch them) from
/verif/seeded/*/meta.json (detected_by is written by tools/eval_all_seeds.sh)."""
import json, os, re
root = os.path.join(os.path.dirname(os.path.dirname(os.path.abspath(__file__))), 'seeded')
print('| seed | property | change | needs, to manifest | caught by (rule: first obligation) |')
print('|---|---|---|---|---|')
tot = own = anyd = obs = 0
for d in sorted(os.listdir(root)):
    if not os.path.exists(os.path.join(root, d, 'meta.json')):
        continue
    m = json.load(open(os.path.join(root, d, 'meta.json')))
    det = m.get('detected_by', {})
    if m.get('obsolete'):
        obs += 1
    else:
        tot += 1
    own += 1 if m['property'] in det else 0
    anyd += 1 if det else 0
    cells = []
    for p in sorted(det, key=lambda p: (p != m['property'], p)):
        rules = []
        for x in det[p]:
            r = x.split(' ')[0]
            if r not in rules:
                rules.append(r)
        cells.append(p + ' ' + ','.join(rules))
    esc = lambda s: (lambda t: t if len(t) <= 220 else t[:217] + '...')(re.sub(r'\s+', ' ', s or '').replace('|', '\\|'))
    print('| %s | %s | %s | %s | %s |' % (d, m['property'], esc(m.get('change')), esc(m.get('needs_to_manifest')), '; '.join(cells) or ('no longer applies: ' + m['obsolete'][:80] if m.get('obsolete') else '**not caught**')))
print()
print('%d seeded changes that apply to the current tree (%d more no longer compile on it); %d caught by the check of their own property, %d by some check.' % (tot, obs, own, anyd))
