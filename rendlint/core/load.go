// Package core holds loading, program lookup helpers, obligations, evidence and
// known-findings plumbing shared by every rule.
package core

import (
	"fmt"
	"go/token"
	"go/types"
	"os"
	"path/filepath"
	"sort"
	"strings"
	"sync"

	"golang.org/x/tools/go/packages"
	"golang.org/x/tools/go/ssa"
	"golang.org/x/tools/go/ssa/ssautil"
)

// Mod is the module path of the repository under analysis.
const Mod = "github.com/netflix/rend"

// Patterns is the main universe (DESIGN §2.2).
var Patterns = []string{
	"./common/...", "./handlers/...", "./metrics/...", "./orcas/...",
	"./protocol/...", "./server/...", "./timer/...",
}

// MinPackages is the number of packages the main universe holds on the pinned tree.
const MinPackages = 18

// Prog is the loaded, type-checked and SSA-built program.
type Prog struct {
	Dir     string
	Arch    string
	Fset    *token.FileSet
	Pkgs    map[string]*packages.Package
	SSA     *ssa.Program
	SSAPkgs map[string]*ssa.Package
	Overlay map[string][]byte

	apps map[string]*App
	virt map[string]string

	nFiles, nFuncs int

	// shared: rule sets already evaluated on this program for Ctx.Share (see report.go), by function and config
	sharedMu sync.Mutex
	shared   map[string]*sharedRun
}

// App is one separately loaded app/*.go file (they do not compile together).
type App struct {
	File string
	Pkg  *packages.Package
	SSA  *ssa.Package
	Prog *ssa.Program
}

func env(arch string) []string {
	e := []string{}
	for _, kv := range os.Environ() {
		if strings.HasPrefix(kv, "GOFLAGS=") || strings.HasPrefix(kv, "GOWORK=") ||
			strings.HasPrefix(kv, "GOPROXY=") || strings.HasPrefix(kv, "GOSUMDB=") ||
			strings.HasPrefix(kv, "GOARCH=") || strings.HasPrefix(kv, "GOTOOLCHAIN=") ||
			strings.HasPrefix(kv, "CGO_ENABLED=") {
			continue
		}
		e = append(e, kv)
	}
	e = append(e, "GOFLAGS=-mod=mod", "GOPROXY=off", "GOSUMDB=off", "GOWORK=off", "GOTOOLCHAIN=local", "CGO_ENABLED=0")
	if arch != "" {
		e = append(e, "GOARCH="+arch)
	}
	return e
}

// Load loads the main universe from dir (normally /repo) for the given GOARCH
// ("" = host). overlay maps absolute file names to replacement contents.
//
// app/ holds several `package main` files that do not compile together; each
// app/<x>.go is presented to the loader as its own package through an overlay
// directory app/vp_<x>/main.go, so the wiring code shares one type universe with
// the packages it wires.
func Load(dir, arch string, overlay map[string][]byte) (*Prog, error) {
	fset := token.NewFileSet()
	ov := map[string][]byte{}
	for k, v := range overlay {
		ov[k] = v
	}
	patterns := append([]string{}, Patterns...)
	appFiles, _ := filepath.Glob(filepath.Join(dir, "app", "*.go"))
	sort.Strings(appFiles)
	virt := map[string]string{} // virtual file -> real file
	for _, f := range appFiles {
		if strings.HasSuffix(f, "_test.go") {
			continue
		}
		b, ok := overlay[f]
		if !ok {
			var err error
			b, err = os.ReadFile(f)
			if err != nil {
				return nil, err
			}
		}
		base := strings.TrimSuffix(filepath.Base(f), ".go")
		vf := filepath.Join(dir, "app", "vp_"+base, "main.go")
		ov[vf] = b
		virt[vf] = f
		patterns = append(patterns, "./app/vp_"+base)
	}
	cfg := &packages.Config{
		Mode:    packages.LoadAllSyntax,
		Dir:     dir,
		Fset:    fset,
		Env:     env(arch),
		Overlay: ov,
	}
	pkgs, err := packages.Load(cfg, patterns...)
	if err != nil {
		return nil, fmt.Errorf("load: %v", err)
	}
	var errs []string
	packages.Visit(pkgs, nil, func(p *packages.Package) {
		for _, e := range p.Errors {
			errs = append(errs, e.Error())
		}
	})
	if len(errs) > 0 {
		sort.Strings(errs)
		if len(errs) > 8 {
			errs = errs[:8]
		}
		return nil, fmt.Errorf("type/load errors: %s", strings.Join(errs, "; "))
	}
	prog, _ := ssautil.AllPackages(pkgs, ssa.InstantiateGenerics)
	prog.Build()
	p := &Prog{Dir: dir, Arch: arch, Fset: fset, Pkgs: map[string]*packages.Package{}, SSA: prog,
		SSAPkgs: map[string]*ssa.Package{}, Overlay: overlay, apps: map[string]*App{}, virt: virt}
	nMain := 0
	for _, pk := range pkgs {
		if strings.HasPrefix(pk.PkgPath, Mod+"/app/vp_") {
			base := strings.TrimPrefix(pk.PkgPath, Mod+"/app/vp_")
			p.apps[base+".go"] = &App{File: filepath.Join(dir, "app", base+".go"), Pkg: pk, SSA: prog.Package(pk.Types), Prog: prog}
			p.nFiles += len(pk.Syntax)
			continue
		}
		nMain++
		p.Pkgs[pk.PkgPath] = pk
		p.SSAPkgs[pk.PkgPath] = prog.Package(pk.Types)
		p.nFiles += len(pk.Syntax)
	}
	if nMain < MinPackages {
		return nil, fmt.Errorf("only %d packages loaded, expected at least %d", nMain, MinPackages)
	}
	for fn := range ssautil.AllFunctions(prog) {
		if fn.Pkg != nil && strings.HasPrefix(fn.Pkg.Pkg.Path(), Mod) && len(fn.Blocks) > 0 {
			p.nFuncs++
		}
	}
	// the server packages must not import the load-test client
	for path, pk := range p.Pkgs {
		for imp := range pk.Imports {
			if strings.HasPrefix(imp, Mod+"/client") {
				return nil, fmt.Errorf("%s imports %s", path, imp)
			}
		}
	}
	return p, nil
}

// LoadApp returns the package made of app/<file> alone.
func (p *Prog) LoadApp(file string) (*App, error) {
	if a, ok := p.apps[file]; ok {
		return a, nil
	}
	return nil, fmt.Errorf("app/%s is not part of the tree", file)
}

// PreloadApps is kept for callers; all app files are loaded with the main universe.
func (p *Prog) PreloadApps(files ...string) {}

// AppFiles lists the loaded app files.
func (p *Prog) AppFiles() []string {
	var out []string
	for f := range p.apps {
		out = append(out, f)
	}
	sort.Strings(out)
	return out
}

// Pos renders a position relative to the repository root.
func (p *Prog) Pos(pos token.Pos) string {
	if !pos.IsValid() {
		return "-"
	}
	ps := p.Fset.Position(pos)
	if real, ok := p.virt[ps.Filename]; ok {
		ps.Filename = real
	}
	rel, err := filepath.Rel(p.Dir, ps.Filename)
	if err != nil {
		rel = ps.Filename
	}
	return fmt.Sprintf("%s:%d", rel, ps.Line)
}

// Line returns the line of pos.
func (p *Prog) Line(pos token.Pos) int { return p.Fset.Position(pos).Line }

// Pkg returns the ssa package Mod+"/"+rel.
func (p *Prog) Pkg(rel string) *ssa.Package { return p.SSAPkgs[Mod+"/"+rel] }

// Func finds a package-level function ("setRequest") or method ("(*L1L2Orca).Set",
// "(Handler).Set") in package Mod/rel. nil when absent.
func (p *Prog) Func(rel, name string) *ssa.Function {
	pkg := p.Pkg(rel)
	if pkg == nil {
		return nil
	}
	if !strings.HasPrefix(name, "(") {
		return pkg.Func(name)
	}
	// method
	end := strings.Index(name, ")")
	recv := name[1:end]
	meth := name[end+2:]
	ptr := strings.HasPrefix(recv, "*")
	recv = strings.TrimPrefix(recv, "*")
	tn := pkg.Type(recv)
	if tn == nil {
		return nil
	}
	var T types.Type = tn.Type()
	if ptr {
		T = types.NewPointer(T)
	}
	sel := p.SSA.MethodSets.MethodSet(T).Lookup(pkg.Pkg, meth)
	if sel == nil {
		return nil
	}
	return p.SSA.MethodValue(sel)
}

// Named returns the named type rel.name.
func (p *Prog) Named(rel, name string) *types.Named {
	pkg := p.Pkg(rel)
	if pkg == nil {
		return nil
	}
	tn := pkg.Type(name)
	if tn == nil {
		return nil
	}
	n, _ := tn.Type().(*types.Named)
	return n
}

// Iface returns the interface type rel.name.
func (p *Prog) Iface(rel, name string) *types.Interface {
	n := p.Named(rel, name)
	if n == nil {
		return nil
	}
	i, _ := n.Underlying().(*types.Interface)
	return i
}

// Impl is one implementation of an interface.
type Impl struct {
	Named *types.Named
	Ptr   bool // methods are on the pointer type
	Pkg   *ssa.Package
}

// Recv returns the receiver type that implements the interface.
func (i Impl) Recv() types.Type {
	if i.Ptr {
		return types.NewPointer(i.Named)
	}
	return i.Named
}

// Implementers returns the named types of the repository implementing iface,
// sorted by name.
func (p *Prog) Implementers(iface *types.Interface) []Impl {
	var out []Impl
	for path, pkg := range p.SSAPkgs {
		if !strings.HasPrefix(path, Mod) || pkg == nil {
			continue
		}
		for _, m := range pkg.Members {
			t, ok := m.(*ssa.Type)
			if !ok {
				continue
			}
			n, ok := t.Type().(*types.Named)
			if !ok || types.IsInterface(n) {
				continue
			}
			if types.Implements(n, iface) {
				out = append(out, Impl{n, false, pkg})
			} else if types.Implements(types.NewPointer(n), iface) {
				out = append(out, Impl{n, true, pkg})
			}
		}
	}
	sort.Slice(out, func(i, j int) bool { return out[i].Named.String() < out[j].Named.String() })
	return out
}

// Method returns the ssa function of method name on impl (nil if absent or synthetic wrapper without body).
func (p *Prog) Method(i Impl, name string) *ssa.Function {
	sel := p.SSA.MethodSets.MethodSet(i.Recv()).Lookup(i.Named.Obj().Pkg(), name)
	if sel == nil {
		return nil
	}
	return p.SSA.MethodValue(sel)
}

// RepoFuncs returns all functions (incl. anonymous) with bodies whose package is under Mod/relPrefix.
func (p *Prog) RepoFuncs(relPrefix string) []*ssa.Function {
	var out []*ssa.Function
	for fn := range ssautil.AllFunctions(p.SSA) {
		if len(fn.Blocks) == 0 {
			continue
		}
		pk := fn.Pkg
		if pk == nil && fn.Parent() != nil {
			pk = fn.Parent().Pkg
		}
		if pk == nil {
			continue
		}
		path := pk.Pkg.Path()
		if path == Mod+"/"+relPrefix || strings.HasPrefix(path, Mod+"/"+relPrefix+"/") || (relPrefix == "" && strings.HasPrefix(path, Mod)) {
			if fn.Synthetic != "" && !strings.HasPrefix(fn.Synthetic, "package init") {
				continue
			}
			out = append(out, fn)
		}
	}
	sort.Slice(out, func(i, j int) bool {
		if out[i].String() != out[j].String() {
			return out[i].String() < out[j].String()
		}
		return out[i].Pos() < out[j].Pos()
	})
	return out
}

// Stats returns (#packages, #files, #functions) analysed.
func (p *Prog) Stats() (int, int, int) { return len(p.Pkgs), p.nFiles, p.nFuncs }

// FuncName is a stable printable name for a function: pkgrel.(Recv).Name or pkgrel.name$1.
func FuncName(fn *ssa.Function) string {
	if fn == nil {
		return "<nil>"
	}
	s := fn.String()
	s = strings.ReplaceAll(s, Mod+"/", "")
	return s
}

// LoadOne loads a single package pattern of the repository for another GOARCH (files excluded by the host's build
// constraints, e.g. portable fallbacks of assembly routines) and builds its SSA form.
func (p *Prog) LoadOne(arch, pattern string) (*ssa.Package, *token.FileSet, error) {
	fset := token.NewFileSet()
	cfg := &packages.Config{Mode: packages.LoadAllSyntax, Dir: p.Dir, Fset: fset, Env: env(arch), Overlay: p.Overlay}
	pkgs, err := packages.Load(cfg, pattern)
	if err != nil {
		return nil, nil, err
	}
	if len(pkgs) != 1 {
		return nil, nil, fmt.Errorf("%s: %d packages", pattern, len(pkgs))
	}
	var errs []string
	packages.Visit(pkgs, nil, func(pk *packages.Package) {
		for _, e := range pk.Errors {
			errs = append(errs, e.Error())
		}
	})
	if len(errs) > 0 {
		return nil, nil, fmt.Errorf("type/load errors (GOARCH=%s): %s", arch, strings.Join(errs, "; "))
	}
	prog, sp := ssautil.AllPackages(pkgs, ssa.InstantiateGenerics)
	prog.Build()
	return sp[0], fset, nil
}
