package core

import (
	"crypto/sha1"
	"encoding/json"
	"fmt"
	"os"
	"path/filepath"
	"reflect"
	"sort"
	"strings"
	"sync"
	"time"
)

// Status of an obligation.
type Status string

const (
	Discharged Status = "discharged"
	Violated   Status = "violated"
	Undecided  Status = "undecided"
	Info       Status = "info"
)

// Obligation is one unit of proof work enumerated from the current tree.
type Obligation struct {
	Rule   string   `json:"rule"`
	Key    string   `json:"key"` // rule-local construct key, never a line number
	Pos    string   `json:"pos"`
	Status Status   `json:"status"`
	Detail string   `json:"detail,omitempty"`
	Trail  []string `json:"trail,omitempty"`
	Config string   `json:"config,omitempty"`
}

// RuleInfo describes a rule.
type RuleInfo struct {
	ID   string `json:"id"`
	Text string `json:"text"`
	Min  int    `json:"min_instances"`
}

// Ctx is what a rule writes into.
type Ctx struct {
	P        *Prog
	Property string
	Config   string
	rules    []*RuleInfo
	ruleIdx  map[string]*RuleInfo
	Obs      []*Obligation
	Notes    []string

	// share: while set, only the rules named in it are recorded, under the mapped id (rules of another
	// property that are necessary conditions of this one as well; see Share)
	share map[string]string
	// noNested: this context evaluates a rule set for Share; Share calls inside it are ignored
	noNested bool
}

// sharedRun is the complete outcome of one rule set on one program and configuration.
type sharedRun struct {
	once  sync.Once
	rules []*RuleInfo
	obs   []*Obligation
}

// Share runs f (the rule set of another property) and keeps only the rules listed in m, renamed to this property's
// numbering. The obligations keep their keys, so a construct is reported identically under both properties. A rule set
// is evaluated once per program and configuration (its own shares excluded) and replayed for every property that
// shares rules of it.
func (c *Ctx) Share(m map[string]string, f func(*Ctx)) {
	if c.share != nil || c.noNested {
		return // the shared rule set's own shares do not belong to this property
	}
	key := fmt.Sprintf("%x|%s", reflect.ValueOf(f).Pointer(), c.Config)
	c.P.sharedMu.Lock()
	if c.P.shared == nil {
		c.P.shared = map[string]*sharedRun{}
	}
	run := c.P.shared[key]
	if run == nil {
		run = &sharedRun{}
		c.P.shared[key] = run
	}
	c.P.sharedMu.Unlock()
	run.once.Do(func() {
		sc := &Ctx{P: c.P, Property: c.Property, Config: c.Config, ruleIdx: map[string]*RuleInfo{}, noNested: true}
		f(sc)
		run.rules, run.obs = sc.rules, sc.Obs
	})
	old := c.share
	c.share = m
	defer func() { c.share = old }()
	for _, r := range run.rules {
		c.Rule(r.ID, r.Text, r.Min)
	}
	for _, o := range run.obs {
		c.add(o.Rule, o.Key, o.Pos, o.Status, o.Detail, o.Trail)
	}
}

// NewCtx makes a rule context.
func NewCtx(p *Prog, property, config string) *Ctx {
	return &Ctx{P: p, Property: property, Config: config, ruleIdx: map[string]*RuleInfo{}}
}

// Rule declares a rule with its text and the minimum number of obligations
// (discharged+violated+undecided; info does not count) confirmed by hand.
func (c *Ctx) Rule(id, text string, min int) {
	if c.share != nil {
		to, ok := c.share[id]
		if !ok {
			return
		}
		id = to
	}
	if _, ok := c.ruleIdx[id]; ok {
		return
	}
	r := &RuleInfo{ID: id, Text: text, Min: min}
	c.rules = append(c.rules, r)
	c.ruleIdx[id] = r
}

func (c *Ctx) add(rule, key, pos string, st Status, detail string, trail []string) {
	if c.share != nil {
		to, ok := c.share[rule]
		if !ok {
			return
		}
		rule = to
	}
	if _, ok := c.ruleIdx[rule]; !ok {
		panic("obligation for undeclared rule " + rule)
	}
	c.Obs = append(c.Obs, &Obligation{Rule: rule, Key: key, Pos: pos, Status: st, Detail: detail, Trail: trail, Config: c.Config})
}

func (c *Ctx) OK(rule, key, pos, detail string) { c.add(rule, key, pos, Discharged, detail, nil) }
func (c *Ctx) Violate(rule, key, pos, detail string, trail ...string) {
	c.add(rule, key, pos, Violated, detail, trail)
}
func (c *Ctx) Undecided(rule, key, pos, detail string) { c.add(rule, key, pos, Undecided, detail, nil) }
func (c *Ctx) Info(rule, key, pos, detail string)      { c.add(rule, key, pos, Info, detail, nil) }

// Import records an obligation evaluated in a scratch context under another rule id (subject to Share filtering).
func (c *Ctx) Import(o *Obligation, rule string) {
	c.add(rule, o.Key, o.Pos, o.Status, o.Detail, o.Trail)
}

// Check records discharged when ok, violated otherwise.
func (c *Ctx) Check(ok bool, rule, key, pos, okDetail, badDetail string, trail ...string) {
	if ok {
		c.OK(rule, key, pos, okDetail)
	} else {
		c.Violate(rule, key, pos, badDetail, trail...)
	}
}

// Finish adds the vacuity obligations (rule matched fewer instances than confirmed by hand).
func (c *Ctx) Finish() {
	count := map[string]int{}
	for _, o := range c.Obs {
		if o.Status != Info {
			count[o.Rule]++
		}
	}
	for _, r := range c.rules {
		if count[r.ID] < r.Min {
			c.Obs = append(c.Obs, &Obligation{Rule: r.ID, Key: "#instances", Pos: "-", Status: Undecided, Config: c.Config,
				Detail: fmt.Sprintf("rule matched %d instances, at least %d were confirmed by hand on the pinned tree: the rule would pass vacuously", count[r.ID], r.Min)})
		}
	}
}

// Finding is one entry of /verif/known_findings.json.
type Finding struct {
	Status      string `json:"status"` // known | fixed
	Property    string `json:"property"`
	Rule        string `json:"rule"`
	Key         string `json:"key"`
	What        string `json:"what,omitempty"`
	WhyNotFixed string `json:"why_not_fixed,omitempty"`
	Record      string `json:"record,omitempty"`
}

// LoadFindings reads the known-findings file (never written at run time).
func LoadFindings(path string) ([]Finding, error) {
	b, err := os.ReadFile(path)
	if err != nil {
		if os.IsNotExist(err) {
			return nil, nil
		}
		return nil, err
	}
	var fs []Finding
	if err := json.Unmarshal(b, &fs); err != nil {
		return nil, fmt.Errorf("%s: %v", path, err)
	}
	return fs, nil
}

// Result of a property check over one or more configurations.
type Result struct {
	Property string
	Tier     string
	Rules    []*RuleInfo
	Obs      []*Obligation
	Configs  []string
	Pkgs     int
	Files    int
	Funcs    int
	Extra    map[string]interface{}
	Explain  string
	Assume   []string
	Start    time.Time
}

// Merge adds a context's results.
func (r *Result) Merge(c *Ctx) {
	seen := map[string]bool{}
	for _, x := range r.Rules {
		seen[x.ID] = true
	}
	for _, x := range c.rules {
		if !seen[x.ID] {
			r.Rules = append(r.Rules, x)
		}
	}
	r.Obs = append(r.Obs, c.Obs...)
	r.Configs = append(r.Configs, c.Config)
}

func obKey(o *Obligation) string { return o.Rule + "|" + o.Key }

// Emit prints KNOWN-FINDING / VIOLATION lines, writes replay files and the evidence file,
// and returns the process exit code.
func (r *Result) Emit(verifDir string, findings []Finding) int {
	known := map[string]Finding{}
	for _, f := range findings {
		if f.Status == "known" && f.Property == r.Property {
			known[f.Rule+"|"+f.Key] = f
		}
	}
	// distinct obligations (across configs) by rule+key; worst status wins
	rank := map[Status]int{Info: 0, Discharged: 1, Undecided: 2, Violated: 3}
	byKey := map[string]*Obligation{}
	var order []string
	for _, o := range r.Obs {
		k := obKey(o)
		if prev, ok := byKey[k]; !ok {
			byKey[k] = o
			order = append(order, k)
		} else if rank[o.Status] > rank[prev.Status] {
			byKey[k] = o
		}
	}
	sort.Strings(order)

	type ruleStat struct {
		Found, Discharged, Violated, Undecided, Known, Info int
	}
	stats := map[string]*ruleStat{}
	for _, ri := range r.Rules {
		stats[ri.ID] = &ruleStat{}
	}
	violDir := filepath.Join(verifDir, "evidence", "violations")
	exit := 0
	nViol := 0
	var knownLines, violLines []string
	printedKnown := map[string]bool{}
	for _, k := range order {
		o := byKey[k]
		st := stats[o.Rule]
		if st == nil {
			st = &ruleStat{}
			stats[o.Rule] = st
		}
		switch o.Status {
		case Info:
			st.Info++
			continue
		case Discharged:
			st.Found++
			st.Discharged++
			continue
		}
		st.Found++
		if f, ok := known[k]; ok {
			st.Known++
			if !printedKnown[k] {
				printedKnown[k] = true
				knownLines = append(knownLines, fmt.Sprintf("KNOWN-FINDING: property=%s %s %s at %s: %s", r.Property, o.Rule, o.Key, o.Pos, f.What))
			}
			continue
		}
		if o.Status == Violated {
			st.Violated++
		} else {
			st.Undecided++
		}
		nViol++
		exit = 1
		os.MkdirAll(violDir, 0o755)
		h := sha1.Sum([]byte(k))
		name := fmt.Sprintf("%s-%s-%x.json", r.Property, strings.ReplaceAll(o.Rule, ".", "_"), h[:4])
		path := filepath.Join(violDir, name)
		rep := map[string]interface{}{"property": r.Property, "rule": o.Rule, "rule_text": r.ruleText(o.Rule), "key": o.Key,
			"pos": o.Pos, "status": o.Status, "detail": o.Detail, "trail": o.Trail, "config": o.Config}
		b, _ := json.MarshalIndent(rep, "", " ")
		os.WriteFile(path, b, 0o644)
		violLines = append(violLines, fmt.Sprintf("%s %s %s at %s: %s", strings.ToUpper(string(o.Status)), o.Rule, o.Key, o.Pos, o.Detail))
		violLines = append(violLines, fmt.Sprintf("VIOLATION property=%s replay=%s", r.Property, path))
	}
	for _, l := range knownLines {
		fmt.Println(l)
	}
	for _, l := range violLines {
		fmt.Println(l)
	}

	// evidence
	nObl, nDis := 0, 0
	ruleOut := []map[string]interface{}{}
	for _, ri := range r.Rules {
		st := stats[ri.ID]
		nObl += st.Found
		nDis += st.Discharged
		ruleOut = append(ruleOut, map[string]interface{}{"id": ri.ID, "text": ri.Text, "min_instances": ri.Min,
			"found": st.Found, "discharged": st.Discharged, "violated": st.Violated, "undecided": st.Undecided, "known_findings": st.Known, "info": st.Info})
	}
	var samples []interface{}
	perRule := map[string]int{}
	for _, k := range order {
		o := byKey[k]
		lim := 3
		if o.Status != Discharged {
			lim = 20
		}
		if perRule[o.Rule+string(o.Status)] >= lim {
			continue
		}
		perRule[o.Rule+string(o.Status)]++
		samples = append(samples, map[string]interface{}{"rule": o.Rule, "key": o.Key, "pos": o.Pos, "status": o.Status, "detail": o.Detail})
	}
	if len(samples) == 0 {
		samples = append(samples, "no obligations enumerated")
	}
	seed := 0
	fmt.Sscanf(os.Getenv("VERIF_SEED"), "%d", &seed)
	cov := map[string]interface{}{
		"explanation":         r.Explain,
		"rule":                "obligations are enumerated from the type-checked SSA program of /repo's working tree, one per construct a rule applies to (call site, return edge, loop, table row, variable), keyed rule+construct; distinct = distinct keys; every one touches a repository construct, so all are non-trivial",
		"obligations":         nObl,
		"discharged":          nDis,
		"evaluations":         len(r.Obs),
		"distinct_nontrivial": nObl,
		"samples":             samples,
		"rules":               ruleOut,
		"packages":            r.Pkgs,
		"files":               r.Files,
		"functions":           r.Funcs,
		"configs":             r.Configs,
		"exhaustive":          true,
		"checker_cmd":         fmt.Sprintf("bin/rendlint check --property %s --tier %s", r.Property, r.Tier),
	}
	for k, v := range r.Extra {
		cov[k] = v
	}
	ev := map[string]interface{}{
		"property_id": r.Property,
		"tier":        r.Tier,
		"seed":        seed,
		"level":       "other",
		"coverage":    cov,
		"assumptions": r.Assume,
		"wall_s":      time.Since(r.Start).Seconds(),
		"violations":  nViol,
	}
	b, _ := json.MarshalIndent(ev, "", " ")
	os.MkdirAll(filepath.Join(verifDir, "evidence"), 0o755)
	if err := os.WriteFile(filepath.Join(verifDir, "evidence", r.Property+".json"), b, 0o644); err != nil {
		fmt.Println("cannot write evidence:", err)
		return 2
	}
	fmt.Printf("%s tier=%s configs=%v obligations=%d discharged=%d known=%d violations=%d wall=%.1fs\n", r.Property, r.Tier, r.Configs, nObl, nDis, len(knownLines), nViol, time.Since(r.Start).Seconds())
	return exit
}

func (r *Result) ruleText(id string) string {
	for _, ri := range r.Rules {
		if ri.ID == id {
			return ri.Text
		}
	}
	return ""
}
