package rules

import (
	"fmt"
	"go/token"
	"go/types"
	"sort"
	"strings"

	"golang.org/x/tools/go/ssa"

	"rendlint/core"
	"rendlint/ssax"
)

func init() {
	Meta["C01"] = &PropMeta{
		Title: "Single-cache illusion: replies equal those of one memcached-like map",
		Explain: "The routing of every command through the layers is the one a single map needs, decided as tables and path facts: (R1.1) the loop dispatches each request type to the orchestrator method of the same command with the request type the parsers produce; (R1.2) each in-scope orchestrator method calls exactly the handler methods of the orchestration contract (L1-only: l1.X; L1/L2: L2 then L1, reads L1 then L2 with back-fill; batch port: L2 then replace-only/touch refresh of L1) and L1 is written only after L2 succeeded; (R1.3) a handler error that is not one of the contract's benign L1 statuses is returned and no success reply is sent; (R1.5) handler methods write the binary command of their own name with the specification's opcode; (R1.6) the status<->error tables of decoder, encoder, classifier and text responder agree on the three negative answers a map can give; (R1.7) wherever a request/response struct is rebuilt from another, each field is initialised from the same-named field; (R1.8) in the direct handler the error returned on the error-status edge is the decoded status and a miss becomes a miss; (R1.9) reply tables: text replies use the specification's strings and never a success string for a negative answer, binary replies carry the opcode of their command. " +
			"Decides the routing and tables; that replies equal the map's for every sequence, byte-for-byte value fidelity through I/O and multi-key ordering are not decided.",
		Assume: commonAssume,
		Run:    runC01,
	}
}

// orchestration contract (DESIGN 4.B.2): set of tier.method calls per orchestrator method
var contract = map[string]map[string][]string{
	"L1Only": {
		"Set": {"l1.Set"}, "Add": {"l1.Add"}, "Replace": {"l1.Replace"}, "Append": {"l1.Append"}, "Prepend": {"l1.Prepend"},
		"Delete": {"l1.Delete"}, "Touch": {"l1.Touch"}, "Get": {"l1.Get"}, "GetE": {"l1.GetE"}, "Gat": {"l1.GAT"},
	},
	"L1L2": {
		"Set": {"l1.Delete", "l1.Set", "l2.Set"}, "Add": {"l1.Add", "l2.Add"}, "Replace": {"l1.Replace", "l2.Replace"},
		"Append": {"l1.Append", "l2.Append"}, "Prepend": {"l1.Prepend", "l2.Prepend"}, "Delete": {"l1.Delete", "l2.Delete"},
		"Touch": {"l1.Touch", "l2.Touch"}, "Get": {"l1.Delete", "l1.Get", "l1.Set", "l2.GetE"}, "GetE": {},
		"Gat": {"l1.Add", "l1.GAT", "l2.GAT", "l2.Touch"},
	},
	"L1L2Batch": {
		"Set": {"l1.Delete", "l1.Replace", "l2.Set"}, "Add": {"l1.Replace", "l2.Add"}, "Replace": {"l1.Replace", "l2.Replace"},
		"Append": {"l1.Append", "l2.Append"}, "Prepend": {"l1.Prepend", "l2.Prepend"}, "Delete": {"l1.Delete", "l2.Delete"},
		"Touch": {"l1.Touch", "l2.Touch"}, "Get": {"l1.Get", "l2.Get"}, "GetE": {}, "Gat": {"l1.Touch", "l2.GAT"},
	},
}

var specOpcode = map[string]int64{
	"WriteSetCmd": 0x01, "WriteAddCmd": 0x02, "WriteReplaceCmd": 0x03, "WriteAppendCmd": 0x0e, "WritePrependCmd": 0x0f,
	"WriteGetCmd": 0x00, "WriteGetQCmd": 0x09, "WriteGetECmd": 0x40, "WriteGetEQCmd": 0x41, "WriteDeleteCmd": 0x04,
	"WriteTouchCmd": 0x1c, "WriteGATCmd": 0x1d, "WriteGATQCmd": 0x1e, "WriteNoopCmd": 0x0a,
}

var handlerWriter = map[string]string{
	"Set": "WriteSetCmd", "Add": "WriteAddCmd", "Replace": "WriteReplaceCmd", "Append": "WriteAppendCmd", "Prepend": "WritePrependCmd",
	"Delete": "WriteDeleteCmd", "Touch": "WriteTouchCmd", "GAT": "WriteGATCmd", "Get": "WriteGetCmd", "GetE": "WriteGetECmd",
}

func runC01(c *core.Ctx) {
	defer func() {
		c.Share(map[string]string{"R4.11": "R1.15", "R4.12": "R1.16"}, runC04) // flags come back as last written
		c.Rule("R1.21", "the direct backend handler decodes a get reply as the backend wrote it: flags first then (gete only) the expiry; the expiry is asked for exactly after a gete was written; every hit takes Data, Flags, Exptime from the reply just read", 8)
		runR121(c, "R1.21")
		c.Rule("R1.18", "the tiers are wired as the orchestrators assume: the accept loop hands the handler of its first constructor to the orchestrator as L1 and of its second as L2; main passes an L1 constructor built from --l1-sock (or the in-memory backend) and an L2 constructor built from --l2-sock, for both ports", 3)
		runR118(c, "R1.18")
		c.Share(map[string]string{"R16.4": "R1.17"}, runC16)
		c.Share(map[string]string{"R3.4": "R1.24"}, runC03) // "L1/L2 with the additional batch port" under the locking wrapper: a port locking through the wrong table lets a write slip into a get's back-fill, L1 then answers with the old value
		c.Share(map[string]string{"R7.9": "R1.22"}, runC07) // a request header released twice is handed to two connections: the command executed is not the command sent
		c.Share(map[string]string{"R8.11": "R1.19", "R8.3": "R1.23"}, runC08) // a get whose terminator is swallowed never completes for the client: a single map always answers END
		c.Share(map[string]string{"R9.1": "R1.20"}, runC09)  // a tier handed TTL 0 keeps the item for ever: get hits where the map misses, add says exists                   // a set acknowledged with a chunk count the reader does not find is a miss where the map says hit
		// necessary conditions shared with other properties (same obligations, this property's numbering)
		c.Share(map[string]string{"R9.3": "R1.12"}, runC09) // a touch/set whose TTL lands in the wrong field changes when the map answers hit or miss
		c.Share(map[string]string{"R8.5": "R1.13"}, runC08) // a reply left in the buffer is a reply the client does not receive
		c.Rule("R1.14", "a value handed to the consumer of a multi-key get lives in memory obtained during that key's iteration (every backend handler): the bytes of one key are not overwritten by the next", 2)
		checkFreshValueBuffers(c, "R1.14", "handlers/memcached/std", "handlers/memcached/chunked", "handlers/memcached/batched", "handlers/memcached/cluster")
	}()
	c.Rule("R1.1", "the connection loop dispatches each request type to the orchestrator method of the same command; every request type has a row", 15)
	c.Rule("R1.2", "each in-scope orchestrator method calls exactly the handler methods of the orchestration contract, and L1 is changed only after the L2 operation of the same command succeeded", 45)
	c.Rule("R1.3", "a handler error that is not one of the contract's benign L1 statuses is returned to the loop: from its failure edge no success reply and no nil return is reachable", 40)
	c.Rule("R1.5", "handler methods write the binary command of their own name, and every command serialiser uses the specification's opcode", 25)
	c.Rule("R1.6", "status tables agree on the map's three negative answers (key not found 0x01, key exists 0x02, item not stored 0x05): decoder and encoder are mutually inverse, the classifier accepts them, the text responder has an explicit row", 3)
	c.Rule("R1.7", "wherever a request or response struct is rebuilt from another one, each field is initialised from the same-named field of its source (or a constant)", 8)
	c.Rule("R1.8", "in the direct handler the error returned on a reply's error-status edge is the decoded status, and a not-found status on a get becomes Miss:true, never a hit", 4)
	c.Rule("R1.9", "reply tables: text storage commands answer STORED, delete DELETED, touch TOUCHED, get ends with END; negative answers use NOT_FOUND/NOT_STORED/EXISTS and never a success string; binary replies carry the opcode of their command", 20)

	c.Rule("R1.10", "an L1 answer that only says 'L1 holds no copy' (the contract's benign statuses) after L2 applied the command still ends in the success reply: tier placement must not decide a command's outcome", 18)
	c.Rule("R1.11", "wherever a multi-key get request is rebuilt, Keys, Opaques and Quiet have one origin (same request, accumulated together, or same index), so they keep describing the same keys position by position", 4)
	checkBenignSucceeds(c, "R1.10")
	checkParallelSlices(c, "R1.11")
	runR11(c)
	runR12(c, "R1.2", inScopeCtors)
	runR13(c)
	runR15(c)
	runR16(c)
	runR17(c)
	runR18(c)
	runR19(c)
}

func runR11(c *core.Ctx) {
	rows, loop, _, err := loopTable(c)
	if err != nil {
		c.Undecided("R1.1", "server.Loop#dispatch", "-", err.Error())
		return
	}
	names := requestTypeNames(c)
	seen := map[string]bool{}
	for _, r := range rows {
		n := names[r.ReqType]
		seen[n] = true
		want := strings.TrimPrefix(n, "Request")
		c.Check(r.Method == want, "R1.1", "server.Loop#case:"+n, c.P.Pos(r.Call.Pos()), n+" -> orca."+r.Method,
			fmt.Sprintf("%s is dispatched to orca.%s instead of orca.%s: the client's command is executed as a different one", n, r.Method, want))
	}
	for _, n := range names {
		if !seen[n] {
			c.Violate("R1.1", "server.Loop#case:"+n, c.P.Pos(loop.Pos()), "the loop has no case for "+n+": such a request gets no reply at all")
		}
	}
}

func runR12(c *core.Ctx, rule string, ctors []string) {
	for _, ctor := range ctors {
		role, err := resolveOrca(c, ctor)
		if err != nil {
			c.Undecided(rule, "orcas."+ctor, "-", err.Error())
			continue
		}
		for m, want := range contract[ctor] {
			fn := c.P.Method(role.Impl, m)
			key := core.FuncName(fn) + "#handler-calls"
			if fn == nil || len(fn.Blocks) == 0 {
				c.Undecided(rule, "orcas."+ctor+"."+m, "-", "method not found")
				continue
			}
			got := map[string]bool{}
			for _, tc := range tierCalls(fn, role) {
				if tc.Tier == "l1" || tc.Tier == "l2" {
					got[tc.String()] = true
				}
			}
			var gl []string
			for g := range got {
				gl = append(gl, g)
			}
			sort.Strings(gl)
			w := append([]string{}, want...)
			sort.Strings(w)
			c.Check(strings.Join(gl, ",") == strings.Join(w, ","), rule, key, c.P.Pos(fn.Pos()), "calls {"+strings.Join(gl, ", ")+"}",
				fmt.Sprintf("the method calls {%s} where the orchestration contract says {%s}", strings.Join(gl, ", "), strings.Join(w, ", ")))
		}
	}
	// ordering clause: L1 changed only after L2 succeeded
	checkL2First(c, rule)
}

// failure edges of a call's error result
func failureStarts(e ssa.Value, fn *ssa.Function) []*ssa.BasicBlock {
	var starts []*ssa.BasicBlock
	for _, b := range fn.Blocks {
		ifi, ok := b.Instrs[len(b.Instrs)-1].(*ssa.If)
		if !ok {
			continue
		}
		bo, ok := ifi.Cond.(*ssa.BinOp)
		if !ok || (bo.Op != token.NEQ && bo.Op != token.EQL) {
			continue
		}
		x := bo.X
		if ssax.IsNilConst(x) {
			x = bo.Y
		} else if !ssax.IsNilConst(bo.Y) {
			continue
		}
		if ds := ssax.Defs(x); len(ds) == 1 && ds[0] == e {
			if bo.Op == token.NEQ {
				starts = append(starts, b.Succs[0])
			} else {
				starts = append(starts, b.Succs[1])
			}
		}
	}
	return starts
}

func runR13(c *core.Ctx) {
	pv := &ssax.Prov{}
	for _, ctor := range inScopeCtors {
		role, err := resolveOrca(c, ctor)
		if err != nil {
			continue
		}
		for _, m := range orcaMethods(c) {
			fn := c.P.Method(role.Impl, m)
			if fn == nil || len(fn.Blocks) == 0 {
				continue
			}
			tcs := tierCalls(fn, role)
			counts := map[string]int{}
			for _, w := range tcs {
				if (w.Tier != "l1" && w.Tier != "l2") || !isOneOf(w.Method, "Set", "Add", "Replace", "Append", "Prepend", "Delete", "Touch", "GAT") {
					continue
				}
				call, ok := w.Ins.(*ssa.Call)
				if !ok {
					continue
				}
				key := ordinalKey(counts, core.FuncName(fn)+"#"+w.String())
				pos := c.P.Pos(w.Ins.Pos())
				e := errResult(call)
				if e == nil {
					c.Violate("R1.3", key, pos, "the handler's error is dropped")
					continue
				}
				starts := failureStarts(e, fn)
				if len(starts) == 0 {
					c.Undecided("R1.3", key, pos, "the handler's error is never tested against nil")
					continue
				}
				// benign rows: L1 statuses after the same command succeeded in L2; compensation rows (R10.1) are delete-then-reply
				benign := map[string]bool{}
				compensated := false
				if w.Tier == "l1" && ctor != "L1Only" {
					for s := range benignFor(ctor, m, w.Method) {
						benign[s] = true
					}
					if (w.Method == "Set") || (ctor == "L1L2Batch" && m == "Set" && w.Method == "Replace") {
						compensated = true
					}
				}
				// the compensating delete's own outcome is metrics only
				if w.Tier == "l1" && w.Method == "Delete" && m != "Delete" {
					c.OK("R1.3", key, pos, "exception: the outcome of the compensating L1 delete only feeds metrics (the entry is gone or was never there)")
					continue
				}
				wKey := ssax.Strings(pv.Sources(w.Call.Args[0], "Key"))
				var found ssa.Instruction
				var trail []*ssa.BasicBlock
				for _, st := range starts {
					hit, tr := (ssax.Reach{
						Target: func(ins ssa.Instruction) bool {
							for _, tc := range tcs {
								if tc.Ins == ins && tc.Tier == "res" && tc.Method != "Error" {
									return true
								}
							}
							if ret, ok := ins.(*ssa.Return); ok && len(ret.Results) > 0 {
								return ssax.IsNilConst(ret.Results[len(ret.Results)-1])
							}
							return false
						},
						Avoid: func(ins ssa.Instruction) bool {
							if !compensated {
								return false
							}
							for _, tc := range tcs {
								if tc.Ins == ins && tc.Tier == "l1" && tc.Method == "Delete" {
									return strings.Join(ssax.Strings(pv.Sources(tc.Call.Args[0], "Key")), ",") == strings.Join(wKey, ",")
								}
							}
							return false
						},
						AvoidEdge: func(from, to *ssa.BasicBlock) bool {
							ifi, ok := from.Instrs[len(from.Instrs)-1].(*ssa.If)
							if !ok {
								return false
							}
							bo, ok := ifi.Cond.(*ssa.BinOp)
							if !ok || bo.Op != token.EQL {
								return false
							}
							x, y := bo.X, bo.Y
							s := ssax.SentinelOf(y)
							if s == "" {
								s, x = ssax.SentinelOf(x), y
							}
							if ds := ssax.Defs(x); len(ds) != 1 || ds[0] != e {
								return false
							}
							return benign[s] && to == from.Succs[0]
						},
					}).FromBlock(st)
					if hit != nil {
						found, trail = hit, tr
					}
				}
				if found != nil {
					c.Violate("R1.3", key, pos, fmt.Sprintf("after %s failed, the command can still reach the success reply / nil return at %s: the client is told the command succeeded", w.String(), c.P.Pos(found.Pos())), ssax.BlockTrail(c.P.Fset, trail)...)
				} else {
					c.OK("R1.3", key, pos, "a failure is returned (benign statuses and compensation per contract)")
				}
			}
		}
	}
}

func runR15(c *core.Ctx) {
	// (a) serialisers use the specification's opcode
	for name, want := range specOpcode {
		fn := c.P.Func("protocol/binprot", name)
		key := "binprot." + name + "#opcode"
		if fn == nil {
			c.Undecided("R1.5", key, "-", "serialiser not found")
			continue
		}
		var got []int64
		ssax.Instrs(fn, func(ins ssa.Instruction) {
			cc := ssax.CallOf(ins)
			if cc == nil || cc.StaticCallee() == nil || cc.StaticCallee().Pkg != fn.Pkg {
				return
			}
			for i, p := range cc.StaticCallee().Params {
				if types.TypeString(p.Type(), nil) == "uint8" && i < len(cc.Args) {
					if v, ok := ssax.ConstInt(cc.Args[i]); ok {
						got = append(got, v)
					}
				}
			}
		})
		c.Check(len(got) == 1 && got[0] == want, "R1.5", key, c.P.Pos(fn.Pos()), fmt.Sprintf("opcode 0x%02x", want), fmt.Sprintf("%s sends opcode(s) %v, the specification says 0x%02x", name, got, want))
	}
	// (b) direct handler methods write the command of their own name
	impl, ok := handlerImpl(c, "handlers/memcached/std")
	if !ok {
		c.Undecided("R1.5", "std.Handler", "-", "handler not found")
		return
	}
	for m, want := range handlerWriter {
		fn := c.P.Method(impl, m)
		key := "(std.Handler)." + m + "#command"
		if fn == nil {
			c.Undecided("R1.5", key, "-", "method not found")
			continue
		}
		var got []string
		for _, f := range pkgReachGo(fn, 2) {
			ssax.Instrs(f, func(ins ssa.Instruction) {
				if cc := ssax.CallOf(ins); cc != nil && strings.HasPrefix(ssax.CalleeName(cc), pBinprot+".Write") {
					got = append(got, strings.TrimPrefix(ssax.CalleeName(cc), pBinprot+"."))
				}
			})
		}
		got = uniq(got)
		c.Check(len(got) == 1 && got[0] == want, "R1.5", key, c.P.Pos(fn.Pos()), "writes "+want, fmt.Sprintf("the method writes %v where %s is required: the backend executes a different command", got, want))
	}
	// (c) chunked set/add/replace reach the metadata write with the same-named opcode
	cimpl, ok := handlerImpl(c, relChunked)
	if ok {
		names := requestTypeNames(c)
		for _, m := range []string{"Set", "Add", "Replace"} {
			fn := c.P.Method(cimpl, m)
			key := "(chunked.Handler)." + m + "#command"
			if fn == nil {
				c.Undecided("R1.5", key, "-", "method not found")
				continue
			}
			good := false
			why := "the method does not delegate with a constant request type"
			ssax.Instrs(fn, func(ins ssa.Instruction) {
				cc := ssax.CallOf(ins)
				if cc == nil || cc.StaticCallee() == nil || cc.StaticCallee().Pkg != fn.Pkg {
					return
				}
				for _, a := range cc.Args {
					if types.TypeString(a.Type(), nil) == pCommon+".RequestType" {
						if v, ok := ssax.ConstInt(a); ok {
							// in the callee, the case for v writes Write<m>Cmd with a metadata key
							callee := cc.StaticCallee()
							ssax.Instrs(callee, func(x ssa.Instruction) {
								xc := ssax.CallOf(x)
								if xc == nil || !strings.HasPrefix(ssax.CalleeName(xc), pBinprot+".Write") {
									return
								}
								for _, ec := range ssax.DomConds(x.Block()) {
									if k, ok := condEqConst(ec, func(v ssa.Value) bool { _, isP := v.(*ssa.Parameter); return isP }); ok && k == v {
										wn := strings.TrimPrefix(ssax.CalleeName(xc), pBinprot+".")
										if wn == "Write"+m+"Cmd" && names[v] == "Request"+m {
											good = true
										} else {
											why = fmt.Sprintf("%s delegates as %s and the metadata entry is written with %s", m, names[v], wn)
										}
									}
								}
							})
						}
					}
				}
			})
			c.Check(good, "R1.5", key, c.P.Pos(fn.Pos()), "metadata entry written with Write"+m+"Cmd", why)
		}
	}
}

// pkgReachGo: like pkgReach but also follows go statements and closures.
func pkgReachGo(fn *ssa.Function, depth int) []*ssa.Function {
	return pkgReach(fn, depth)
}

func runR16(c *core.Ctx) {
	dec := c.P.Func("protocol/binprot", "DecodeError")
	enc := findFunc(c, "protocol/binprot", "errorToCode", roleStatusEncoder)
	txt := c.P.Func("protocol/textprot", "(TextResponder).Error")
	if dec == nil || enc == nil || txt == nil {
		c.Undecided("R1.6", "status-tables", "-", "DecodeError, errorToCode or TextResponder.Error not found")
		return
	}
	decT := map[int64]string{}
	for _, r := range ssax.Returns(dec) {
		if s := ssax.SentinelOf(r.Results[0]); s != "" {
			for _, ec := range ssax.DomConds(r.Block()) {
				if k, ok := condEqConst(ec, func(v ssa.Value) bool { return isFieldLoad(v, "Status") }); ok {
					decT[k] = s
				}
			}
		}
	}
	encT := map[string]int64{}
	for _, r := range ssax.Returns(enc) {
		if k, ok := ssax.ConstInt(r.Results[0]); ok {
			for _, ec := range ssax.DomConds(r.Block()) {
				if bo, ok := ec.Cond.(*ssa.BinOp); ok && bo.Op == token.EQL && ec.True {
					if s := ssax.SentinelOf(bo.Y); s != "" {
						encT[s] = k
					} else if s := ssax.SentinelOf(bo.X); s != "" {
						encT[s] = k
					}
				}
			}
		}
	}
	txtT := map[string]string{}
	ssax.Instrs(txt, func(ins ssa.Instruction) {
		cc := ssax.CallOf(ins)
		if cc == nil || cc.StaticCallee() == nil || cc.StaticCallee().Name() != "resp" {
			return
		}
		str, ok := ssax.ConstString(cc.Args[len(cc.Args)-1])
		if !ok {
			return
		}
		// all sentinels whose equality leads here (fallthrough chains share a block)
		for _, p := range append([]*ssa.BasicBlock{ins.Block()}, ins.Block().Preds...) {
			for _, ec := range append(ssax.DomConds(p), edgeCondsInto(p, ins.Block())...) {
				if bo, ok := ec.Cond.(*ssa.BinOp); ok && bo.Op == token.EQL && ec.True {
					if s := ssax.SentinelOf(bo.Y); s != "" {
						txtT[s] = str
					}
				}
			}
		}
	})
	app := appSentinels(c)
	negText := map[string]bool{"NOT_FOUND": true, "NOT_STORED": true, "EXISTS": true}
	for _, row := range []struct {
		code int64
		sent string
	}{{0x01, "common.ErrKeyNotFound"}, {0x02, "common.ErrKeyExists"}, {0x05, "common.ErrItemNotStored"}} {
		var bad []string
		if decT[row.code] != row.sent {
			bad = append(bad, fmt.Sprintf("DecodeError maps 0x%02x to %q", row.code, decT[row.code]))
		}
		if encT[row.sent] != row.code {
			bad = append(bad, fmt.Sprintf("errorToCode maps it to 0x%02x", encT[row.sent]))
		}
		if !app[row.sent] {
			bad = append(bad, "IsAppError rejects it: a plain negative answer would close the connection")
		}
		if !negText[txtT[row.sent]] {
			bad = append(bad, fmt.Sprintf("the text responder answers %q", txtT[row.sent]))
		}
		c.Check(len(bad) == 0, "R1.6", "status:"+row.sent, c.P.Pos(dec.Pos()), fmt.Sprintf("0x%02x <-> %s, application error, text %q", row.code, row.sent, txtT[row.sent]), strings.Join(bad, "; "))
	}
	// information: the other ten statuses
	var extra []string
	for code, s := range decT {
		if encT[s] != code {
			extra = append(extra, fmt.Sprintf("0x%02x/%s", code, s))
		}
	}
	sort.Strings(extra)
	if len(extra) > 0 {
		c.Info("R1.6", "status:others", c.P.Pos(enc.Pos()), "decoder and encoder disagree on "+strings.Join(extra, ", ")+" (not observable through these properties)")
	}
}

func edgeCondsInto(from, to *ssa.BasicBlock) []ssax.EdgeCond {
	if from == to {
		return nil
	}
	return edgeCondOf(from, to)
}

func runR17(c *core.Ctx) {
	pv := &ssax.Prov{}
	var fns []*ssa.Function
	for _, ctor := range append(append([]string{}, inScopeCtors...), "Locked") {
		role, err := resolveOrca(c, ctor)
		if err != nil {
			continue
		}
		for _, m := range orcaMethods(c) {
			if fn := c.P.Method(role.Impl, m); fn != nil && len(fn.Blocks) > 0 {
				fns = append(fns, fn)
			}
		}
	}
	if f := c.P.Func(relBatched, "getEResponseToGetResponse"); f != nil {
		fns = append(fns, f)
	}
	for _, fn := range fns {
		counts := map[string]int{}
		ssax.Instrs(fn, func(ins ssa.Instruction) {
			al, ok := ins.(*ssa.Alloc)
			if !ok {
				return
			}
			n, ok := al.Type().(*types.Pointer).Elem().(*types.Named)
			if !ok || n.Obj().Pkg() == nil || n.Obj().Pkg().Path() != pCommon {
				return
			}
			st, ok := n.Underlying().(*types.Struct)
			if !ok {
				return
			}
			isLit := false
			var bad []string
			for i := 0; i < st.NumFields(); i++ {
				f := st.Field(i).Name()
				v := literalField(al, f)
				if v == nil {
					continue
				}
				isLit = true
				for _, s := range pv.Sources(v) {
					if s.Kind == "const" || s.Kind == "zero" || s.Kind == "alloc" || s.Kind == "composite" || s.Kind == "fresh" {
						continue
					}
					// the first named path element must be the field's own name
					name := ""
					for _, p := range s.Path {
						if p != "[]" {
							name = p
						}
					}
					if name == "" {
						// slice literal of single elements (LockedOrca's sub-request): look through the element array
						if sl, ok := v.(*ssa.Slice); ok {
							for _, es := range pv.Sources(sl, "[]") {
								for _, p := range es.Path {
									if p != "[]" {
										name = p
									}
								}
							}
						}
					}
					// element slices: Keys <- Keys[], Opaques <- Opaques[] ...
					if name != f && !(f == "Keys" && name == "Key") {
						bad = append(bad, fmt.Sprintf("%s <- %s", f, s.String()))
					}
				}
			}
			if !isLit {
				return
			}
			key := ordinalKey(counts, core.FuncName(fn)+"#literal:"+n.Obj().Name())
			c.Check(len(bad) == 0, "R1.7", key, c.P.Pos(al.Pos()), "every field comes from the same-named field of its source", "a rebuilt "+n.Obj().Name()+" mixes up fields: "+strings.Join(uniq(bad), "; "))
		})
	}
}

func runR18(c *core.Ctx) {
	const rel = "handlers/memcached/std"
	for _, name := range []string{"(Handler).handleSetCommon", "simpleCmdLocal", "GetLocal"} {
		fn := c.P.Func(rel, name)
		key := "std." + name + "#status-returned"
		if fn == nil {
			c.Undecided("R1.8", key, "-", "function not found")
			continue
		}
		// the status error value
		var e ssa.Value
		ssax.Instrs(fn, func(ins ssa.Instruction) {
			call, ok := ins.(*ssa.Call)
			if !ok {
				return
			}
			if ssax.CalleeName(&call.Call) == pBinprot+".DecodeError" {
				e = call
			} else if isHeaderWrapper(call.Call.StaticCallee()) {
				e = errResult(call)
			}
		})
		if e == nil {
			c.Undecided("R1.8", key, c.P.Pos(fn.Pos()), "no decoded status")
			continue
		}
		starts := failureStarts(e, fn)
		if len(starts) == 0 {
			c.Violate("R1.8", key, c.P.Pos(fn.Pos()), "the decoded status is never tested")
			continue
		}
		var badRet ssa.Instruction
		for _, st := range starts {
			hit, _ := (ssax.Reach{Target: func(ins ssa.Instruction) bool {
				ret, ok := ins.(*ssa.Return)
				if !ok || len(ret.Results) == 0 {
					return false
				}
				last := ret.Results[len(ret.Results)-1]
				for _, d := range ssax.Defs(last) {
					if d == e {
						continue
					}
					// an I/O error of draining the body is fine; nil or another sentinel is not - unless the return sits
					// under the test "status == that sentinel"
					if ssax.IsNilConst(d) {
						return true
					}
					if sn := ssax.SentinelOf(d); sn != "" {
						same := false
						for _, ec := range ssax.DomConds(ret.Block()) {
							bo, ok := ec.Cond.(*ssa.BinOp)
							if !ok || (bo.Op != token.EQL && bo.Op != token.NEQ) || (bo.Op == token.EQL) != ec.True {
								continue
							}
							x, y := bo.X, bo.Y
							if ssax.SentinelOf(x) != "" {
								x, y = y, x
							}
							if ds := ssax.Defs(x); ssax.SentinelOf(y) == sn && len(ds) == 1 && ds[0] == e {
								same = true
							}
						}
						if !same {
							return true
						}
					}
				}
				return false
			}}).FromBlock(st)
			if hit != nil {
				badRet = hit
			}
		}
		if badRet != nil {
			c.Violate("R1.8", key, c.P.Pos(fn.Pos()), "on the error-status edge the function can return nil or a different status at "+c.P.Pos(badRet.Pos())+": the backend's answer is lost")
		} else {
			c.OK("R1.8", key, c.P.Pos(fn.Pos()), "the decoded status (or the I/O error of draining its body) is what is returned")
		}
	}
	// a not-found on a get becomes Miss:true
	for _, name := range []string{"realHandleGet", "realHandleGetE", "(Handler).GAT"} {
		fn := c.P.Func(rel, name)
		key := "std." + name + "#miss"
		if fn == nil {
			c.Undecided("R1.8", key, "-", "function not found")
			continue
		}
		good, n := true, 0
		check := func(v ssa.Value, b *ssa.BasicBlock, pos token.Pos) {
			miss, known := literalBool(v, "Miss")
			if !known {
				return
			}
			n++
			underNotFound := false
			for _, ec := range ssax.DomConds(b) {
				if bo, ok := ec.Cond.(*ssa.BinOp); ok && bo.Op == token.EQL && ec.True && (ssax.SentinelOf(bo.Y) == "common.ErrKeyNotFound" || ssax.SentinelOf(bo.X) == "common.ErrKeyNotFound") {
					underNotFound = true
				}
			}
			if underNotFound != miss {
				good = false
			}
		}
		ssax.Instrs(fn, func(ins ssa.Instruction) {
			switch x := ins.(type) {
			case *ssa.Send:
				if strings.HasSuffix(types.TypeString(x.X.Type(), nil), "Response") {
					check(x.X, x.Block(), x.Pos())
				}
			case *ssa.Return:
				if len(x.Results) == 2 && strings.HasSuffix(types.TypeString(x.Results[0].Type(), nil), "Response") && ssax.IsNilConst(x.Results[1]) {
					check(x.Results[0], x.Block(), x.Pos())
				}
			}
		})
		c.Check(good && n >= 2, "R1.8", key, c.P.Pos(fn.Pos()), "Miss:true exactly on the not-found edge", "a not-found status is reported as a hit, or a hit as a miss")
	}
}

func runR19(c *core.Ctx) {
	// text
	textWant := map[string]string{"Set": "STORED", "Add": "STORED", "Replace": "STORED", "Append": "STORED", "Prepend": "STORED", "Delete": "DELETED", "Touch": "TOUCHED", "GetEnd": "END"}
	tn := c.P.Named("protocol/textprot", "TextResponder")
	if tn == nil {
		c.Undecided("R1.9", "textprot.TextResponder", "-", "not found")
	} else {
		impl := core.Impl{Named: tn, Pkg: c.P.Pkg("protocol/textprot")}
		for m, want := range textWant {
			fn := c.P.Method(impl, m)
			key := "textprot.TextResponder." + m + "#reply"
			if fn == nil {
				c.Undecided("R1.9", key, "-", "method not found")
				continue
			}
			var got []string
			ssax.Instrs(fn, func(ins ssa.Instruction) {
				if cc := ssax.CallOf(ins); cc != nil && cc.StaticCallee() != nil && cc.StaticCallee().Name() == "resp" {
					if s, ok := ssax.ConstString(cc.Args[len(cc.Args)-1]); ok {
						got = append(got, s)
					}
				}
			})
			c.Check(len(got) == 1 && got[0] == want, "R1.9", key, c.P.Pos(fn.Pos()), "answers "+want, fmt.Sprintf("answers %v, the protocol says %q", got, want))
		}
		// value line
		if fn := c.P.Method(impl, "Get"); fn != nil {
			good := false
			ssax.Instrs(fn, func(ins ssa.Instruction) {
				cc := ssax.CallOf(ins)
				if cc == nil || ssax.CalleeName(cc) != "fmt.Fprintf" {
					return
				}
				if f, ok := ssax.ConstString(cc.Args[1]); ok && f == "VALUE %s %d %d\r\n" {
					// arguments: Key, Flags, len(Data)
					pv := &ssax.Prov{}
					var fields []string
					if sl, ok := cc.Args[2].(*ssa.Slice); ok {
						if al, ok := sl.X.(*ssa.Alloc); ok {
							type el struct {
								i int64
								s string
							}
							var els []el
							for _, r := range *al.Referrers() {
								if ia, ok := r.(*ssa.IndexAddr); ok {
									i, _ := ssax.ConstInt(ia.Index)
									for _, st := range ssax.StoresTo(ia) {
										v := ssax.Unwrap(st.Val)
										if call, ok := v.(*ssa.Call); ok {
											if b, ok := call.Call.Value.(*ssa.Builtin); ok && b.Name() == "len" {
												els = append(els, el{i, "len(" + strings.Join(ssax.Strings(pv.Sources(call.Call.Args[0])), ",") + ")"})
												continue
											}
										}
										els = append(els, el{i, strings.Join(ssax.Strings(pv.Sources(v)), ",")})
									}
								}
							}
							sort.Slice(els, func(a, b int) bool { return els[a].i < els[b].i })
							for _, e := range els {
								fields = append(fields, e.s)
							}
						}
					}
					if strings.Join(fields, "|") == "param:response.Key|param:response.Flags|len(param:response.Data)" {
						good = true
					}
				}
			})
			c.Check(good, "R1.9", "textprot.TextResponder.Get#value-line", c.P.Pos(fn.Pos()), "VALUE <key> <flags> <len(data)>", "the value line is not 'VALUE <key> <flags> <bytes>' of the response being sent")
		}
	}
	// binary: opcode of the command
	binWant := map[string]int64{"Set": 0x01, "Add": 0x02, "Replace": 0x03, "Append": 0x0e, "Prepend": 0x0f, "Delete": 0x04, "Touch": 0x1c,
		"Get": 0x00, "GAT": 0x1d, "GetE": 0x40, "GetEnd": 0x0a, "Noop": 0x0a, "Quit": 0x07, "Version": 0x0b, "Stat": 0x10}
	bn := c.P.Named("protocol/binprot", "BinaryResponder")
	hw := findFunc(c, "protocol/binprot", "writeSuccessResponseHeader", roleSuccessHeaderWriter)
	if bn == nil || hw == nil {
		c.Undecided("R1.9", "binprot.BinaryResponder", "-", "not found")
		return
	}
	oi := headerParam(hw, "Opcode")
	impl := core.Impl{Named: bn, Pkg: c.P.Pkg("protocol/binprot")}
	for m, want := range binWant {
		fn := c.P.Method(impl, m)
		key := "binprot.BinaryResponder." + m + "#opcode"
		if fn == nil || oi < 0 {
			c.Undecided("R1.9", key, "-", "method not found")
			continue
		}
		var got []int64
		for _, f := range pkgReach(fn, 1) {
			if f != fn && f.Name() != "getCommon" {
				continue
			}
			ssax.Instrs(f, func(ins ssa.Instruction) {
				cc := ssax.CallOf(ins)
				if cc == nil || cc.StaticCallee() != hw {
					return
				}
				if v, ok := ssax.ConstInt(cc.Args[oi]); ok {
					got = append(got, v)
				} else if p, ok := cc.Args[oi].(*ssa.Parameter); ok && f != fn {
					// helper: the opcode is the caller's constant argument
					ssax.Instrs(fn, func(x ssa.Instruction) {
						if xc := ssax.CallOf(x); xc != nil && xc.StaticCallee() == f {
							if v, ok := ssax.ConstInt(xc.Args[paramIndex(p)]); ok {
								got = append(got, v)
							}
						}
					})
				}
			})
		}
		ok := len(got) > 0
		for _, g := range got {
			if g != want {
				ok = false
			}
		}
		c.Check(ok, "R1.9", key, c.P.Pos(fn.Pos()), fmt.Sprintf("reply opcode 0x%02x", want), fmt.Sprintf("the reply carries opcode(s) %v, the command's opcode is 0x%02x", got, want))
	}
}
