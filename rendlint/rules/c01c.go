package rules

import (
	"fmt"
	"strings"

	"golang.org/x/tools/go/ssa"

	"rendlint/core"
	"rendlint/ssax"
)

// runR118 (R1.18, shared as R2.9): the tiers are wired the way the orchestrators assume. An orchestrator constructor
// takes (L1 handler, L2 handler, responder); the accept loop builds the L1 handler with its first handler constructor
// and the L2 handler with its second and hands them over in that order; the proxy's main passes, for both ports, a
// handler constructor built from the L1 socket flag (or the in-memory backend) first and one built from the L2 socket
// flag (or the nil handler) second. A swap makes L2 the cache of L1: evictions in the "authoritative" tier lose
// acknowledged writes.
func runR118(c *core.Ctx, rule string) {
	pv := &ssax.Prov{}
	// ---- (a) the accept loop
	las := c.P.Func("server", "ListenAndServe")
	if las == nil {
		c.Undecided(rule, "server.ListenAndServe#tier-order", "-", "anchor not found")
	} else {
		var hconsts []*ssa.Parameter
		var oconst *ssa.Parameter
		for _, p := range las.Params {
			switch ssax.ShortType(p.Type()) {
			case "handlers.HandlerConst":
				hconsts = append(hconsts, p)
			case "orcas.OrcaConst":
				oconst = p
			}
		}
		key := "server.ListenAndServe#tier-order"
		if len(hconsts) != 2 || oconst == nil {
			c.Undecided(rule, key, c.P.Pos(las.Pos()), "expected two handler constructors and one orchestrator constructor among the parameters")
		} else {
			found := false
			for _, f := range append([]*ssa.Function{las}, las.AnonFuncs...) {
				ssax.Instrs(f, func(ins ssa.Instruction) {
					cc := ssax.CallOf(ins)
					if cc == nil || cc.IsInvoke() || len(cc.Args) < 2 {
						return
					}
					isO := ssax.Any(pv.Sources(cc.Value), func(s ssax.Src) bool { return s.Kind == "param" && s.V == ssa.Value(oconst) })
					if !isO {
						return
					}
					found = true
					var bad []string
					for i, want := range hconsts {
						srcs := pv.Sources(cc.Args[i])
						ok := len(srcs) > 0 && ssax.All(srcs, func(s ssax.Src) bool {
							if s.Kind != "call" || s.Res != 0 {
								return false
							}
							return ssax.Any(pv.Sources(s.Call.Value), func(t ssax.Src) bool { return t.Kind == "param" && t.V == ssa.Value(want) })
						})
						if !ok {
							bad = append(bad, fmt.Sprintf("argument %d of the orchestrator constructor is %s, not the handler built by %s", i+1, strings.Join(ssax.Strings(srcs), ","), want.Name()))
						}
					}
					c.Check(len(bad) == 0, rule, key, c.P.Pos(ins.Pos()), "the orchestrator gets the handler of the first constructor as L1 and of the second as L2",
						strings.Join(bad, "; ")+": the tiers are swapped - L2 is treated as the cache of L1")
				})
			}
			if !found {
				c.Undecided(rule, key, c.P.Pos(las.Pos()), "no call of the orchestrator constructor found in the accept loop")
			}
		}
	}
	// ---- (b) main
	app, err := c.P.LoadApp("memproxy.go")
	if err != nil {
		c.Undecided(rule, "app/memproxy.go#tier-order", "-", err.Error())
		return
	}
	// the socket flags
	sock := map[string]*ssa.Global{}
	for _, m := range app.SSA.Members {
		f, ok := m.(*ssa.Function)
		if !ok {
			continue
		}
		for _, g := range append([]*ssa.Function{f}, f.AnonFuncs...) {
			ssax.Instrs(g, func(ins ssa.Instruction) {
				cc := ssax.CallOf(ins)
				if cc == nil || ssax.CalleeName(cc) != "flag.StringVar" {
					return
				}
				name, _ := ssax.ConstString(cc.Args[1])
				if gl, ok := cc.Args[0].(*ssa.Global); ok && (name == "l1-sock" || name == "l2-sock") {
					sock[name] = gl
				}
			})
		}
	}
	mainFn := app.SSA.Func("main")
	if mainFn == nil || sock["l1-sock"] == nil || sock["l2-sock"] == nil {
		c.Undecided(rule, "app/memproxy.go#tier-order", "-", "main or the --l1-sock / --l2-sock flags not found")
		return
	}
	derives := func(v ssa.Value, g *ssa.Global) bool {
		found := false
		seen := map[ssa.Value]bool{}
		var walk func(v ssa.Value, d int)
		walk = func(v ssa.Value, d int) {
			if v == nil || seen[v] || d > 14 || found {
				return
			}
			seen[v] = true
			if gl := ssax.GlobalLoad(v); gl == g {
				found = true
				return
			}
			for _, s := range pv.Sources(v) {
				if s.Kind == "global" && s.V == ssa.Value(g) {
					found = true
					return
				}
				if s.Kind == "call" {
					for _, a := range s.Call.Args {
						walk(a, d+1)
					}
				}
			}
		}
		walk(v, 0)
		return found
	}
	n := 0
	ssax.Instrs(mainFn, func(ins ssa.Instruction) {
		cc := ssax.CallOf(ins)
		if cc == nil || ssax.CalleeName(cc) != core.Mod+"/server.ListenAndServe" || len(cc.Args) < 6 {
			return
		}
		n++
		key := fmt.Sprintf("app/memproxy.go:main#tier-order@%d", n)
		h1, h2 := cc.Args[4], cc.Args[5]
		var bad []string
		if derives(h1, sock["l2-sock"]) {
			bad = append(bad, "the handler constructor passed as L1 is built from the --l2-sock flag")
		}
		if derives(h2, sock["l1-sock"]) {
			bad = append(bad, "the handler constructor passed as L2 is built from the --l1-sock flag")
		}
		if !derives(h1, sock["l1-sock"]) && !ssax.Any(pv.Sources(h1), func(s ssax.Src) bool { return strings.Contains(s.String(), "inmem") }) {
			bad = append(bad, "the handler constructor passed as L1 is built neither from the --l1-sock flag nor from the in-memory backend")
		}
		if !derives(h2, sock["l2-sock"]) {
			bad = append(bad, "the handler constructor passed as L2 is not built from the --l2-sock flag")
		}
		c.Check(len(bad) == 0, rule, key, c.P.Pos(ins.Pos()), "L1 constructor from --l1-sock / in-memory, L2 constructor from --l2-sock (or the nil handler)", strings.Join(bad, "; "))
	})
	if n == 0 {
		c.Undecided(rule, "app/memproxy.go#tier-order", c.P.Pos(mainFn.Pos()), "main starts no listener")
	}
}
