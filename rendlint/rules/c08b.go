package rules

import (
	"fmt"
	"go/token"
	"go/types"
	"sort"
	"strings"

	"golang.org/x/tools/go/ssa"

	"rendlint/core"
	"rendlint/ssax"
)

// ---------------------------------------------------------------- R8.3

// fieldSel describes where a literal's field comes from: root object, selector and (for slices) the index value.
type fieldSel struct {
	root string
	sel  string
	idx  ssa.Value
	desc string
}

func selOf(pv *ssax.Prov, al *ssa.Alloc, field string) []fieldSel {
	var out []fieldSel
	var cands []ssa.Value
	for _, r := range *al.Referrers() {
		fa, ok := r.(*ssa.FieldAddr)
		if !ok || fa.X != ssa.Value(al) {
			continue
		}
		if n, _ := ssax.FieldName(fa); n != field {
			continue
		}
		for _, st := range ssax.StoresTo(fa) {
			cands = append(cands, st.Val)
		}
	}
	for _, v := range cands {
		for _, d := range ssax.Defs(v) {
			fs := fieldSel{desc: strings.Join(ssax.Strings(pv.Sources(d)), ",")}
			switch x := d.(type) {
			case *ssa.Const:
				fs.root, fs.sel = "const", fs.desc
			case *ssa.UnOp:
				if ia, ok := x.X.(*ssa.IndexAddr); ok && x.Op == token.MUL {
					srcs := pv.Sources(ia.X)
					if len(srcs) == 1 && len(srcs[0].Path) > 0 {
						fs.root = fmt.Sprintf("%s@%p", srcs[0].Kind, srcs[0].V)
						fs.sel = srcs[0].Path[len(srcs[0].Path)-1]
						fs.idx = ia.Index
					}
				} else if x.Op == token.MUL {
					srcs := pv.Sources(x)
					if len(srcs) == 1 && len(srcs[0].Path) > 0 {
						fs.root = fmt.Sprintf("%s@%p", srcs[0].Kind, srcs[0].V)
						fs.sel = srcs[0].Path[len(srcs[0].Path)-1]
					}
				}
			default:
				srcs := pv.Sources(d)
				if len(srcs) == 1 && len(srcs[0].Path) > 0 {
					fs.root = fmt.Sprintf("%s@%p", srcs[0].Kind, srcs[0].V)
					p := srcs[0].Path
					fs.sel = p[len(p)-1]
					if fs.sel == "[]" && len(p) >= 2 {
						fs.sel = p[len(p)-2]
						// range value: index identity unknown, use the root as index token
					}
				}
			}
			out = append(out, fs)
		}
	}
	return out
}

func runR83(c *core.Ctx) {
	pv := &ssax.Prov{}
	// (a) orchestrators
	for _, ctor := range inScopeCtors {
		role, err := resolveOrca(c, ctor)
		if err != nil {
			c.Undecided("R8.3", "orcas."+ctor, "-", err.Error())
			continue
		}
		for _, m := range orcaMethods(c) {
			fn := c.P.Method(role.Impl, m)
			if fn == nil || len(fn.Blocks) == 0 {
				continue
			}
			tcs := tierCalls(fn, role)
			counts := map[string]int{}
			for _, tc := range tcs {
				if tc.Tier != "res" || len(tc.Call.Args) == 0 {
					continue
				}
				key := ordinalKey(counts, core.FuncName(fn)+"#res."+tc.Method)
				pos := c.P.Pos(tc.Ins.Pos())
				arg := tc.Call.Args[0]
				var srcs []ssax.Src
				isStruct := hasField(arg.Type(), "Opaque")
				if isStruct {
					srcs = pv.Sources(arg, "Opaque")
				} else {
					srcs = pv.Sources(arg)
				}
				var bad []string
				for _, s := range srcs {
					ok := false
					switch {
					case s.Kind == "param" && paramIndex(s.V.(*ssa.Parameter)) == 1 && (s.PathIs("Opaque") || s.PathIs("NoopOpaque")):
						ok = true
					case s.Kind == "recv" && s.PathIs("Opaque"):
						// a response received from a handler of this orchestrator
						ok = chanFromAnyTier(pv, s.V, tcs)
					case s.Kind == "call" && s.PathIs("Opaque"):
						for _, t2 := range tcs {
							if t2.Call == s.Call && (t2.Tier == "l1" || t2.Tier == "l2") {
								ok = true
							}
						}
					case s.Kind == "call" && s.Call.IsInvoke() && s.Call.Method.Name() == "GetOpaque":
						ok = true
					case s.Kind == "const" && m == "Error":
						ok = true // no request could be parsed: opaque 0
					case s.Kind == "zero" && m == "Error":
						ok = true
					}
					if !ok {
						bad = append(bad, s.String())
					}
				}
				if len(srcs) == 0 {
					bad = append(bad, "no source")
				}
				c.Check(len(bad) == 0, "R8.3", key, pos, "opaque <- "+strings.Join(ssax.Strings(srcs), ","),
					"the reply's opaque does not come from the request it answers: "+strings.Join(bad, ","))
			}
		}
	}
	// (b) handler response literals
	for _, rel := range []string{"handlers/memcached/std", "handlers/memcached/chunked", "handlers/memcached/batched", "handlers/memcached/cluster", "handlers/inmem"} {
		for _, fn := range pkgFuncs(c, rel) {
			counts := map[string]int{}
			ssax.Instrs(fn, func(ins ssa.Instruction) {
				al, ok := ins.(*ssa.Alloc)
				if !ok {
					return
				}
				tn := ssax.ShortType(al.Type())
				if tn != "*common.GetResponse" && tn != "*common.GetEResponse" {
					return
				}
				ks, os, qs := selOf(pv, al, "Key"), selOf(pv, al, "Opaque"), selOf(pv, al, "Quiet")
				if len(ks) == 0 && len(os) == 0 {
					return // not a literal (copy of a value)
				}
				key := ordinalKey(counts, core.FuncName(fn)+"#literal:"+strings.TrimPrefix(tn, "*common."))
				var bad []string
				if len(ks) != 1 || len(os) != 1 {
					bad = append(bad, fmt.Sprintf("Key has %d sources, Opaque %d", len(ks), len(os)))
				} else {
					k, o := ks[0], os[0]
					sameRoot := k.root != "" && k.root == o.root
					pair := map[string]string{"Keys": "Opaques", "Key": "Opaque", "key": "opaque"}
					if !sameRoot || pair[k.sel] != o.sel {
						bad = append(bad, fmt.Sprintf("Key <- %s but Opaque <- %s: key and opaque do not come from the same request entry", k.desc, o.desc))
					} else if k.sel == "Keys" && k.idx != nil && o.idx != nil && k.idx != o.idx {
						bad = append(bad, "Key and Opaque are taken at different indices of the request")
					}
					for _, q := range qs {
						if q.root == "const" {
							continue
						}
						qpair := map[string]string{"Keys": "Quiet", "Key": "Quiet", "key": "quiet"}
						if q.root != k.root || qpair[k.sel] != q.sel || (k.idx != nil && q.idx != nil && q.idx != k.idx) {
							bad = append(bad, fmt.Sprintf("Quiet <- %s does not belong to the same request entry as the key", q.desc))
						}
					}
				}
				c.Check(len(bad) == 0, "R8.3", key, c.P.Pos(al.Pos()), "key, opaque and quiet flag come from the same entry of the request", strings.Join(bad, "; "))
			})
		}
	}
	// (c) binary responder headers
	for _, hw := range []string{"writeSuccessResponseHeader", "writeErrorResponseHeader"} {
		role := roleSuccessHeaderWriter
		if hw == "writeErrorResponseHeader" {
			role = roleErrorHeaderWriter
		}
		fn := findFunc(c, "protocol/binprot", hw, role)
		if fn == nil {
			c.Undecided("R8.3", "binprot."+hw, "-", "header writer not found")
			continue
		}
		oi := headerParam(fn, "OpaqueToken")
		if oi < 0 {
			c.Undecided("R8.3", "binprot."+hw+"#opaque-param", c.P.Pos(fn.Pos()), "no parameter flows into the header's opaque")
			continue
		}
		for _, caller := range pkgFuncs(c, "protocol/binprot") {
			counts := map[string]int{}
			ssax.Instrs(caller, func(ins ssa.Instruction) {
				cc := ssax.CallOf(ins)
				if cc == nil || cc.StaticCallee() != fn {
					return
				}
				key := ordinalKey(counts, core.FuncName(caller)+"#"+hw)
				srcs := pv.Sources(cc.Args[oi])
				good := ssax.All(srcs, func(s ssax.Src) bool {
					return s.Kind == "param" && s.V.Parent() == caller && (len(s.Path) == 0 || s.PathIs("Opaque"))
				})
				c.Check(good, "R8.3", key, c.P.Pos(ins.Pos()), "header opaque <- "+strings.Join(ssax.Strings(srcs), ","),
					"a reply header is written with opaque "+strings.Join(ssax.Strings(srcs), ",")+" instead of the opaque of the request being answered: the client cannot attribute the packet")
			})
		}
	}
}

func chanFromAnyTier(pv *ssax.Prov, ch ssa.Value, tcs []tierCall) bool {
	ok := false
	for _, s := range pv.Sources(ch) {
		switch {
		case s.Kind == "const" && ssax.IsNilConst(s.V):
		case s.Kind == "call" && s.Res == 0:
			match := false
			for _, tc := range tcs {
				if tc.Call == s.Call && (tc.Tier == "l1" || tc.Tier == "l2") {
					match = true
				}
			}
			if !match {
				return false
			}
			ok = true
		default:
			return false
		}
	}
	return ok
}

// headerParam: index of the parameter of a header-building function that is stored into header field name.
func headerParam(fn *ssa.Function, field string) int {
	idx := -1
	ssax.Instrs(fn, func(ins ssa.Instruction) {
		st, ok := ins.(*ssa.Store)
		if !ok {
			return
		}
		if n, ok := ssax.FieldName(st.Addr); ok && n == field {
			if p, ok := ssax.Unwrap(st.Val).(*ssa.Parameter); ok {
				idx = paramIndex(p)
			}
		}
	})
	return idx
}

// ---------------------------------------------------------------- R8.4

func writeSize(cc *ssa.CallCommon) (ssax.Lin, bool) {
	ev := &ssax.SymEval{}
	switch ssax.CalleeName(cc) {
	case "(*bufio.Writer).Write":
		arg := cc.Args[1]
		if n, ok := sliceConstLen(arg); ok {
			return ssax.NewLin(n), true
		}
		srcs := (&ssax.Prov{}).Sources(arg)
		names := ssax.Strings(srcs)
		return ssax.Sym("len(" + strings.Join(names, ",") + ")"), true
	case "(*bufio.Writer).WriteString":
		if s, ok := ssax.ConstString(cc.Args[1]); ok {
			return ssax.NewLin(int64(len(s))), true
		}
		return ev.Eval(cc.Args[1]), false
	case "encoding/binary.Write":
		v := cc.Args[2]
		if mi, ok := v.(*ssa.MakeInterface); ok {
			if n, ok := encodedSize(mi.X.Type()); ok {
				return ssax.NewLin(n), true
			}
		}
	}
	return ssax.Lin{}, false
}

// runR84err: the error frame. The function that writes an error reply's header stores constant lengths into the header
// itself; they must equal what it writes after the header before flushing (nothing: an error reply has no body here).
func runR84err(c *core.Ctx) {
	ew := findFunc(c, "protocol/binprot", "writeErrorResponseHeader", roleErrorHeaderWriter)
	key := "binprot.writeErrorResponseHeader#frame"
	if ew == nil {
		c.Undecided("R8.4", key, "-", "error header writer not found")
		return
	}
	declared := map[string]int64{}
	unknown := ""
	written := int64(0)
	ssax.Instrs(ew, func(ins ssa.Instruction) {
		if st, ok := ins.(*ssa.Store); ok {
			if f, ok := ssax.FieldName(st.Addr); ok && (f == "TotalBodyLength" || f == "KeyLength" || f == "ExtraLength") {
				if k, isK := ssax.ConstInt(st.Val); isK {
					declared[f] = k
				} else {
					unknown = f + " is not a constant"
				}
			}
		}
		if cc := ssax.CallOf(ins); cc != nil {
			if sz, ok := writeSize(cc); ok {
				if sz.IsConst() {
					written += sz.Const
				} else {
					unknown = "a write of variable size at " + c.P.Pos(ins.Pos())
				}
			}
		}
	})
	switch {
	case unknown != "":
		c.Undecided("R8.4", key, c.P.Pos(ew.Pos()), unknown)
	case len(declared) < 3:
		c.Undecided("R8.4", key, c.P.Pos(ew.Pos()), "the header's length fields are not all stored here")
	default:
		ok := declared["TotalBodyLength"] == written && declared["KeyLength"] == 0 && declared["ExtraLength"] == 0
		c.Check(ok, "R8.4", key, c.P.Pos(ew.Pos()), fmt.Sprintf("declares total body %d, writes %d bytes after the header", declared["TotalBodyLength"], written),
			fmt.Sprintf("the error reply declares total body %d, key %d, extras %d but %d bytes follow the header: the client waits for body bytes that never come (or reads the next reply as this one's body)", declared["TotalBodyLength"], declared["KeyLength"], declared["ExtraLength"], written))
	}
}

func runR84(c *core.Ctx) {
	runR84err(c)
	hw := findFunc(c, "protocol/binprot", "writeSuccessResponseHeader", roleSuccessHeaderWriter)
	if hw == nil {
		c.Undecided("R8.4", "binprot.writeSuccessResponseHeader", "-", "header writer not found")
		return
	}
	ki, ei, ti := headerParam(hw, "KeyLength"), headerParam(hw, "ExtraLength"), headerParam(hw, "TotalBodyLength")
	if ki < 0 || ei < 0 || ti < 0 {
		c.Undecided("R8.4", "binprot.writeSuccessResponseHeader#length-params", c.P.Pos(hw.Pos()), "cannot tell which parameters are the declared lengths")
		return
	}
	for _, fn := range pkgFuncs(c, "protocol/binprot") {
		if fn == hw {
			continue
		}
		counts := map[string]int{}
		ssax.Instrs(fn, func(ins ssa.Instruction) {
			cc := ssax.CallOf(ins)
			if cc == nil || cc.StaticCallee() != hw {
				return
			}
			ev := &ssax.SymEval{}
			total, extra, klen := ev.Eval(cc.Args[ti]), ev.Eval(cc.Args[ei]), ev.Eval(cc.Args[ki])
			key := ordinalKey(counts, core.FuncName(fn)+"#frame")
			pos := c.P.Pos(ins.Pos())
			// walk forward along the success path, summing writes until a flush, another header or a return
			sum := ssax.NewLin(0)
			constPrefix := int64(0)
			sawVar := false
			b, i := ins.Block(), ssax.IndexIn(ins)+1
			steps := 0
			undecided := ""
		walk:
			for steps < 200 {
				steps++
				for ; i < len(b.Instrs); i++ {
					x := b.Instrs[i]
					xc := ssax.CallOf(x)
					if xc != nil {
						n := ssax.CalleeName(xc)
						if n == "(*bufio.Writer).Flush" || xc.StaticCallee() == hw {
							break walk
						}
						if sz, ok := writeSize(xc); ok {
							sum = sum.Add(sz)
							if sz.IsConst() && !sawVar {
								constPrefix += sz.Const
							} else {
								sawVar = true
							}
						} else if strings.HasPrefix(n, "(*bufio.Writer).Write") || n == "encoding/binary.Write" {
							undecided = "a write of unknown size at " + c.P.Pos(x.Pos())
							break walk
						}
					}
					if _, isRet := x.(*ssa.Return); isRet {
						break walk
					}
				}
				// next block on the success path
				switch len(b.Succs) {
				case 1:
					b, i = b.Succs[0], 0
				case 2:
					// follow the edge on which the tested error is nil
					ifi := b.Instrs[len(b.Instrs)-1].(*ssa.If)
					bo, ok := ifi.Cond.(*ssa.BinOp)
					if !ok || !(ssax.IsNilConst(bo.X) || ssax.IsNilConst(bo.Y)) {
						undecided = "branch on something other than an error at " + c.P.Pos(ifi.Pos())
						break walk
					}
					if bo.Op == token.NEQ {
						b, i = b.Succs[1], 0
					} else {
						b, i = b.Succs[0], 0
					}
				default:
					break walk
				}
			}
			if undecided != "" {
				c.Undecided("R8.4", key, pos, undecided)
				return
			}
			var bad []string
			if !sum.Equal(total) {
				bad = append(bad, fmt.Sprintf("declared total body length %s but %s bytes are written", total.String(), sum.String()))
			}
			if extra.IsConst() && klen.IsConst() {
				if sawVar && extra.Const+klen.Const != constPrefix {
					bad = append(bad, fmt.Sprintf("declared extras %d + key %d but %d fixed bytes precede the value", extra.Const, klen.Const, constPrefix))
				}
				if !sawVar && extra.Const+klen.Const > constPrefix {
					bad = append(bad, fmt.Sprintf("declared extras %d + key %d exceed the %d bytes written", extra.Const, klen.Const, constPrefix))
				}
			}
			c.Check(len(bad) == 0, "R8.4", key, pos, fmt.Sprintf("total %s = bytes written; extras %s, key %s", total.String(), extra.String(), klen.String()), strings.Join(bad, "; "))
		})
	}
}

// ---------------------------------------------------------------- R8.5

type flushState struct {
	f     ssax.Facts
	dirty bool
}

func (s *flushState) Key() string       { return fmt.Sprintf("%v/%s", s.dirty, s.f.Key()) }
func (s *flushState) Copy() ssax.PState { return &flushState{s.f.Clone(), s.dirty} }

// flushSummary explores fn with the given constant boolean arguments bound and returns the set of dirty flags at
// exits whose error result may be nil, starting clean or dirty.
func flushSummary(c *core.Ctx, fn *ssa.Function, bools map[*ssa.Parameter]bool, startDirty bool, depth int, memo map[string][]bool) []bool {
	var bk []string
	for p, v := range bools {
		bk = append(bk, fmt.Sprintf("%s=%v", p.Name(), v))
	}
	sort.Strings(bk)
	mk := fmt.Sprintf("%p|%v|%s", fn, startDirty, strings.Join(bk, ","))
	if r, ok := memo[mk]; ok {
		return r
	}
	memo[mk] = []bool{startDirty}
	out := map[bool]bool{}
	init := &flushState{f: ssax.Facts{}, dirty: startDirty}
	for p, v := range bools {
		if v {
			init.f.Set(p, ssax.Fact{Bool: ssax.Yes})
		} else {
			init.f.Set(p, ssax.Fact{Bool: ssax.No})
		}
	}
	ex := &ssax.Explorer{Fn: fn}
	ex.Enter = func(b, pred *ssa.BasicBlock, ps ssax.PState) { ps.(*flushState).f.EnterBlock(b, pred) }
	ex.Instr = func(ins ssa.Instruction, ps ssax.PState) bool {
		s := ps.(*flushState)
		if cc := ssax.CallOf(ins); cc != nil {
			if _, isDefer := ins.(*ssa.Defer); !isDefer {
				name := ssax.CalleeName(cc)
				switch {
				case name == "(*bufio.Writer).Flush":
					s.dirty = false
				case strings.HasPrefix(name, "(*bufio.Writer).Write") || name == "fmt.Fprintf" || name == "encoding/binary.Write":
					s.dirty = true
				default:
					callee := cc.StaticCallee()
					if callee == nil && cc.IsInvoke() {
						// helpers take the client's buffered writer as an io.Writer
						if strings.HasPrefix(cc.Method.Name(), "Write") && strings.HasPrefix(types.TypeString(cc.Value.Type(), nil), "io.") {
							s.dirty = true
						}
						break
					}
					if callee != nil && len(callee.Blocks) > 0 && depth < 4 && callee.Pkg != nil && strings.HasPrefix(callee.Pkg.Pkg.Path(), core.Mod+"/protocol") {
						sub := map[*ssa.Parameter]bool{}
						for i, p := range callee.Params {
							if i < len(cc.Args) && types.TypeString(p.Type(), nil) == "bool" {
								if f := s.f.Eval(cc.Args[i]); f.Bool != ssax.Unknown {
									sub[p] = f.Bool == ssax.Yes
								}
							}
						}
						res := flushSummary(c, callee, sub, s.dirty, depth+1, memo)
						// pessimistic: dirty if any nil-error exit of the callee is dirty
						d := false
						for _, x := range res {
							if x {
								d = true
							}
						}
						s.dirty = d
					}
				}
			}
		}
		s.f.Step(ins)
		return true
	}
	ex.Branch = func(ifi *ssa.If, truth bool, ps ssax.PState) bool { return ps.(*flushState).f.Assume(ifi.Cond, truth) }
	ex.Exit = func(ins ssa.Instruction, ps ssax.PState) {
		s := ps.(*flushState)
		ret, ok := ins.(*ssa.Return)
		if !ok {
			return
		}
		if n := len(ret.Results); n > 0 {
			last := ret.Results[n-1]
			if types.TypeString(last.Type(), nil) == "error" && (s.f.Eval(last).Nil == ssax.No || ssax.SentinelOf(last) != "") {
				return // the reply failed: the connection is closed by the loop
			}
		}
		out[s.dirty] = true
	}
	ex.Run(init)
	var res []bool
	for k := range out {
		res = append(res, k)
	}
	if ex.Exceeded {
		res = []bool{true}
	}
	memo[mk] = res
	return res
}

func runR85(c *core.Ctx) {
	ri := c.P.Iface("protocol", "Responder")
	if ri == nil {
		c.Undecided("R8.5", "protocol.Responder", "-", "interface not found")
		return
	}
	memo := map[string][]bool{}
	for _, impl := range c.P.Implementers(ri) {
		if !strings.HasPrefix(impl.Pkg.Pkg.Path(), core.Mod+"/protocol") {
			continue
		}
		for i := 0; i < ri.NumMethods(); i++ {
			m := ri.Method(i).Name()
			fn := c.P.Method(impl, m)
			if fn == nil || len(fn.Blocks) == 0 || panicsUnconditionally(fn) {
				continue
			}
			key := ssax.ShortType(impl.Named) + "." + m + "#flush"
			res := flushSummary(c, fn, nil, false, 0, memo)
			dirty := false
			for _, d := range res {
				if d {
					dirty = true
				}
			}
			c.Check(!dirty, "R8.5", key, c.P.Pos(fn.Pos()), "every successful path that writes ends flushed",
				"the method can return successfully with bytes of the reply still in the write buffer: the client waits for a reply that was never sent")
		}
	}
}

// ---------------------------------------------------------------- R8.7

func runR87(c *core.Ctx) {
	pv := &ssax.Prov{}
	for _, ctor := range inScopeCtors {
		role, err := resolveOrca(c, ctor)
		if err != nil {
			continue
		}
		fn := c.P.Method(role.Impl, "Error")
		if fn == nil {
			c.Undecided("R8.7", "orcas."+ctor+".Error", "-", "method not found")
			continue
		}
		key := core.FuncName(fn) + "#attribution"
		n := 0
		var bad []string
		for _, tc := range tierCalls(fn, role) {
			if tc.Tier != "res" || tc.Method != "Error" || len(tc.Call.Args) != 4 {
				continue
			}
			n++
			req := fn.Params[1]
			fromReq := func(method string) func(s ssax.Src) bool {
				return func(s ssax.Src) bool {
					if s.Kind == "zero" || s.Kind == "const" {
						return true // request unknown (parse failure)
					}
					return s.Kind == "call" && s.Call.IsInvoke() && s.Call.Method.Name() == method && s.Call.Value == ssa.Value(req)
				}
			}
			if !ssax.All(pv.Sources(tc.Call.Args[0]), fromReq("GetOpaque")) || !ssax.Any(pv.Sources(tc.Call.Args[0]), func(s ssax.Src) bool { return s.Kind == "call" }) {
				bad = append(bad, "opaque <- "+strings.Join(ssax.Strings(pv.Sources(tc.Call.Args[0])), ","))
			}
			if !ssax.All(pv.Sources(tc.Call.Args[3]), fromReq("IsQuiet")) || !ssax.Any(pv.Sources(tc.Call.Args[3]), func(s ssax.Src) bool { return s.Kind == "call" }) {
				bad = append(bad, "quiet <- "+strings.Join(ssax.Strings(pv.Sources(tc.Call.Args[3])), ","))
			}
			if ssax.Unwrap(tc.Call.Args[1]) != ssa.Value(fn.Params[2]) {
				bad = append(bad, "request type is not the one given")
			}
			if ssax.Unwrap(tc.Call.Args[2]) != ssa.Value(fn.Params[3]) {
				bad = append(bad, "error is not the one given")
			}
		}
		if n == 0 {
			bad = append(bad, "Error never reaches the responder")
		}
		c.Check(len(bad) == 0, "R8.7", key, c.P.Pos(fn.Pos()), "opaque and quiet flag of the failing request, given type and error are passed to the responder", strings.Join(bad, "; "))
	}
	// the loop
	rows, loop, parse, err := loopTable(c)
	_ = rows
	if err != nil {
		c.Undecided("R8.7", "server.Loop#error-attribution", "-", err.Error())
		return
	}
	var req, rt ssa.Value
	for _, r := range *parse.Referrers() {
		if ex, ok := r.(*ssa.Extract); ok {
			if ex.Index == 0 {
				req = ex
			} else if ex.Index == 1 {
				rt = ex
			}
		}
	}
	var bad []string
	n := 0
	ssax.Instrs(loop, func(ins ssa.Instruction) {
		cc := ssax.CallOf(ins)
		if cc == nil || !cc.IsInvoke() || cc.Method.Name() != "Error" || types.TypeString(cc.Value.Type(), nil) != tOrca {
			return
		}
		// the call after a command failed (not the parse-error one, which has no request)
		if ssax.IsNilConst(cc.Args[0]) {
			return
		}
		n++
		if cc.Args[0] != req || cc.Args[1] != rt {
			bad = append(bad, "the error reply is not attributed to the request just parsed")
		}
		// the error: a phi over the orchestrator calls' results
		for _, s := range pv.Sources(cc.Args[2]) {
			if !(s.Kind == "call" && s.Call.IsInvoke() && types.TypeString(s.Call.Value.Type(), nil) == tOrca) && !(s.Kind == "call" && s.Res == 3) {
				bad = append(bad, "error <- "+s.String())
			}
		}
	})
	if n == 0 {
		bad = append(bad, "no error reply for failed commands")
	}
	c.Check(len(bad) == 0, "R8.7", "server.(*DefaultServer).Loop#error-attribution", c.P.Pos(loop.Pos()), "the failing request, its type and the orchestrator's error are passed on", strings.Join(uniq(bad), "; "))
}

// ---------------------------------------------------------------- R8.11

type muteState struct{ m string }

func (s *muteState) Key() string       { return s.m }
func (s *muteState) Copy() ssax.PState { c := *s; return &c }

// runR811: the flag that mutes the terminator belongs to one get. The muting responder lives as long as the connection,
// so a wrapped Get/GetE that runs without the flag having been assigned in the same call sees whatever the previous
// request left behind. Either every wrapped get is preceded, on every path, by an assignment of the flag, or every
// exit of every method that assigns it leaves it clear. Otherwise an earlier multi-key get that ended early (error on
// a key that was not the last) swallows the terminator of a later get: no END, no no-op reply.
func runR811(c *core.Ctx) {
	c.Rule("R8.11", "the terminator-muting flag is per get: every get handed to the wrapped orchestrator is preceded by an assignment of the flag in the same call, or no method of the wrapper can return with the flag still set", 2)
	ri := c.P.Iface("protocol", "Responder")
	if ri == nil {
		c.Undecided("R8.11", "protocol.Responder", "-", "interface not found")
		return
	}
	var mutedType *types.Named
	field := ""
	for _, impl := range c.P.Implementers(ri) {
		fn := c.P.Method(impl, "GetEnd")
		if fn == nil || len(fn.Blocks) == 0 {
			continue
		}
		if cls := classifyGetEnd(fn); strings.HasPrefix(cls, "forwards-unless:") {
			mutedType, field = impl.Named, strings.TrimPrefix(cls, "forwards-unless:")
		}
	}
	if mutedType == nil {
		c.Info("R8.11", "orcas#muting-responder", "-", "no responder forwards GetEnd under a flag: nothing to decide (see R8.2)")
		// keep the rule non-vacuous only while the idiom exists
		c.OK("R8.11", "orcas#no-muting-flag", "-", "no muting flag exists")
		c.OK("R8.11", "orcas#no-muting-flag-2", "-", "no muting flag exists")
		return
	}
	isMuteStore := func(ins ssa.Instruction) (*ssa.Store, bool) {
		st, ok := ins.(*ssa.Store)
		if !ok {
			return nil, false
		}
		fa, ok := st.Addr.(*ssa.FieldAddr)
		if !ok {
			return nil, false
		}
		if n, _ := ssax.FieldName(fa); n != field {
			return nil, false
		}
		if namedOf(fa.X.Type()) != mutedType {
			return nil, false
		}
		return st, true
	}
	// exits that can leave the flag set, per function that assigns it
	var leaves []string
	type relying struct {
		fn  *ssa.Function
		ins ssa.Instruction
		key string
	}
	var calls []relying
	defined := map[ssa.Instruction]bool{}
	for _, fn := range pkgFuncs(c, "orcas") {
		if fn.Signature.Recv() == nil || fn.Parent() != nil {
			continue
		}
		stores := false
		ssax.Instrs(fn, func(ins ssa.Instruction) {
			if _, ok := isMuteStore(ins); ok {
				stores = true
			}
		})
		if stores {
			ex := &ssax.Explorer{Fn: fn}
			ex.Instr = func(ins ssa.Instruction, ps ssax.PState) bool {
				if st, ok := isMuteStore(ins); ok {
					s := ps.(*muteState)
					if k, isC := ssax.ConstInt(st.Val); isC {
						if k != 0 {
							s.m = "T"
						} else {
							s.m = "F"
						}
					} else {
						s.m = "X"
					}
				}
				return true
			}
			ex.Exit = func(ins ssa.Instruction, ps ssax.PState) {
				if _, isRet := ins.(*ssa.Return); !isRet {
					return
				}
				if m := ps.(*muteState).m; m == "T" || m == "X" {
					leaves = append(leaves, core.FuncName(fn)+" can return at "+c.P.Pos(ins.Pos())+" with the flag set")
				}
			}
			ex.Run(&muteState{m: "U"})
		}
		counts := map[string]int{}
		ssax.Instrs(fn, func(ins ssa.Instruction) {
			cc := ssax.CallOf(ins)
			if cc == nil || !cc.IsInvoke() || types.TypeString(cc.Value.Type(), nil) != tOrca || (cc.Method.Name() != "Get" && cc.Method.Name() != "GetE") {
				return
			}
			// only wrappers that hold the muting responder
			holds := false
			if n := namedOf(fn.Signature.Recv().Type()); n != nil {
				if st, ok := n.Underlying().(*types.Struct); ok {
					for i := 0; i < st.NumFields(); i++ {
						if namedOf(st.Field(i).Type()) == mutedType {
							holds = true
						}
					}
				}
			}
			if !holds {
				return
			}
			key := ordinalKey(counts, core.FuncName(fn)+"#wrapped-"+cc.Method.Name())
			hit, _ := (ssax.Reach{
				Target: func(i ssa.Instruction) bool { return i == ins },
				Avoid:  func(i ssa.Instruction) bool { _, ok := isMuteStore(i); return ok },
			}).FromBlock(fn.Blocks[0])
			defined[ins] = hit == nil
			calls = append(calls, relying{fn, ins, key})
		})
	}
	leaves = uniq(leaves)
	sort.Strings(leaves)
	for _, r := range calls {
		pos := c.P.Pos(r.ins.Pos())
		switch {
		case defined[r.ins]:
			c.OK("R8.11", r.key, pos, "the flag is assigned on every path before this get is handed on")
		case len(leaves) == 0:
			c.OK("R8.11", r.key, pos, "runs with the flag as left by earlier requests; every return of every method that assigns the flag leaves it clear")
		default:
			c.Violate("R8.11", r.key, pos, "this get is handed to the wrapped orchestrator without the muting flag having been assigned in this call, and "+strings.Join(leaves, "; ")+": after a multi-key get that ended early, this get's terminator (END / the no-op reply) is swallowed")
		}
	}
	if len(calls) == 0 {
		c.Undecided("R8.11", "orcas#wrapped-gets", "-", "no get handed to a wrapped orchestrator by a wrapper holding the muting responder")
	}
}

// ---------------------------------------------------------------- R8.14

// runR814: the body of a binary get reply is extras then value, and the extras are flags first and - for gete, rend's
// extension - the expiry second: the order in which std.GetLocal and the pool reader read them back. For every binary
// responder function that answers with a GetResponse / GetEResponse, the ordered list of fields it writes after the
// header is [Flags, Data] resp. [Flags, Exptime, Data].
func runR814(c *core.Ctx) {
	c.Rule("R8.14", "a binary get reply carries flags, then (gete) the expiry, then the value - the order in which clients and rend's own backend readers decode it", 2)
	pv := &ssax.Prov{}
	n := 0
	for _, fn := range pkgFuncs(c, "protocol/binprot") {
		var resp *ssa.Parameter
		for _, p := range fn.Params {
			t := ssax.ShortType(p.Type())
			if strings.HasSuffix(t, "common.GetResponse") || strings.HasSuffix(t, "common.GetEResponse") {
				resp = p
			}
		}
		if resp == nil {
			continue
		}
		fieldOf := func(v ssa.Value) string {
			if mi, ok := v.(*ssa.MakeInterface); ok {
				v = mi.X
			}
			for _, s := range pv.Sources(v) {
				if s.Kind == "param" && s.V == ssa.Value(resp) && len(s.Path) == 1 {
					return s.Path[0]
				}
			}
			return ""
		}
		// local byte buffers filled with one field through PutUintNN
		filled := map[ssa.Value]string{}
		type item struct {
			pos   token.Pos
			field string
		}
		var seq []item
		ssax.Instrs(fn, func(ins ssa.Instruction) {
			cc := ssax.CallOf(ins)
			if cc == nil {
				return
			}
			name := ssax.CalleeName(cc)
			switch {
			case strings.HasPrefix(name, "(encoding/binary.bigEndian).PutUint"), strings.HasPrefix(name, "(encoding/binary.littleEndian).PutUint"):
				if f := fieldOf(cc.Args[len(cc.Args)-1]); f != "" {
					for _, d := range ssax.Defs(cc.Args[len(cc.Args)-2]) {
						filled[ssax.Unwrap(d)] = f
					}
					filled[ssax.Unwrap(cc.Args[len(cc.Args)-2])] = f
				}
			case name == "encoding/binary.Write":
				if f := fieldOf(cc.Args[2]); f != "" {
					seq = append(seq, item{ins.Pos(), f})
				}
			case name == "(*bufio.Writer).Write":
				buf := cc.Args[1]
				if f, ok := filled[ssax.Unwrap(buf)]; ok {
					seq = append(seq, item{ins.Pos(), f})
				} else if f := fieldOf(buf); f != "" {
					seq = append(seq, item{ins.Pos(), f})
				} else {
					for _, d := range ssax.Defs(buf) {
						if f, ok := filled[ssax.Unwrap(d)]; ok {
							seq = append(seq, item{ins.Pos(), f})
						}
					}
				}
			}
		})
		if len(seq) == 0 {
			continue
		}
		sort.Slice(seq, func(i, j int) bool { return seq[i].pos < seq[j].pos })
		var got []string
		for _, it := range seq {
			got = append(got, it.field)
		}
		want := []string{"Flags", "Data"}
		if strings.HasSuffix(ssax.ShortType(resp.Type()), "GetEResponse") {
			want = []string{"Flags", "Exptime", "Data"}
		}
		n++
		key := core.FuncName(fn) + "#body-order"
		c.Check(strings.Join(got, ",") == strings.Join(want, ","), "R8.14", key, c.P.Pos(fn.Pos()), "writes "+strings.Join(got, ", "),
			"the reply body is written as "+strings.Join(got, ", ")+" where the protocol (and every reader in this repository) expects "+strings.Join(want, ", ")+": the client decodes the expiry as flags / the value is shifted")
	}
	if n == 0 {
		c.Undecided("R8.14", "binprot#get-reply-bodies", "-", "no binary responder function writing a get response found")
	}
}

// ---------------------------------------------------------------- R8.15

// runR815: a text value reply is a complete frame: the VALUE line, the data block, and the \r\n that ends the block, in
// that order, before the flush. The ordered list of what TextResponder.Get writes after the hit test must be
// [format "VALUE %s %d %d\r\n", response.Data, "\r\n"].
func runR815(c *core.Ctx) {
	c.Rule("R8.15", "a text value reply is a complete frame: VALUE line, data block, terminating \\r\\n, in that order", 1)
	ri := c.P.Iface("protocol", "Responder")
	if ri == nil {
		c.Undecided("R8.15", "protocol.Responder", "-", "interface not found")
		return
	}
	pv := &ssax.Prov{}
	n := 0
	for _, impl := range c.P.Implementers(ri) {
		if impl.Named.Obj().Pkg() == nil || !strings.HasSuffix(impl.Named.Obj().Pkg().Path(), "protocol/textprot") {
			continue
		}
		fn := c.P.Method(impl, "Get")
		if fn == nil || len(fn.Blocks) == 0 {
			continue
		}
		n++
		type item struct {
			pos  token.Pos
			what string
		}
		var seq []item
		ssax.Instrs(fn, func(ins ssa.Instruction) {
			cc := ssax.CallOf(ins)
			if cc == nil {
				return
			}
			switch ssax.CalleeName(cc) {
			case "fmt.Fprintf":
				if f, ok := ssax.ConstString(cc.Args[1]); ok {
					seq = append(seq, item{ins.Pos(), "format:" + f})
				} else {
					seq = append(seq, item{ins.Pos(), "format:?"})
				}
			case "(*bufio.Writer).WriteString":
				if s, ok := ssax.ConstString(cc.Args[1]); ok {
					seq = append(seq, item{ins.Pos(), "string:" + s})
				} else {
					seq = append(seq, item{ins.Pos(), "string:?"})
				}
			case "(*bufio.Writer).Write":
				what := "bytes:?"
				for _, s := range pv.Sources(cc.Args[1]) {
					if s.Kind == "param" && len(s.Path) == 1 {
						what = "field:" + s.Path[0]
					} else if s.Kind == "const" {
						if str, ok := ssax.ConstString(s.V); ok {
							what = "string:" + str
						}
					}
				}
				seq = append(seq, item{ins.Pos(), what})
			}
		})
		sort.Slice(seq, func(i, j int) bool { return seq[i].pos < seq[j].pos })
		var got []string
		for _, it := range seq {
			got = append(got, it.what)
		}
		key := "textprot." + impl.Named.Obj().Name() + ".Get#value-frame"
		di := -1
		for i, g := range got {
			if g == "field:Data" {
				di = i
			}
		}
		text := func(s string) (string, bool) {
			for _, p := range []string{"format:", "string:"} {
				if strings.HasPrefix(s, p) {
					t := strings.TrimPrefix(s, p)
					return t, t != "?"
				}
			}
			return "", false
		}
		switch {
		case di < 0:
			c.Violate("R8.15", key, c.P.Pos(fn.Pos()), fmt.Sprintf("the hit is written as %q: the data block itself is never written", got))
		default:
			head, known := "", true
			for _, g := range got[:di] {
				t, ok := text(g)
				known = known && ok
				head += t
			}
			tail, tailKnown := "", di+1 < len(got)
			if tailKnown {
				tail, tailKnown = text(got[di+1])
			}
			switch {
			case !known || (di+1 < len(got) && !tailKnown):
				c.Undecided("R8.15", key, c.P.Pos(fn.Pos()), fmt.Sprintf("the frame is written as %q with parts that are not constant text: not decided", got))
			case !strings.HasPrefix(head, "VALUE ") || !strings.HasSuffix(head, "\r\n"):
				c.Violate("R8.15", key, c.P.Pos(fn.Pos()), fmt.Sprintf("before the data block the responder writes %q, not a VALUE line ending in \\r\\n", head))
			case !strings.HasPrefix(tail, "\r\n"):
				c.Violate("R8.15", key, c.P.Pos(fn.Pos()), fmt.Sprintf("the hit is written as %q: the data block is not followed by \\r\\n, so the client cannot tell where the value ends (it reads the next reply as data)", got))
			default:
				c.OK("R8.15", key, c.P.Pos(fn.Pos()), "VALUE line, data block, \\r\\n")
			}
		}
	}
	if n == 0 {
		c.Undecided("R8.15", "textprot#value-frame", "-", "no text responder found")
	}
}

// ---------------------------------------------------------------- R8.16

// runR816: every per-key response an orchestrator receives from a handler is dealt with before the next one is
// received: forwarded to the responder (as it is, or rebuilt), or - an L1 miss in a two-tier get - queued for the
// L2 request. "A get of n keys yields one value per hit plus one not-found per non-quiet miss": a response dropped
// on the floor is a key the client never hears about.
func runR816(c *core.Ctx) {
	c.Rule("R8.16", "every per-key response received from a handler is forwarded to the responder or queued for the next tier before the next one is received", 6)
	pv := &ssax.Prov{}
	n := 0
	for _, ctor := range []string{"L1Only", "L1L2", "L1L2Batch"} {
		role, err := resolveOrca(c, ctor)
		if err != nil {
			c.Undecided("R8.16", "orcas."+ctor, "-", err.Error())
			continue
		}
		for _, m := range []string{"Get", "GetE"} {
			fn := c.P.Method(role.Impl, m)
			if fn == nil || len(fn.Blocks) == 0 {
				continue
			}
			loops := ssax.Loops(fn)
			counts := map[string]int{}
			ssax.Instrs(fn, func(ins ssa.Instruction) {
				ex, ok := ins.(*ssa.Extract)
				if !ok || !strings.HasSuffix(types.TypeString(ex.Type(), nil), "Response") {
					return
				}
				var okIdx = -1
				switch t := ex.Tuple.(type) {
				case *ssa.Select:
					okIdx = 1
					_ = t
				case *ssa.UnOp:
					if t.Op == token.ARROW && t.CommaOk {
						okIdx = 1
					}
				}
				if okIdx < 0 {
					return
				}
				l := ssax.InnermostLoop(loops, ex.Block())
				if l == nil {
					return
				}
				n++
				key := ordinalKey(counts, core.FuncName(fn)+"#response-dealt-with")
				// the local cells the received value is spilled to
				cells := map[ssa.Value]bool{}
				if ex.Referrers() != nil {
					for _, r := range *ex.Referrers() {
						if st, isSt := r.(*ssa.Store); isSt && st.Val == ssa.Value(ex) {
							cells[st.Addr] = true
						}
					}
				}
				var derives func(v ssa.Value, d int) bool
				derives = func(v ssa.Value, d int) bool {
					if v == nil || d > 8 {
						return false
					}
					if v == ssa.Value(ex) || cells[v] {
						return true
					}
					switch x := v.(type) {
					case *ssa.UnOp:
						return derives(x.X, d+1)
					case *ssa.FieldAddr:
						return derives(x.X, d+1)
					case *ssa.Field:
						return derives(x.X, d+1)
					case *ssa.Slice:
						return derives(x.X, d+1)
					case *ssa.MakeInterface:
						return derives(x.X, d+1)
					case *ssa.Alloc:
						// a literal (or variadic array) some of whose parts derive from the response
						if x.Referrers() != nil {
							for _, r := range *x.Referrers() {
								switch a := r.(type) {
								case *ssa.FieldAddr:
									for _, st := range ssax.StoresTo(a) {
										if derives(st.Val, d+1) {
											return true
										}
									}
								case *ssa.IndexAddr:
									for _, st := range ssax.StoresTo(a) {
										if derives(st.Val, d+1) {
											return true
										}
									}
								}
							}
						}
					}
					return false
				}
				_ = pv
				consumes := func(i ssa.Instruction) bool {
					cc := ssax.CallOf(i)
					if cc == nil {
						return false
					}
					if cc.IsInvoke() && strings.HasSuffix(types.TypeString(cc.Value.Type(), nil), "protocol.Responder") {
						for _, a := range cc.Args {
							if derives(a, 0) {
								return true
							}
						}
					}
					if b, isB := cc.Value.(*ssa.Builtin); isB && b.Name() == "append" && len(cc.Args) == 2 {
						return derives(cc.Args[1], 0)
					}
					return false
				}
				hit, trail := (ssax.Reach{
					Target: func(i ssa.Instruction) bool { return i.Block() == l.Header && ssax.IndexIn(i) == 0 },
					Avoid:  consumes,
					Within: l.Blocks,
					AvoidEdge: func(from, to *ssa.BasicBlock) bool {
						ifi, isIf := from.Instrs[len(from.Instrs)-1].(*ssa.If)
						if !isIf {
							return false
						}
						// the "channel closed" side of the receive's own ok
						if okx, isEx := ifi.Cond.(*ssa.Extract); isEx && okx.Tuple == ex.Tuple && okx.Index == okIdx {
							return to == from.Succs[1]
						}
						return false
					},
				}).From(ex)
				c.Check(hit == nil, "R8.16", key, c.P.Pos(ex.Pos()), "forwarded to the responder or queued for the next tier on every path to the next receive",
					"a response received from a handler can reach the next receive without having been forwarded or queued ("+strings.Join(ssax.BlockTrail(c.P.Fset, trail), " -> ")+"): the client gets no value / no not-found for that key")
			})
		}
	}
	if n == 0 {
		c.Undecided("R8.16", "orcas#per-key-responses", "-", "no per-key response received in the in-scope orchestrators")
	}
}
