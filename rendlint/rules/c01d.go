package rules

import (
	"fmt"
	"strings"

	"golang.org/x/tools/go/ssa"

	"rendlint/core"
	"rendlint/ssax"
)

// runR121 (R1.21): the direct backend handler decodes a get reply the way the backend wrote it.
//
//	(a) std.GetLocal reads the extras in wire order - flags first, then (only when asked to) the expiry - and returns
//	    them in its flags / exp results;
//	(b) every caller asks for the expiry exactly when the request it just wrote was a gete (the only reply with 8 bytes
//	    of extras): reading it after a get/gat swallows the first four bytes of the value;
//	(c) every hit built from a GetLocal call takes Data, Flags (and Exptime) from that call's results in that order.
func runR121(c *core.Ctx, rule string) {
	gl := c.P.Func("handlers/memcached/std", "GetLocal")
	if gl == nil {
		c.Undecided(rule, "std.GetLocal#extras-order", "-", "anchor not found")
		return
	}
	pv := &ssax.Prov{}
	// ---- (a)
	{
		key := "std.GetLocal#extras-order"
		var readExp *ssa.Parameter
		for _, p := range gl.Params {
			if isBoolType(p.Type()) {
				readExp = p
			}
		}
		// the binary.Read calls that fill the local cell a returned value is loaded from
		srcCall := func(v ssa.Value) []*ssa.CallCommon {
			var out []*ssa.CallCommon
			cells := map[ssa.Value]bool{}
			for _, d := range ssax.Defs(v) {
				if u, ok := ssax.Unwrap(d).(*ssa.UnOp); ok {
					cells[u.X] = true
				}
				if al, ok := ssax.Unwrap(d).(*ssa.Alloc); ok {
					cells[al] = true
				}
			}
			if u, ok := ssax.Unwrap(v).(*ssa.UnOp); ok {
				cells[u.X] = true
			}
			ssax.Instrs(gl, func(ins ssa.Instruction) {
				cc := ssax.CallOf(ins)
				if cc == nil || !strings.HasSuffix(ssax.CalleeName(cc), "binary.Read") || len(cc.Args) < 3 {
					return
				}
				dst := cc.Args[2]
				if mi, ok := dst.(*ssa.MakeInterface); ok {
					dst = mi.X
				}
				if cells[dst] {
					out = append(out, cc)
				}
			})
			return out
		}
		var bad []string
		n := 0
		for _, r := range ssax.Returns(gl) {
			if len(r.Results) != 4 {
				continue
			}
			// error returns hand back constants; only non-constant definitions are judged (with a deferred release the
			// function has a single return fed by result cells)
			if len(srcCall(r.Results[1])) == 0 && len(srcCall(r.Results[2])) == 0 {
				continue
			}
			n++
			fl, ex := srcCall(r.Results[1]), srcCall(r.Results[2])
			if len(fl) != 1 || len(ex) != 1 {
				bad = append(bad, fmt.Sprintf("flags come from %d and the expiry from %d reads (one each expected) [%s | %s]", len(fl), len(ex), strings.Join(ssax.Strings(pv.Sources(r.Results[1])), ","), strings.Join(ssax.Strings(pv.Sources(r.Results[2])), ",")))
				continue
			}
			if !strings.HasSuffix(ssax.CalleeName(fl[0]), "binary.Read") || !strings.HasSuffix(ssax.CalleeName(ex[0]), "binary.Read") {
				bad = append(bad, "flags / expiry are not read with encoding/binary.Read: idiom not recognised")
				continue
			}
			if fl[0] == ex[0] {
				bad = append(bad, "flags and expiry are the same read")
				continue
			}
			// wire order: the flags read comes first on every path: the expiry read cannot reach the flags read
			var flIns, exIns ssa.Instruction
			ssax.Instrs(gl, func(ins ssa.Instruction) {
				if cc := ssax.CallOf(ins); cc == fl[0] {
					flIns = ins
				} else if cc == ex[0] {
					exIns = ins
				}
			})
			if flIns == nil || exIns == nil {
				bad = append(bad, "reads not found")
				continue
			}
			if hit, _ := (ssax.Reach{Target: func(i ssa.Instruction) bool { return i == flIns }}).From(exIns); hit != nil {
				bad = append(bad, "the expiry is read before the flags: the wire carries flags first")
			}
			if hit, _ := (ssax.Reach{Target: func(i ssa.Instruction) bool { return i == exIns }}).From(flIns); hit == nil {
				bad = append(bad, "the expiry read does not follow the flags read")
			}
			guarded := false
			for _, ec := range ssax.DomConds(exIns.Block()) {
				if readExp != nil && ec.True && ssax.Unwrap(ec.Cond) == ssa.Value(readExp) {
					guarded = true
				}
				if readExp != nil && ec.True {
					for _, d := range ssax.Defs(ec.Cond) {
						if d == ssa.Value(readExp) {
							guarded = true
						}
					}
				}
			}
			if !guarded {
				bad = append(bad, "the expiry is read whether or not the caller asked for it")
			}
		}
		if n == 0 {
			c.Undecided(rule, key, c.P.Pos(gl.Pos()), "no success return of (data, flags, exp, err) found")
		} else {
			c.Check(len(bad) == 0, rule, key, c.P.Pos(gl.Pos()), "flags read first and returned as flags, expiry read second (only on request) and returned as exp", strings.Join(uniq(bad), "; ")+": flags and expiry are exchanged or the value is read from the wrong offset")
		}
	}
	// ---- (b) and (c)
	nCalls := 0
	for _, rel := range []string{"handlers/memcached/std", "handlers/memcached/cluster"} {
		for _, fn := range pkgFuncs(c, rel) {
			counts := map[string]int{}
			ssax.Instrs(fn, func(ins ssa.Instruction) {
				call, ok := ins.(*ssa.Call)
				if !ok || call.Call.StaticCallee() != gl {
					return
				}
				nCalls++
				key := ordinalKey(counts, core.FuncName(fn)+"#reply-of")
				// the request written before: nearest Write*Cmd that reaches this call
				want, wrote := int64(-1), ""
				ssax.Instrs(fn, func(w ssa.Instruction) {
					cc := ssax.CallOf(w)
					if cc == nil || !strings.HasPrefix(ssax.CalleeName(cc), pBinprot+".Write") {
						return
					}
					if hit, _ := (ssax.Reach{Target: func(i ssa.Instruction) bool { return i == ssa.Instruction(call) },
						Avoid: func(i ssa.Instruction) bool {
							c2 := ssax.CallOf(i)
							return c2 != nil && i != w && strings.HasPrefix(ssax.CalleeName(c2), pBinprot+".Write")
						}}).From(w); hit != nil {
						wrote = strings.TrimPrefix(ssax.CalleeName(cc), pBinprot+".")
						if strings.HasPrefix(wrote, "WriteGetE") {
							want = 1
						} else {
							want = 0
						}
					}
				})
				got, isConst := ssax.ConstInt(call.Call.Args[1])
				switch {
				case want < 0:
					c.Undecided(rule, key, c.P.Pos(call.Pos()), "no request is written before this reply is read")
				case !isConst:
					c.Undecided(rule, key, c.P.Pos(call.Pos()), "whether the expiry is read is not a constant here")
				default:
					c.Check(got == want, rule, key, c.P.Pos(call.Pos()), fmt.Sprintf("after %s the reply is read with readExp=%v", wrote, got == 1),
						fmt.Sprintf("after %s the reply is read with readExp=%v: only a gete reply carries the 4 extra bytes of expiry, so the value is read from the wrong offset and the stream is out of sync", wrote, got == 1))
				}
			})
			// (c) hits
			ssax.Instrs(fn, func(ins ssa.Instruction) {
				al, ok := ins.(*ssa.Alloc)
				if !ok || !strings.HasSuffix(ssax.ShortType(al.Type()), "Response") || literalField(al, "Key") == nil {
					return
				}
				if miss, known := literalBool(al, "Miss"); !known || miss {
					return
				}
				isE := strings.HasSuffix(ssax.ShortType(al.Type()), "GetEResponse")
				key := ordinalKey(counts, core.FuncName(fn)+"#hit-fields")
				var bad []string
				for _, w := range []struct {
					f   string
					res int
				}{{"Data", 0}, {"Flags", 1}, {"Exptime", 2}} {
					if w.f == "Exptime" && !isE {
						continue
					}
					srcs := pv.Sources(al, w.f)
					ok := len(srcs) > 0 && ssax.All(srcs, func(s ssax.Src) bool {
						return s.Kind == "call" && s.Call.StaticCallee() == gl && s.Res == w.res
					})
					if !ok {
						bad = append(bad, fmt.Sprintf("%s <- %s (result #%d of GetLocal expected)", w.f, strings.Join(ssax.Strings(srcs), ","), w.res))
					}
				}
				if len(bad) > 0 || callsFn(fn, gl) {
					nCalls++
					c.Check(len(bad) == 0, rule, key, c.P.Pos(al.Pos()), "Data, Flags (and Exptime) from the reply just read", strings.Join(bad, "; ")+": the hit carries something else than the backend answered")
				}
			})
		}
	}
	if nCalls == 0 {
		c.Undecided(rule, "std#reply-reads", "-", "GetLocal is never called")
	}
}

func isBoolType(t interface{ String() string }) bool { return t.String() == "bool" }

func callsFn(fn, callee *ssa.Function) bool {
	found := false
	ssax.Instrs(fn, func(ins ssa.Instruction) {
		if cc := ssax.CallOf(ins); cc != nil && cc.StaticCallee() == callee {
			found = true
		}
	})
	return found
}
