package rules

import (
	"fmt"
	"go/token"
	"go/types"
	"strings"

	"golang.org/x/tools/go/ssa"

	"rendlint/core"
	"rendlint/ssax"
)

func init() {
	Meta["C05"] = &PropMeta{
		Title: "Chunked reads are all-or-nothing: never a torn or patched-together value",
		Explain: "Path exploration (with boolean/error edge facts) of the three reply-driven chunk-reading loops of the chunking backend (get, get-and-touch, append/prepend read phase) plus provenance of the write token: (R5.1) each chunked write takes exactly one token from the generator channel, the same value goes into the metadata record and in front of every chunk, and the generator only sends arrays filled by crypto/rand; (R5.2) on every path on which the token read from a chunk differs from the metadata's token, the construction of a hit (or the re-store of the assembled value) is unreachable; (R5.3) a hit is constructed only on paths that passed a comparison of the number of chunk replies with the metadata's chunk count on its equal side - quiet gets answer nothing for a missing chunk, so nothing else can notice one. " +
			"Decides the three guards without which a torn value is returned; all subsets x interleavings as such are not enumerated.",
		Assume: commonAssume,
		Run:    runC05,
	}
}

const relChunked = "handlers/memcached/chunked"

// replyHelper finds the function of package chunked with results (bool, error) that reads a response header.
func replyHelper(c *core.Ctx) *ssa.Function {
	for _, fn := range pkgFuncs(c, relChunked) {
		res := fn.Signature.Results()
		if fn.Parent() != nil || res.Len() != 2 || types.TypeString(res.At(0).Type(), nil) != "bool" || types.TypeString(res.At(1).Type(), nil) != "error" {
			continue
		}
		reads := false
		ssax.Instrs(fn, func(ins ssa.Instruction) {
			if cc := ssax.CallOf(ins); cc != nil && ssax.CalleeName(cc) == pBinprot+".ReadResponseHeader" {
				reads = true
			}
		})
		if reads {
			return fn
		}
	}
	return nil
}

func isFieldLoad(v ssa.Value, field string) bool {
	v = ssax.Unwrap(v)
	switch x := v.(type) {
	case *ssa.UnOp:
		if x.Op == token.MUL {
			n, ok := ssax.FieldName(x.X)
			return ok && n == field
		}
	case *ssa.Field:
		n, ok := ssax.FieldName(x)
		return ok && n == field
	}
	return false
}

type c05State struct {
	f        ssax.Facts
	mismatch bool
	countOK  bool
	compared bool   // the token of the current reply was compared in this iteration
	badCount string // a reply was counted although its read may have failed or its token was not compared
	cmpLive  bool   // a token comparison was executed since the metadata was fetched
	untested string // a comparison was executed again although the previous outcome was never tested
}

func (s *c05State) Key() string {
	return fmt.Sprintf("%v/%v/%v/%s/%v/%s/%s", s.mismatch, s.countOK, s.compared, s.badCount, s.cmpLive, s.untested, s.f.Key())
}
func (s *c05State) Copy() ssax.PState {
	return &c05State{s.f.Clone(), s.mismatch, s.countOK, s.compared, s.badCount, s.cmpLive, s.untested}
}

// replyLoopFuncs returns the functions of package chunked that call the reply helper.
func replyLoopFuncs(c *core.Ctx, helper *ssa.Function) []*ssa.Function {
	var out []*ssa.Function
	for _, fn := range pkgFuncs(c, relChunked) {
		calls := false
		ssax.Instrs(fn, func(ins ssa.Instruction) {
			if cc := ssax.CallOf(ins); cc != nil && cc.StaticCallee() == helper {
				calls = true
			}
		})
		if calls {
			out = append(out, fn)
		}
	}
	return out
}

func runC05(c *core.Ctx) {
	c.Rule("R5.1", "each chunked write takes one fresh token from the generator channel; the metadata record and the prefix of every chunk carry that same value; the generator sends only arrays filled by crypto/rand.Read", 2)
	c.Rule("R5.2", "in every reply-driven chunk loop, once a chunk's token differs from the metadata token no path reaches the construction of a hit (or the re-store of the assembled value)", 3)
	c.Rule("R5.3", "a hit is constructed only on paths that compared the number of chunk replies with the metadata's chunk count and took the equal side", 3)
	c.Rule("R5.4", "every chunk reply that is counted was read without error and had its token compared in the same iteration, or no hit is reachable afterwards: a skipped comparison or a failed read leaves bytes in the value that the token check never covered", 3)

	c.Rule("R5.7", "the value a hit hands out is the buffer the chunk replies of that read were assembled in", 2)
	c.Rule("R5.5", "the token a caller compares is the token of the reply just read: in the reply-read helper every path to the read of a chunk's data passes the read of that chunk's token into the caller's token buffer (unless the caller passed none)", 3)
	helper := replyHelper(c)
	if helper == nil {
		c.Undecided("R5.2", "chunked#reply-helper", "-", "no reply-read helper (results (bool, error), reads a response header) found")
		return
	}
	for _, fn := range replyLoopFuncs(c, helper) {
		checkReplyLoop(c, fn, helper)
	}
	runR51(c)
	c.Share(map[string]string{"R4.12": "R5.6", "R4.7": "R5.8"}, runC04) // "with that set's flags": the flags travel through the metadata record
}

func checkReplyLoop(c *core.Ctx, fn, helper *ssa.Function) {
	key := core.FuncName(fn)
	// the helper call, the reply counter and the buffers
	var hcall *ssa.Call
	ssax.Instrs(fn, func(ins ssa.Instruction) {
		if call, ok := ins.(*ssa.Call); ok && call.Call.StaticCallee() == helper {
			hcall = call
		}
	})
	loops := ssax.Loops(fn)
	loop := ssax.InnermostLoop(loops, hcall.Block())
	if loop == nil {
		c.Undecided("R5.2", key+"#token-guard", c.P.Pos(hcall.Pos()), "the reply helper is not called in a loop")
		return
	}
	var counter ssa.Value
	var byteArgs []ssa.Value
	for _, a := range hcall.Call.Args {
		if phi, ok := a.(*ssa.Phi); ok && types.TypeString(a.Type(), nil) == "int" && phi.Block() == loop.Header {
			for _, e := range phi.Edges {
				if bo, ok := e.(*ssa.BinOp); ok && bo.Op == token.ADD && (bo.X == ssa.Value(phi) || bo.Y == ssa.Value(phi)) {
					counter = phi
				}
			}
		}
		if types.TypeString(a.Type(), nil) == "[]byte" {
			byteArgs = append(byteArgs, a)
		}
	}
	// token comparison: bytes.Equal with one operand a Token field and the other a buffer given to the helper
	var tokCmp *ssa.Call
	var tokenBuf ssa.Value
	ssax.Instrs(fn, func(ins ssa.Instruction) {
		call, ok := ins.(*ssa.Call)
		if !ok || ssax.CalleeName(&call.Call) != "bytes.Equal" {
			return
		}
		for i, a := range call.Call.Args {
			other := call.Call.Args[1-i]
			isTok := false
			if sl, ok := a.(*ssa.Slice); ok {
				if n, ok := ssax.FieldName(sl.X); ok && n == "Token" {
					isTok = true
				}
			}
			if !isTok {
				continue
			}
			for _, b := range byteArgs {
				if b == other {
					tokCmp, tokenBuf = call, b
				}
			}
		}
	})
	var dataBufs []ssa.Value
	for _, b := range byteArgs {
		if b != tokenBuf {
			dataBufs = append(dataBufs, b)
		}
	}
	if tokenBuf != nil {
		checkHelperFillsToken(c, "R5.5", key, helper, hcall, tokenBuf, dataBufs)
	}
	// hit constructions
	isHit := func(ins ssa.Instruction) (bool, string) {
		switch x := ins.(type) {
		case *ssa.Return:
			if n := len(x.Results); n > 1 && definitelyNonNil(x.Results[n-1], x.Block()) {
				return false, "" // an error return carries no value
			}
			if len(x.Results) > 0 && strings.HasSuffix(types.TypeString(x.Results[0].Type(), nil), "Response") {
				if miss, known := literalBool(x.Results[0], "Miss"); known && !miss {
					return true, "hit returned"
				}
			}
		case *ssa.Send:
			if strings.HasSuffix(types.TypeString(x.X.Type(), nil), "Response") {
				if miss, known := literalBool(x.X, "Miss"); known && !miss {
					return true, "hit sent"
				}
			}
		case *ssa.Call:
			// re-store of the assembled buffer
			if callee := x.Call.StaticCallee(); callee != nil && callee.Pkg == fn.Pkg && callee != helper {
				for _, a := range x.Call.Args {
					if hasField(a.Type(), "Data") {
						for _, s := range (&ssax.Prov{}).Sources(a, "Data") {
							for _, db := range dataBufs {
								if s.V == db {
									return true, "assembled value re-stored through " + callee.Name()
								}
							}
						}
					}
				}
			}
		}
		return false, ""
	}
	// R5.7: what a hit hands out is the buffer the chunk replies were read into
	{
		n7 := 0
		var bad7 []string
		ssax.Instrs(fn, func(ins ssa.Instruction) {
			var resp ssa.Value
			switch x := ins.(type) {
			case *ssa.Send:
				resp = x.X
			case *ssa.Return:
				if len(x.Results) > 0 {
					resp = x.Results[0]
				}
			}
			if resp == nil || !strings.HasSuffix(types.TypeString(resp.Type(), nil), "Response") {
				return
			}
			if hit, what := isHit(ins); !hit || strings.HasPrefix(what, "assembled") {
				return
			}
			n7++
			for _, s := range (&ssax.Prov{}).Sources(resp, "Data") {
				isData := false
				for _, db := range dataBufs {
					if s.V == db {
						isData = true
					}
				}
				if !isData {
					bad7 = append(bad7, "the hit at "+c.P.Pos(ins.Pos())+" hands out "+s.String()+", not the buffer the chunks were read into")
				}
			}
		})
		if n7 > 0 {
			c.Check(len(bad7) == 0, "R5.7", key+"#hit-data", c.P.Pos(hcall.Pos()), "the hit hands out the buffer the chunk replies were read into", strings.Join(uniq(bad7), "; "))
		}
	}
	isMetaFetch := func(ins ssa.Instruction) bool {
		cc := ssax.CallOf(ins)
		if cc == nil || cc.StaticCallee() == nil || cc.StaticCallee().Pkg != fn.Pkg {
			return false
		}
		res := cc.StaticCallee().Signature.Results()
		for i := 0; i < res.Len(); i++ {
			if strings.HasSuffix(types.TypeString(res.At(i).Type(), nil), "chunked.metadata") {
				return true
			}
		}
		return false
	}
	derives := func(v ssa.Value, pred func(ssa.Value) bool) bool {
		seen := map[ssa.Value]bool{}
		var walk func(v ssa.Value) bool
		walk = func(v ssa.Value) bool {
			if v == nil || seen[v] {
				return false
			}
			seen[v] = true
			if pred(v) {
				return true
			}
			switch x := v.(type) {
			case *ssa.Convert:
				return walk(x.X)
			case *ssa.ChangeType:
				return walk(x.X)
			}
			return false
		}
		return walk(v)
	}
	var hitsMismatch, hitsNoCount, hitsBadCount, hitsUntested []string
	nHits := 0
	var helperErr ssa.Value
	if hcall.Referrers() != nil {
		for _, r := range *hcall.Referrers() {
			if ex, ok := r.(*ssa.Extract); ok && types.TypeString(ex.Type(), nil) == "error" {
				helperErr = ex
			}
		}
	}
	isCount := func(ins ssa.Instruction) bool {
		bo, ok := ins.(*ssa.BinOp)
		return ok && counter != nil && bo.Op == token.ADD && (bo.X == counter || bo.Y == counter)
	}
	ex := &ssax.Explorer{Fn: fn}
	ex.Enter = func(b, pred *ssa.BasicBlock, st ssax.PState) { st.(*c05State).f.EnterBlock(b, pred) }
	ex.Instr = func(ins ssa.Instruction, ps ssax.PState) bool {
		s := ps.(*c05State)
		if isMetaFetch(ins) {
			s.mismatch, s.countOK, s.badCount, s.untested, s.cmpLive = false, false, "", "", false
		}
		if ins == ssa.Instruction(hcall) {
			s.compared = false
		}
		if tokCmp != nil && ins == ssa.Instruction(tokCmp) {
			if s.compared && s.cmpLive && s.f.Eval(tokCmp).Bool == ssax.Unknown && s.untested == "" {
				s.untested = "the token comparison at " + c.P.Pos(tokCmp.Pos()) + " is executed again on a path that never tested the previous outcome"
			}
			s.compared = true
			s.cmpLive = true
		}
		if isCount(ins) && s.badCount == "" {
			switch {
			case helperErr != nil && s.f.Eval(helperErr).Nil != ssax.Yes:
				s.badCount = "a reply is counted at " + c.P.Pos(ins.Pos()) + " on a path where its read may have failed (the buffers then hold the previous reply's token and no data)"
			case !s.compared:
				s.badCount = "a reply is counted at " + c.P.Pos(ins.Pos()) + " on a path that skipped the token comparison for it"
			}
		}
		if hit, what := isHit(ins); hit {
			nHits++
			if s.mismatch {
				hitsMismatch = append(hitsMismatch, what+" at "+c.P.Pos(ins.Pos())+" on a path where a chunk's token differed from the metadata token")
			} else if s.untested != "" {
				hitsUntested = append(hitsUntested, what+" at "+c.P.Pos(ins.Pos())+" although "+s.untested)
			} else if s.cmpLive && tokCmp != nil && s.f.Eval(tokCmp).Bool == ssax.Unknown {
				hitsUntested = append(hitsUntested, what+" at "+c.P.Pos(ins.Pos())+" on a path that never tested the outcome of the last token comparison")
			}
			if !s.countOK {
				hitsNoCount = append(hitsNoCount, what+" at "+c.P.Pos(ins.Pos())+" on a path that never established replies == NumChunks")
			}
			if s.badCount != "" {
				hitsBadCount = append(hitsBadCount, what+" at "+c.P.Pos(ins.Pos())+" although "+s.badCount)
			}
		}
		s.f.Step(ins)
		return true
	}
	ex.Exit = func(ins ssa.Instruction, ps ssax.PState) {
		s := ps.(*c05State)
		if hit, what := isHit(ins); hit {
			nHits++
			if s.mismatch {
				hitsMismatch = append(hitsMismatch, what+" at "+c.P.Pos(ins.Pos())+" on a path where a chunk's token differed from the metadata token")
			} else if s.untested != "" {
				hitsUntested = append(hitsUntested, what+" at "+c.P.Pos(ins.Pos())+" although "+s.untested)
			} else if s.cmpLive && tokCmp != nil && s.f.Eval(tokCmp).Bool == ssax.Unknown {
				hitsUntested = append(hitsUntested, what+" at "+c.P.Pos(ins.Pos())+" on a path that never tested the outcome of the last token comparison")
			}
			if !s.countOK {
				hitsNoCount = append(hitsNoCount, what+" at "+c.P.Pos(ins.Pos())+" on a path that never established replies == NumChunks")
			}
			if s.badCount != "" {
				hitsBadCount = append(hitsBadCount, what+" at "+c.P.Pos(ins.Pos())+" although "+s.badCount)
			}
		}
	}
	ex.Branch = func(ifi *ssa.If, truth bool, ps ssax.PState) bool {
		s := ps.(*c05State)
		if !s.f.Assume(ifi.Cond, truth) {
			return false
		}
		cond, t := ifi.Cond, truth
		for {
			if u, ok := cond.(*ssa.UnOp); ok && u.Op == token.NOT {
				cond, t = u.X, !t
				continue
			}
			break
		}
		_, _ = cond, t
		if tokCmp != nil && s.cmpLive && s.f.Eval(tokCmp).Bool == ssax.No {
			// the outcome "differs" is established on this path, directly or through flags computed from it
			s.mismatch = true
		}
		if bo, ok := cond.(*ssa.BinOp); ok && counter != nil && (bo.Op == token.EQL || bo.Op == token.NEQ) {
			isCounter := func(v ssa.Value) bool { return v == counter }
			isNum := func(v ssa.Value) bool { return isFieldLoad(v, "NumChunks") }
			if (derives(bo.X, isCounter) && derives(bo.Y, isNum)) || (derives(bo.Y, isCounter) && derives(bo.X, isNum)) {
				if (bo.Op == token.EQL) == t {
					s.countOK = true
				}
			}
		}
		return true
	}
	ex.Run(&c05State{f: ssax.Facts{}})
	pos := c.P.Pos(hcall.Pos())
	if ex.Exceeded {
		c.Undecided("R5.2", key+"#token-guard", pos, "state space exceeded")
		c.Undecided("R5.3", key+"#completeness-guard", pos, "state space exceeded")
		c.Undecided("R5.4", key+"#counted-replies-checked", pos, "state space exceeded")
		return
	}
	if nHits == 0 {
		c.Undecided("R5.2", key+"#token-guard", pos, "no construction of a hit found after the reply loop: idiom not recognised")
		c.Undecided("R5.3", key+"#completeness-guard", pos, "no construction of a hit found after the reply loop: idiom not recognised")
		return
	}
	switch {
	case tokCmp == nil:
		c.Violate("R5.2", key+"#token-guard", pos, "the token read from the chunk is never compared (bytes.Equal) with the metadata's token: chunks of a different write are accepted")
	case len(hitsMismatch) > 0:
		c.Violate("R5.2", key+"#token-guard", pos, uniq(hitsMismatch)[0], uniq(hitsMismatch)...)
	case len(hitsUntested) > 0:
		c.Undecided("R5.2", key+"#token-guard", pos, uniq(hitsUntested)[0]+": the outcome of a token comparison must decide, by a branch on it or on a flag computed from it, whether a hit is still possible")
	default:
		c.OK("R5.2", key+"#token-guard", pos, fmt.Sprintf("token compared at %s; no hit reachable after a mismatch (%d abstract states)", c.P.Pos(tokCmp.Pos()), ex.Visited))
	}
	switch {
	case counter == nil || helperErr == nil:
		c.Undecided("R5.4", key+"#counted-replies-checked", pos, "no loop-carried reply counter / no error result of the reply helper")
	case len(hitsBadCount) > 0:
		c.Violate("R5.4", key+"#counted-replies-checked", pos, uniq(hitsBadCount)[0], uniq(hitsBadCount)...)
	default:
		c.OK("R5.4", key+"#counted-replies-checked", pos, "every counted reply was read without error and token-compared in its iteration, or no hit follows")
	}
	switch {
	case counter == nil:
		c.Undecided("R5.3", key+"#completeness-guard", pos, "no loop-carried reply counter is passed to the reply helper")
	case len(hitsNoCount) > 0:
		c.Violate("R5.3", key+"#completeness-guard", pos, "quiet gets give no reply for a missing chunk, yet "+uniq(hitsNoCount)[0], uniq(hitsNoCount)...)
	default:
		c.OK("R5.3", key+"#completeness-guard", pos, "every hit lies behind a replies == NumChunks comparison")
	}
}

func uniq(xs []string) []string {
	seen := map[string]bool{}
	var out []string
	for _, x := range xs {
		if !seen[x] {
			seen[x] = true
			out = append(out, x)
		}
	}
	return out
}

func runR51(c *core.Ctx) {
	pkg := c.P.Pkg(relChunked)
	tokens, _ := pkg.Members["tokens"].(*ssa.Global)
	if tokens == nil {
		// role: the package-level channel of byte arrays
		for _, m := range pkg.Members {
			if g, ok := m.(*ssa.Global); ok {
				if ch, ok := g.Type().(*types.Pointer).Elem().Underlying().(*types.Chan); ok {
					if _, isArr := ch.Elem().Underlying().(*types.Array); isArr {
						tokens = g
					}
				}
			}
		}
	}
	if tokens == nil {
		c.Undecided("R5.1", "chunked#token-channel", "-", "no package-level token channel found")
		return
	}
	isTokRecv := func(s ssax.Src) bool {
		return s.Kind == "recv" && ssax.GlobalLoad(s.V) == tokens
	}
	pv := &ssax.Prov{}
	// writer: functions that store a metadata literal
	nW := 0
	for _, fn := range pkgFuncs(c, relChunked) {
		var recvs []ssa.Instruction
		ssax.Instrs(fn, func(ins ssa.Instruction) {
			if u, ok := ins.(*ssa.UnOp); ok && u.Op == token.ARROW && ssax.GlobalLoad(u.X) == tokens {
				recvs = append(recvs, ins)
			}
		})
		if len(recvs) == 0 {
			continue
		}
		nW++
		key := core.FuncName(fn) + "#one-token-per-write"
		var bad []string
		if len(recvs) != 1 {
			bad = append(bad, fmt.Sprintf("%d receives from the token channel", len(recvs)))
		}
		loops := ssax.Loops(fn)
		for _, r := range recvs {
			if ssax.InnermostLoop(loops, r.Block()) != nil {
				bad = append(bad, "the token is received inside a loop: chunks of one write get different tokens")
			}
		}
		// metadata.Token and the chunk prefix
		metaTok, prefixTok := false, false
		ssax.Instrs(fn, func(ins ssa.Instruction) {
			if al, ok := ins.(*ssa.Alloc); ok && strings.HasSuffix(types.TypeString(al.Type(), nil), "chunked.metadata") {
				srcs := pv.Sources(al, "Token")
				if len(srcs) > 0 {
					if ssax.All(srcs, isTokRecv) {
						metaTok = true
					} else {
						bad = append(bad, "metadata.Token <- "+strings.Join(ssax.Strings(srcs), ","))
					}
				}
			}
			cc := ssax.CallOf(ins)
			if cc != nil && strings.HasSuffix(ssax.CalleeName(cc), ").Write") && len(cc.Args) == 2 {
				if sl, ok := cc.Args[1].(*ssa.Slice); ok {
					if al, ok := sl.X.(*ssa.Alloc); ok {
						if _, isArr := al.Type().(*types.Pointer).Elem().Underlying().(*types.Array); isArr {
							var whole []ssax.Src
							for _, st := range ssax.StoresTo(al) {
								whole = append(whole, pv.Sources(st.Val)...)
							}
							if ssax.Any(whole, isTokRecv) && ssax.All(whole, isTokRecv) {
								prefixTok = true
							} else if len(whole) > 0 {
								bad = append(bad, "chunk prefix <- "+strings.Join(ssax.Strings(whole), ","))
							}
						}
					}
				}
			}
		})
		if !metaTok {
			bad = append(bad, "no metadata record takes its Token from the channel receive")
		}
		if !prefixTok {
			bad = append(bad, "no chunk is prefixed with the received token")
		}
		c.Check(len(bad) == 0, "R5.1", key, c.P.Pos(recvs[0].Pos()), "one receive; metadata.Token and the chunk prefix are that value", strings.Join(bad, "; "))
	}
	if nW == 0 {
		c.Undecided("R5.1", "chunked#token-consumer", "-", "no function receives from the token channel")
	}
	// generator
	nS := 0
	for _, fn := range pkgFuncs(c, relChunked) {
		ssax.Instrs(fn, func(ins ssa.Instruction) {
			snd, ok := ins.(*ssa.Send)
			if !ok || ssax.GlobalLoad(snd.Chan) != tokens {
				return
			}
			nS++
			srcs := pv.Sources(snd.X)
			good := ssax.Any(srcs, func(s ssax.Src) bool { return s.Kind == "outparam" && ssax.CalleeName(s.Call) == "crypto/rand.Read" }) &&
				ssax.All(srcs, func(s ssax.Src) bool {
					return s.Kind == "zero" || s.Kind == "composite" || (s.Kind == "outparam" && ssax.CalleeName(s.Call) == "crypto/rand.Read")
				})
			c.Check(good, "R5.1", core.FuncName(fn)+"#generator", c.P.Pos(ins.Pos()), "tokens sent are arrays filled by crypto/rand.Read",
				"the generator sends "+strings.Join(ssax.Strings(srcs), ",")+": tokens are not fresh random values, two writes can share one")
		})
	}
	if nS == 0 {
		c.Undecided("R5.1", "chunked#generator", "-", "nothing sends on the token channel")
	}
	// the channel itself is created once at init and never replaced
	_ = tokens
}

// checkHelperFillsToken (R5.5): the caller compares metaData.Token with the buffer it handed to the reply helper. That
// comparison only says something about the reply just read if the helper stored this reply's token in the buffer: a path
// that reads the chunk's data without reading its token leaves the previous reply's token there, and the comparison
// succeeds for a chunk of any write.
func checkHelperFillsToken(c *core.Ctx, rule, key string, helper *ssa.Function, hcall *ssa.Call, tokenBuf ssa.Value, dataBufs []ssa.Value) {
	var tokP, dataP *ssa.Parameter
	for i, a := range hcall.Call.Args {
		if i >= len(helper.Params) {
			break
		}
		if a == tokenBuf {
			tokP = helper.Params[i]
		}
		for _, d := range dataBufs {
			if a == d {
				dataP = helper.Params[i]
			}
		}
	}
	k := key + "#helper-reads-token"
	if tokP == nil || dataP == nil {
		c.Undecided(rule, k, c.P.Pos(hcall.Pos()), "cannot map the caller's token and data buffers to parameters of the reply helper")
		return
	}
	pv := &ssax.Prov{}
	readsInto := func(ins ssa.Instruction, p *ssa.Parameter) bool {
		cc := ssax.CallOf(ins)
		if cc == nil {
			return false
		}
		n := ssax.CalleeName(cc)
		if n != "io.ReadAtLeast" && n != "io.ReadFull" {
			return false
		}
		return ssax.Any(pv.Sources(cc.Args[1]), func(s ssax.Src) bool { return s.Kind == "param" && s.V == ssa.Value(p) })
	}
	// edges on which the token buffer is known to be nil
	nilEdge := func(from, to *ssa.BasicBlock) bool {
		ifi, ok := from.Instrs[len(from.Instrs)-1].(*ssa.If)
		if !ok {
			return false
		}
		bo, ok := ifi.Cond.(*ssa.BinOp)
		if !ok || (bo.Op != token.EQL && bo.Op != token.NEQ) {
			return false
		}
		x := bo.X
		if ssax.IsNilConst(x) {
			x = bo.Y
		} else if !ssax.IsNilConst(bo.Y) {
			return false
		}
		if ssax.Unwrap(x) != ssa.Value(tokP) {
			return false
		}
		isNilSide := (bo.Op == token.EQL && to == from.Succs[0]) || (bo.Op == token.NEQ && to == from.Succs[1])
		return isNilSide
	}
	hit, trail := (ssax.Reach{
		Target:    func(i ssa.Instruction) bool { return readsInto(i, dataP) },
		Avoid:     func(i ssa.Instruction) bool { return readsInto(i, tokP) },
		AvoidEdge: nilEdge,
	}).FromBlock(helper.Blocks[0])
	nData := 0
	ssax.Instrs(helper, func(i ssa.Instruction) {
		if readsInto(i, dataP) {
			nData++
		}
	})
	if nData == 0 {
		c.Undecided(rule, k, c.P.Pos(helper.Pos()), "the reply helper does not read into the caller's data buffer with ReadAtLeast/ReadFull: idiom not recognised")
		return
	}
	c.Check(hit == nil, rule, k, c.P.Pos(helper.Pos()), "every path to the read of the chunk's data reads the chunk's token into the caller's buffer first",
		"the reply helper can read a chunk's data without storing that chunk's token in the caller's buffer ("+strings.Join(ssax.BlockTrail(c.P.Fset, trail), " -> ")+"): the caller then compares the metadata token with the token of an earlier reply, so chunks written by another set are accepted")
}
