package rules

import (
	"fmt"
	"go/token"
	"go/types"
	"sort"
	"strings"

	"golang.org/x/tools/go/ssa"

	"rendlint/core"
	"rendlint/ssax"
)

func init() {
	Meta["C06"] = &PropMeta{
		Title: "The batching pool returns each caller its own, correct result",
		Explain: "Provenance and table rules over the batching handler: (R6.1) what the single-request function returns, and everything the multi-key functions send to their caller, derives from a receive on the reply channel created for that call (never from an unassigned local); (R6.2) every handler method submits the request type of its own name and every case of the serialiser writes the command of its own request type; (R6.3) in the serialiser each request written with an opaque registers exactly that opaque with the submitting request's reply channel, opaques advance between writes, and the reader picks the channel only by the reply's opaque; (R6.4) in the reader's error-status region the decoded status reaches the caller as an error unless the branch that encodes it as a payload (miss) is guarded by the reply's opcode or the request's type. " +
			"Decides the routing/hand-back structure; equality with the direct handler for all sequences and fairness across batches are not decided.",
		Assume: commonAssume,
		Run:    runC06,
	}
}

const relBatched = "handlers/memcached/batched"

var methodReqType = map[string]string{
	"Set": "RequestSet", "Add": "RequestAdd", "Replace": "RequestReplace", "Append": "RequestAppend", "Prepend": "RequestPrepend",
	"Delete": "RequestDelete", "Touch": "RequestTouch", "GAT": "RequestGat", "Get": "RequestGet", "GetE": "RequestGetE",
}

var reqTypeWriter = map[string]string{
	"RequestSet": "WriteSetCmd", "RequestAdd": "WriteAddCmd", "RequestReplace": "WriteReplaceCmd", "RequestAppend": "WriteAppendCmd",
	"RequestPrepend": "WritePrependCmd", "RequestDelete": "WriteDeleteCmd", "RequestTouch": "WriteTouchCmd", "RequestGat": "WriteGATCmd",
	"RequestGet": "WriteGetCmd", "RequestGetE": "WriteGetECmd",
}

func isSubmit(cc *ssa.CallCommon) bool {
	return cc != nil && strings.HasSuffix(ssax.CalleeName(cc), "batched.relay).submit")
}

// submitters: functions of package batched that call relay.submit.
func submitters(c *core.Ctx) []*ssa.Function {
	var out []*ssa.Function
	for _, fn := range pkgFuncs(c, relBatched) {
		found := false
		ssax.Instrs(fn, func(ins ssa.Instruction) {
			if isSubmit(ssax.CallOf(ins)) {
				found = true
			}
		})
		if found {
			out = append(out, fn)
		}
	}
	return out
}

func runC06(c *core.Ctx) {
	c.Rule("R6.1", "the values the pool's request functions hand back to their caller derive from a receive on the reply channel created for that call", 3)
	c.Rule("R6.2", "every batched handler method submits the request type of its own name; every case of the serialiser writes the command of its request type", 20)
	c.Rule("R6.3", "the serialiser registers each written opaque with the submitting request's reply channel, advances the opaque between writes and counts the replies per channel; the reader selects the reply channel only by the reply's opaque", 12)
	c.Rule("R6.4", "in the reader's error-status region the decoded status is handed to the caller as an error, unless the payload-encoded outcome (miss) is guarded by the reply's opcode or the registered request's type", 1)

	pkgPath := core.Mod + "/" + relBatched
	inl := &ssax.Prov{ExpandComposite: true, Inline: func(f *ssa.Function) bool { return f.Pkg != nil && f.Pkg.Pkg.Path() == pkgPath }}
	pv := &ssax.Prov{}

	// ---- R6.1
	for _, fn := range submitters(c) {
		// the per-call reply channel(s): MakeChan values stored in the submitted request literal
		chans := map[ssa.Value]bool{}
		ssax.Instrs(fn, func(ins ssa.Instruction) {
			if cc := ssax.CallOf(ins); isSubmit(cc) {
				for _, s := range pv.Sources(cc.Args[len(cc.Args)-1], "reschan") {
					if s.Kind == "fresh" {
						chans[s.V] = true
					}
				}
			}
		})
		fromReply := func(s ssax.Src) bool {
			if s.Kind != "recv" {
				return false
			}
			for _, cs := range pv.Sources(s.V) {
				if !(cs.Kind == "fresh" && chans[cs.V]) {
					return false
				}
			}
			return true
		}
		key := core.FuncName(fn) + "#hand-back"
		var bad []string
		n := 0
		// returned values
		if fn.Signature.Results().Len() > 0 {
			// every path from a submit to a return assigns the pool's answer to what is returned
			answerStored := func(ins ssa.Instruction) bool {
				st, ok := ins.(*ssa.Store)
				if !ok {
					return false
				}
				return ssax.All(pv.Sources(st.Val), fromReply)
			}
			dropped := false
			ssax.Instrs(fn, func(ins ssa.Instruction) {
				if !isSubmit(ssax.CallOf(ins)) {
					return
				}
				hit, _ := (ssax.Reach{
					Target: func(x ssa.Instruction) bool {
						r, ok := x.(*ssa.Return)
						if !ok {
							return false
						}
						for _, res := range r.Results {
							if ssax.Any(inl.Sources(res), func(s ssax.Src) bool { return s.Kind == "zero" }) {
								return true
							}
						}
						return false
					},
					Avoid: answerStored,
				}).From(ins)
				if hit != nil {
					dropped = true
					bad = append(bad, fmt.Sprintf("after the request was submitted at %s the function can return at %s without having assigned the pool's answer to what it returns", c.P.Pos(ins.Pos()), c.P.Pos(hit.Pos())))
				}
			})
			for _, r := range ssax.Returns(fn) {
				for i, res := range r.Results {
					srcs := inl.Sources(res)
					anyReply := ssax.Any(srcs, fromReply)
					for _, s := range srcs {
						n++
						switch {
						case fromReply(s):
						case s.Kind == "const", s.Kind == "global":
						case s.Kind == "zero" && anyReply && !dropped:
							// the zero value survives only on the path that never submitted (retry loop not entered)
						default:
							bad = append(bad, fmt.Sprintf("result #%d returned at %s comes from %s", i, c.P.Pos(r.Pos()), s.String()))
						}
					}
				}
			}
		}
		// values sent to the caller's channels (parameters of channel type)
		ssax.Instrs(fn, func(ins ssa.Instruction) {
			snd, ok := ins.(*ssa.Send)
			if !ok {
				return
			}
			if _, isParam := snd.Chan.(*ssa.Parameter); !isParam {
				return
			}
			for _, s := range inl.Sources(snd.X) {
				n++
				switch {
				case fromReply(s):
				case s.Kind == "const", s.Kind == "global":
				default:
					bad = append(bad, fmt.Sprintf("value sent to the caller at %s comes from %s", c.P.Pos(ins.Pos()), s.String()))
				}
			}
		})
		bad = uniq(bad)
		if n == 0 {
			c.Undecided("R6.1", key, c.P.Pos(fn.Pos()), "nothing is handed back")
		} else {
			c.Check(len(bad) == 0, "R6.1", key, c.P.Pos(fn.Pos()), fmt.Sprintf("%d value sources, all receives on the call's reply channel (or constants)", n),
				"the caller does not get what the pool answered: "+strings.Join(bad, "; "), bad...)
		}
	}

	// ---- R6.2 (a) methods
	impl, ok := handlerImpl(c, relBatched)
	if !ok {
		c.Undecided("R6.2", "batched.Handler", "-", "handler not found")
	} else {
		for m, want := range methodReqType {
			fn := c.P.Method(impl, m)
			key := "(batched.Handler)." + m + "#reqtype"
			if fn == nil {
				c.Undecided("R6.2", key, "-", "method not found")
				continue
			}
			wantV, ok := requestTypeValue(c, want)
			if !ok {
				c.Undecided("R6.2", key, "-", "constant not found")
				continue
			}
			// request types reaching relay.submit from this method (through same-package callees, goroutines included)
			var got []string
			var visit func(f *ssa.Function, subst map[*ssa.Parameter]ssa.Value, depth int)
			visit = func(f *ssa.Function, subst map[*ssa.Parameter]ssa.Value, depth int) {
				if depth > 3 {
					return
				}
				ssax.Instrs(f, func(ins ssa.Instruction) {
					cc := ssax.CallOf(ins)
					if cc == nil {
						return
					}
					if isSubmit(cc) {
						for _, s := range pv.Sources(cc.Args[len(cc.Args)-1], "reqtype") {
							if s.Kind == "param" && len(s.Path) == 0 {
								if a, ok := subst[s.V.(*ssa.Parameter)]; ok {
									if v, ok := ssax.ConstInt(a); ok {
										got = append(got, fmt.Sprint(v))
										continue
									}
								}
							}
							if v, ok := ssax.ConstInt(s.V); ok && s.Kind == "const" {
								got = append(got, fmt.Sprint(v))
							} else {
								got = append(got, s.String())
							}
						}
						return
					}
					if callee := cc.StaticCallee(); callee != nil && callee.Pkg == fn.Pkg && len(callee.Blocks) > 0 {
						sub := map[*ssa.Parameter]ssa.Value{}
						for i, p := range callee.Params {
							if i < len(cc.Args) {
								sub[p] = cc.Args[i]
							}
						}
						visit(callee, sub, depth+1)
					}
				})
			}
			visit(fn, nil, 0)
			got = uniq(got)
			sort.Strings(got)
			good := len(got) == 1 && got[0] == fmt.Sprint(wantV)
			c.Check(good, "R6.2", key, c.P.Pos(fn.Pos()), "submits common."+want,
				fmt.Sprintf("submits request type(s) %v where common.%s (=%d) is required: the backend is sent a different command", got, want, wantV))
		}
	}
	// ---- R6.2 (b) serialiser cases / R6.3
	ser := findFunc(c, relBatched, "(*conn).batchIntoBuffer", rolePoolSerialiser)
	if ser == nil {
		c.Undecided("R6.2", "batched.(*conn).batchIntoBuffer", "-", "serialiser not found")
	} else {
		names := requestTypeNames(c)
		loops := ssax.Loops(ser)
		seenCase := map[string]bool{}
		counts := map[string]int{}
		ssax.Instrs(ser, func(ins ssa.Instruction) {
			cc := ssax.CallOf(ins)
			if cc == nil || !strings.HasPrefix(ssax.CalleeName(cc), pBinprot+".Write") {
				return
			}
			wname := strings.TrimPrefix(ssax.CalleeName(cc), pBinprot+".")
			// the case this write sits in
			k := int64(-1)
			for _, ec := range ssax.DomConds(ins.Block()) {
				if v, ok := condEqConst(ec, func(v ssa.Value) bool { return isFieldLoad(v, "reqtype") }); ok {
					k = v
					break
				}
			}
			rt := names[k]
			key := "batchIntoBuffer#case:" + rt
			pos := c.P.Pos(ins.Pos())
			if rt == "" {
				c.Undecided("R6.2", ordinalKey(counts, "batchIntoBuffer#write:"+wname), pos, "the write is not under a case of the request-type switch")
				return
			}
			seenCase[rt] = true
			c.Check(reqTypeWriter[rt] == wname, "R6.2", key, pos, rt+" is serialised with "+wname,
				fmt.Sprintf("case %s writes %s, the command of a different request type (expected %s)", rt, wname, reqTypeWriter[rt]))

			// R6.3: opaque registration
			opq := cc.Args[len(cc.Args)-1]
			k3 := "batchIntoBuffer#opaque:" + rt
			var problems []string
			registered := false
			for _, x := range ins.Block().Instrs {
				mu, ok := x.(*ssa.MapUpdate)
				if !ok || mu.Key != opq {
					continue
				}
				registered = true
				srcs := pv.Sources(mu.Value, "reschan")
				if !ssax.All(srcs, func(s ssax.Src) bool { return s.Kind == "param" && s.PathIs("[]", "reschan") }) {
					problems = append(problems, "the opaque is registered with reply channel "+strings.Join(ssax.Strings(srcs), ",")+" instead of the submitting request's")
				}
				// the request whose data is written is the one whose channel is registered
				ks := pv.Sources(cc.Args[1])
				if !ssax.All(ks, func(s ssax.Src) bool {
					return s.Kind == "param" && len(s.Path) >= 2 && s.Path[0] == "[]" && s.Path[1] == "req"
				}) {
					problems = append(problems, "the written key does not come from the request being registered: "+strings.Join(ssax.Strings(ks), ","))
				}
			}
			if !registered {
				problems = append(problems, "the opaque written to the backend is not registered in the reply table (responses[opaque]) in the same case")
			}
			// the opaque written is the running counter itself (phis and constant increments of it), never an offset
			// of the counter by something else - the counter would not account for the opaques used that way
			if why := counterOnly(opq); why != "" {
				problems = append(problems, why)
			}
			// the opaque advances in every loop around the write
			for _, l := range loops {
				if !l.Blocks[ins.Block()] {
					continue
				}
				if !advancesIn(opq, l) {
					problems = append(problems, fmt.Sprintf("the opaque does not advance in the loop at %s: two requests of one batch share an opaque", c.P.Pos(firstPos(l.Header))))
				}
			}
			c.Check(len(problems) == 0, "R6.3", k3, pos, "opaque registered with the request's own channel and advanced per write", strings.Join(problems, "; "))
			checkRepliesCounted(c, pv, ser, loops, ins, rt)
		})
		checkOpaquesDistinct(c, ser)
		for rt := range reqTypeWriter {
			if !seenCase[rt] {
				c.Violate("R6.2", "batchIntoBuffer#case:"+rt, c.P.Pos(ser.Pos()), "the serialiser has no case writing a command for "+rt+": such a request is never sent and its caller waits forever")
			}
		}
		// channels[req.reschan] = numExpected
		cntOK := false
		ssax.Instrs(ser, func(ins ssa.Instruction) {
			if mu, ok := ins.(*ssa.MapUpdate); ok {
				if ssax.All(pv.Sources(mu.Key), func(s ssax.Src) bool { return s.Kind == "param" && s.PathIs("[]", "reschan") }) && types.TypeString(mu.Value.Type(), nil) == "int" {
					cntOK = true
				}
			}
		})
		c.Check(cntOK, "R6.3", "batchIntoBuffer#reply-count", c.P.Pos(ser.Pos()), "expected replies are counted per reply channel", "the number of expected replies is not recorded per reply channel")
	}
	// reader: channel chosen by the reply's opaque only
	rd := findFunc(c, relBatched, "(*conn).reader", rolePoolReader)
	if rd == nil {
		c.Undecided("R6.3", "batched.(*conn).reader", "-", "reader not found")
		return
	}
	nSend := 0
	var badSend []string
	ssax.Instrs(rd, func(ins ssa.Instruction) {
		snd, ok := ins.(*ssa.Send)
		if !ok || !strings.HasSuffix(types.TypeString(snd.X.Type(), nil), "batched.response") {
			return
		}
		nSend++
		// chan = (lookup responses[OpaqueToken]).reschan
		good := false
		ch := ssax.Unwrap(snd.Chan)
		if u, ok := ch.(*ssa.UnOp); ok && u.Op == token.MUL {
			ch = resolveLocal(u)
		}
		for _, d := range ssax.Defs(snd.Chan) {
			if f, ok := d.(*ssa.Field); ok {
				if n, _ := ssax.FieldName(f); n == "reschan" {
					for _, dd := range ssax.Defs(f.X) {
						if ex, ok := dd.(*ssa.Extract); ok {
							if lk, ok := ex.Tuple.(*ssa.Lookup); ok && isFieldLoad(lk.Index, "OpaqueToken") {
								good = true
							}
						}
					}
				}
			}
			if u, ok := d.(*ssa.UnOp); ok && u.Op == token.MUL {
				if fa, ok := u.X.(*ssa.FieldAddr); ok {
					if n, _ := ssax.FieldName(fa); n == "reschan" {
						if al, ok := fa.X.(*ssa.Alloc); ok {
							for _, st := range ssax.StoresTo(al) {
								if ex, ok := st.Val.(*ssa.Extract); ok {
									if lk, ok := ex.Tuple.(*ssa.Lookup); ok && isFieldLoad(lk.Index, "OpaqueToken") {
										good = true
									}
								}
							}
						}
					}
				}
			}
		}
		if !good {
			badSend = append(badSend, c.P.Pos(ins.Pos()))
		}
	})
	if nSend == 0 {
		c.Undecided("R6.3", "batched.(*conn).reader#route-by-opaque", c.P.Pos(rd.Pos()), "the reader sends no response")
	} else {
		c.Check(len(badSend) == 0, "R6.3", "batched.(*conn).reader#route-by-opaque", c.P.Pos(rd.Pos()), fmt.Sprintf("%d sends, each on responses[reply opaque].reschan", nSend),
			"a reply is sent on a channel that was not looked up by the reply's opaque at "+strings.Join(badSend, ", "))
	}

	// ---- R6.4
	runR64(c, rd)

	// ---- R6.5
	c.Rule("R6.6", "a caller that retries submits a reply channel created for that attempt (shared with C13): on a reused, closed channel the retry is answered with a zero response, i.e. success, before the backend saw the request", 3)
	checkReplyChannelPerAttempt(c, "R6.6")
	c.Rule("R6.7", "the request rebuilt for a retry asks for every key still owed (shared with C13): one reply per requested key", 1)
	checkRebuildKeepsEveryEntry(c, "R6.7")
	c.Rule("R6.13", "the pool reader decodes a hit as the backend frames it: Flags from the first extras word, Exptime from the second, the second read exactly for gete/geteq replies", 1)
	checkReaderDecodesHits(c, "R6.13")
	c.Rule("R6.15", "the pool reader skips a reply it does not decode as a whole: what it discards is the TotalBodyLength of the header just read", 2)
	checkReaderSkipsWholeBodies(c, "R6.15")
	c.Rule("R6.16", "a relay is visible to other client connections only once it has a connection: the registry lock is released, after the registration, only behind the wait for the goroutine that adds the first connection", 1)
	checkRelayPublishedReady(c, "R6.16")
	c.Rule("R6.18", "the pool reader addresses a response with the Key, Opaque and quiet flag recorded in the caller's request handle, never with fields of the backend's reply", 6)
	checkReaderAddressesReplies(c, "R6.18")
	c.Rule("R6.12", "a value the pool hands to a caller lives in memory of its own: allocated for that reply, never a view into the connection's read buffer (Peek / ReadSlice) and never a buffer reused for the next reply", 4)
	checkFreshValueBuffers(c, "R6.12", relBatched)
	c.Rule("R6.11", "every single-reply method of the batching handler returns the error (and response) the pool's request function gave it", 8)
	checkOutcomeReturned(c, "R6.11")
	c.Rule("R6.10", "the table of replies still owed is a multiset (populated by counting): an entry is deleted only when its count is one, otherwise decremented (shared with C13)", 2)
	checkOwedMultiset(c, "R6.10")
	c.Rule("R6.9", "the table recovery consults loses a reply's entry only when that reply is handed over (shared with C13): otherwise a connection cut inside a reply's body ends the call with the zero response - an empty hit, success - instead of an error", 2)
	if rd := findFunc(c, relBatched, "(*conn).reader", rolePoolReader); rd != nil {
		checkBookkeepingAtHandOver(c, "R6.9", rd)
	} else {
		c.Undecided("R6.9", "reader#bookkeeping-at-hand-over", "-", "reader not found")
	}
	c.Share(map[string]string{"R13.16": "R6.14"}, runC13) // leftover requests in a reused batch buffer are executed again and answered under opaques nobody waits for
	c.Share(map[string]string{"R14.3": "R6.8", "R14.14": "R6.17"}, runC14) // a batch buffer used after it went back to the pool is overwritten by another connection's batch: callers' commands reach the backend as someone else's
	c.Rule("R6.5", "state that suppresses hand-back in the retrying multi-key functions (the 'this attempt failed' flag) is reset for every attempt: it is never carried from one retry into the next", 2)
	for _, fn := range submitters(c) {
		if fn.Signature.Results().Len() > 0 {
			continue
		}
		checkRetryFlags(c, fn)
	}
}

// checkRetryFlags (R6.5): boolean flags that guard the sends to the caller must be initialised inside the retry loop.
func checkRetryFlags(c *core.Ctx, fn *ssa.Function) {
	loops := ssax.Loops(fn)
	var sub ssa.Instruction
	ssax.Instrs(fn, func(ins ssa.Instruction) {
		if isSubmit(ssax.CallOf(ins)) {
			sub = ins
		}
	})
	if sub == nil {
		return
	}
	var retry *ssax.Loop
	for _, l := range loops {
		if l.Blocks[sub.Block()] && countedLoop(l) {
			retry = l
		}
	}
	key := core.FuncName(fn) + "#per-attempt-flags"
	if retry == nil {
		c.Undecided("R6.5", key, c.P.Pos(sub.Pos()), "no bounded retry loop around the submit")
		return
	}
	// flags guarding sends to the caller
	flags := map[*ssa.Phi]bool{}
	ssax.Instrs(fn, func(ins ssa.Instruction) {
		snd, ok := ins.(*ssa.Send)
		if !ok {
			return
		}
		if _, isParam := snd.Chan.(*ssa.Parameter); !isParam {
			return
		}
		for _, ec := range ssax.DomConds(ins.Block()) {
			if phi, ok := ec.Cond.(*ssa.Phi); ok && types.TypeString(phi.Type(), nil) == "bool" {
				flags[phi] = true
			}
		}
	})
	var bad []string
	n := 0
	for phi := range flags {
		n++
		// follow entry operands outwards: the value the flag has when an attempt starts
		cur := phi
		for depth := 0; depth < 4; depth++ {
			if cur.Block() == retry.Header {
				bad = append(bad, fmt.Sprintf("flag %s is carried around the retry loop (phi at %s): once set it suppresses every later attempt's replies", phi.Comment, c.P.Pos(firstPos(retry.Header))))
				break
			}
			var next *ssa.Phi
			for i, e := range cur.Edges {
				pred := cur.Block().Preds[i]
				l := ssax.InnermostLoop(loops, cur.Block())
				if l != nil && l.Blocks[pred] && l.Header == cur.Block() {
					continue // back edge of the inner loop
				}
				if p2, ok := e.(*ssa.Phi); ok {
					next = p2
				}
			}
			if next == nil {
				break
			}
			cur = next
		}
	}
	if n == 0 {
		c.OK("R6.5", key, c.P.Pos(sub.Pos()), "no flag guards the hand-back")
		return
	}
	c.Check(len(bad) == 0, "R6.5", key, c.P.Pos(sub.Pos()), fmt.Sprintf("%d hand-back guard flag(s), each initialised inside the retry loop", n), strings.Join(uniq(bad), "; "))
}

// counterOnly: v is built from phis and "+ constant" steps only.
func counterOnly(v ssa.Value) string {
	seen := map[ssa.Value]bool{}
	var walk func(v ssa.Value) string
	walk = func(v ssa.Value) string {
		if v == nil || seen[v] {
			return ""
		}
		seen[v] = true
		switch x := v.(type) {
		case *ssa.Phi:
			for _, e := range x.Edges {
				if w := walk(e); w != "" {
					return w
				}
			}
			return ""
		case *ssa.BinOp:
			if x.Op == token.ADD {
				if _, ok := ssax.ConstInt(x.Y); ok {
					return walk(x.X)
				}
				if _, ok := ssax.ConstInt(x.X); ok {
					return walk(x.Y)
				}
			}
			return "the opaque is computed as an offset (" + x.X.Name() + " " + x.Op.String() + " " + x.Y.Name() + ") of the batch counter instead of advancing the counter: later requests of the batch reuse opaques that are already taken"
		case *ssa.Convert:
			return walk(x.X)
		case *ssa.Call, *ssa.Const:
			return "" // the random base of the batch
		}
		return ""
	}
	return walk(v)
}

func firstPos(b *ssa.BasicBlock) token.Pos {
	for _, ins := range b.Instrs {
		if ins.Pos().IsValid() {
			return ins.Pos()
		}
	}
	return token.NoPos
}

// advancesIn: the value changes from one iteration of loop l to the next (it depends on a header phi whose in-loop operand is an increment).
func advancesIn(v ssa.Value, l *ssax.Loop) bool {
	seen := map[ssa.Value]bool{}
	var walk func(v ssa.Value) bool
	walk = func(v ssa.Value) bool {
		if v == nil || seen[v] {
			return false
		}
		seen[v] = true
		switch x := v.(type) {
		case *ssa.Phi:
			if x.Block() == l.Header {
				for i, e := range x.Edges {
					if l.Blocks[x.Block().Preds[i]] && e != ssa.Value(x) {
						if bo, ok := e.(*ssa.BinOp); ok && bo.Op == token.ADD {
							return true
						}
						if p2, ok := e.(*ssa.Phi); ok && p2 != x {
							// nested: the inner loop's exit value
							for _, e2 := range p2.Edges {
								if bo, ok := e2.(*ssa.BinOp); ok && bo.Op == token.ADD {
									return true
								}
							}
						}
					}
				}
				return false
			}
			for _, e := range x.Edges {
				if walk(e) {
					return true
				}
			}
		case *ssa.BinOp:
			return walk(x.X) || walk(x.Y)
		case *ssa.Convert:
			return walk(x.X)
		}
		return false
	}
	return walk(v)
}

func derivesFromFieldNamed(v ssa.Value, fields ...string) bool {
	seen := map[ssa.Value]bool{}
	var walk func(v ssa.Value) bool
	walk = func(v ssa.Value) bool {
		if v == nil || seen[v] {
			return false
		}
		seen[v] = true
		for _, f := range fields {
			if isFieldLoad(v, f) {
				return true
			}
		}
		switch x := v.(type) {
		case *ssa.Phi:
			for _, e := range x.Edges {
				if walk(e) {
					return true
				}
			}
		case *ssa.BinOp:
			return walk(x.X) || walk(x.Y)
		case *ssa.UnOp:
			return walk(x.X)
		case *ssa.Convert:
			return walk(x.X)
		}
		return false
	}
	return walk(v)
}

func runR64(c *core.Ctx, rd *ssa.Function) {
	pv := &ssax.Prov{}
	// the decoded status and its error region
	var dec *ssa.Call
	ssax.Instrs(rd, func(ins ssa.Instruction) {
		if call, ok := ins.(*ssa.Call); ok && ssax.CalleeName(&call.Call) == pBinprot+".DecodeError" {
			dec = call
		}
	})
	key := "batched.(*conn).reader#status-propagation"
	if dec == nil {
		c.Undecided("R6.4", key, c.P.Pos(rd.Pos()), "the reader does not decode the reply status")
		return
	}
	var region *ssa.BasicBlock
	for _, b := range rd.Blocks {
		ifi, ok := b.Instrs[len(b.Instrs)-1].(*ssa.If)
		if !ok {
			continue
		}
		if bo, ok := ifi.Cond.(*ssa.BinOp); ok && bo.Op == token.NEQ && ssax.IsNilConst(bo.Y) {
			if ds := ssax.Defs(bo.X); len(ds) == 1 && ds[0] == ssa.Value(dec) {
				region = b.Succs[0]
			}
		}
	}
	if region == nil {
		c.Undecided("R6.4", key, c.P.Pos(dec.Pos()), "no error-status branch on the decoded status")
		return
	}
	var bad []string
	n := 0
	ssax.Instrs(rd, func(ins ssa.Instruction) {
		snd, ok := ins.(*ssa.Send)
		if !ok || !region.Dominates(ins.Block()) {
			return
		}
		n++
		srcs := pv.Sources(snd.X, "err")
		if ssax.All(srcs, func(s ssax.Src) bool { return s.Kind == "call" && s.Call == &dec.Call }) {
			return
		}
		// payload-encoded outcome: must be guarded by the opcode / request type
		guarded := false
		for _, ec := range ssax.DomConds(ins.Block()) {
			if !region.Dominates(ec.If.Block()) && ec.If.Block() != region {
				continue
			}
			if derivesFromFieldNamed(ec.Cond, "Opcode", "reqtype") {
				guarded = true
			}
		}
		if !guarded {
			bad = append(bad, fmt.Sprintf("at %s an error status is turned into a payload (err <- %s) for every kind of command: the caller of a non-get command discards the payload and sees success (add on an existing key succeeds)", c.P.Pos(ins.Pos()), strings.Join(ssax.Strings(srcs), ",")))
		}
	})
	if n == 0 {
		c.Undecided("R6.4", key, c.P.Pos(dec.Pos()), "nothing is sent in the error-status region")
		return
	}
	c.Check(len(bad) == 0, "R6.4", key, c.P.Pos(dec.Pos()), fmt.Sprintf("%d sends in the error-status region carry the decoded error or are guarded by the reply opcode", n), strings.Join(bad, "; "), bad...)
}

// checkRepliesCounted (R6.3, per case): the number recorded in channels[req.reschan] for a request equals the number of
// commands written for it - every command the serialiser writes is a non-quiet opcode and is answered, and recovery uses
// the count to know whether the caller still waits. One command outside a loop => the constant 1; commands written in a
// loop over a slice => len of that slice, or a counter incremented in the block of the write.
func checkRepliesCounted(c *core.Ctx, pv *ssax.Prov, ser *ssa.Function, loops []*ssax.Loop, write ssa.Instruction, rt string) {
	key := "batchIntoBuffer#reply-count:" + rt
	var upd *ssa.MapUpdate
	hit, trail := (ssax.Reach{Target: func(i ssa.Instruction) bool {
		mu, ok := i.(*ssa.MapUpdate)
		return ok && types.TypeString(mu.Value.Type(), nil) == "int" && ssax.All(pv.Sources(mu.Key), func(s ssax.Src) bool { return s.Kind == "param" && s.PathIs("[]", "reschan") })
	}}).From(write)
	if hit == nil {
		c.Violate("R6.3", key, c.P.Pos(write.Pos()), "after this command is written no reply count is recorded for the request's channel")
		return
	}
	upd = hit.(*ssa.MapUpdate)
	v := upd.Value
	for {
		phi, ok := v.(*ssa.Phi)
		if !ok {
			break
		}
		// the operand for the path the write takes into the phi's block
		var pred *ssa.BasicBlock
		for i, b := range trail {
			if b == phi.Block() && i > 0 {
				pred = trail[i-1]
			}
		}
		if pred == nil {
			break
		}
		nv := ssax.PhiOperand(phi, pred)
		if nv == nil || nv == v {
			break
		}
		v = nv
	}
	// the per-request loop is the outermost loop containing the write; an inner one means one command per element
	var inner *ssax.Loop
	for _, l := range loops {
		if l.Blocks[write.Block()] && !l.Blocks[upd.Block()] {
			if inner == nil || len(l.Blocks) < len(inner.Blocks) {
				inner = l
			}
		}
	}
	if inner == nil {
		k, isConst := ssax.ConstInt(v)
		c.Check(isConst && k == 1, "R6.3", key, c.P.Pos(upd.Pos()), "one command written, one reply expected",
			"one command is written for the request but the number of replies recorded for its channel is "+v.String()+": recovery tells the wrong callers to retry (or blocks on a channel nobody reads)")
		return
	}
	ok := false
	why := "the number of replies recorded is " + v.String() + " (" + v.Name() + "), neither the length of the slice the commands are written for nor a counter advanced with every write"
	if call, isCall := ssax.Unwrap(v).(*ssa.Call); isCall {
		if b, isB := call.Call.Value.(*ssa.Builtin); isB && b.Name() == "len" {
			want := strings.Join(ssax.Strings(pv.Sources(call.Call.Args[0])), ",")
			// the loop bound: idx < len(S)
			for _, ins := range inner.Header.Instrs {
				if bo, isBO := ins.(*ssa.BinOp); isBO && bo.Op == token.LSS {
					if lc, isLC := ssax.Unwrap(bo.Y).(*ssa.Call); isLC {
						if bb, isBB := lc.Call.Value.(*ssa.Builtin); isBB && bb.Name() == "len" && strings.Join(ssax.Strings(pv.Sources(lc.Call.Args[0])), ",") == want {
							ok = true
						}
					}
				}
			}
			if !ok {
				why = "the number of replies recorded is len(" + want + "), but the commands are written in a loop over another slice"
			}
		}
	}
	if !ok {
		// a counter: phi in the inner loop's header whose back-edge value is phi+1 computed in the block of the write
		for _, d := range ssax.Defs(v) {
			if phi, isPhi := d.(*ssa.Phi); isPhi && phi.Block() == inner.Header {
				for _, e := range phi.Edges {
					if bo, isBO := e.(*ssa.BinOp); isBO && bo.Op == token.ADD && (bo.X == ssa.Value(phi) || bo.Y == ssa.Value(phi)) {
						one := bo.Y
						if bo.Y == ssa.Value(phi) {
							one = bo.X
						}
						if k, isC := ssax.ConstInt(one); isC && k == 1 {
							if bo.Block() == write.Block() {
								ok = true
							} else {
								why = "the reply counter is advanced at " + c.P.Pos(bo.Pos()) + ", not with every command written (" + c.P.Pos(write.Pos()) + "): every command of the serialiser is answered, so each one must be counted"
							}
						}
					}
				}
			}
		}
	}
	c.Check(ok, "R6.3", key, c.P.Pos(upd.Pos()), "one reply expected per command written in the loop", why+": recovery skips a caller that still waits, which then takes the closed channel for the end of a complete answer")
}

// opaqueIncrements: the instructions that advance the opaque counter of the serialiser (BinOp + positive constant in the
// backward web of the opaque arguments of the command writers).
func opaqueIncrements(ser *ssa.Function) map[ssa.Instruction]bool {
	incs := map[ssa.Instruction]bool{}
	seen := map[ssa.Value]bool{}
	var walk func(v ssa.Value)
	walk = func(v ssa.Value) {
		if v == nil || seen[v] {
			return
		}
		seen[v] = true
		switch x := v.(type) {
		case *ssa.Phi:
			for _, e := range x.Edges {
				walk(e)
			}
		case *ssa.BinOp:
			if x.Op == token.ADD {
				if k, ok := ssax.ConstInt(x.Y); ok && k > 0 {
					incs[x] = true
					walk(x.X)
				} else if k, ok := ssax.ConstInt(x.X); ok && k > 0 {
					incs[x] = true
					walk(x.Y)
				}
			}
		case *ssa.Convert:
			walk(x.X)
		}
	}
	ssax.Instrs(ser, func(ins ssa.Instruction) {
		if cc := ssax.CallOf(ins); cc != nil && strings.HasPrefix(ssax.CalleeName(cc), pBinprot+".Write") && len(cc.Args) > 0 {
			walk(cc.Args[len(cc.Args)-1])
		}
	})
	return incs
}

type opqState struct {
	f       ssax.Facts
	pending string // position of a command written since the opaque last advanced ("" = none)
}

func (s *opqState) Key() string       { return s.pending + "/" + s.f.Key() }
func (s *opqState) Copy() ssax.PState { return &opqState{s.f.Clone(), s.pending} }

// checkOpaquesDistinct (R6.3): no two commands of one batch carry the same opaque. Path exploration of the serialiser
// with constant/interval facts for its small integers (loop indices, the expected-reply count): on every feasible
// path the opaque counter advances between two consecutive command writes, whichever requests they belong to.
func checkOpaquesDistinct(c *core.Ctx, ser *ssa.Function) {
	incs := opaqueIncrements(ser)
	isWrite := func(i ssa.Instruction) bool {
		cc := ssax.CallOf(i)
		return cc != nil && strings.HasPrefix(ssax.CalleeName(cc), pBinprot+".Write")
	}
	var bad []string
	ex := &ssax.Explorer{Fn: ser}
	ex.Enter = func(b, pred *ssa.BasicBlock, st ssax.PState) { st.(*opqState).f.EnterBlock(b, pred) }
	ex.Instr = func(ins ssa.Instruction, ps ssax.PState) bool {
		s := ps.(*opqState)
		if incs[ins] {
			s.pending = ""
		}
		if isWrite(ins) {
			if s.pending != "" {
				bad = append(bad, "the command at "+c.P.Pos(ins.Pos())+" can be written with the same opaque as the one at "+s.pending)
			}
			s.pending = c.P.Pos(ins.Pos())
		}
		s.f.Step(ins)
		return true
	}
	// only the small integers matter here (loop indices, the expected-reply count): everything else is dropped so that
	// the state space stays small
	intsOnly := func(v ssa.Value) bool {
		t := v.Type()
		if p, ok := t.(*types.Pointer); ok {
			t = p.Elem()
		}
		b, ok := t.Underlying().(*types.Basic)
		return ok && b.Info()&types.IsInteger != 0
	}
	ex.Branch = func(ifi *ssa.If, truth bool, ps ssax.PState) bool {
		s := ps.(*opqState)
		if !s.f.Assume(ifi.Cond, truth) {
			return false
		}
		s.f.Retain(intsOnly)
		return true
	}
	ex.Run(&opqState{f: ssax.Facts{}})
	key := "batchIntoBuffer#opaques-distinct"
	if ex.Exceeded {
		c.Undecided("R6.3", key, c.P.Pos(ser.Pos()), "state space exceeded")
		return
	}
	bad = uniq(bad)
	sort.Strings(bad)
	c.Check(len(bad) == 0, "R6.3", key, c.P.Pos(ser.Pos()), fmt.Sprintf("the opaque advances between any two consecutive command writes (%d abstract states)", ex.Visited),
		strings.Join(bad, "; ")+": the later registration overwrites the earlier one in the reply table, so one caller receives another caller's reply and the other waits forever")
}
