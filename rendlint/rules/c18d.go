package rules

import (
	"fmt"
	"go/token"
	"go/types"
	"math/big"
	"sort"
	"strconv"
	"strings"

	"golang.org/x/tools/go/ssa"

	"rendlint/core"
	"rendlint/ssax"
)

// R18.15: the bucket function against the table of bucket upper bounds, for every value.
//
// The bucket function is interpreted abstractly, never run. Its argument n ranges over one leading-bit class at a time
// ([2^t, 2^(t+1)-1], t = 0..62, plus {0}); inside a class the call of the bit-count routine is a constant (that the
// routine counts leading zeros is R18.5). Every SSA value is then either a constant or a monotone step function of n
// in the exact form floor((a*n + b) / c) with integer a >= 0, c > 0 - the form is closed under the operations the
// function uses (shift right, subtraction and addition of constants, division by a constant, multiplication of an
// undivided value by a constant, indexing a constant table with a constant). A comparison of such a value with a
// constant splits the class at an exactly computed threshold, so every return is reached with an interval of n and a
// closed form of the result. From the closed forms follow, for every n at once:
//
//   - the largest n that is sent to bucket v, for every v that occurs - which must not exceed the upper bound the
//     repository's bounds table gives for bucket v;
//   - monotonicity: inside a piece by the form itself, between consecutive pieces by comparing their end points.
//
// Anything outside the closed form (a product that may exceed 64 bits, a value that is not monotone in n, a loop) is
// reported as undecided with the construct - never guessed.

type absVal struct {
	isConst bool
	k       *big.Int // constant
	a, b, c *big.Int // floor((a*n+b)/c)
}

func constVal(k *big.Int) absVal { return absVal{isConst: true, k: new(big.Int).Set(k)} }
func constInt(k int64) absVal    { return absVal{isConst: true, k: big.NewInt(k)} }

func (v absVal) at(n *big.Int) *big.Int {
	if v.isConst {
		return new(big.Int).Set(v.k)
	}
	num := new(big.Int).Mul(v.a, n)
	num.Add(num, v.b)
	return floorDiv(num, v.c)
}

func (v absVal) String() string {
	if v.isConst {
		return v.k.String()
	}
	return fmt.Sprintf("floor((%v*n%+v)/%v)", v.a, v.b, v.c)
}

func floorDiv(x, y *big.Int) *big.Int {
	q, m := new(big.Int).DivMod(x, y, new(big.Int)) // Euclidean: m >= 0; for y > 0 this is the floor
	_ = m
	return q
}

func ceilDiv(x, y *big.Int) *big.Int {
	q := floorDiv(new(big.Int).Add(x, new(big.Int).Sub(y, big.NewInt(1))), y)
	return q
}

// norm turns a step function that does not step inside [lo,hi] into a constant.
func (v absVal) norm(lo, hi *big.Int) absVal {
	if v.isConst {
		return v
	}
	x, y := v.at(lo), v.at(hi)
	if x.Cmp(y) == 0 {
		return constVal(x)
	}
	return v
}

type bucketPiece struct {
	lo, hi *big.Int
	res    absVal
	pos    token.Pos
}

type bucketInterp struct {
	c       *core.Ctx
	fn      *ssa.Function
	tables  map[*ssa.Global]map[int64]int64
	word    int64
	pieces  []bucketPiece
	undec   []string
	classT  int // leading-bit position of the class under interpretation (-1: n == 0)
	budget  int
	bitFunc func(*ssa.Function) bool
	// inputField: when set, the abstract input n is not the function's integer parameter but the load of this field of
	// its (pointer) parameter; non-integer values are ignored and a non-integer result is recorded as 1 (not the nil
	// constant) or 0 (the nil constant)
	inputField string
}

type bucketState struct {
	b, pred *ssa.BasicBlock
	lo, hi  *big.Int
	env     map[ssa.Value]absVal
}

func (bi *bucketInterp) fail(format string, args ...interface{}) {
	bi.undec = append(bi.undec, fmt.Sprintf(format, args...))
}

func (bi *bucketInterp) typeBits(t types.Type) (bits int64, signed, ok bool) {
	b, isB := t.Underlying().(*types.Basic)
	if !isB {
		return 0, false, false
	}
	switch b.Kind() {
	case types.Int8:
		return 8, true, true
	case types.Uint8:
		return 8, false, true
	case types.Int16:
		return 16, true, true
	case types.Uint16:
		return 16, false, true
	case types.Int32:
		return 32, true, true
	case types.Uint32:
		return 32, false, true
	case types.Int64:
		return 64, true, true
	case types.Uint64:
		return 64, false, true
	case types.Int:
		return bi.word * 8, true, true
	case types.Uint, types.Uintptr:
		return bi.word * 8, false, true
	}
	return 0, false, false
}

// fits reports whether v stays inside the range of type t for every n of [lo,hi].
func (bi *bucketInterp) fits(v absVal, t types.Type, lo, hi *big.Int) bool {
	bits, signed, ok := bi.typeBits(t)
	if !ok {
		return false
	}
	min, max := big.NewInt(0), new(big.Int).Lsh(big.NewInt(1), uint(bits))
	if signed {
		max = new(big.Int).Lsh(big.NewInt(1), uint(bits-1))
		min = new(big.Int).Neg(max)
	}
	max.Sub(max, big.NewInt(1))
	x, y := v.at(lo), v.at(hi)
	return x.Cmp(min) >= 0 && y.Cmp(max) <= 0 && y.Cmp(min) >= 0 && x.Cmp(max) <= 0
}

func (bi *bucketInterp) eval(v ssa.Value, st *bucketState) (absVal, bool) {
	if k, ok := v.(*ssa.Const); ok {
		if i, isInt := ssax.ConstInt(k); isInt {
			// ConstInt is int64: large unsigned constants wrap; use the exact value
			if k.Value != nil {
				if bv, ok := new(big.Int).SetString(k.Value.ExactString(), 10); ok {
					return constVal(bv), true
				}
			}
			return constInt(i), true
		}
		return absVal{}, false
	}
	r, ok := st.env[v]
	if !ok {
		return absVal{}, false
	}
	return r.norm(st.lo, st.hi), true
}

// step interprets one non-control instruction; false = cannot continue on this path.
func (bi *bucketInterp) step(ins ssa.Instruction, st *bucketState) bool {
	pos := func() string { return bi.c.P.Pos(ins.Pos()) }
	switch x := ins.(type) {
	case *ssa.DebugRef:
		return true
	case *ssa.BinOp:
		l, ok1 := bi.eval(x.X, st)
		r, ok2 := bi.eval(x.Y, st)
		if !ok1 || !ok2 {
			bi.fail("operand of %s at %s has no closed form", x.Op, pos())
			return false
		}
		switch x.Op {
		case token.EQL, token.NEQ, token.LSS, token.LEQ, token.GTR, token.GEQ:
			// evaluated at the If that uses it
			return true
		}
		var res absVal
		switch {
		case l.isConst && r.isConst:
			z := new(big.Int)
			switch x.Op {
			case token.ADD:
				z.Add(l.k, r.k)
			case token.SUB:
				z.Sub(l.k, r.k)
			case token.MUL:
				z.Mul(l.k, r.k)
			case token.QUO:
				if r.k.Sign() == 0 {
					bi.fail("division by zero at %s for n in [%v,%v]", pos(), st.lo, st.hi)
					return false
				}
				if l.k.Sign() < 0 || r.k.Sign() < 0 {
					bi.fail("signed division at %s", pos())
					return false
				}
				z = floorDiv(l.k, r.k)
			case token.REM:
				if r.k.Sign() <= 0 || l.k.Sign() < 0 {
					bi.fail("remainder at %s", pos())
					return false
				}
				z.Mod(l.k, r.k)
			case token.SHL:
				z.Lsh(l.k, uint(r.k.Int64()))
			case token.SHR:
				z.Rsh(l.k, uint(r.k.Int64()))
			case token.AND:
				z.And(l.k, r.k)
			case token.OR:
				z.Or(l.k, r.k)
			case token.XOR:
				z.Xor(l.k, r.k)
			default:
				bi.fail("operator %s at %s is outside the closed form", x.Op, pos())
				return false
			}
			res = constVal(z)
		case !l.isConst && r.isConst:
			switch x.Op {
			case token.ADD:
				res = absVal{a: l.a, b: new(big.Int).Add(l.b, new(big.Int).Mul(r.k, l.c)), c: l.c}
			case token.SUB:
				res = absVal{a: l.a, b: new(big.Int).Sub(l.b, new(big.Int).Mul(r.k, l.c)), c: l.c}
			case token.QUO:
				if r.k.Sign() <= 0 {
					bi.fail("division by %v at %s for n in [%v,%v]", r.k, pos(), st.lo, st.hi)
					return false
				}
				if l.at(st.lo).Sign() < 0 {
					bi.fail("division of a possibly negative value at %s", pos())
					return false
				}
				res = absVal{a: l.a, b: l.b, c: new(big.Int).Mul(l.c, r.k)}
			case token.SHR:
				res = absVal{a: l.a, b: l.b, c: new(big.Int).Lsh(l.c, uint(r.k.Int64()))}
			case token.MUL, token.SHL:
				m := new(big.Int).Set(r.k)
				if x.Op == token.SHL {
					m = new(big.Int).Lsh(big.NewInt(1), uint(r.k.Int64()))
				}
				if l.c.Cmp(big.NewInt(1)) != 0 || m.Sign() < 0 {
					bi.fail("product of an already divided value at %s is outside the closed form", pos())
					return false
				}
				res = absVal{a: new(big.Int).Mul(l.a, m), b: new(big.Int).Mul(l.b, m), c: big.NewInt(1)}
			default:
				bi.fail("operator %s on a value that varies with n at %s is outside the closed form", x.Op, pos())
				return false
			}
		case l.isConst && !r.isConst:
			switch x.Op {
			case token.ADD:
				res = absVal{a: r.a, b: new(big.Int).Add(r.b, new(big.Int).Mul(l.k, r.c)), c: r.c}
			case token.MUL:
				if r.c.Cmp(big.NewInt(1)) != 0 || l.k.Sign() < 0 {
					bi.fail("product of an already divided value at %s is outside the closed form", pos())
					return false
				}
				res = absVal{a: new(big.Int).Mul(r.a, l.k), b: new(big.Int).Mul(r.b, l.k), c: big.NewInt(1)}
			default:
				bi.fail("operator %s with a varying right operand at %s is outside the closed form (not monotone in n)", x.Op, pos())
				return false
			}
		default:
			bi.fail("operator %s on two values that vary with n at %s is outside the closed form", x.Op, pos())
			return false
		}
		if !bi.fits(res, x.Type(), st.lo, st.hi) {
			bi.fail("the result of %s at %s may leave the range of %s for n in [%v,%v] (%s): wrap-around", x.Op, pos(), x.Type(), st.lo, st.hi, res)
			return false
		}
		st.env[x] = res
		return true
	case *ssa.Convert:
		v, ok := bi.eval(x.X, st)
		if !ok {
			bi.fail("operand of the conversion at %s has no closed form", pos())
			return false
		}
		if !bi.fits(v, x.Type(), st.lo, st.hi) {
			bi.fail("the conversion to %s at %s may change the value for n in [%v,%v]", x.Type(), pos(), st.lo, st.hi)
			return false
		}
		st.env[x] = v
		return true
	case *ssa.ChangeType:
		v, ok := bi.eval(x.X, st)
		if !ok {
			return false
		}
		st.env[x] = v
		return true
	case *ssa.Call:
		callee := x.Call.StaticCallee()
		if callee != nil && bi.bitFunc(callee) && len(x.Call.Args) == 1 {
			arg, ok := bi.eval(x.Call.Args[0], st)
			if !ok {
				bi.fail("argument of the bit-count routine at %s has no closed form", pos())
				return false
			}
			lz := func(v *big.Int) int64 { return int64(64 - v.BitLen()) }
			a, b := lz(arg.at(st.lo)), lz(arg.at(st.hi))
			if a != b {
				bi.fail("the bit-count routine at %s is not constant over n in [%v,%v]", pos(), st.lo, st.hi)
				return false
			}
			st.env[x] = constInt(a)
			return true
		}
		bi.fail("call of %s at %s is outside the closed form", ssax.CalleeName(&x.Call), pos())
		return false
	case *ssa.IndexAddr:
		return true // resolved at the load
	case *ssa.UnOp:
		if x.Op == token.MUL {
			if fa, isFA := x.X.(*ssa.FieldAddr); isFA && bi.inputField != "" {
				if f, _ := ssax.FieldName(fa); f == bi.inputField {
					if _, isParam := fa.X.(*ssa.Parameter); isParam {
						st.env[x] = absVal{a: big.NewInt(1), b: big.NewInt(0), c: big.NewInt(1)}
						return true
					}
				}
			}
			if _, _, isInt := bi.typeBits(x.Type()); !isInt && bi.inputField != "" {
				return true
			}
			ia, ok := x.X.(*ssa.IndexAddr)
			if !ok {
				bi.fail("load at %s is outside the closed form", pos())
				return false
			}
			g := globalArray(ia.X)
			if g == nil {
				g = ssax.GlobalLoad(ia.X)
			}
			idx, okI := bi.eval(ia.Index, st)
			if g == nil || !okI || !idx.isConst {
				bi.fail("table access at %s: the index varies with n inside [%v,%v] or the table is not a package-level constant table", pos(), st.lo, st.hi)
				return false
			}
			tab := bi.tables[g]
			if tab == nil {
				tab = constTable(bi.c, g)
				bi.tables[g] = tab
			}
			v, okV := tab[idx.k.Int64()]
			if !okV {
				bi.fail("table access at %s: %s[%v] is outside the table (or not a constant)", pos(), g.Name(), idx.k)
				return false
			}
			st.env[x] = constInt(v)
			return true
		}
		if x.Op == token.SUB {
			bi.fail("negation at %s is outside the closed form", pos())
			return false
		}
		bi.fail("operator %s at %s is outside the closed form", x.Op, pos())
		return false
	}
	if bi.inputField != "" {
		if v, isVal := ins.(ssa.Value); !isVal {
			return true
		} else if _, _, isInt := bi.typeBits(v.Type()); !isInt {
			return true // not part of the integer computation
		}
	}
	bi.fail("instruction %T at %s is outside the closed form", ins, pos())
	return false
}

// geThreshold returns the least n with f(n) >= K (f = floor((a n + b)/c), a > 0).
func geThreshold(f absVal, K *big.Int) *big.Int {
	// floor((a n + b)/c) >= K  <=>  a n + b >= K c  <=>  n >= ceil((K c - b)/a)
	num := new(big.Int).Mul(K, f.c)
	num.Sub(num, f.b)
	return ceilDiv(num, f.a)
}

// split evaluates cond over [lo,hi] and returns the sub-intervals on which it is true / false.
func (bi *bucketInterp) split(cond ssa.Value, st *bucketState) (tr, fl [][2]*big.Int, ok bool) {
	whole := [][2]*big.Int{{st.lo, st.hi}}
	bo, isBin := cond.(*ssa.BinOp)
	if !isBin {
		if u, isNot := cond.(*ssa.UnOp); isNot && u.Op == token.NOT {
			t, f, ok := bi.split(u.X, st)
			return f, t, ok
		}
		bi.fail("condition at %s is outside the closed form", bi.c.P.Pos(cond.Pos()))
		return nil, nil, false
	}
	l, ok1 := bi.eval(bo.X, st)
	r, ok2 := bi.eval(bo.Y, st)
	if !ok1 || !ok2 {
		bi.fail("operand of the comparison at %s has no closed form", bi.c.P.Pos(bo.Pos()))
		return nil, nil, false
	}
	op := bo.Op
	if l.isConst && !r.isConst {
		l, r = r, l
		switch op {
		case token.LSS:
			op = token.GTR
		case token.LEQ:
			op = token.GEQ
		case token.GTR:
			op = token.LSS
		case token.GEQ:
			op = token.LEQ
		}
	}
	if l.isConst && r.isConst {
		cmp := l.k.Cmp(r.k)
		var t bool
		switch op {
		case token.EQL:
			t = cmp == 0
		case token.NEQ:
			t = cmp != 0
		case token.LSS:
			t = cmp < 0
		case token.LEQ:
			t = cmp <= 0
		case token.GTR:
			t = cmp > 0
		case token.GEQ:
			t = cmp >= 0
		default:
			return nil, nil, false
		}
		if t {
			return whole, nil, true
		}
		return nil, whole, true
	}
	if !r.isConst {
		bi.fail("comparison of two values that vary with n at %s is outside the closed form", bi.c.P.Pos(bo.Pos()))
		return nil, nil, false
	}
	if l.a.Sign() <= 0 {
		bi.fail("comparison at %s: left operand does not grow with n", bi.c.P.Pos(bo.Pos()))
		return nil, nil, false
	}
	one := big.NewInt(1)
	clip := func(a, b *big.Int) [][2]*big.Int {
		lo, hi := new(big.Int).Set(a), new(big.Int).Set(b)
		if lo.Cmp(st.lo) < 0 {
			lo.Set(st.lo)
		}
		if hi.Cmp(st.hi) > 0 {
			hi.Set(st.hi)
		}
		if lo.Cmp(hi) > 0 {
			return nil
		}
		return [][2]*big.Int{{lo, hi}}
	}
	ge := func(K *big.Int) (t, f [][2]*big.Int) {
		th := geThreshold(l, K)
		return clip(th, st.hi), clip(st.lo, new(big.Int).Sub(th, one))
	}
	switch op {
	case token.GEQ:
		t, f := ge(r.k)
		return t, f, true
	case token.GTR:
		t, f := ge(new(big.Int).Add(r.k, one))
		return t, f, true
	case token.LSS:
		t, f := ge(r.k)
		return f, t, true
	case token.LEQ:
		t, f := ge(new(big.Int).Add(r.k, one))
		return f, t, true
	case token.EQL, token.NEQ:
		th1 := geThreshold(l, r.k)
		th2 := geThreshold(l, new(big.Int).Add(r.k, one))
		eq := clip(th1, new(big.Int).Sub(th2, one))
		ne := append(clip(st.lo, new(big.Int).Sub(th1, one)), clip(th2, st.hi)...)
		if op == token.EQL {
			return eq, ne, true
		}
		return ne, eq, true
	}
	return nil, nil, false
}

// run interprets the function for n in [lo,hi].
func (bi *bucketInterp) run(lo, hi *big.Int) {
	if len(bi.fn.Params) != 1 {
		bi.fail("the bucket function does not take exactly one argument")
		return
	}
	n := bi.fn.Params[0]
	init := &bucketState{b: bi.fn.Blocks[0], lo: lo, hi: hi, env: map[ssa.Value]absVal{}}
	if bi.inputField == "" {
		init.env[n] = absVal{a: big.NewInt(1), b: big.NewInt(0), c: big.NewInt(1)}
	}
	work := []*bucketState{init}
	for len(work) > 0 {
		st := work[len(work)-1]
		work = work[:len(work)-1]
		bi.budget--
		if bi.budget < 0 {
			bi.fail("the bucket function has too many paths (a loop?)")
			return
		}
		// phis
		for _, ins := range st.b.Instrs {
			phi, ok := ins.(*ssa.Phi)
			if !ok {
				break
			}
			if st.pred == nil {
				continue
			}
			if v, ok := bi.eval(ssax.PhiOperand(phi, st.pred), st); ok {
				st.env[phi] = v
			} else {
				delete(st.env, phi)
			}
		}
		alive := true
		for _, ins := range st.b.Instrs {
			if !alive {
				break
			}
			switch x := ins.(type) {
			case *ssa.Phi:
				continue
			case *ssa.If:
				tr, fl, ok := bi.split(x.Cond, st)
				if !ok {
					alive = false
					break
				}
				for i, parts := range [][][2]*big.Int{tr, fl} {
					for _, p := range parts {
						env := make(map[ssa.Value]absVal, len(st.env))
						for k, v := range st.env {
							env[k] = v
						}
						work = append(work, &bucketState{b: st.b.Succs[i], pred: st.b, lo: p[0], hi: p[1], env: env})
					}
				}
				alive = false
			case *ssa.Jump:
				work = append(work, &bucketState{b: st.b.Succs[0], pred: st.b, lo: st.lo, hi: st.hi, env: st.env})
				alive = false
			case *ssa.Return:
				if len(x.Results) != 1 {
					bi.fail("the bucket function does not return exactly one value")
				} else if _, _, isInt := bi.typeBits(x.Results[0].Type()); !isInt && bi.inputField != "" {
					res := constInt(1)
					if ssax.IsNilConst(x.Results[0]) {
						res = constInt(0)
					}
					bi.pieces = append(bi.pieces, bucketPiece{lo: st.lo, hi: st.hi, res: res, pos: x.Pos()})
				} else if v, ok := bi.eval(x.Results[0], st); ok {
					bi.pieces = append(bi.pieces, bucketPiece{lo: st.lo, hi: st.hi, res: v, pos: x.Pos()})
				} else {
					bi.fail("the value returned at %s has no closed form", bi.c.P.Pos(x.Pos()))
				}
				alive = false
			case *ssa.Panic:
				bi.fail("the bucket function can panic at %s for n in [%v,%v]", bi.c.P.Pos(x.Pos()), st.lo, st.hi)
				alive = false
			default:
				if !bi.step(ins, st) {
					alive = false
				}
			}
		}
	}
}

// constTable reads the constant initial values of a package-level integer array from the package initialiser.
func constTable(c *core.Ctx, g *ssa.Global) map[int64]int64 {
	vals := map[int64]int64{}
	for _, f := range g.Pkg.Members {
		fn, ok := f.(*ssa.Function)
		if !ok || (fn.Name() != "init" && !strings.HasPrefix(fn.Name(), "init#")) {
			continue
		}
		ssax.Instrs(fn, func(ins ssa.Instruction) {
			st, ok := ins.(*ssa.Store)
			if !ok {
				return
			}
			e, ok := st.Addr.(*ssa.IndexAddr)
			if !ok {
				return
			}
			base := ssax.Unwrap(e.X)
			if base != ssa.Value(g) {
				al, isAl := base.(*ssa.Alloc)
				if !isAl {
					return
				}
				stored := false
				for _, r := range *al.Referrers() {
					if s2, ok := r.(*ssa.Store); ok && s2.Addr == ssa.Value(g) {
						stored = true
					}
					if u, ok := r.(*ssa.UnOp); ok && u.Referrers() != nil {
						for _, rr := range *u.Referrers() {
							if s2, ok := rr.(*ssa.Store); ok && s2.Addr == ssa.Value(g) {
								stored = true
							}
						}
					}
				}
				if !stored {
					return
				}
			}
			idx, ok1 := ssax.ConstInt(e.Index)
			v, ok2 := ssax.ConstInt(st.Val)
			if ok1 && ok2 {
				vals[idx] = v
			}
		})
	}
	return vals
}

func runR1815(c *core.Ctx) {
	c.Rule("R18.15", "for every value up to 2^63-1 the bucket the bucket function computes has an upper bound (the repository's table of bucket bounds) that is not below the value, and the bucket is a non-decreasing function of the value: decided from closed forms of the function per leading-bit class, not by evaluating it", 2)
	fn := findFunc(c, "metrics", "getBucket", roleBucketFn)
	nb, okN := namedConst(c, "metrics", "numAtlasBuckets")
	if fn == nil || !okN {
		c.Undecided("R18.15", "metrics.getBucket#bounds", "-", "bucket function or bucket count not found")
		return
	}
	// the bounds table: the package-level constant integer array with one entry per bucket
	var bounds map[int64]int64
	var boundsName string
	for name, m := range fn.Pkg.Members {
		g, ok := m.(*ssa.Global)
		if !ok {
			continue
		}
		arr, ok := g.Type().(*types.Pointer).Elem().Underlying().(*types.Array)
		if !ok || arr.Len() != nb {
			continue
		}
		if b, isB := arr.Elem().Underlying().(*types.Basic); !isB || b.Info()&types.IsInteger == 0 {
			continue
		}
		if t := constTable(c, g); int64(len(t)) == nb {
			bounds, boundsName = t, name
		}
	}
	if bounds == nil {
		c.Undecided("R18.15", "metrics.getBucket#bounds", c.P.Pos(fn.Pos()), fmt.Sprintf("no constant integer table with one entry per bucket (%d) found in the package", nb))
		return
	}
	word := int64(8)
	if strings.Contains(c.Config, "386") {
		word = 4
	}
	bi := &bucketInterp{c: c, fn: fn, tables: map[*ssa.Global]map[int64]int64{}, word: word, budget: 100000,
		bitFunc: func(f *ssa.Function) bool {
			return f.Pkg == fn.Pkg && f.Parent() == nil && sigIs(f, []string{"uint64"}, []string{"uint64"}) && f != fn
		}}
	one := big.NewInt(1)
	bi.run(big.NewInt(0), big.NewInt(0))
	for t := 0; t <= 62; t++ {
		lo := new(big.Int).Lsh(one, uint(t))
		hi := new(big.Int).Sub(new(big.Int).Lsh(one, uint(t+1)), one)
		bi.run(lo, hi)
		if len(bi.undec) > 0 {
			break
		}
	}
	if len(bi.undec) > 0 {
		c.Undecided("R18.15", "metrics.getBucket#upper-bound", c.P.Pos(fn.Pos()), "the bucket function leaves the closed form: "+uniq(bi.undec)[0])
		c.Undecided("R18.15", "metrics.getBucket#non-decreasing", c.P.Pos(fn.Pos()), "the bucket function leaves the closed form: "+uniq(bi.undec)[0])
		return
	}
	sort.Slice(bi.pieces, func(i, j int) bool { return bi.pieces[i].lo.Cmp(bi.pieces[j].lo) < 0 })
	// coverage: the pieces tile [0, 2^63-1]
	var gaps []string
	next := big.NewInt(0)
	for _, p := range bi.pieces {
		if p.lo.Cmp(next) != 0 {
			gaps = append(gaps, fmt.Sprintf("[%v,%v]", next, new(big.Int).Sub(p.lo, one)))
		}
		next = new(big.Int).Add(p.hi, one)
	}
	if next.Cmp(new(big.Int).Lsh(one, 63)) != 0 {
		gaps = append(gaps, fmt.Sprintf("from %v", next))
	}
	if len(gaps) > 0 {
		c.Undecided("R18.15", "metrics.getBucket#upper-bound", c.P.Pos(fn.Pos()), "the interpretation does not cover "+strings.Join(gaps, ", "))
		return
	}
	var ub, mono []string
	values := 0
	var prevHi *big.Int
	var prevAt *big.Int
	for _, p := range bi.pieces {
		vlo, vhi := p.res.at(p.lo), p.res.at(p.hi)
		if prevHi != nil && vlo.Cmp(prevHi) < 0 {
			mono = append(mono, fmt.Sprintf("value %v is counted in bucket %v, the larger value %v in bucket %v (%s)", prevAt, prevHi, p.lo, vlo, c.P.Pos(p.pos)))
		}
		prevHi, prevAt = vhi, p.hi
		span := new(big.Int).Sub(vhi, vlo)
		if !span.IsInt64() || span.Int64() > 4096 {
			c.Undecided("R18.15", "metrics.getBucket#upper-bound", c.P.Pos(p.pos), fmt.Sprintf("n in [%v,%v] is spread over %v buckets: too many to enumerate", p.lo, p.hi, span))
			return
		}
		for v := new(big.Int).Set(vlo); v.Cmp(vhi) <= 0; v.Add(v, one) {
			values++
			// the largest n of the piece that is counted in bucket v
			last := new(big.Int).Set(p.hi)
			if !p.res.isConst {
				th := geThreshold(p.res, new(big.Int).Add(v, one)) // least n with bucket > v
				th.Sub(th, one)
				if th.Cmp(last) < 0 {
					last = th
				}
			}
			if !v.IsInt64() || v.Sign() < 0 || v.Int64() >= nb {
				ub = append(ub, fmt.Sprintf("value %v is counted in bucket %v: there are %d buckets", last, v, nb))
				continue
			}
			bound := big.NewInt(bounds[v.Int64()])
			if bound.Cmp(last) < 0 {
				ub = append(ub, fmt.Sprintf("value %v is counted in bucket %v, whose upper bound (%s[%v]) is %v (%s)", last, v, boundsName, v, bound, c.P.Pos(p.pos)))
			}
		}
	}
	c.Check(len(ub) == 0, "R18.15", "metrics.getBucket#upper-bound", c.P.Pos(fn.Pos()),
		fmt.Sprintf("%d pieces covering 0..2^63-1, %d (piece, bucket) pairs: the largest value of each is not above %s[bucket]", len(bi.pieces), values, boundsName),
		fmt.Sprintf("%d violations, first: %s", len(ub), first(ub)))
	c.Check(len(mono) == 0, "R18.15", "metrics.getBucket#non-decreasing", c.P.Pos(fn.Pos()),
		fmt.Sprintf("%d pieces, each a monotone step function, end points of consecutive pieces in order", len(bi.pieces)),
		fmt.Sprintf("%d violations, first: %s", len(mono), first(mono)))
}

func first(xs []string) string {
	if len(xs) == 0 {
		return ""
	}
	return xs[0]
}

// runR1816 (R18.16): every reported percentile is one of the period's observations only if every index the percentile
// function uses lies inside the sorted window. An index into the window must be a proper fraction of the window's
// length - (len(w) * a) / b with 0 <= a < b, a an interval (the loop counter), b a constant; or
// int(math.Floor(float64(len(w)) * c1 / c2)) with c1 < c2 - which is below len(w) for every non-empty window; an
// index into the fixed result array must stay below its length for every value of the loop counter. Anything else is
// undecided. (An index one past the end panics in the metrics endpoint; the percentiles are then not reported at all.)
func runR1816(c *core.Ctx) {
	c.Rule("R18.16", "every index the percentile function uses lies inside the sorted window (a proper fraction of its length) or inside the fixed result array, for every window length and every value of the loop counter", 4)
	var fn *ssa.Function
	for _, f := range pkgFuncs(c, "metrics") {
		if f.Signature.Results().Len() != 1 {
			continue
		}
		if arr, ok := f.Signature.Results().At(0).Type().Underlying().(*types.Array); !ok || !types.Identical(arr.Elem().Underlying(), types.Typ[types.Uint64]) {
			continue
		}
		sorts := false
		ssax.Instrs(f, func(ins ssa.Instruction) {
			if cc := ssax.CallOf(ins); cc != nil && strings.HasPrefix(ssax.CalleeName(cc), "sort.") {
				sorts = true
			}
		})
		if sorts {
			fn = f
		}
	}
	if fn == nil {
		c.Undecided("R18.16", "metrics#percentile-function", "-", "no function that sorts a window and returns a fixed array of values found")
		return
	}
	word := int64(8)
	if strings.Contains(c.Config, "386") {
		word = 4
	}
	isLenOf := func(v ssa.Value, s ssa.Value) bool {
		call, ok := ssax.Unwrap(v).(*ssa.Call)
		if !ok {
			return false
		}
		b, isB := call.Call.Value.(*ssa.Builtin)
		return isB && b.Name() == "len" && call.Call.Args[0] == s
	}
	counts := map[string]int{}
	ssax.Instrs(fn, func(ins ssa.Instruction) {
		ia, ok := ins.(*ssa.IndexAddr)
		if !ok {
			return
		}
		pos := c.P.Pos(ia.Pos())
		ev := &ivEval{c: c, word: word, at: ia.Block()}
		if pt, isPtr := ia.X.Type().Underlying().(*types.Pointer); isPtr {
			arr, isArr := pt.Elem().Underlying().(*types.Array)
			if !isArr {
				return
			}
			key := ordinalKey(counts, core.FuncName(fn)+"#result-index")
			lo, hi, ok := ev.eval(ia.Index, 0)
			switch {
			case !ok:
				c.Undecided("R18.16", key, pos, "no bounds for the index into the result array")
			case lo.Sign() < 0 || hi.Cmp(big.NewInt(arr.Len())) >= 0:
				c.Violate("R18.16", key, pos, fmt.Sprintf("the index into the result array ranges over [%v, %v], the array has %d elements: the percentile function panics", lo, hi, arr.Len()))
			default:
				c.OK("R18.16", key, pos, fmt.Sprintf("index in [%v, %v] of %d", lo, hi, arr.Len()))
			}
			return
		}
		if _, isSlice := ia.X.Type().Underlying().(*types.Slice); !isSlice {
			return
		}
		key := ordinalKey(counts, core.FuncName(fn)+"#window-index")
		idx := ia.Index
		// integer form: (len(w) * a) / b
		if q, ok := idx.(*ssa.BinOp); ok && q.Op == token.QUO {
			if m, ok := q.X.(*ssa.BinOp); ok && m.Op == token.MUL {
				a := m.Y
				if isLenOf(m.Y, ia.X) {
					a = m.X
				} else if !isLenOf(m.X, ia.X) {
					a = nil
				}
				if a != nil {
					alo, ahi, okA := ev.eval(a, 0)
					blo, bhi, okB := ev.eval(q.Y, 0)
					switch {
					case !okA || !okB || blo.Cmp(bhi) != 0:
						c.Undecided("R18.16", key, pos, "numerator or denominator of the fraction has no bounds")
					case alo.Sign() < 0 || ahi.Cmp(blo) >= 0:
						c.Violate("R18.16", key, pos, fmt.Sprintf("the window is indexed with len*a/%v where a ranges over [%v, %v]: for a >= %v the index reaches the window's length - the percentile function panics, nothing is reported", blo, alo, ahi, blo))
					default:
						c.OK("R18.16", key, pos, fmt.Sprintf("index = len*a/%v with a in [%v, %v]: below the window's length", blo, alo, ahi))
					}
					return
				}
			}
		}
		// float form: int(math.Floor(float64(len(w)) * c1 / c2))
		if cv, ok := idx.(*ssa.Convert); ok {
			if fl, ok := cv.X.(*ssa.Call); ok && ssax.CalleeName(&fl.Call) == "math.Floor" {
				if q, ok := fl.Call.Args[0].(*ssa.BinOp); ok && q.Op == token.QUO {
					if m, ok := q.X.(*ssa.BinOp); ok && m.Op == token.MUL {
						c1, ok1 := constFloat(m.Y)
						c2, ok2 := constFloat(q.Y)
						if conv, isConv := m.X.(*ssa.Convert); isConv && isLenOf(conv.X, ia.X) && ok1 && ok2 && c2 > 0 {
							c.Check(c1 >= 0 && c1/c2 <= 0.99999, "R18.16", key, pos, fmt.Sprintf("index = floor(len*%v/%v): below the window's length", c1, c2),
								fmt.Sprintf("the window is indexed with floor(len*%v/%v): not below the window's length - the percentile function panics, nothing is reported", c1, c2))
							return
						}
					}
				}
			}
		}
		if k, isC := ssax.ConstInt(idx); isC {
			c.Check(k == 0, "R18.16", key, pos, "first element of a non-empty window", fmt.Sprintf("the window is indexed with the constant %d: it may hold fewer observations", k))
			return
		}
		c.Undecided("R18.16", key, pos, "the index into the window is not a recognised fraction of its length")
	})
}

func constFloat(v ssa.Value) (float64, bool) {
	k, ok := v.(*ssa.Const)
	if !ok || k.Value == nil {
		return 0, false
	}
	f, err := strconv.ParseFloat(k.Value.ExactString(), 64)
	if err != nil {
		// rationals print as a/b
		parts := strings.Split(k.Value.ExactString(), "/")
		if len(parts) == 2 {
			a, e1 := strconv.ParseFloat(parts[0], 64)
			b, e2 := strconv.ParseFloat(parts[1], 64)
			if e1 == nil && e2 == nil && b != 0 {
				return a / b, true
			}
		}
		return 0, false
	}
	return f, true
}
