package rules

import (
	"fmt"
	"go/token"
	"go/types"
	"strings"

	"golang.org/x/tools/go/ssa"

	"rendlint/core"
	"rendlint/ssax"
)

func init() {
	Meta["C11"] = &PropMeta{
		Title: "Malformed client input is contained to its own connection",
		Explain: "Symbolic-length and path analysis of both request parsers and the connection loop: (R11.1) every allocation/read length whose expression contains an unsigned subtraction of wire fields is dominated by a comparison that excludes wrap-around; (R11.4) every allocation length in the parsers is a constant, a length field of the frame or the declared text length, never an unbounded product; (R11.2) after a parse error the loop continues only for the four client-error sentinels, each of which is returned only after input was consumed, and every other error aborts the connection; (R11.3) every (value, request type) pair a parser returns is one the loop's type assertions accept, so no assertion can panic. " +
			"Decides these structural conditions; 'never crashes for all byte strings' as a whole is fuzzing territory and is not decided.",
		Assume: commonAssume,
		Run:    runC11,
	}
}

var parserPkgs = []string{"protocol/binprot", "protocol/textprot"}

func negRel(op token.Token) token.Token {
	switch op {
	case token.LSS:
		return token.GEQ
	case token.LEQ:
		return token.GTR
	case token.GTR:
		return token.LEQ
	case token.GEQ:
		return token.LSS
	}
	return token.ILLEGAL
}

// guardedNonNegative: some condition holding at b establishes lin >= 0.
func guardedNonNegative(b *ssa.BasicBlock, lin ssax.Lin) (bool, string) {
	for _, ec := range ssax.DomConds(b) {
		bo, ok := ec.Cond.(*ssa.BinOp)
		if !ok {
			continue
		}
		op := bo.Op
		if op != token.LSS && op != token.LEQ && op != token.GTR && op != token.GEQ {
			continue
		}
		if !ec.True {
			op = negRel(op)
		}
		ev := &ssax.SymEval{}
		a, bb := ev.Eval(bo.X), ev.Eval(bo.Y)
		if ev.UnsignedSub {
			continue // a guard that itself may wrap proves nothing
		}
		if ev.MinArithBits != 0 && ev.MinArithBits < 32 {
			continue // sum computed in 8/16-bit arithmetic wraps for large fields: proves nothing about the 32-bit length
		}
		d := a.Sub(bb) // relation: d op 0
		switch op {
		case token.GEQ, token.GTR:
			// d >= 0 (or > 0): need lin - d >= 0 constant
			if r := lin.Sub(d); r.IsConst() && r.Const >= 0 {
				return true, "guard " + a.String() + " " + op.String() + " " + bb.String()
			}
		case token.LEQ, token.LSS:
			// -d >= 0
			if r := lin.Add(d); r.IsConst() && r.Const >= 0 {
				return true, "guard " + a.String() + " " + op.String() + " " + bb.String()
			}
		}
	}
	return false, ""
}

func runC11(c *core.Ctx) {
	c.Rule("R11.1", "an allocation or read length in a request parser whose expression contains an unsigned subtraction of wire fields is dominated by a comparison that excludes wrap-around", 2)
	c.Rule("R11.2", "after a parse error the connection loop goes back for the next request only if the error is one of the client-error sentinels, each of which a parser returns only after consuming input; every other parse error aborts the connection", 5)
	c.Rule("R11.3", "every (request value, request type) pair returned by a parser is accepted by the connection loop's type assertion for that type (no assertion can panic)", 20)
	c.Rule("R11.4", "every allocation length in the request parsers is a constant, a length field of the frame, or the length the text command declares; no products or unbounded accumulations", 8)

	// ---- R11.1 / R11.4
	for _, rel := range parserPkgs {
		for _, fn := range pkgFuncs(c, rel) {
			counts := map[string]int{}
			ssax.Instrs(fn, func(ins ssa.Instruction) {
				ms, ok := ins.(*ssa.MakeSlice)
				if !ok {
					return
				}
				ev := &ssax.SymEval{}
				lin := ev.Eval(ms.Len)
				key := ordinalKey(counts, core.FuncName(fn)+"#make")
				pos := c.P.Pos(ms.Pos())
				if ev.UnsignedSub {
					ok, how := guardedNonNegative(ms.Block(), lin)
					c.Check(ok, "R11.1", key, pos, "length "+lin.String()+" cannot wrap: "+how,
						"allocation length "+lin.String()+" is an unsigned subtraction of wire fields with no dominating comparison: a frame whose total body is shorter than key+extras wraps around to a ~4 GiB allocation")
				}
				// R11.4: symbol classes
				var bad []string
				for sym, coef := range lin.Terms {
					if coef != 1 && coef != -1 {
						bad = append(bad, fmt.Sprintf("%d*%s", coef, sym))
						continue
					}
					switch {
					case strings.HasSuffix(sym, ".KeyLength"), strings.HasSuffix(sym, ".TotalBodyLength"), strings.HasSuffix(sym, ".ExtraLength"):
					case strings.HasPrefix(sym, "param:") && !strings.Contains(sym, "."):
						// helper parameter: judged at the call sites below
						if why := helperLenArgs(c, fn, sym); why != "" {
							bad = append(bad, why)
						}
					case declaredTextLength(ms.Len) || (ev.Atoms[sym] != nil && declaredTextLength(ev.Atoms[sym])):
					case strings.HasPrefix(sym, "len("):
						// sized by data already held in memory (e.g. the keys of the command line)
					default:
						bad = append(bad, sym)
					}
				}
				c.Check(len(bad) == 0, "R11.4", key, pos, "length "+lin.String(), "allocation length depends on "+strings.Join(bad, ", ")+", which is not a declared length of the frame")
			})
		}
	}

	// ---- R11.2
	runR112(c)
	// ---- R11.3
	parserReturnPairs(c, "R11.3")
	c.Share(map[string]string{"R14.13": "R11.9"}, runC14) // a backend connection dropped because of one client's input (over-long key) must not poison the shared header pool
	c.Share(map[string]string{"R12.1": "R11.7"}, runC12) // a panic provoked by one client's input must not leave a key locked for the others
	c.Rule("R11.8", "a ring lookup in cluster mode stays inside the ring (shared with C19): an index one past the end panics on the goroutine of a multi-key get and ends the process for every connection", 1)
	runR199(c, "R11.8")
	c.Rule("R11.6", "no spin inside a parser: every uncounted loop of the request parsers that reads from the client stream is left when the read fails (a test for bufio.ErrBufferFull excepted)", 4)
	checkParserLoopsLeaveOnError(c, "R11.6")
	c.Rule("R11.5", "a request header is released to its pool by one owner only, on error paths too: otherwise one client's malformed or truncated input corrupts the header another connection is decoding", 2)
	runR147(c, "R11.5", poolWrappers(c), "protocol")
}

// declaredTextLength: the value is (a conversion of) the first result of strconv.ParseUint.
func declaredTextLength(v ssa.Value) bool {
	v = ssax.Unwrap(v)
	if ex, ok := v.(*ssa.Extract); ok && ex.Index == 0 {
		if call, ok := ex.Tuple.(*ssa.Call); ok {
			return ssax.CalleeName(&call.Call) == "strconv.ParseUint"
		}
	}
	return false
}

// helperLenArgs: fn's parameter (named by sym) receives only frame length fields at its call sites.
func helperLenArgs(c *core.Ctx, fn *ssa.Function, sym string) string {
	name := strings.TrimPrefix(sym, "param:")
	idx := -1
	for i, p := range fn.Params {
		if p.Name() == name {
			idx = i
		}
	}
	if idx < 0 || fn.Pkg == nil {
		return sym
	}
	sites := 0
	bad := ""
	for _, caller := range allPkgFuncs(fn.Pkg) {
		ssax.Instrs(caller, func(ins ssa.Instruction) {
			cc := ssax.CallOf(ins)
			if cc == nil || cc.StaticCallee() != fn {
				return
			}
			sites++
			ev := &ssax.SymEval{}
			lin := ev.Eval(cc.Args[idx])
			for s := range lin.Terms {
				if !(strings.HasSuffix(s, ".KeyLength") || strings.HasSuffix(s, ".ExtraLength")) {
					bad = "argument " + lin.String() + " at " + c.P.Pos(ins.Pos())
				}
			}
			if ev.UnsignedSub {
				bad = "argument " + lin.String() + " contains an unsigned subtraction at " + c.P.Pos(ins.Pos())
			}
		})
	}
	if sites == 0 {
		return sym + " (no call site)"
	}
	return bad
}

var clientSentinels = map[string]bool{"common.ErrBadRequest": true, "common.ErrBadLength": true, "common.ErrBadFlags": true, "common.ErrBadExptime": true}

type factState struct{ f ssax.Facts }

func (s *factState) Key() string       { return s.f.Key() }
func (s *factState) Copy() ssax.PState { return &factState{s.f.Clone()} }

func runR112(c *core.Ctx) {
	loop := c.P.Func("server", "(*DefaultServer).Loop")
	if loop == nil {
		c.Undecided("R11.2", "server.Loop", "-", "anchor not found")
		return
	}
	var parse *ssa.Call
	ssax.Instrs(loop, func(ins ssa.Instruction) {
		if call, ok := ins.(*ssa.Call); ok && call.Call.IsInvoke() && call.Call.Method.Name() == "Parse" {
			parse = call
		}
	})
	if parse == nil {
		c.Undecided("R11.2", "server.Loop#parse", c.P.Pos(loop.Pos()), "no Parse call")
		return
	}
	var perr ssa.Value
	for _, r := range *parse.Referrers() {
		if ex, ok := r.(*ssa.Extract); ok && ex.Index == 3 {
			perr = ex
		}
	}
	if perr == nil {
		c.Undecided("R11.2", "server.Loop#parse", c.P.Pos(parse.Pos()), "parse error result unused")
		return
	}
	// explore from the function entry; whenever the Parse call is reached again with perr known non-nil
	// on the path since the previous Parse, the error must be a client sentinel.
	var bad []string
	seenBack := 0
	ex := &ssax.Explorer{Fn: loop}
	ex.Enter = func(b, pred *ssa.BasicBlock, st ssax.PState) { st.(*factState).f.EnterBlock(b, pred) }
	ex.Instr = func(ins ssa.Instruction, st ssax.PState) bool {
		fs := st.(*factState).f
		if ins == ssa.Instruction(parse) {
			f := fs.Eval(perr)
			if f.Nil == ssax.No {
				seenBack++
				if !clientSentinels[f.Sent] {
					bad = append(bad, fmt.Sprintf("the loop goes back to Parse after a parse error that is not proven to be a client-error sentinel (known: %+v)", f))
				}
			}
			// a new request: forget everything about the previous one
			for k := range fs {
				delete(fs, k)
			}
			return true
		}
		fs.Step(ins)
		return true
	}
	ex.Branch = func(ifi *ssa.If, truth bool, st ssax.PState) bool { return st.(*factState).f.Assume(ifi.Cond, truth) }
	ex.Run(&factState{ssax.Facts{}})
	key := "server.(*DefaultServer).Loop#continue-after-parse-error"
	if ex.Exceeded {
		c.Undecided("R11.2", key, c.P.Pos(parse.Pos()), "state space exceeded")
	} else if len(bad) > 0 {
		c.Violate("R11.2", key, c.P.Pos(parse.Pos()), bad[0])
	} else if seenBack == 0 {
		c.OK("R11.2", key, c.P.Pos(parse.Pos()), "no parse error leads back to Parse: every parse error aborts")
	} else {
		c.OK("R11.2", key, c.P.Pos(parse.Pos()), fmt.Sprintf("%d back edges after a parse error, all for client-error sentinels", seenBack))
	}
	// parsers: a client sentinel is returned only after input was consumed
	for _, rel := range parserPkgs {
		for _, fn := range pkgFuncs(c, rel) {
			counts := map[string]int{}
			for _, ret := range ssax.Returns(fn) {
				if len(ret.Results) == 0 {
					continue
				}
				last := ret.Results[len(ret.Results)-1]
				var sents []string
				for _, s := range (&ssax.Prov{}).Sources(last) {
					if s.Kind == "global" && clientSentinels["common."+s.V.Name()] {
						sents = append(sents, s.V.Name())
					}
				}
				if len(sents) == 0 {
					continue
				}
				key := ordinalKey(counts, core.FuncName(fn)+"#returns:"+strings.Join(sents, ","))
				// a read call must dominate the return, in this function or (for helpers) at the call site of the parser entry
				consumed := false
				for _, b := range fn.Blocks {
					if !b.Dominates(ret.Block()) {
						continue
					}
					for _, ins := range b.Instrs {
						if isInputRead(ssax.CallOf(ins)) {
							consumed = true
						}
					}
				}
				if !consumed {
					// helper called by Parse after the command line was read?
					consumed = calledAfterRead(fn)
				}
				c.Check(consumed, "R11.2", key, c.P.Pos(ret.Pos()), "the sentinel is returned only after a read consumed input",
					"a client-error sentinel is returned without any input having been consumed: the loop would report the same error forever")
			}
		}
	}
}

func isInputRead(cc *ssa.CallCommon) bool {
	if cc == nil {
		return false
	}
	switch ssax.CalleeName(cc) {
	case "(*bufio.Reader).ReadString", "io.ReadAtLeast", "io.ReadFull", "(*bufio.Reader).ReadBytes", "(*bufio.Reader).ReadLine", "(*bufio.Reader).Discard":
		return true
	}
	if f := cc.StaticCallee(); f != nil && f.Pkg != nil && strings.HasSuffix(f.Pkg.Pkg.Path(), "protocol/binprot") && f.Name() == "readRequestHeader" {
		return true
	}
	return false
}

// calledAfterRead: every static call site of fn in its package is dominated by an input read.
func calledAfterRead(fn *ssa.Function) bool {
	if fn.Pkg == nil {
		return false
	}
	sites, ok := 0, true
	for _, caller := range allPkgFuncs(fn.Pkg) {
		ssax.Instrs(caller, func(ins ssa.Instruction) {
			cc := ssax.CallOf(ins)
			if cc == nil || cc.StaticCallee() != fn {
				return
			}
			sites++
			dom := false
			for _, b := range caller.Blocks {
				if !b.Dominates(ins.Block()) {
					continue
				}
				for _, x := range b.Instrs {
					if x == ins {
						break
					}
					if isInputRead(ssax.CallOf(x)) {
						dom = true
					}
				}
			}
			if !dom {
				ok = false
			}
		})
	}
	return sites > 0 && ok
}

// checkParserLoopsLeaveOnError (R11.6): no spin inside a parser. Every loop of the request parsers that reads from the
// client stream is left when that read fails: from the failure edge of the read the loop's head is not reachable again,
// except through a test proving the error is bufio.ErrBufferFull (data was consumed, reading on makes progress). A
// closed or broken connection returns the same error on every call, so a loop that tries again never ends.
func checkParserLoopsLeaveOnError(c *core.Ctx, rule string) {
	isStreamRead := func(call *ssa.Call) bool {
		n := ssax.CalleeName(&call.Call)
		switch {
		case strings.HasPrefix(n, "(*bufio.Reader)."), n == "io.ReadFull", n == "io.ReadAtLeast", n == "io.Copy", n == "io.CopyN":
			return true
		}
		if callee := call.Call.StaticCallee(); callee != nil && callee.Pkg != nil && strings.HasPrefix(callee.Pkg.Pkg.Path(), core.Mod+"/protocol") {
			for _, p := range callee.Params {
				t := types.TypeString(p.Type(), nil)
				if t == "*bufio.Reader" || t == "io.Reader" || t == "*bufio.ReadWriter" {
					return true
				}
			}
		}
		return false
	}
	n := 0
	for _, rel := range parserPkgs {
		for _, fn := range pkgFuncs(c, rel) {
			loops := ssax.Loops(fn)
			if len(loops) == 0 {
				continue
			}
			counts := map[string]int{}
			ssax.Instrs(fn, func(ins ssa.Instruction) {
				call, ok := ins.(*ssa.Call)
				if !ok || !isStreamRead(call) {
					return
				}
				l := ssax.InnermostLoop(loops, call.Block())
				if l == nil || countedLoop(l) {
					return
				}
				e := errResult(call)
				if e == nil {
					return
				}
				n++
				key := ordinalKey(counts, core.FuncName(fn)+"#loop-read:"+short(ssax.CalleeName(&call.Call)))
				pos := c.P.Pos(call.Pos())
				starts := failureStarts(e, fn)
				tested := len(starts) > 0
				if !tested {
					// the error is not tested at all: the loop goes on whatever the read returned
					if hit, _ := (ssax.Reach{Target: func(i ssa.Instruction) bool { return i.Block() == l.Header && ssax.IndexIn(i) == 0 }, Within: l.Blocks}).From(call); hit != nil {
						c.Violate(rule, key, pos, "the error of "+short(ssax.CalleeName(&call.Call))+" is not tested and the loop goes round again: on a closed connection the parser spins")
					} else {
						c.OK(rule, key, pos, "the loop is not re-entered after this read")
					}
					return
				}
				bad := ""
				for _, s := range starts {
					if !l.Blocks[s] {
						continue
					}
					hit, trail := (ssax.Reach{
						Target: func(i ssa.Instruction) bool { return i.Block() == l.Header && ssax.IndexIn(i) == 0 },
						Within: l.Blocks,
						AvoidEdge: func(from, to *ssa.BasicBlock) bool {
							ifi, ok := from.Instrs[len(from.Instrs)-1].(*ssa.If)
							if !ok {
								return false
							}
							bo, ok := ifi.Cond.(*ssa.BinOp)
							if !ok || (bo.Op != token.EQL && bo.Op != token.NEQ) {
								return false
							}
							full := false
							for _, side := range []ssa.Value{bo.X, bo.Y} {
								if g := ssax.GlobalLoad(side); g != nil && g.Pkg != nil && g.Pkg.Pkg.Path() == "bufio" && g.Name() == "ErrBufferFull" {
									full = true
								}
							}
							if !full {
								return false
							}
							return (bo.Op == token.EQL && to == from.Succs[0]) || (bo.Op == token.NEQ && to == from.Succs[1])
						},
					}).FromBlock(s)
					if s == l.Header {
						hit = s.Instrs[0]
					}
					if hit != nil {
						bad = "after " + short(ssax.CalleeName(&call.Call)) + " failed the loop is entered again (" + strings.Join(ssax.BlockTrail(c.P.Fset, trail), " -> ") + "): a closed or broken client connection fails the same way on every call, so the parser spins and the connection is never closed"
					}
				}
				c.Check(bad == "", rule, key, pos, "a failed read leaves the loop", bad)
			})
		}
	}
	// progress: every trip round an uncounted parser loop consumes input. A cycle from the loop's header back to it
	// that passes no read from the client stream repeats with the same input for ever (the state it tests comes from
	// the stream): the connection's goroutine spins, nothing is answered and the connection is never closed.
	for _, rel := range parserPkgs {
		for _, fn := range pkgFuncs(c, rel) {
			counts := map[string]int{}
			for _, l := range ssax.Loops(fn) {
				if countedLoop(l) || isRangeLoop(l) {
					continue
				}
				reads := false
				for b := range l.Blocks {
					for _, ins := range b.Instrs {
						if call, ok := ins.(*ssa.Call); ok && isStreamRead(call) {
							reads = true
						}
					}
				}
				if !reads {
					continue
				}
				n++
				key := ordinalKey(counts, core.FuncName(fn)+"#loop-progress")
				bad := ""
				for _, s := range l.Header.Succs {
					if !l.Blocks[s] {
						continue
					}
					hit, trail := (ssax.Reach{
						Target: func(i ssa.Instruction) bool { return i.Block() == l.Header && ssax.IndexIn(i) == 0 },
						Avoid: func(i ssa.Instruction) bool {
							call, ok := i.(*ssa.Call)
							return ok && isStreamRead(call)
						},
						Within: l.Blocks,
					}).FromBlock(s)
					if hit != nil {
						bad = "the loop can go round without reading from the client stream (" + strings.Join(ssax.BlockTrail(c.P.Fset, trail), " -> ") + "): the same input is tested again for ever - the connection's goroutine spins, nothing is answered, the connection is never closed"
					}
				}
				c.Check(bad == "", rule, key, c.P.Pos(l.Header.Instrs[0].Pos()), "every trip round the loop reads from the client stream", bad)
			}
		}
	}
	if n == 0 {
		c.Info(rule, "parsers#loop-reads", "-", "no uncounted loop of the parsers reads from the client stream")
	}
}

// isRangeLoop: the loop is driven by a range over a slice, string, map or channel (finite by construction, or blocking).
func isRangeLoop(l *ssax.Loop) bool {
	for b := range l.Blocks {
		if strings.HasPrefix(b.Comment, "rangeindex") || strings.HasPrefix(b.Comment, "rangeiter") || strings.HasPrefix(b.Comment, "rangechan") {
			return true
		}
	}
	return false
}
