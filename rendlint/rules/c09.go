package rules

import (
	"fmt"
	"go/token"
	"go/types"
	"strings"

	"golang.org/x/tools/go/ssa"

	"rendlint/core"
	"rendlint/ssax"
)

func init() {
	Meta["C09"] = &PropMeta{
		Title: "TTL fidelity: no tier keeps an item longer, or shorter, than last requested",
		Explain: "Field-sensitive backward provenance of every TTL that crosses a layer: the Exptime of each request an orchestrator hands to L1/L2, the exptime argument of every binary-protocol write issued by the std, chunked, batched and cluster handlers (which must come from the same request object as the key), the extras offset the serialisers store it at, the metadata expiry of the chunking backend, and the gete path that carries L2's remaining TTL into the L1 back-fill. " +
			"Decides that the TTL the client sent is the TTL every tier is given on every path; does not decide relative/absolute arithmetic around 30 days or clock effects.",
		Assume: commonAssume,
		Run:    runC09,
	}
}

// public API of binprot: index of the exptime and key arguments
var ttlWriters = map[string][2]int{
	pBinprot + ".WriteSetCmd":     {3, 1},
	pBinprot + ".WriteAddCmd":     {3, 1},
	pBinprot + ".WriteReplaceCmd": {3, 1},
	pBinprot + ".WriteTouchCmd":   {2, 1},
	pBinprot + ".WriteGATCmd":     {2, 1},
	pBinprot + ".WriteGATQCmd":    {2, 1},
}

func hasField(t types.Type, name string) bool {
	st, ok := t.Underlying().(*types.Struct)
	if !ok {
		return false
	}
	for i := 0; i < st.NumFields(); i++ {
		if st.Field(i).Name() == name {
			return true
		}
	}
	return false
}

func ordinalKey(counts map[string]int, base string) string {
	counts[base]++
	return fmt.Sprintf("%s@%d", base, counts[base])
}

func runC09(c *core.Ctx) {
	defer func() {
		c.Share(map[string]string{"R3.1": "R9.7", "R3.4": "R9.13"}, runC03)
		c.Share(map[string]string{"R10.1": "R9.15"}, runC10) // a refused L1 write that leaves the old copy leaves it with the old expiry too
		c.Share(map[string]string{"R17.8": "R9.14"}, runC17) // an in-memory L1 that orders a far deadline before now loses the key before the expiry asked for
		c.Share(map[string]string{"R1.21": "R9.12"}, runC01) // the back-fill of a get gives L1 "L2's remaining lifetime": the expiry decoded from the gete reply // get-and-touch under the shared lock races the back-fill of a get: L1 keeps the old expiry
	}()
	c.Rule("R9.1", "every Set/Touch/GAT request an in-scope orchestrator hands to L1 or L2 carries the Exptime of the client's request (or, in the get back-fill, the Exptime of the gete response received from L2); an unset Exptime means 'never expires'", 30)
	c.Rule("R9.2", "in the backend handlers the exptime argument of every set/add/replace/touch/gat(q) write comes from the Exptime of the same request object the key comes from; request structs rebuilt inside a handler take Exptime from the command (one reasoned exception: chunked append/prepend re-stores with the metadata's expiry)", 19)
	c.Rule("R9.3", "the request serialisers store exptime at the extras offset of the memcached binary protocol: set/add/replace extras = flags[0:4] exptime[4:8]; touch/gat extras = exptime[0:4]", 2)
	c.Rule("R9.4", "in the chunking backend every command that changes the TTL of chunks also stores a metadata record whose Exptime derives from exptime(cmd.Exptime): metadata.Exptime is a TTL source for later append/prepend", 2)
	c.Rule("R9.5", "gete keeps its TTL end to end: the direct handler reads the expiry extras and returns them; the batching handler submits a gete request; the pool reader fills Exptime from the reply", 3)

	c.Rule("R9.6", "the chunking backend's expiry computation follows memcached: 0 means never, a TTL strictly greater than 30 days (2592000 s) is an absolute time and is stored as it is, anything else is now + TTL", 1)
	pv := &ssax.Prov{}
	// ---- R9.1
	for _, ctor := range inScopeCtors {
		role, err := resolveOrca(c, ctor)
		if err != nil {
			c.Undecided("R9.1", "orcas."+ctor, "-", err.Error())
			continue
		}
		for _, m := range orcaMethods(c) {
			fn := c.P.Method(role.Impl, m)
			if fn == nil || len(fn.Blocks) == 0 {
				continue
			}
			counts := map[string]int{}
			for _, tc := range tierCalls(fn, role) {
				if tc.Tier != "l1" && tc.Tier != "l2" || len(tc.Call.Args) == 0 {
					continue
				}
				arg := tc.Call.Args[0]
				if !hasField(arg.Type(), "Exptime") {
					continue
				}
				key := ordinalKey(counts, core.FuncName(fn)+"#"+tc.String())
				srcs := pv.Sources(arg, "Exptime")
				var bad []string
				for _, s := range srcs {
					switch {
					case s.Kind == "param" && paramIndex(s.V.(*ssa.Parameter)) == 1 && s.PathIs("Exptime"):
					case s.Kind == "recv" && s.PathIs("Exptime") && chanFromTier(pv, s.V, fn, role, "l2", "GetE"):
					default:
						bad = append(bad, s.String())
					}
				}
				if len(srcs) == 0 {
					bad = append(bad, "no source")
				}
				c.Check(len(bad) == 0, "R9.1", key, c.P.Pos(tc.Ins.Pos()),
					"Exptime <- "+strings.Join(ssax.Strings(srcs), ", "),
					fmt.Sprintf("Exptime of the %s request given to %s does not come from the client's request: %s (zero = the entry never expires in that tier)", ssax.ShortType(arg.Type()), tc.String(), strings.Join(bad, ", ")))
			}
		}
	}

	// ---- R9.2
	for _, rel := range []string{"handlers/memcached/std", "handlers/memcached/chunked", "handlers/memcached/batched", "handlers/memcached/cluster"} {
		pkgPath := core.Mod + "/" + rel
		hpv := &ssax.Prov{
			Inline: func(f *ssa.Function) bool { return f.Pkg != nil && f.Pkg.Pkg.Path() == pkgPath },
			Through: func(cc *ssa.CallCommon) []int {
				if ssax.CalleeName(cc) == "strconv.AppendInt" {
					return []int{0}
				}
				return nil
			},
		}
		for _, fn := range pkgFuncs(c, rel) {
			counts := map[string]int{}
			ssax.Instrs(fn, func(ins ssa.Instruction) {
				cc := ssax.CallOf(ins)
				idx, ok := ttlWriters[ssax.CalleeName(cc)]
				if !ok {
					return
				}
				key := ordinalKey(counts, core.FuncName(fn)+"#"+short(ssax.CalleeName(cc)))
				ttl := hpv.Sources(cc.Args[idx[0]])
				bad := ttlKeyAgree(c, hpv, fn, cc.Args[idx[0]], cc.Args[idx[1]], 0)
				c.Check(len(bad) == 0, "R9.2", key, c.P.Pos(ins.Pos()),
					"exptime <- "+strings.Join(ssax.Strings(ttl), ", "),
					"exptime argument is not the Exptime of the command whose key is written: "+strings.Join(bad, ", "))
			})
			// rebuilt request structs
			ssax.Instrs(fn, func(ins ssa.Instruction) {
				al, ok := ins.(*ssa.Alloc)
				if !ok {
					return
				}
				et := al.Type().(*types.Pointer).Elem()
				n, ok := et.(*types.Named)
				if !ok || n.Obj().Pkg() == nil || n.Obj().Pkg().Path() != pCommon || !hasField(n, "Exptime") || !strings.HasSuffix(n.Obj().Name(), "Request") {
					return
				}
				// only literals (cells with field stores); spilled parameters are whole-stores
				isLit := false
				for _, r := range *al.Referrers() {
					if fa, ok := r.(*ssa.FieldAddr); ok && fa.X == al {
						for _, rr := range *fa.Referrers() {
							if st, ok := rr.(*ssa.Store); ok && st.Addr == fa {
								isLit = true
							}
						}
					}
				}
				if !isLit {
					return
				}
				key := ordinalKey(counts, core.FuncName(fn)+"#literal:"+n.Obj().Name())
				srcs := (&ssax.Prov{}).Sources(al, "Exptime")
				var bad []string
				for _, s := range srcs {
					switch {
					case s.Kind == "param" && len(s.Path) > 0 && s.Path[len(s.Path)-1] == "Exptime":
					case rel == "handlers/memcached/chunked" && s.Kind == "call" && s.PathIs("Exptime") && s.Call.StaticCallee() != nil &&
						s.Res < s.Call.StaticCallee().Signature.Results().Len() &&
						strings.HasSuffix(types.TypeString(s.Call.StaticCallee().Signature.Results().At(s.Res).Type(), nil), "chunked.metadata"):
						// exception: append/prepend leave the expiry unchanged -> re-store with the stored expiry
					default:
						bad = append(bad, s.String())
					}
				}
				c.Check(len(bad) == 0 && len(srcs) > 0, "R9.2", key, c.P.Pos(al.Pos()),
					"Exptime <- "+strings.Join(ssax.Strings(srcs), ", "), "rebuilt request's Exptime does not come from the command: "+strings.Join(bad, ", "))
			})
		}
	}

	// ---- R9.3 wire position, followed from the public API into the serialiser
	type wirePos struct {
		api      string
		ttl, fl  int // parameter indices in the public function (fl = -1: no flags)
		ttlRange [2]int64
		flRange  [2]int64
	}
	for _, w := range []wirePos{
		{"WriteSetCmd", 3, 2, [2]int64{4, 8}, [2]int64{0, 4}},
		{"WriteAddCmd", 3, 2, [2]int64{4, 8}, [2]int64{0, 4}},
		{"WriteReplaceCmd", 3, 2, [2]int64{4, 8}, [2]int64{0, 4}},
		{"WriteTouchCmd", 2, -1, [2]int64{0, 4}, [2]int64{}},
		{"WriteGATCmd", 2, -1, [2]int64{0, 4}, [2]int64{}},
		{"WriteGATQCmd", 2, -1, [2]int64{0, 4}, [2]int64{}},
	} {
		fn := c.P.Func("protocol/binprot", w.api)
		key := "binprot." + w.api + "#extras-layout"
		if fn == nil {
			c.Undecided("R9.3", key, "-", "public serialiser not found")
			continue
		}
		ser, ttlP, flP := followToSerialiser(fn, w.ttl, w.fl)
		if ser == nil {
			c.Undecided("R9.3", key, c.P.Pos(fn.Pos()), "cannot follow the exptime parameter into a serialiser")
			continue
		}
		var problems []string
		foundTTL, foundFl := false, w.fl < 0
		for _, a := range ssax.BufAccesses(ser) {
			if a.Kind != "put" {
				continue
			}
			if a.Val == ssa.Value(ttlP) {
				if a.Lo == w.ttlRange[0] && a.Hi == w.ttlRange[1] && a.Order == "big" && a.Width == 4 {
					foundTTL = true
				} else {
					problems = append(problems, fmt.Sprintf("exptime stored at [%d:%d] %s-endian, spec says [%d:%d] big-endian", a.Lo, a.Hi, a.Order, w.ttlRange[0], w.ttlRange[1]))
				}
			}
			if flP != nil && a.Val == ssa.Value(flP) {
				if a.Lo == w.flRange[0] && a.Hi == w.flRange[1] && a.Order == "big" && a.Width == 4 {
					foundFl = true
				} else {
					problems = append(problems, fmt.Sprintf("flags stored at [%d:%d], spec says [%d:%d]", a.Lo, a.Hi, w.flRange[0], w.flRange[1]))
				}
			}
		}
		if !foundTTL {
			problems = append(problems, "exptime parameter is never stored into the extras")
		}
		if !foundFl {
			problems = append(problems, "flags parameter is never stored into the extras")
		}
		c.Check(len(problems) == 0, "R9.3", key, c.P.Pos(ser.Pos()), "extras layout in "+ser.Name()+" matches the spec", strings.Join(problems, "; "))
	}

	// ---- R9.6 relative / absolute boundary
	runR96(c)
	c.Rule("R9.9", "the in-memory backend computes expiry as memcached does: now + TTL only for TTLs of at most 30 days, above that the TTL is an absolute time", 1)
	runR99(c, "R9.9")
	c.Share(map[string]string{"R4.15": "R9.10", "R4.11": "R9.11"}, runC04) // a touch / gat / set that skips a chunk leaves that entry with its old expiry
	// ---- R9.8 the TTL reaches the metadata entry before success is reported
	runR98(c)
	// ---- R9.4 chunked metadata expiry
	runR94(c)
	// ---- R9.5 gete
	runR95(c)
}

// ttlKeyAgree checks that ttl is the Exptime of the same request object the key comes
// from. When both are plain parameters of an unexported helper, the obligation moves
// to the helper's call sites in the package (one level per step, depth <= 2).
func ttlKeyAgree(c *core.Ctx, hpv *ssax.Prov, fn *ssa.Function, ttlV, keyV ssa.Value, depth int) []string {
	ttl := hpv.Sources(ttlV)
	keys := hpv.Sources(keyV)
	var bad []string
	if len(ttl) == 0 {
		return []string{"no source"}
	}
	for _, s := range ttl {
		if s.Kind == "param" && len(s.Path) == 0 && depth < 2 && s.V.Parent() == fn {
			// helper: find the key parameter and lift to callers
			ti := paramIndex(s.V.(*ssa.Parameter))
			ki := -1
			for _, k := range keys {
				if k.Kind == "param" && len(k.Path) == 0 && k.V.Parent() == fn {
					ki = paramIndex(k.V.(*ssa.Parameter))
				}
			}
			sites := 0
			if ki >= 0 && fn.Pkg != nil {
				for _, caller := range allPkgFuncs(fn.Pkg) {
					ssax.Instrs(caller, func(ins ssa.Instruction) {
						cc := ssax.CallOf(ins)
						if cc == nil || cc.StaticCallee() != fn {
							return
						}
						sites++
						for _, b := range ttlKeyAgree(c, hpv, caller, cc.Args[ti], cc.Args[ki], depth+1) {
							bad = append(bad, "via "+core.FuncName(caller)+": "+b)
						}
					})
				}
			}
			if sites == 0 {
				bad = append(bad, s.String()+" (helper parameter with no resolvable call site)")
			}
			continue
		}
		if !(s.Kind == "param" && len(s.Path) > 0 && s.Path[len(s.Path)-1] == "Exptime") {
			bad = append(bad, s.String())
			continue
		}
		want := append(append([]string{}, s.Path[:len(s.Path)-1]...), "Key")
		same := false
		for _, k := range keys {
			if k.Kind == "param" && k.V == s.V && k.PathIs(want...) {
				same = true
			}
		}
		if !same {
			bad = append(bad, s.String()+" (key comes from "+strings.Join(ssax.Strings(keys), ", ")+")")
		}
	}
	return bad
}

// allPkgFuncs lists functions and methods (with anonymous functions) of an ssa package.
func allPkgFuncs(pkg *ssa.Package) []*ssa.Function {
	var out []*ssa.Function
	add := func(f *ssa.Function) {
		if f == nil || len(f.Blocks) == 0 {
			return
		}
		out = append(out, f)
		out = append(out, f.AnonFuncs...)
	}
	for _, m := range pkg.Members {
		switch x := m.(type) {
		case *ssa.Function:
			add(x)
		case *ssa.Type:
			for _, T := range []types.Type{x.Type(), types.NewPointer(x.Type())} {
				ms := pkg.Prog.MethodSets.MethodSet(T)
				for i := 0; i < ms.Len(); i++ {
					f := pkg.Prog.MethodValue(ms.At(i))
					if f != nil && f.Synthetic == "" && f.Pkg == pkg {
						add(f)
					}
				}
			}
		}
	}
	seen := map[*ssa.Function]bool{}
	var uniq []*ssa.Function
	for _, f := range out {
		if !seen[f] {
			seen[f] = true
			uniq = append(uniq, f)
		}
	}
	return uniq
}

// chanFromTier: every non-nil source of channel value ch is result #0 of tier.method called in fn.
func chanFromTier(pv *ssax.Prov, ch ssa.Value, fn *ssa.Function, role *orcaRole, tier, method string) bool {
	tcs := tierCalls(fn, role)
	ok := false
	for _, s := range pv.Sources(ch) {
		switch {
		case s.Kind == "const" && ssax.IsNilConst(s.V):
		case s.Kind == "call" && s.Res == 0:
			match := false
			for _, tc := range tcs {
				if tc.Call == s.Call && tc.Tier == tier && tc.Method == method {
					match = true
				}
			}
			if !match {
				return false
			}
			ok = true
		default:
			return false
		}
	}
	return ok
}

// followToSerialiser follows parameters ttl (and fl) of the thin public wrapper fn into
// the function that actually serialises (fn itself if it does).
func followToSerialiser(fn *ssa.Function, ttl, fl int) (*ssa.Function, *ssa.Parameter, *ssa.Parameter) {
	for depth := 0; depth < 3; depth++ {
		if len(ssax.BufAccesses(fn)) > 0 {
			var f *ssa.Parameter
			if fl >= 0 {
				f = fn.Params[fl]
			}
			return fn, fn.Params[ttl], f
		}
		var next *ssa.Function
		nt, nf := -1, -1
		ssax.Instrs(fn, func(ins ssa.Instruction) {
			cc := ssax.CallOf(ins)
			if cc == nil || cc.StaticCallee() == nil || len(cc.StaticCallee().Blocks) == 0 {
				return
			}
			for i, a := range cc.Args {
				if a == ssa.Value(fn.Params[ttl]) {
					next = cc.StaticCallee()
					nt = i
				}
				if fl >= 0 && a == ssa.Value(fn.Params[fl]) {
					nf = i
				}
			}
		})
		if next == nil || nt < 0 {
			return nil, nil, nil
		}
		fn, ttl = next, nt
		if fl >= 0 {
			fl = nf
		}
	}
	return nil, nil, nil
}

// reachable static callees inside the same package (depth-bounded)
func pkgReach(fn *ssa.Function, depth int) []*ssa.Function {
	seen := map[*ssa.Function]bool{fn: true}
	order := []*ssa.Function{fn}
	frontier := []*ssa.Function{fn}
	for d := 0; d < depth; d++ {
		var next []*ssa.Function
		for _, f := range frontier {
			fs := append([]*ssa.Function{f}, f.AnonFuncs...)
			for _, g := range fs {
				ssax.Instrs(g, func(ins ssa.Instruction) {
					cc := ssax.CallOf(ins)
					if cc == nil {
						return
					}
					callee := cc.StaticCallee()
					if callee == nil || len(callee.Blocks) == 0 || callee.Pkg == nil || fn.Pkg == nil || callee.Pkg != fn.Pkg {
						return
					}
					if !seen[callee] {
						seen[callee] = true
						order = append(order, callee)
						next = append(next, callee)
					}
				})
			}
		}
		frontier = next
	}
	return order
}

func runR94(c *core.Ctx) {
	const rel = "handlers/memcached/chunked"
	impl, ok := handlerImpl(c, rel)
	if !ok {
		c.Undecided("R9.4", "chunked.Handler", "-", "chunked.Handler does not implement handlers.Handler")
		return
	}
	ttlChanging := map[string]bool{pBinprot + ".WriteTouchCmd": true, pBinprot + ".WriteGATCmd": true, pBinprot + ".WriteGATQCmd": true,
		pBinprot + ".WriteSetCmd": true, pBinprot + ".WriteAddCmd": true, pBinprot + ".WriteReplaceCmd": true}
	pv := &ssax.Prov{}
	for _, m := range []string{"Set", "Add", "Replace", "Append", "Prepend", "Touch", "GAT"} {
		fn := c.P.Method(impl, m)
		if fn == nil {
			continue
		}
		reach := pkgReach(fn, 3)
		changes := false
		var metaOK bool
		var metaPos string
		var metaWhy []string
		for _, f := range reach {
			ssax.Instrs(f, func(ins ssa.Instruction) {
				cc := ssax.CallOf(ins)
				name := ssax.CalleeName(cc)
				if ttlChanging[name] {
					changes = true
				}
				if name == core.Mod+"/"+rel+".writeMetadata" && len(cc.Args) == 2 {
					srcs := pv.Sources(cc.Args[1], "Exptime")
					good := len(srcs) > 0
					for _, s := range srcs {
						if !(s.Kind == "call" && ssax.CalleeName(s.Call) == core.Mod+"/"+rel+".exptime" && s.Res == 0) {
							good = false
							metaWhy = append(metaWhy, s.String())
						}
					}
					if good {
						// the argument of exptime() must be the command's Exptime
						for _, s := range srcs {
							as := pv.Sources(s.Call.Args[0])
							if !ssax.All(as, func(a ssax.Src) bool {
								return a.Kind == "param" && len(a.Path) > 0 && a.Path[len(a.Path)-1] == "Exptime"
							}) {
								good = false
								metaWhy = append(metaWhy, "exptime("+strings.Join(ssax.Strings(as), ",")+")")
							}
						}
					}
					if good {
						metaOK = true
						metaPos = c.P.Pos(ins.Pos())
					}
				}
			})
		}
		if !changes {
			continue
		}
		key := "(chunked.Handler)." + m + "#ttl-change-without-metadata-refresh"
		if metaOK {
			c.OK("R9.4", key, metaPos, "metadata record with Exptime <- exptime(cmd.Exptime) is written")
		} else {
			c.Violate("R9.4", key, c.P.Pos(fn.Pos()), "the command changes the TTL of the stored entries but never stores a metadata record whose Exptime derives from exptime(cmd.Exptime); a later append/prepend re-stores the value with the stale metadata expiry "+strings.Join(metaWhy, ", "))
		}
	}
}

func runR95(c *core.Ctx) {
	pv := &ssax.Prov{}
	// (a0) std.GetLocal hands on the expiry exactly as it was read from the reply: no arithmetic in between (the value
	// is the backend's remaining lifetime; rewriting it here changes what the back-fill stores in L1)
	if gl := c.P.Func("handlers/memcached/std", "GetLocal"); gl == nil {
		c.Undecided("R9.5", "std.GetLocal#expiry-as-read", "-", "anchor not found")
	} else {
		var bad []string
		n := 0
		for _, r := range ssax.Returns(gl) {
			if len(r.Results) < 4 {
				continue
			}
			n++
			var walk func(v ssa.Value, d int)
			seen := map[ssa.Value]bool{}
			walk = func(v ssa.Value, d int) {
				if v == nil || seen[v] || d > 12 {
					return
				}
				seen[v] = true
				for _, dd := range ssax.Defs(v) {
					switch x := ssax.Unwrap(dd).(type) {
					case *ssa.BinOp:
						bad = append(bad, "the expiry returned is computed by "+x.String()+" at "+c.P.Pos(x.Pos()))
					case *ssa.Phi:
						for _, e := range x.Edges {
							walk(e, d+1)
						}
					}
				}
			}
			walk(r.Results[2], 0)
		}
		if n == 0 {
			c.Undecided("R9.5", "std.GetLocal#expiry-as-read", c.P.Pos(gl.Pos()), "GetLocal does not return (data, flags, exp, err)")
		} else {
			c.Check(len(bad) == 0, "R9.5", "std.GetLocal#expiry-as-read", c.P.Pos(gl.Pos()), "the expiry is handed on as read from the reply",
				strings.Join(uniq(bad), "; ")+": the lifetime the get back-fill gives the L1 copy is no longer L2's (it wraps or becomes 0 = never when the item is about to expire)")
		}
	}
	// (a) std.realHandleGetE: hit response Exptime <- GetLocal#2 with readExp == true
	fn := findFunc(c, "handlers/memcached/std", "realHandleGetE", roleStdGetE)
	if fn == nil {
		c.Undecided("R9.5", "std.realHandleGetE", "-", "anchor not found")
	} else {
		n := 0
		ssax.Instrs(fn, func(ins ssa.Instruction) {
			al, ok := ins.(*ssa.Alloc)
			if !ok || ssax.ShortType(al.Type()) != "*common.GetEResponse" {
				return
			}
			miss := pv.Sources(al, "Miss")
			if !ssax.All(miss, func(s ssax.Src) bool { v, ok := ssax.ConstInt(s.V); return s.Kind == "const" && ok && v == 0 }) {
				return // miss literal
			}
			n++
			srcs := pv.Sources(al, "Exptime")
			good := ssax.All(srcs, func(s ssax.Src) bool {
				if s.Kind != "call" || !strings.HasSuffix(ssax.CalleeName(s.Call), "std.GetLocal") || s.Res != 2 {
					return false
				}
				v, ok := ssax.ConstInt(s.Call.Args[1])
				return ok && v == 1
			})
			c.Check(good, "R9.5", "std.realHandleGetE#hit-exptime", c.P.Pos(al.Pos()), "Exptime <- GetLocal(readExp=true)#2",
				"gete hit does not carry the expiry read from the reply: "+strings.Join(ssax.Strings(srcs), ", "))
		})
		if n == 0 {
			c.Undecided("R9.5", "std.realHandleGetE#hit-exptime", c.P.Pos(fn.Pos()), "no hit response literal found")
		}
	}
	// GetLocal: result #2 comes from binary.Read into a local under readExp
	gl := c.P.Func("handlers/memcached/std", "GetLocal")
	if gl == nil {
		c.Undecided("R9.5", "std.GetLocal", "-", "anchor not found")
	} else {
		okRead := false
		for _, r := range ssax.Returns(gl) {
			if len(r.Results) == 4 {
				for _, s := range pv.Sources(r.Results[2]) {
					if s.Kind == "outparam" && ssax.CalleeName(s.Call) == "encoding/binary.Read" {
						okRead = true
					}
				}
			}
		}
		c.Check(okRead, "R9.5", "std.GetLocal#exp-from-extras", c.P.Pos(gl.Pos()), "expiry result is read from the reply extras", "GetLocal never returns an expiry read from the reply")
	}
	// (b) batched.realHandleGetE submits RequestGetE
	checkSubmitType(c, "R9.5", "realHandleGetE", "RequestGetE")
	// (c) reader fills Exptime from a 4-byte big-endian read
	rd := findFunc(c, "handlers/memcached/batched", "(*conn).reader", rolePoolReader)
	if rd == nil {
		c.Undecided("R9.5", "batched.(*conn).reader", "-", "anchor not found")
	} else {
		good := false
		ssax.Instrs(rd, func(ins ssa.Instruction) {
			al, ok := ins.(*ssa.Alloc)
			if !ok || ssax.ShortType(al.Type()) != "*handlers/memcached/batched.response" {
				return
			}
			for _, s := range pv.Sources(al, "gr", "Exptime") {
				if s.Kind == "call" && strings.Contains(ssax.CalleeName(s.Call), "bigEndian).Uint32") {
					good = true
				}
			}
		})
		c.Check(good, "R9.5", "batched.(*conn).reader#exptime", c.P.Pos(rd.Pos()), "a response's Exptime comes from a big-endian uint32 read of the reply", "the pool reader never fills GetEResponse.Exptime from the reply")
	}
}

// checkSubmitType: the request literal(s) submitted by batched.<fnName> carry reqtype == common.<want>.
func checkSubmitType(c *core.Ctx, rule, fnName, want string) {
	fn := c.P.Func("handlers/memcached/batched", fnName)
	key := "batched." + fnName + "#reqtype"
	if fn == nil {
		c.Undecided(rule, key, "-", "anchor not found")
		return
	}
	wantVal, ok := requestTypeValue(c, want)
	if !ok {
		c.Undecided(rule, key, "-", "constant common."+want+" not found")
		return
	}
	pv := &ssax.Prov{}
	n := 0
	ssax.Instrs(fn, func(ins ssa.Instruction) {
		cc := ssax.CallOf(ins)
		if cc == nil || !strings.HasSuffix(ssax.CalleeName(cc), "batched.relay).submit") {
			return
		}
		n++
		srcs := pv.Sources(cc.Args[len(cc.Args)-1], "reqtype")
		good := ssax.All(srcs, func(s ssax.Src) bool {
			v, ok := ssax.ConstInt(s.V)
			return s.Kind == "const" && ok && v == wantVal
		})
		c.Check(good, rule, key, c.P.Pos(ins.Pos()), "submits common."+want,
			"submits request type "+strings.Join(ssax.Strings(srcs), ",")+" where common."+want+fmt.Sprintf(" (=%d) is required: the backend is sent a different opcode", wantVal))
	})
	if n == 0 {
		c.Undecided(rule, key, c.P.Pos(fn.Pos()), "no submit call found")
	}
}

func requestTypeValue(c *core.Ctx, name string) (int64, bool) {
	pk := c.P.Pkg("common")
	if pk == nil {
		return 0, false
	}
	k, ok := pk.Members[name].(*ssa.NamedConst)
	if !ok {
		return 0, false
	}
	return ssax.ConstInt(k.Value)
}

func runR96(c *core.Ctx) {
	var fn *ssa.Function
	for _, f := range pkgFuncs(c, "handlers/memcached/chunked") {
		if f.Parent() == nil && f.Signature.Recv() == nil && sigIs(f, []string{"uint32"}, []string{"uint32", "bool"}) {
			fn = f
		}
	}
	key := "chunked#expiry-boundary"
	if fn == nil {
		c.Undecided("R9.6", key, "-", "no func(uint32) (uint32, bool) in package chunked")
		return
	}
	ttl := fn.Params[0]
	var bad []string
	sawZero, sawBoundary := false, false
	for _, r := range ssax.Returns(fn) {
		conds := ssax.DomConds(r.Block())
		zero, abs := false, false
		for _, ec := range conds {
			op, k, ok := normCmp(ec, ttl)
			if !ok {
				continue
			}
			switch {
			case op == token.EQL && k == 0:
				zero = true
			case op == token.GTR || op == token.GEQ:
				if op == token.GEQ {
					k-- // ttl >= k  ==  ttl > k-1
				}
				abs = true
				sawBoundary = true
				if k != 60*60*24*30 {
					bad = append(bad, fmt.Sprintf("TTLs above %d s are taken as absolute times; memcached's boundary is 2592000 s (30 days), itself still relative", k))
				}
			}
		}
		res := ssax.Unwrap(r.Results[0])
		switch {
		case zero:
			sawZero = true
			if k, ok := ssax.ConstInt(res); !ok || k != 0 {
				bad = append(bad, "TTL 0 does not map to expiry 0 (never)")
			}
		case abs:
			if res != ssa.Value(ttl) {
				bad = append(bad, "an absolute TTL is not stored as it is")
			}
		default:
			bo, ok := res.(*ssa.BinOp)
			if !ok || bo.Op != token.ADD || !(ssax.Unwrap(bo.X) == ssa.Value(ttl) || ssax.Unwrap(bo.Y) == ssa.Value(ttl)) {
				bad = append(bad, "a relative TTL is not stored as now + TTL")
			}
		}
	}
	if !sawZero {
		bad = append(bad, "TTL 0 is not treated separately")
	}
	if !sawBoundary {
		bad = append(bad, "no absolute/relative boundary")
	}
	c.Check(len(bad) == 0, "R9.6", key, c.P.Pos(fn.Pos()), "0 => never; > 2592000 => absolute, stored as is; otherwise now + TTL", strings.Join(uniq(bad), "; "))
}

// normCmp normalises an edge condition comparing v with a constant to "v op k" (operands swapped and the edge's
// polarity applied).
func normCmp(ec ssax.EdgeCond, v ssa.Value) (token.Token, int64, bool) {
	bo, ok := ec.Cond.(*ssa.BinOp)
	if !ok {
		return 0, 0, false
	}
	op := bo.Op
	var k int64
	switch {
	case ssax.Unwrap(bo.X) == v:
		c, isC := ssax.ConstInt(bo.Y)
		if !isC {
			return 0, 0, false
		}
		k = c
	case ssax.Unwrap(bo.Y) == v:
		c, isC := ssax.ConstInt(bo.X)
		if !isC {
			return 0, 0, false
		}
		k = c
		switch op {
		case token.LSS:
			op = token.GTR
		case token.GTR:
			op = token.LSS
		case token.LEQ:
			op = token.GEQ
		case token.GEQ:
			op = token.LEQ
		}
	default:
		return 0, 0, false
	}
	if !ec.True {
		switch op {
		case token.EQL:
			op = token.NEQ
		case token.NEQ:
			op = token.EQL
		case token.LSS:
			op = token.GEQ
		case token.GEQ:
			op = token.LSS
		case token.GTR:
			op = token.LEQ
		case token.LEQ:
			op = token.GTR
		}
	}
	return op, k, true
}

// runR98: in the chunking backend a command that sends its TTL to the backend at all (touch, get-and-touch, the set
// family) reports success only after a request carrying that TTL was written for the key's metadata entry - the
// entry every later read of the key starts from. A success path that skips it (an early return for an item without
// chunks, for an already expired TTL, ...) leaves the old expiry in force.
func runR98(c *core.Ctx) {
	c.Rule("R9.8", "in the chunking backend every success return of a command that sends its TTL to the backend lies behind a request for the key's metadata entry that carries this TTL", 3)
	prods := keyProducers(c)
	isMetaProducer := func(f *ssa.Function) bool {
		kp, ok := prods[f]
		return ok && kp.via != nil && kp.via.Signature.Params().Len() == 1
	}
	metaKeyed := func(v ssa.Value) bool {
		ok := false
		for _, d := range ssax.Defs(v) {
			switch x := d.(type) {
			case *ssa.Call:
				ok = ok || isMetaProducer(x.Call.StaticCallee())
			case *ssa.Extract:
				if call, isCall := x.Tuple.(*ssa.Call); isCall && x.Index == 0 {
					ok = ok || isMetaProducer(call.Call.StaticCallee())
				}
			}
		}
		return ok
	}
	pv := &ssax.Prov{}
	fromExptime := func(fn *ssa.Function, v ssa.Value) bool {
		srcs := pv.Sources(v)
		return len(srcs) > 0 && ssax.All(srcs, func(s ssax.Src) bool { return s.Kind == "param" && s.V.Parent() == fn && s.PathIs("Exptime") })
	}
	fns := pkgFuncs(c, relChunked)
	// helpers: func(..., ttl uint32, ...) writing a request for the metadata key with that parameter as its TTL
	helperParam := map[*ssa.Function]int{}
	for _, fn := range fns {
		ssax.Instrs(fn, func(ins ssa.Instruction) {
			cc := ssax.CallOf(ins)
			if cc == nil || !strings.HasPrefix(ssax.CalleeName(cc), pBinprot+".Write") || len(cc.Args) < 3 || !metaKeyed(cc.Args[1]) {
				return
			}
			for _, a := range cc.Args[2:] {
				if p, ok := ssax.Unwrap(a).(*ssa.Parameter); ok && p.Parent() == fn && types.TypeString(p.Type(), nil) == "uint32" {
					helperParam[fn] = paramIndex(p)
				}
			}
		})
	}
	for _, fn := range fns {
		if fn.Parent() != nil {
			continue
		}
		var ttlWrites, metaWrites []ssa.Instruction
		ssax.Instrs(fn, func(ins ssa.Instruction) {
			cc := ssax.CallOf(ins)
			if cc == nil {
				return
			}
			if strings.HasPrefix(ssax.CalleeName(cc), pBinprot+".Write") && len(cc.Args) >= 3 {
				carries := false
				for _, a := range cc.Args[2:] {
					if types.TypeString(a.Type(), nil) == "uint32" && fromExptime(fn, a) {
						carries = true
					}
				}
				if carries {
					ttlWrites = append(ttlWrites, ins)
					if metaKeyed(cc.Args[1]) {
						metaWrites = append(metaWrites, ins)
					}
				}
				return
			}
			if callee := cc.StaticCallee(); callee != nil {
				if j, ok := helperParam[callee]; ok && j < len(cc.Args) && fromExptime(fn, cc.Args[j]) {
					ttlWrites = append(ttlWrites, ins)
					metaWrites = append(metaWrites, ins)
				}
			}
		})
		if len(ttlWrites) == 0 {
			continue
		}
		key := "(chunked)." + fn.Name() + "#ttl-reaches-metadata"
		isMeta := map[ssa.Instruction]bool{}
		for _, w := range metaWrites {
			isMeta[w] = true
		}
		var bad []string
		target := func(ins ssa.Instruction) bool {
			ret, ok := ins.(*ssa.Return)
			if !ok || len(ret.Results) == 0 {
				return false
			}
			last := ret.Results[len(ret.Results)-1]
			if types.TypeString(last.Type(), nil) != "error" {
				return false
			}
			for _, d := range ssax.Defs(last) {
				b := storeBlockOf(last, d)
				if b == nil {
					b = ret.Block()
				}
				if !definitelyNonNil(d, b) {
					return true
				}
			}
			return false
		}
		hit, trail := (ssax.Reach{Target: target, Avoid: func(ins ssa.Instruction) bool { return isMeta[ins] }}).FromBlock(fn.Blocks[0])
		if hit != nil {
			bad = append(bad, fmt.Sprintf("the command can report success at %s without having written a request carrying its TTL for the metadata entry", c.P.Pos(hit.Pos())))
			c.Violate("R9.8", key, c.P.Pos(hit.Pos()), bad[0], ssax.BlockTrail(c.P.Fset, trail)...)
			continue
		}
		c.OK("R9.8", key, c.P.Pos(fn.Pos()), fmt.Sprintf("%d request(s) carry the TTL for the metadata entry; every success return lies behind one", len(metaWrites)))
	}
}

// runR99 (R9.9, shared as R17.5): the in-memory backend computes expiry the way memcached does. Every `now + TTL` in
// package inmem is evaluated only on paths where the TTL is known to be at most 30 days (2592000 s); above that the
// TTL is an absolute time. Without the boundary an absolute expiry a few seconds ahead keeps the entry for decades.
func runR99(c *core.Ctx, rule string) {
	const rel = "handlers/inmem"
	n := 0
	pv := &ssax.Prov{}
	for _, fn := range pkgFuncs(c, rel) {
		counts := map[string]int{}
		ssax.Instrs(fn, func(ins ssa.Instruction) {
			bo, ok := ins.(*ssa.BinOp)
			if !ok || bo.Op != token.ADD {
				return
			}
			isNow := func(v ssa.Value) bool {
				return ssax.Any(pv.Sources(v), func(s ssax.Src) bool {
					return s.Kind == "call" && strings.HasSuffix(ssax.CalleeName(s.Call), "time.Time).Unix")
				})
			}
			isTTL := func(v ssa.Value) bool {
				return ssax.Any(pv.Sources(v), func(s ssax.Src) bool {
					if s.Kind != "param" {
						return false
					}
					if len(s.Path) > 0 {
						return s.Path[len(s.Path)-1] == "Exptime"
					}
					return types.TypeString(s.V.Type(), nil) == "uint32"
				})
			}
			var ttl ssa.Value
			switch {
			case isNow(bo.X) && isTTL(bo.Y):
				ttl = bo.Y
			case isNow(bo.Y) && isTTL(bo.X):
				ttl = bo.X
			default:
				return
			}
			n++
			key := ordinalKey(counts, core.FuncName(fn)+"#now-plus-ttl")
			want := strings.Join(ssax.Strings(pv.Sources(ttl)), ",")
			bounded := false
			for _, ec := range ssax.DomConds(bo.Block()) {
				cb, ok := ec.Cond.(*ssa.BinOp)
				if !ok {
					continue
				}
				for _, pair := range [][2]ssa.Value{{cb.X, cb.Y}, {cb.Y, cb.X}} {
					k, isK := ssax.ConstInt(pair[1])
					if !isK || strings.Join(ssax.Strings(pv.Sources(pair[0])), ",") != want {
						continue
					}
					op := cb.Op
					if pair[0] == cb.Y {
						// constant on the left: mirror
						switch op {
						case token.LSS:
							op = token.GTR
						case token.LEQ:
							op = token.GEQ
						case token.GTR:
							op = token.LSS
						case token.GEQ:
							op = token.LEQ
						}
					}
					const month = 60 * 60 * 24 * 30
					switch {
					case op == token.LEQ && ec.True && k == month, op == token.LSS && ec.True && k == month+1,
						op == token.GTR && !ec.True && k == month, op == token.GEQ && !ec.True && k == month+1:
						bounded = true
					}
				}
			}
			c.Check(bounded, rule, key, c.P.Pos(bo.Pos()), "now + TTL only for TTLs of at most 30 days",
				"the expiry is computed as now + TTL for every non-zero TTL: memcached takes a TTL above 30 days (2592000 s) as an absolute time, so an absolute expiry a few seconds ahead keeps the entry for decades and the tier serves the key long after the expiry the client asked for")
		})
	}
	if n == 0 {
		c.Undecided(rule, "inmem#expiry", "-", "no now + TTL computation found in the in-memory backend")
	}
}
