package rules

import (
	"fmt"
	"go/token"
	"go/types"
	"strings"

	"golang.org/x/tools/go/ssa"

	"rendlint/core"
	"rendlint/ssax"
)

// checkLockPairs (R3.6): the shared and the exclusive table hold, per bucket, two views of ONE mutex. Wherever the
// lock-set constructor stores into the two tables, the value stored in the shared table is the very object stored in
// the exclusive table at the same index, or that object's RLocker(). Two separately allocated mutexes make a get and a
// set of one key run concurrently.
func checkLockPairs(c *core.Ctx, rule, sharedG, exclG string) {
	type elemStore struct {
		st    *ssa.Store
		index ssa.Value
	}
	strip := func(v ssa.Value) ssa.Value {
		for {
			switch x := v.(type) {
			case *ssa.MakeInterface:
				v = x.X
			case *ssa.ChangeInterface:
				v = x.X
			case *ssa.ChangeType:
				v = x.X
			default:
				return v
			}
		}
	}
	n := 0
	for _, fn := range pkgFuncs(c, "orcas") {
		byBlock := map[*ssa.BasicBlock]map[string][]elemStore{}
		ssax.Instrs(fn, func(ins ssa.Instruction) {
			st, ok := ins.(*ssa.Store)
			if !ok {
				return
			}
			ia, ok := st.Addr.(*ssa.IndexAddr)
			if !ok {
				return
			}
			g, _ := rootedAt(st.Addr)
			if g == nil || (g.Name() != sharedG && g.Name() != exclG) {
				return
			}
			if _, isMk := st.Val.(*ssa.MakeSlice); isMk {
				return // the table row itself
			}
			if !strings.Contains(st.Val.Type().String(), "Locker") && !strings.Contains(st.Val.Type().String(), "Mutex") {
				return
			}
			if byBlock[st.Block()] == nil {
				byBlock[st.Block()] = map[string][]elemStore{}
			}
			byBlock[st.Block()][g.Name()] = append(byBlock[st.Block()][g.Name()], elemStore{st, ia.Index})
		})
		var same func(w, r ssa.Value, depth int) (bool, string)
		same = func(w, r ssa.Value, depth int) (bool, string) {
			uw, ur := strip(w), strip(r)
			if uw == ur {
				return true, ""
			}
			if call, ok := ur.(*ssa.Call); ok && ssax.CalleeName(&call.Call) == "(*sync.RWMutex).RLocker" {
				recv := strip(call.Call.Args[0])
				if recv == uw {
					return true, ""
				}
				return false, "the shared entry is the RLocker() of another mutex than the one stored in the exclusive table"
			}
			pw, okw := uw.(*ssa.Phi)
			pr, okr := ur.(*ssa.Phi)
			if okw && okr && pw.Block() == pr.Block() && len(pw.Edges) == len(pr.Edges) && depth < 4 {
				for i := range pw.Edges {
					if ok, why := same(pw.Edges[i], pr.Edges[i], depth+1); !ok {
						if why == "" {
							why = "on one path the two tables receive separately allocated mutexes"
						}
						return false, why
					}
				}
				return true, ""
			}
			_, aw := uw.(*ssa.Alloc)
			_, ar := ur.(*ssa.Alloc)
			if aw && ar {
				return false, "the two tables receive separately allocated mutexes"
			}
			return false, "the value stored in the shared table is neither the object stored in the exclusive table nor its RLocker()"
		}
		counts := map[string]int{}
		for _, b := range fn.Blocks {
			m := byBlock[b]
			if m == nil {
				continue
			}
			ws, rs := m[exclG], m[sharedG]
			key := ordinalKey(counts, core.FuncName(fn)+"#bucket-pair")
			n++
			if len(ws) != 1 || len(rs) != 1 {
				// tables filled in separate places: the shared entry must be derived from the exclusive entry at the same index
				ok := false
				if len(rs) == 1 && len(ws) == 0 {
					if call, isCall := strip(rs[0].st.Val).(*ssa.Call); isCall && ssax.CalleeName(&call.Call) == "(*sync.RWMutex).RLocker" {
						recv := strip(call.Call.Args[0])
						if ta, isTA := recv.(*ssa.TypeAssert); isTA {
							recv = ta.X
						}
						if ld, isLd := recv.(*ssa.UnOp); isLd && ld.Op == token.MUL {
							if ia, isIA := ld.X.(*ssa.IndexAddr); isIA && ia.Index == rs[0].index {
								if g, _ := rootedAt(ia); g != nil && g.Name() == exclG {
									ok = true
								}
							}
						}
					} else if ld, isLd := strip(rs[0].st.Val).(*ssa.UnOp); isLd && ld.Op == token.MUL {
						if ia, isIA := ld.X.(*ssa.IndexAddr); isIA && ia.Index == rs[0].index {
							if g, _ := rootedAt(ia); g != nil && g.Name() == exclG {
								ok = true
							}
						}
					}
				}
				if len(ws) == 1 && len(rs) == 0 {
					n--
					continue // judged where the shared entry is stored
				}
				if ok {
					c.OK(rule, key, c.P.Pos(rs[0].st.Pos()), "the shared entry is derived from the exclusive entry of the same bucket")
				} else {
					pos := c.P.Pos(fn.Pos())
					if len(rs) > 0 {
						pos = c.P.Pos(rs[0].st.Pos())
					}
					c.Undecided(rule, key, pos, fmt.Sprintf("%d exclusive and %d shared entry stores in one block: cannot pair the two tables' entries", len(ws), len(rs)))
				}
				continue
			}
			if ws[0].index != rs[0].index {
				c.Violate(rule, key, c.P.Pos(rs[0].st.Pos()), "the exclusive and the shared entry are stored at different indices: a bucket's reader lock belongs to another bucket's writer lock")
				continue
			}
			ok, why := same(ws[0].st.Val, rs[0].st.Val, 0)
			c.Check(ok, rule, key, c.P.Pos(rs[0].st.Pos()), "the shared entry is the exclusive entry itself or its RLocker()",
				why+": readers and writers of one key lock different mutexes, so a get (with its L1 back-fill) runs concurrently with a set of the same key")
		}
	}
	if n == 0 {
		c.Undecided(rule, "orcas#bucket-pair", "-", "no stores into the lock tables found")
	}
}

// checkConstructorsAlwaysWrap (R3.7): the lock constructors wrap on every path. Every return of Locked and
// LockedWithExisting hands back a constructor closure that builds the locking wrapper around the given orchestrator;
// none hands the given constructor back unwrapped (an id that "means no locking" leaves one port without locks while the
// other port still takes them: commands on the two ports no longer exclude each other).
func checkConstructorsAlwaysWrap(c *core.Ctx, rule string, wrapper *types.Named) {
	for _, cn := range []string{"Locked", "LockedWithExisting"} {
		fn := c.P.Func("orcas", cn)
		key := "orcas." + cn + "#always-wraps"
		if fn == nil {
			c.Undecided(rule, key, "-", "constructor not found")
			continue
		}
		var bad []string
		n := 0
		for _, r := range ssax.Returns(fn) {
			if len(r.Results) == 0 {
				continue
			}
			n++
			for _, d := range ssax.Defs(r.Results[0]) {
				d = ssax.Unwrap(d)
				if ct, ok := d.(*ssa.ChangeType); ok {
					d = ssax.Unwrap(ct.X)
				}
				mc, ok := d.(*ssa.MakeClosure)
				if !ok {
					// tolerated only on a path taken for an id value the id generator never hands out
					if k, guarded := equalsConstGuard(r.Block(), fn); guarded {
						if min, known := minLockSetID(c); known && k < min {
							continue
						}
					}
					bad = append(bad, fmt.Sprintf("the return at %s hands back %s, not a constructor built here", c.P.Pos(r.Pos()), d.String()))
					continue
				}
				builds := false
				ssax.Instrs(mc.Fn.(*ssa.Function), func(ins ssa.Instruction) {
					if al, ok := ins.(*ssa.Alloc); ok && namedOf(al.Type()) == wrapper {
						builds = true
					}
				})
				if !builds {
					bad = append(bad, fmt.Sprintf("the constructor returned at %s does not build the locking wrapper", c.P.Pos(r.Pos())))
				}
			}
		}
		if n == 0 {
			c.Undecided(rule, key, c.P.Pos(fn.Pos()), "no return found")
			continue
		}
		c.Check(len(bad) == 0, rule, key, c.P.Pos(fn.Pos()), "every return hands back a constructor that builds the locking wrapper",
			strings.Join(bad, "; ")+": on that path the port runs without key locks while the other port still takes them")
	}
}

// equalsConstGuard: block b is dominated by the true side of (integer parameter of fn == constant).
func equalsConstGuard(b *ssa.BasicBlock, fn *ssa.Function) (int64, bool) {
	for _, ec := range ssax.DomConds(b) {
		bo, ok := ec.Cond.(*ssa.BinOp)
		if !ok || !((bo.Op == token.EQL && ec.True) || (bo.Op == token.NEQ && !ec.True)) {
			continue
		}
		for _, pair := range [][2]ssa.Value{{bo.X, bo.Y}, {bo.Y, bo.X}} {
			isParam := false
			for _, d := range ssax.Defs(pair[0]) {
				if _, isP := ssax.Unwrap(d).(*ssa.Parameter); isP {
					isParam = true
				}
			}
			if isParam {
				if k, ok := ssax.ConstInt(pair[1]); ok {
					return k, true
				}
			}
		}
	}
	return 0, false
}

// minLockSetID: the smallest id the lock-set allocator can return: it returns atomic.AddUint32(&counter, 1) plus a
// constant, where counter is a package-level variable nothing else writes (so it starts at 0).
func minLockSetID(c *core.Ctx) (int64, bool) {
	for _, fn := range pkgFuncs(c, "orcas") {
		res := fn.Signature.Results()
		if res.Len() != 1 || types.TypeString(res.At(0).Type(), nil) != "uint32" {
			continue
		}
		min, known := int64(0), false
		ok := true
		for _, r := range ssax.Returns(fn) {
			for _, d := range ssax.Defs(r.Results[0]) {
				adj := int64(0)
				v := ssax.Unwrap(d)
				for {
					bo, isBO := v.(*ssa.BinOp)
					if !isBO {
						break
					}
					k, isK := ssax.ConstInt(bo.Y)
					if !isK {
						break
					}
					if bo.Op == token.ADD {
						adj += k
					} else if bo.Op == token.SUB {
						adj -= k
					} else {
						break
					}
					v = ssax.Unwrap(bo.X)
				}
				call, isCall := v.(*ssa.Call)
				if !isCall || ssax.CalleeName(&call.Call) != "sync/atomic.AddUint32" {
					ok = false
					continue
				}
				g, isG := call.Call.Args[0].(*ssa.Global)
				inc, isK := ssax.ConstInt(call.Call.Args[1])
				if !isG || !isK || inc < 1 {
					ok = false
					continue
				}
				// nothing else writes the counter
				for _, f2 := range pkgFuncs(c, "orcas") {
					ssax.Instrs(f2, func(ins ssa.Instruction) {
						if st, isSt := ins.(*ssa.Store); isSt && st.Addr == ssa.Value(g) {
							ok = false
						}
					})
				}
				if !known || inc+adj < min {
					min, known = inc+adj, true
				}
			}
		}
		if ok && known {
			return min, true
		}
	}
	return 0, false
}
