package rules

import (
	"fmt"
	"go/token"
	"go/types"
	"sort"
	"strings"

	"golang.org/x/tools/go/ssa"

	"rendlint/core"
	"rendlint/ssax"
)

// runR189 (R18.9): what is reported under a histogram's "count" and "kept" tags is the period's count and kept field.
// Writer/reader table agreement: AddHistogram stores, per histogram, a tag set at offset k of the expanded tag table
// whose statistic name is a constant ("count", "kept", ...); every reporting function appends metrics whose tag set is
// read at offset k' of the same table. For the offsets named "count" / "kept" the value must come from the field of the
// same name of the extracted period data.
func runR189(c *core.Ctx) {
	c.Rule("R18.9", "the value reported under a histogram's \"count\" (\"kept\") tag is the count (kept) field of the extracted period: the offset of the tag set in the expanded tag table, as written by AddHistogram, agrees with the field the reporting function pairs it with", 2)
	add := c.P.Func("metrics", "AddHistogram")
	if add == nil {
		c.Undecided("R18.9", "metrics.AddHistogram", "-", "anchor not found")
		return
	}
	// offset -> statistic name, from stores into a package-level []Tags whose map operand got a constant statistic
	type tableOff struct {
		table string
		off   int64
	}
	stat := map[tableOff]string{}
	perHist := map[string]int64{}
	ssax.Instrs(add, func(ins ssa.Instruction) {
		st, ok := ins.(*ssa.Store)
		if !ok {
			return
		}
		ia, ok := st.Addr.(*ssa.IndexAddr)
		if !ok {
			return
		}
		g := ssax.GlobalLoad(ia.X)
		if g == nil {
			return
		}
		ev := &ssax.SymEval{}
		lin := ev.Eval(ia.Index)
		// the statistic name stored into this map value
		name := ""
		for _, d := range ssax.Defs(st.Val) {
			if d.Referrers() == nil {
				continue
			}
			for _, r := range *d.Referrers() {
				if mu, ok := r.(*ssa.MapUpdate); ok && mu.Map == d {
					if k := ssax.GlobalLoad(mu.Key); k != nil && k.Name() == "TagStatistic" {
						if sv, ok := ssax.ConstString(mu.Value); ok {
							name = sv
						}
					} else if ks, ok := ssax.ConstString(mu.Key); ok && strings.Contains(strings.ToLower(ks), "statistic") {
						if sv, ok := ssax.ConstString(mu.Value); ok {
							name = sv
						}
					}
				}
			}
		}
		for _, coef := range lin.Terms {
			if coef > 1 {
				perHist[g.Name()] = coef
			}
		}
		if name != "" {
			stat[tableOff{g.Name(), lin.Const}] = name
		}
	})
	// offsets are taken modulo the number of slots per histogram (the histogram index may itself be an offset
	// expression such as id-1)
	norm := map[tableOff]string{}
	for to, name := range stat {
		if m := perHist[to.table]; m > 0 {
			to.off = ((to.off % m) + m) % m
		}
		norm[to] = name
	}
	stat = norm
	want := map[string]string{"count": "count", "kept": "kept"}
	found := 0
	for to, name := range stat {
		if _, ok := want[name]; ok {
			found++
			_ = to
		}
	}
	if found == 0 {
		c.Undecided("R18.9", "metrics.AddHistogram#tag-offsets", c.P.Pos(add.Pos()), "no tag set with a constant \"count\"/\"kept\" statistic is stored into a package-level tag table: idiom not recognised")
		return
	}
	pv := &ssax.Prov{}
	n := 0
	for _, fn := range pkgFuncs(c, "metrics") {
		if fn == add {
			continue
		}
		counts := map[string]int{}
		ssax.Instrs(fn, func(ins ssa.Instruction) {
			al, ok := ins.(*ssa.Alloc)
			if !ok || !strings.HasSuffix(ssax.ShortType(al.Type()), "metrics.IntMetric") {
				return
			}
			tg := literalField(al, "Tgs")
			val := literalField(al, "Val")
			if tg == nil || val == nil {
				return
			}
			// Tgs = table[idx]
			var table string
			var off int64
			okIdx := false
			for _, d := range ssax.Defs(tg) {
				if u, ok := ssax.Unwrap(d).(*ssa.UnOp); ok {
					if ia, ok := u.X.(*ssa.IndexAddr); ok {
						if g := ssax.GlobalLoad(ia.X); g != nil {
							ev := &ssax.SymEval{}
							lin := ev.Eval(ia.Index)
							table, off, okIdx = g.Name(), lin.Const, true
							if m := perHist[table]; m > 0 {
								off = ((off % m) + m) % m
							}
						}
					}
				}
			}
			if !okIdx {
				return
			}
			name, known := stat[tableOff{table, off}]
			if !known {
				return // a percentile slot (name not constant) or another table
			}
			field, armed := want[name]
			if !armed {
				return
			}
			n++
			key := ordinalKey(counts, core.FuncName(fn)+"#reported-as-"+name)
			var bad []string
			for _, s := range pv.Sources(val) {
				if len(s.Path) == 0 || s.Path[len(s.Path)-1] != field {
					bad = append(bad, s.String())
				}
			}
			if len(bad) > 0 && name == "count" {
				// where the period's count is known to be zero, kept (never above count) and the constant 0 say the same
				zero := false
				for _, ec := range ssax.DomConds(al.Block()) {
					if bo, ok := ec.Cond.(*ssa.BinOp); ok && ((bo.Op == token.EQL && ec.True) || (bo.Op == token.NEQ && !ec.True)) {
						for _, pair := range [][2]ssa.Value{{bo.X, bo.Y}, {bo.Y, bo.X}} {
							if isConstZero(pair[1]) && ssax.All(pv.Sources(pair[0]), func(s ssax.Src) bool { return len(s.Path) > 0 && s.Path[len(s.Path)-1] == "count" }) {
								zero = true
							}
						}
					}
				}
				if zero {
					var still []string
					for _, s := range pv.Sources(val) {
						last := ""
						if len(s.Path) > 0 {
							last = s.Path[len(s.Path)-1]
						}
						if last == "count" || last == "kept" || (s.Kind == "const" && isConstZero(s.V)) {
							continue
						}
						still = append(still, s.String())
					}
					bad = still
				}
			}
			sort.Strings(bad)
			c.Check(len(bad) == 0, "R18.9", key, c.P.Pos(al.Pos()), fmt.Sprintf("offset %d of %s is tagged %q and reports the period's %s field", off, table, name, field),
				fmt.Sprintf("the metric tagged %q (offset %d of %s) reports %s instead of the period's %s field: the reported %s is not the number the tag names", name, off, table, strings.Join(uniq(bad), ", "), field, name))
		})
	}
	if n == 0 {
		c.Undecided("R18.9", "metrics#reported-count", "-", "no metric is reported under the count/kept tag offsets")
	}
}

// runR1810 (R18.10): a counter's reported value is the sum of the increments applied to it.
//
//	(a) update side: every exported function of the metrics package that updates an element of a package-level value
//	    array through sync/atomic indexes the array by its id parameter and adds / stores its value parameter (the
//	    constant 1 when it has none);
//	(b) report side: in every metric record a reporting function builds, the name and the value are taken from the
//	    same index of their package-level arrays (name table and value table are parallel arrays).
func runR1810(c *core.Ctx) {
	c.Rule("R18.10", "a counter or gauge reports what was applied to it: update functions index the value array by their id parameter and add/store their value parameter (or the constant 1); reporting functions take a record's name and value from the same index of the parallel tables", 6)
	pv := &ssax.Prov{}
	n := 0
	for _, fn := range pkgFuncs(c, "metrics") {
		if fn.Parent() != nil || fn.Signature.Recv() != nil || len(fn.Params) == 0 {
			continue
		}
		counts := map[string]int{}
		ssax.Instrs(fn, func(ins ssa.Instruction) {
			cc := ssax.CallOf(ins)
			if cc == nil {
				return
			}
			name := ssax.CalleeName(cc)
			if name != "sync/atomic.AddUint64" && name != "sync/atomic.StoreUint64" {
				return
			}
			ia, ok := ssax.Unwrap(cc.Args[0]).(*ssa.IndexAddr)
			if !ok || ssax.GlobalLoad(ia.X) == nil && globalArray(ia.X) == nil {
				return
			}
			// only the API functions whose first parameter is the metric id
			idP := fn.Params[0]
			if types.TypeString(idP.Type(), nil) != "uint32" || !fn.Object().Exported() {
				return
			}
			n++
			key := ordinalKey(counts, core.FuncName(fn)+"#update")
			var bad []string
			if !ssax.All(pv.Sources(ia.Index), func(s ssax.Src) bool { return s.Kind == "param" && s.V == ssa.Value(idP) && len(s.Path) == 0 }) {
				bad = append(bad, "the array is not indexed by the id parameter ("+strings.Join(ssax.Strings(pv.Sources(ia.Index)), ",")+")")
			}
			var valP *ssa.Parameter
			for _, p := range fn.Params[1:] {
				if b, ok := p.Type().Underlying().(*types.Basic); ok && b.Info()&types.IsNumeric != 0 {
					valP = p
				}
			}
			val := cc.Args[1]
			if valP != nil {
				if !ssax.Any(pv.Sources(val), func(s ssax.Src) bool { return s.Kind == "param" && s.V == ssa.Value(valP) }) && !derivesFromParam(val, valP) {
					bad = append(bad, "the "+valP.Name()+" parameter does not reach the value that is added/stored ("+val.String()+")")
				}
			} else if name == "sync/atomic.AddUint64" {
				if k, ok := ssax.ConstInt(val); !ok || k != 1 {
					bad = append(bad, "an increment without amount adds "+val.String()+" instead of 1")
				}
			}
			c.Check(len(bad) == 0, "R18.10", key, c.P.Pos(ins.Pos()), "indexed by the id parameter; the value parameter (or 1) is applied", strings.Join(bad, "; ")+": the reported value is not the number (or sum) of increments applied")
		})
	}
	// (b) report side
	for _, fn := range pkgFuncs(c, "metrics") {
		type rec struct {
			name, val ssa.Value
			pos       token.Pos
		}
		recs := map[ssa.Value]*rec{}
		var order []ssa.Value
		ssax.Instrs(fn, func(ins ssa.Instruction) {
			st, ok := ins.(*ssa.Store)
			if !ok {
				return
			}
			fa, ok := st.Addr.(*ssa.FieldAddr)
			if !ok {
				return
			}
			t := ssax.ShortType(fa.X.Type())
			if !strings.HasSuffix(t, "metrics.IntMetric") && !strings.HasSuffix(t, "metrics.FloatMetric") {
				return
			}
			r := recs[fa.X]
			if r == nil {
				r = &rec{pos: st.Pos()}
				recs[fa.X] = r
				order = append(order, fa.X)
			}
			switch f, _ := ssax.FieldName(fa); f {
			case "Name":
				r.name = st.Val
			case "Val":
				r.val = st.Val
			}
		})
		counts := map[string]int{}
		for _, base := range order {
			r := recs[base]
			if r.name == nil || r.val == nil {
				continue
			}
			ni := globalIndices(r.name)
			vi := globalIndices(r.val)
			if len(ni) == 0 || len(vi) == 0 {
				continue
			}
			n++
			key := ordinalKey(counts, core.FuncName(fn)+"#record")
			ok := true
			for v := range vi {
				if !ni[v] {
					ok = false
				}
			}
			c.Check(ok, "R18.10", key, c.P.Pos(r.pos), "name and value come from the same index of their tables",
				"a reported record takes its name from one index of the name table and its value from another index of the value table: a metric is reported under another metric's name")
		}
	}
	// (c) every value table that is reported is updated by some function of the package, and every table that is
	// updated is reported: an update function that writes another kind's table leaves its own table silent
	written, read := map[string]token.Pos{}, map[string]token.Pos{}
	for _, fn := range pkgFuncs(c, "metrics") {
		ssax.Instrs(fn, func(ins ssa.Instruction) {
			cc := ssax.CallOf(ins)
			if cc == nil || len(cc.Args) == 0 || !strings.HasPrefix(ssax.CalleeName(cc), "sync/atomic.") {
				return
			}
			ia, ok := ssax.Unwrap(cc.Args[0]).(*ssa.IndexAddr)
			if !ok {
				return
			}
			g := ssax.GlobalLoad(ia.X)
			if g == nil {
				g = globalArray(ia.X)
			}
			if g == nil {
				return
			}
			switch {
			case strings.Contains(ssax.CalleeName(cc), ".Load"):
				read[g.Name()] = ins.Pos()
			case strings.Contains(ssax.CalleeName(cc), ".Add"), strings.Contains(ssax.CalleeName(cc), ".Store"), strings.Contains(ssax.CalleeName(cc), ".Swap"):
				written[g.Name()] = ins.Pos()
			}
		})
	}
	var names []string
	for g := range read {
		names = append(names, g)
	}
	for g := range written {
		if _, ok := read[g]; !ok {
			names = append(names, g)
		}
	}
	sort.Strings(names)
	for _, g := range names {
		_, w := written[g]
		_, r := read[g]
		n++
		pos := read[g]
		if !r {
			pos = written[g]
		}
		switch {
		case w && r:
			c.OK("R18.10", "metrics."+g+"#updated-and-reported", c.P.Pos(pos), "the table is updated atomically and read by a reporting function")
		case r:
			c.Violate("R18.10", "metrics."+g+"#updated-and-reported", c.P.Pos(pos), "the value table "+g+" is reported but no function of the package ever updates it: the update function of this metric kind writes somewhere else, so the reported value never changes")
		default:
			c.Violate("R18.10", "metrics."+g+"#updated-and-reported", c.P.Pos(pos), "the value table "+g+" is updated but never read by a reporting function: what is applied to these metrics is not reported")
		}
	}
	if n == 0 {
		c.Undecided("R18.10", "metrics#value-flow", "-", "no atomic update of a package-level value array and no reported record found")
	}
}

func globalArray(v ssa.Value) *ssa.Global {
	g, _ := ssax.Unwrap(v).(*ssa.Global)
	return g
}

func derivesFromParam(v ssa.Value, p *ssa.Parameter) bool {
	seen := map[ssa.Value]bool{}
	var walk func(v ssa.Value, d int) bool
	walk = func(v ssa.Value, d int) bool {
		if v == nil || seen[v] || d > 8 {
			return false
		}
		seen[v] = true
		if v == ssa.Value(p) {
			return true
		}
		if ins, ok := v.(ssa.Instruction); ok {
			for _, op := range ins.Operands(nil) {
				if op != nil && *op != nil && walk(*op, d+1) {
					return true
				}
			}
		}
		return false
	}
	return walk(v, 0)
}

// globalIndices: the index values with which package-level arrays/slices are indexed in the backward slice of v
// (through loads, conversions, calls and their arguments).
func globalIndices(v ssa.Value) map[ssa.Value]bool {
	out := map[ssa.Value]bool{}
	seen := map[ssa.Value]bool{}
	var walk func(v ssa.Value, d int)
	walk = func(v ssa.Value, d int) {
		if v == nil || seen[v] || d > 10 {
			return
		}
		seen[v] = true
		if ia, ok := v.(*ssa.IndexAddr); ok {
			if ssax.GlobalLoad(ia.X) != nil || globalArray(ia.X) != nil {
				out[ssax.Unwrap(ia.Index)] = true
				return
			}
		}
		if ins, ok := v.(ssa.Instruction); ok {
			if _, isPhi := v.(*ssa.Phi); isPhi {
				return
			}
			for _, op := range ins.Operands(nil) {
				if op != nil && *op != nil {
					walk(*op, d+1)
				}
			}
		}
	}
	walk(v, 0)
	return out
}

// runR1811 (R18.11): the reported count of a period is the number of observations: on every path through the
// observer from entry to a normal return, the period's count field is incremented by exactly one atomic add (before any
// sampling decision), and so is the bucket the value falls into.
func runR1811(c *core.Ctx) {
	c.Rule("R18.11", "every observation is counted: each path through the histogram observer to a normal return passes exactly one atomic add of 1 to the period's count field and one to a bucket", 2)
	fn := c.P.Func("metrics", "ObserveHist")
	if fn == nil {
		c.Undecided("R18.11", "metrics.ObserveHist", "-", "anchor not found")
		return
	}
	isAddTo := func(ins ssa.Instruction, pred func(addr ssa.Value) bool) bool {
		cc := ssax.CallOf(ins)
		if cc == nil || ssax.CalleeName(cc) != "sync/atomic.AddUint64" {
			return false
		}
		if k, ok := ssax.ConstInt(cc.Args[1]); !ok || k != 1 {
			return false
		}
		return pred(cc.Args[0])
	}
	isCount := func(a ssa.Value) bool { n, ok := ssax.FieldName(ssax.Unwrap(a)); return ok && n == "count" }
	isBucket := func(a ssa.Value) bool {
		ia, ok := ssax.Unwrap(a).(*ssa.IndexAddr)
		if !ok {
			return false
		}
		n, ok := ssax.FieldName(ssax.Unwrap(ia.X))
		if !ok {
			if u, isU := ssax.Unwrap(ia.X).(*ssa.UnOp); isU {
				n, ok = ssax.FieldName(u.X)
			}
		}
		return ok && n == "buckets"
	}
	for _, w := range []struct {
		name string
		pred func(ssa.Value) bool
	}{{"count", isCount}, {"bucket", isBucket}} {
		key := "metrics.ObserveHist#" + w.name + "-incremented-once"
		n := 0
		ssax.Instrs(fn, func(ins ssa.Instruction) {
			if isAddTo(ins, w.pred) {
				n++
			}
		})
		if n == 0 {
			c.Violate("R18.11", key, c.P.Pos(fn.Pos()), "the observer never adds 1 to the "+w.name+" atomically: observations are not counted")
			continue
		}
		isRet := func(i ssa.Instruction) bool { _, ok := i.(*ssa.Return); return ok }
		miss, trail := (ssax.Reach{Target: isRet, Avoid: func(i ssa.Instruction) bool { return isAddTo(i, w.pred) }}).FromBlock(fn.Blocks[0])
		// twice: from an add, another add reachable
		twice := false
		ssax.Instrs(fn, func(ins ssa.Instruction) {
			if isAddTo(ins, w.pred) {
				if hit, _ := (ssax.Reach{Target: func(i ssa.Instruction) bool { return isAddTo(i, w.pred) }}).From(ins); hit != nil {
					twice = true
				}
			}
		})
		switch {
		case miss != nil:
			c.Violate("R18.11", key, c.P.Pos(miss.Pos()), "the observer can return without having added 1 to the "+w.name+" ("+strings.Join(ssax.BlockTrail(c.P.Fset, trail), " -> ")+"): the reported count is below the number of observations")
		case twice:
			c.Violate("R18.11", key, c.P.Pos(fn.Pos()), "an observation can be added to the "+w.name+" twice")
		default:
			c.OK("R18.11", key, c.P.Pos(fn.Pos()), "exactly one atomic add of 1 on every path to a return")
		}
	}
}

// runR1812 (R18.12): the extractor retires the whole period on every path. Every return of the function that exchanges
// the ring buffers hands back the period record it found (never an empty one built on the spot) and has replaced it
// with a fresh record: an early "nothing to report" return leaves the period's count in place, and those observations
// are reported with the next period - or never, if the test looks at the wrong field.
func runR1812(c *core.Ctx, extractors []*ssa.Function) {
	c.Rule("R18.12", "the extractor retires the period on every path: each return hands back the period record found (not an empty one) after replacing it with a fresh record", 1)
	if len(extractors) == 0 {
		c.Undecided("R18.12", "metrics#extractor", "-", "no extractor found")
		return
	}
	pv := &ssax.Prov{}
	for _, fn := range extractors {
		key := core.FuncName(fn) + "#retires-period"
		var bad []string
		isPeriodStore := func(ins ssa.Instruction) bool {
			st, ok := ins.(*ssa.Store)
			if !ok {
				return false
			}
			// a store of a whole period record into the histogram (field of the parameter)
			fa, ok := st.Addr.(*ssa.FieldAddr)
			if !ok {
				return false
			}
			return ssax.ShortType(st.Val.Type()) == ssax.ShortType(fa.Type().(*types.Pointer).Elem()) && strings.HasSuffix(ssax.ShortType(st.Val.Type()), "hdat")
		}
		for _, r := range ssax.Returns(fn) {
			if len(r.Results) == 0 {
				continue
			}
			srcs := pv.Sources(r.Results[0])
			fromHist := ssax.Any(srcs, func(s ssax.Src) bool { return s.Kind == "param" && len(s.Path) >= 1 }) &&
				ssax.All(srcs, func(s ssax.Src) bool { return (s.Kind == "param" && len(s.Path) >= 1) || s.Kind == "composite" })
			if !fromHist {
				bad = append(bad, "the return at "+c.P.Pos(r.Pos())+" hands back "+strings.Join(ssax.Strings(srcs), ",")+" instead of the period record of the histogram")
			}
		}
		// every path from entry to a return passes a store of a fresh record
		if hit, trail := (ssax.Reach{
			Target: func(i ssa.Instruction) bool { _, ok := i.(*ssa.Return); return ok },
			Avoid:  isPeriodStore,
		}).FromBlock(fn.Blocks[0]); hit != nil {
			bad = append(bad, "the extractor can return at "+c.P.Pos(hit.Pos())+" without having replaced the period record ("+strings.Join(ssax.BlockTrail(c.P.Fset, trail), " -> ")+")")
		}
		c.Check(len(bad) == 0, "R18.12", key, c.P.Pos(fn.Pos()), "every return hands back the record found and leaves a fresh one in its place",
			strings.Join(bad, "; ")+": the period's observations are counted again with the next period, or its count is reported as 0")
	}
}

// runR1813 (R18.13): increments are read-modify-write operations. No value stored through sync/atomic into a metric
// location is computed from an atomic load of that same location (outside a CompareAndSwap retry loop): "load, add,
// store" is three atomic accesses but not an atomic increment - an increment another goroutine makes in between is
// overwritten, and the counter reports less than was applied.
func runR1813(c *core.Ctx) {
	c.Rule("R18.13", "no lost updates: a value stored atomically into a metric location is never computed from an atomic load of that same location (use atomic.Add or a CompareAndSwap retry loop)", 2)
	n := 0
	sameLoc := func(a, b ssa.Value) bool {
		a, b = ssax.Unwrap(a), ssax.Unwrap(b)
		if a == b {
			return true
		}
		ia, ok1 := a.(*ssa.IndexAddr)
		ib, ok2 := b.(*ssa.IndexAddr)
		if ok1 && ok2 {
			ga, gb := ssax.GlobalLoad(ia.X), ssax.GlobalLoad(ib.X)
			if ga == nil {
				ga = globalArray(ia.X)
			}
			if gb == nil {
				gb = globalArray(ib.X)
			}
			return ga != nil && ga == gb && ssax.Unwrap(ia.Index) == ssax.Unwrap(ib.Index)
		}
		fa, ok1 := a.(*ssa.FieldAddr)
		fb, ok2 := b.(*ssa.FieldAddr)
		if ok1 && ok2 {
			return fa.Field == fb.Field && sameLocBase(fa.X, fb.X)
		}
		return false
	}
	for _, fn := range pkgFuncs(c, "metrics") {
		counts := map[string]int{}
		ssax.Instrs(fn, func(ins ssa.Instruction) {
			cc := ssax.CallOf(ins)
			if cc == nil || !strings.HasPrefix(ssax.CalleeName(cc), "sync/atomic.Store") || len(cc.Args) < 2 {
				return
			}
			n++
			key := ordinalKey(counts, core.FuncName(fn)+"#atomic-store")
			// backward slice of the stored value: an atomic load of the same location?
			lost := ""
			seen := map[ssa.Value]bool{}
			var walk func(v ssa.Value, d int)
			walk = func(v ssa.Value, d int) {
				if v == nil || seen[v] || d > 10 || lost != "" {
					return
				}
				seen[v] = true
				if call, ok := v.(*ssa.Call); ok && strings.HasPrefix(ssax.CalleeName(&call.Call), "sync/atomic.Load") && sameLoc(call.Call.Args[0], cc.Args[0]) {
					lost = c.P.Pos(call.Pos())
					return
				}
				if i, ok := v.(ssa.Instruction); ok {
					for _, op := range i.Operands(nil) {
						if op != nil && *op != nil {
							walk(*op, d+1)
						}
					}
				}
			}
			walk(cc.Args[1], 0)
			c.Check(lost == "", "R18.13", key, c.P.Pos(ins.Pos()), "the stored value does not depend on a load of the same location",
				"the value stored here is computed from the atomic load of the same location at "+lost+": load and store are each atomic, the update is not - increments made by other goroutines in between are lost")
		})
	}
	if n == 0 {
		c.Info("R18.13", "metrics#atomic-stores", "-", "no atomic store in the metrics package")
	}
}

func sameLocBase(a, b ssa.Value) bool {
	a, b = ssax.Unwrap(a), ssax.Unwrap(b)
	if a == b {
		return true
	}
	ia, ok1 := a.(*ssa.IndexAddr)
	ib, ok2 := b.(*ssa.IndexAddr)
	if ok1 && ok2 {
		return ssax.GlobalLoad(ia.X) != nil && ssax.GlobalLoad(ia.X) == ssax.GlobalLoad(ib.X) && ssax.Unwrap(ia.Index) == ssax.Unwrap(ib.Index)
	}
	return false
}

// runR1814 (R18.14): the bucket of an observation is a non-decreasing function of the value only if the table that
// maps a power-of-4 range to its first bucket is strictly increasing. Every constant integer table the bucket function
// indexes is checked entry by entry (a transposed pair of digits sends a whole range of values to lower buckets).
func runR1814(c *core.Ctx) {
	c.Rule("R18.14", "every constant integer table the bucket function indexes is strictly increasing", 1)
	fn := findFunc(c, "metrics", "getBucket", roleBucketFn)
	if fn == nil {
		c.Undecided("R18.14", "metrics.getBucket", "-", "bucket function not found")
		return
	}
	n := 0
	ssax.Instrs(fn, func(ins ssa.Instruction) {
		ia, ok := ins.(*ssa.IndexAddr)
		if !ok {
			return
		}
		g := globalArray(ia.X)
		if g == nil {
			g = ssax.GlobalLoad(ia.X)
		}
		if g == nil {
			return
		}
		// the table's initial values: constant stores into its elements in the package initialiser
		vals := map[int64]int64{}
		for _, f := range pkgFuncs(c, "metrics") {
			if f.Name() != "init" && !strings.HasPrefix(f.Name(), "init#") {
				continue
			}
			ssax.Instrs(f, func(i2 ssa.Instruction) {
				st, ok := i2.(*ssa.Store)
				if !ok {
					return
				}
				e, ok := st.Addr.(*ssa.IndexAddr)
				if !ok {
					return
				}
				base := ssax.Unwrap(e.X)
				if base != ssa.Value(g) {
					// composite literal built in a temporary then stored: follow one level
					if al, isAl := base.(*ssa.Alloc); isAl {
						stored := false
						for _, r := range *al.Referrers() {
							if s2, ok := r.(*ssa.Store); ok && s2.Addr == ssa.Value(g) {
								stored = true
							}
							if u, ok := r.(*ssa.UnOp); ok {
								for _, rr := range *u.Referrers() {
									if s2, ok := rr.(*ssa.Store); ok && s2.Addr == ssa.Value(g) {
										stored = true
									}
								}
							}
						}
						if !stored {
							return
						}
					} else {
						return
					}
				}
				idx, ok1 := ssax.ConstInt(e.Index)
				v, ok2 := ssax.ConstInt(st.Val)
				if ok1 && ok2 {
					vals[idx] = v
				}
			})
		}
		if len(vals) < 2 {
			return
		}
		n++
		key := "metrics." + g.Name() + "#strictly-increasing"
		var bad []string
		for i := int64(1); i < int64(len(vals)); i++ {
			a, okA := vals[i-1]
			b, okB := vals[i]
			if okA && okB && b <= a {
				bad = append(bad, fmt.Sprintf("entry %d is %d, not above entry %d (%d)", i, b, i-1, a))
			}
		}
		c.Check(len(bad) == 0, "R18.14", key, c.P.Pos(ia.Pos()), fmt.Sprintf("%d entries, strictly increasing", len(vals)),
			strings.Join(bad, "; ")+": values of that power-of-4 range are counted in lower buckets than smaller values - the bucket is no longer a non-decreasing function of the value and its upper bound lies below the value")
	})
	if n == 0 {
		c.Undecided("R18.14", "metrics.getBucket#tables", c.P.Pos(fn.Pos()), "the bucket function indexes no constant integer table (or its initial values could not be read)")
	}
}
