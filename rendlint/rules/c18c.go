package rules

import (
	"fmt"
	"go/token"
	"sort"
	"strings"

	"golang.org/x/tools/go/ssa"

	"rendlint/core"
	"rendlint/ssax"
)

// runR189 (R18.9): what is reported under a histogram's "count" and "kept" tags is the period's count and kept field.
// Writer/reader table agreement: AddHistogram stores, per histogram, a tag set at offset k of the expanded tag table
// whose statistic name is a constant ("count", "kept", ...); every reporting function appends metrics whose tag set is
// read at offset k' of the same table. For the offsets named "count" / "kept" the value must come from the field of the
// same name of the extracted period data.
func runR189(c *core.Ctx) {
	c.Rule("R18.9", "the value reported under a histogram's \"count\" (\"kept\") tag is the count (kept) field of the extracted period: the offset of the tag set in the expanded tag table, as written by AddHistogram, agrees with the field the reporting function pairs it with", 2)
	add := c.P.Func("metrics", "AddHistogram")
	if add == nil {
		c.Undecided("R18.9", "metrics.AddHistogram", "-", "anchor not found")
		return
	}
	// offset -> statistic name, from stores into a package-level []Tags whose map operand got a constant statistic
	type tableOff struct {
		table string
		off   int64
	}
	stat := map[tableOff]string{}
	perHist := map[string]int64{}
	ssax.Instrs(add, func(ins ssa.Instruction) {
		st, ok := ins.(*ssa.Store)
		if !ok {
			return
		}
		ia, ok := st.Addr.(*ssa.IndexAddr)
		if !ok {
			return
		}
		g := ssax.GlobalLoad(ia.X)
		if g == nil {
			return
		}
		ev := &ssax.SymEval{}
		lin := ev.Eval(ia.Index)
		// the statistic name stored into this map value
		name := ""
		for _, d := range ssax.Defs(st.Val) {
			if d.Referrers() == nil {
				continue
			}
			for _, r := range *d.Referrers() {
				if mu, ok := r.(*ssa.MapUpdate); ok && mu.Map == d {
					if k := ssax.GlobalLoad(mu.Key); k != nil && k.Name() == "TagStatistic" {
						if sv, ok := ssax.ConstString(mu.Value); ok {
							name = sv
						}
					} else if ks, ok := ssax.ConstString(mu.Key); ok && strings.Contains(strings.ToLower(ks), "statistic") {
						if sv, ok := ssax.ConstString(mu.Value); ok {
							name = sv
						}
					}
				}
			}
		}
		for _, coef := range lin.Terms {
			if coef > 1 {
				perHist[g.Name()] = coef
			}
		}
		if name != "" {
			stat[tableOff{g.Name(), lin.Const}] = name
		}
	})
	// offsets are taken modulo the number of slots per histogram (the histogram index may itself be an offset
	// expression such as id-1)
	norm := map[tableOff]string{}
	for to, name := range stat {
		if m := perHist[to.table]; m > 0 {
			to.off = ((to.off % m) + m) % m
		}
		norm[to] = name
	}
	stat = norm
	want := map[string]string{"count": "count", "kept": "kept"}
	found := 0
	for to, name := range stat {
		if _, ok := want[name]; ok {
			found++
			_ = to
		}
	}
	if found == 0 {
		c.Undecided("R18.9", "metrics.AddHistogram#tag-offsets", c.P.Pos(add.Pos()), "no tag set with a constant \"count\"/\"kept\" statistic is stored into a package-level tag table: idiom not recognised")
		return
	}
	pv := &ssax.Prov{}
	n := 0
	for _, fn := range pkgFuncs(c, "metrics") {
		if fn == add {
			continue
		}
		counts := map[string]int{}
		ssax.Instrs(fn, func(ins ssa.Instruction) {
			al, ok := ins.(*ssa.Alloc)
			if !ok || !strings.HasSuffix(ssax.ShortType(al.Type()), "metrics.IntMetric") {
				return
			}
			tg := literalField(al, "Tgs")
			val := literalField(al, "Val")
			if tg == nil || val == nil {
				return
			}
			// Tgs = table[idx]
			var table string
			var off int64
			okIdx := false
			for _, d := range ssax.Defs(tg) {
				if u, ok := ssax.Unwrap(d).(*ssa.UnOp); ok {
					if ia, ok := u.X.(*ssa.IndexAddr); ok {
						if g := ssax.GlobalLoad(ia.X); g != nil {
							ev := &ssax.SymEval{}
							lin := ev.Eval(ia.Index)
							table, off, okIdx = g.Name(), lin.Const, true
							if m := perHist[table]; m > 0 {
								off = ((off % m) + m) % m
							}
						}
					}
				}
			}
			if !okIdx {
				return
			}
			name, known := stat[tableOff{table, off}]
			if !known {
				return // a percentile slot (name not constant) or another table
			}
			field, armed := want[name]
			if !armed {
				return
			}
			n++
			key := ordinalKey(counts, core.FuncName(fn)+"#reported-as-"+name)
			var bad []string
			for _, s := range pv.Sources(val) {
				if len(s.Path) == 0 || s.Path[len(s.Path)-1] != field {
					bad = append(bad, s.String())
				}
			}
			if len(bad) > 0 && name == "count" {
				// where the period's count is known to be zero, kept (never above count) and the constant 0 say the same
				zero := false
				for _, ec := range ssax.DomConds(al.Block()) {
					if bo, ok := ec.Cond.(*ssa.BinOp); ok && ((bo.Op == token.EQL && ec.True) || (bo.Op == token.NEQ && !ec.True)) {
						for _, pair := range [][2]ssa.Value{{bo.X, bo.Y}, {bo.Y, bo.X}} {
							if isConstZero(pair[1]) && ssax.All(pv.Sources(pair[0]), func(s ssax.Src) bool { return len(s.Path) > 0 && s.Path[len(s.Path)-1] == "count" }) {
								zero = true
							}
						}
					}
				}
				if zero {
					var still []string
					for _, s := range pv.Sources(val) {
						last := ""
						if len(s.Path) > 0 {
							last = s.Path[len(s.Path)-1]
						}
						if last == "count" || last == "kept" || (s.Kind == "const" && isConstZero(s.V)) {
							continue
						}
						still = append(still, s.String())
					}
					bad = still
				}
			}
			sort.Strings(bad)
			c.Check(len(bad) == 0, "R18.9", key, c.P.Pos(al.Pos()), fmt.Sprintf("offset %d of %s is tagged %q and reports the period's %s field", off, table, name, field),
				fmt.Sprintf("the metric tagged %q (offset %d of %s) reports %s instead of the period's %s field: the reported %s is not the number the tag names", name, off, table, strings.Join(uniq(bad), ", "), field, name))
		})
	}
	if n == 0 {
		c.Undecided("R18.9", "metrics#reported-count", "-", "no metric is reported under the count/kept tag offsets")
	}
}
