package rules

import (
	"fmt"
	"go/token"
	"go/types"
	"os"
	"path/filepath"
	"regexp"
	"sort"
	"strconv"
	"strings"

	"golang.org/x/tools/go/ssa"

	"rendlint/core"
	"rendlint/ssax"
)

// R18.5: the assembly bit-count routine and its portable fallback both compute the number of leading zero bits L(x)
// of a 64-bit word, for every input (0 included, where L = 64).
//
// Both routines are straight-line code with branches that only test how many leading zeros the (shifted) input has, so
// their behaviour is a function of L alone. Each is executed symbolically path by path over the 65 possible values of
// L: a value is a0*L + c - sum(topbit(s)) where topbit(s) = bit 63 of x<<s = [L == s]; a branch on (x<<s)>>r == 0
// splits the range of L at s+64-r. At every return the result is compared with L for every L the path admits.
// A construct outside this fragment makes the obligation undecided (the agreement cannot be established).

type lzVal struct {
	kind string // "x" (x0<<s), "shr" ((x0<<s)>>r), "lin"
	s, r int64
	a, c int64           // lin: a*L + c
	tb   map[int64]int64 // lin: + coef * topbit(s)
}

func lzConst(c int64) lzVal { return lzVal{kind: "lin", c: c} }

func (v lzVal) lin() (lzVal, bool) {
	switch v.kind {
	case "lin":
		return v, true
	case "shr":
		if v.r == 63 {
			return lzVal{kind: "lin", tb: map[int64]int64{v.s: 1}}, true
		}
	}
	return v, false
}

func lzAdd(x, y lzVal, sign int64) (lzVal, bool) {
	a, ok1 := x.lin()
	b, ok2 := y.lin()
	if !ok1 || !ok2 {
		return lzVal{}, false
	}
	out := lzVal{kind: "lin", a: a.a + sign*b.a, c: a.c + sign*b.c, tb: map[int64]int64{}}
	for k, v := range a.tb {
		out.tb[k] += v
	}
	for k, v := range b.tb {
		out.tb[k] += sign * v
	}
	return out, true
}

func (v lzVal) at(L int64) int64 {
	r := v.a*L + v.c
	for s, k := range v.tb {
		if L == s {
			r += k
		}
	}
	return r
}

type lzPath struct {
	lo, hi int64 // admitted values of L (inclusive)
	trail  []string
}

// checkLzcntGo decides a Go implementation func(uint64) uint64.
func checkLzcntGo(fn *ssa.Function) (bad []string, undecided string, paths int) {
	if len(fn.Blocks) == 0 || len(fn.Params) != 1 {
		return nil, "no body", 0
	}
	for _, b := range fn.Blocks {
		for _, s := range b.Succs {
			if s.Index <= b.Index && s.Dominates(b) {
				return nil, "the routine has a loop: outside the decidable fragment", 0
			}
		}
	}
	var walk func(b, pred *ssa.BasicBlock, env map[ssa.Value]lzVal, p lzPath, depth int)
	walk = func(b, pred *ssa.BasicBlock, env map[ssa.Value]lzVal, p lzPath, depth int) {
		if undecided != "" || depth > 200 || p.lo > p.hi {
			return
		}
		get := func(v ssa.Value) (lzVal, bool) {
			if v == ssa.Value(fn.Params[0]) {
				return lzVal{kind: "x"}, true
			}
			if k, ok := ssax.ConstInt(v); ok {
				if _, isConst := ssax.Unwrap(v).(*ssa.Const); isConst {
					return lzConst(k), true
				}
			}
			x, ok := env[v]
			return x, ok
		}
		for _, ins := range b.Instrs {
			switch x := ins.(type) {
			case *ssa.Phi:
				for i, pb := range b.Preds {
					if pb == pred {
						if v, ok := get(x.Edges[i]); ok {
							env[x] = v
						} else {
							undecided = "value outside the fragment flows into a phi"
							return
						}
					}
				}
			case *ssa.DebugRef:
			case *ssa.Convert:
				if v, ok := get(x.X); ok {
					env[x] = v
				} else {
					undecided = "conversion of a value outside the fragment"
					return
				}
			case *ssa.ChangeType:
				if v, ok := get(x.X); ok {
					env[x] = v
				}
			case *ssa.Call:
				name := ssax.CalleeName(&x.Call)
				arg, ok := lzVal{}, false
				if len(x.Call.Args) == 1 {
					arg, ok = get(x.Call.Args[0])
				}
				switch {
				case name == "math/bits.LeadingZeros64" && ok && arg.kind == "x" && arg.s == 0:
					env[x] = lzVal{kind: "lin", a: 1}
				case name == "math/bits.Len64" && ok && arg.kind == "x" && arg.s == 0:
					env[x] = lzVal{kind: "lin", a: -1, c: 64}
				default:
					undecided = "call of " + name
					return
				}
			case *ssa.BinOp:
				l, ok1 := get(x.X)
				r, ok2 := get(x.Y)
				if !ok1 || !ok2 {
					undecided = "operand outside the fragment"
					return
				}
				switch x.Op {
				case token.SHL:
					k, isC := r.lin()
					if l.kind != "x" || !isC || k.a != 0 || len(k.tb) != 0 {
						undecided = "shift of a derived value"
						return
					}
					if p.lo < l.s+k.c {
						// set bits may be shifted out: the result then depends on more than L
						undecided = fmt.Sprintf("x is shifted left by %d in total although only %d leading zeros are established", l.s+k.c, p.lo)
						return
					}
					env[x] = lzVal{kind: "x", s: l.s + k.c}
				case token.SHR:
					k, isC := r.lin()
					if l.kind != "x" || !isC || k.a != 0 || len(k.tb) != 0 {
						undecided = "shift of a derived value"
						return
					}
					env[x] = lzVal{kind: "shr", s: l.s, r: k.c}
				case token.ADD, token.SUB:
					sign := int64(1)
					if x.Op == token.SUB {
						sign = -1
					}
					v, ok := lzAdd(l, r, sign)
					if !ok {
						undecided = "arithmetic on a value that is not a function of L"
						return
					}
					env[x] = v
				case token.EQL, token.NEQ:
					env[x] = lzVal{kind: "cmp"}
				default:
					undecided = "operator " + x.Op.String()
					return
				}
			case *ssa.If:
				bo, ok := x.Cond.(*ssa.BinOp)
				if !ok || (bo.Op != token.EQL && bo.Op != token.NEQ) {
					undecided = "branch on something else than ==/!= 0"
					return
				}
				l, ok1 := get(bo.X)
				r, ok2 := get(bo.Y)
				if ok1 && ok2 && l.kind == "lin" && (r.kind == "x" || r.kind == "shr") {
					l, r = r, l
				}
				rl, isLin := r.lin()
				if !ok1 || !ok2 || !isLin || rl.a != 0 || rl.c != 0 || len(rl.tb) != 0 {
					undecided = "branch that does not compare with zero"
					return
				}
				// l == 0  <=>  L >= threshold
				var thr int64
				switch l.kind {
				case "x":
					thr = 64
				case "shr":
					if l.s > l.r {
						undecided = "shift right by less than the accumulated left shift"
						return
					}
					thr = l.s + 64 - l.r
				default:
					undecided = "branch on a derived value"
					return
				}
				zeroSide, nonZero := b.Succs[0], b.Succs[1]
				if bo.Op == token.NEQ {
					zeroSide, nonZero = nonZero, zeroSide
				}
				pz, pn := p, p
				if thr > pz.lo {
					pz.lo = thr
				}
				if thr-1 < pn.hi {
					pn.hi = thr - 1
				}
				pz.trail = append(append([]string{}, p.trail...), fmt.Sprintf("L>=%d", thr))
				pn.trail = append(append([]string{}, p.trail...), fmt.Sprintf("L<%d", thr))
				walk(zeroSide, b, cloneEnv(env), pz, depth+1)
				walk(nonZero, b, cloneEnv(env), pn, depth+1)
				return
			case *ssa.Jump:
				walk(b.Succs[0], b, env, p, depth+1)
				return
			case *ssa.Return:
				paths++
				v, ok := get(x.Results[0])
				res, isLin := v.lin()
				if !ok || !isLin {
					undecided = "the returned value is not a function of L"
					return
				}
				for L := p.lo; L <= p.hi; L++ {
					if got := res.at(L); got != L {
						in := "an input with " + strconv.FormatInt(L, 10) + " leading zeros"
						if L == 64 {
							in = "input 0"
						}
						bad = append(bad, fmt.Sprintf("returns %d for %s (path %s)", got, in, strings.Join(p.trail, ",")))
						break
					}
				}
				return
			default:
				undecided = fmt.Sprintf("instruction %T", ins)
				return
			}
		}
	}
	walk(fn.Blocks[0], nil, map[ssa.Value]lzVal{}, lzPath{lo: 0, hi: 64}, 0)
	return
}

func cloneEnv(e map[ssa.Value]lzVal) map[ssa.Value]lzVal {
	o := make(map[ssa.Value]lzVal, len(e))
	for k, v := range e {
		o[k] = v
	}
	return o
}

var asmIns = regexp.MustCompile(`^\s*(?:([A-Za-z_][A-Za-z0-9_]*):)?\s*([A-Z][A-Z0-9]*)?\s*(.*?)\s*$`)

// checkLzcntAsm decides the Go-assembler (amd64) routine TEXT ·name.
func checkLzcntAsm(src, name string) (bad []string, undecided string, paths int) {
	type ins struct{ op, a1, a2 string }
	var prog []ins
	labels := map[string]int{}
	in := false
	for _, line := range strings.Split(src, "\n") {
		if i := strings.Index(line, "//"); i >= 0 {
			line = line[:i]
		}
		if strings.TrimSpace(line) == "" {
			continue
		}
		if strings.HasPrefix(strings.TrimSpace(line), "TEXT") {
			in = strings.Contains(line, "·"+name+"(SB)")
			continue
		}
		if !in {
			continue
		}
		m := asmIns.FindStringSubmatch(line)
		if m == nil {
			return nil, "unparsable line: " + strings.TrimSpace(line), 0
		}
		if m[1] != "" {
			labels[m[1]] = len(prog)
		}
		if m[2] == "" {
			continue
		}
		args := strings.Split(m[3], ",")
		i := ins{op: m[2]}
		if len(args) > 0 {
			i.a1 = strings.TrimSpace(args[0])
		}
		if len(args) > 1 {
			i.a2 = strings.TrimSpace(args[1])
		}
		prog = append(prog, i)
	}
	if len(prog) == 0 {
		return nil, "TEXT ·" + name + " not found", 0
	}
	isArg := func(s string) bool { return strings.HasSuffix(s, "+0(FP)") }
	isRet := func(s string) bool { return strings.HasSuffix(s, "+8(FP)") }
	imm := func(s string) (int64, bool) {
		if !strings.HasPrefix(s, "$") {
			return 0, false
		}
		k, err := strconv.ParseInt(strings.TrimPrefix(s, "$"), 0, 64)
		return k, err == nil
	}
	type state struct {
		regs   map[string]lzVal
		undef  map[string]bool // register undefined when L == 64 (BSR of zero)
		zfL64  bool            // ZF currently means "input == 0"
		zfSet  bool
		ret    *lzVal
		retBad bool
	}
	var run func(pc int, st state, p lzPath, depth int)
	run = func(pc int, st state, p lzPath, depth int) {
		for undecided == "" && depth < 100 && p.lo <= p.hi {
			if pc >= len(prog) {
				undecided = "control falls off the end of the routine"
				return
			}
			i := prog[pc]
			src := func(s string) (lzVal, bool) {
				if isArg(s) {
					return lzVal{kind: "x"}, true
				}
				if k, ok := imm(s); ok {
					return lzConst(k), true
				}
				v, ok := st.regs[s]
				if ok && st.undef[s] && p.hi == 64 {
					return v, false
				}
				return v, ok
			}
			switch i.op {
			case "BSRQ", "LZCNTQ":
				v, ok := src(i.a1)
				if !ok || v.kind != "x" || v.s != 0 {
					undecided = i.op + " of something else than the argument"
					return
				}
				st.regs = cloneRegs(st.regs)
				st.undef = cloneBools(st.undef)
				if i.op == "BSRQ" {
					st.regs[i.a2] = lzVal{kind: "lin", a: -1, c: 63}
					st.undef[i.a2] = true // destination undefined for a zero source
					st.zfL64, st.zfSet = true, true
				} else {
					st.regs[i.a2] = lzVal{kind: "lin", a: 1}
					delete(st.undef, i.a2)
					st.zfSet = false
				}
			case "JZ", "JEQ", "JNZ", "JNE":
				if !st.zfSet || !st.zfL64 {
					undecided = "conditional jump on flags not set by the bit scan"
					return
				}
				tgt, ok := labels[i.a1]
				if !ok {
					undecided = "unknown label " + i.a1
					return
				}
				pz, pn := p, p
				pz.lo = 64
				if pn.hi > 63 {
					pn.hi = 63
				}
				pz.trail = append(append([]string{}, p.trail...), "x==0")
				pn.trail = append(append([]string{}, p.trail...), "x!=0")
				if i.op == "JZ" || i.op == "JEQ" {
					run(tgt, st, pz, depth+1)
					run(pc+1, st, pn, depth+1)
				} else {
					run(tgt, st, pn, depth+1)
					run(pc+1, st, pz, depth+1)
				}
				return
			case "JMP":
				tgt, ok := labels[i.a1]
				if !ok {
					undecided = "unknown label " + i.a1
					return
				}
				pc = tgt
				depth++
				continue
			case "SUBQ", "ADDQ":
				k, ok := imm(i.a1)
				v, ok2 := src(i.a2)
				if !ok || !ok2 || v.kind != "lin" {
					undecided = i.op + " with operands outside the fragment (or of a register undefined for input 0)"
					return
				}
				if i.op == "SUBQ" {
					k = -k
				}
				st.regs = cloneRegs(st.regs)
				v.c += k
				st.regs[i.a2] = v
				st.zfSet = false
			case "NEGQ":
				v, ok := src(i.a1)
				if !ok || v.kind != "lin" {
					undecided = "NEGQ of a value outside the fragment (or of a register undefined for input 0)"
					return
				}
				st.regs = cloneRegs(st.regs)
				n := lzVal{kind: "lin", a: -v.a, c: -v.c, tb: map[int64]int64{}}
				for s, k := range v.tb {
					n.tb[s] = -k
				}
				st.regs[i.a1] = n
				st.zfSet = false
			case "XORQ":
				k, ok := imm(i.a1)
				v, ok2 := src(i.a2)
				// v ^ 63 == 63 - v for v in 0..63
				if !ok || !ok2 || k != 63 || v.kind != "lin" || len(v.tb) != 0 {
					undecided = "XORQ outside the fragment"
					return
				}
				for L := p.lo; L <= p.hi; L++ {
					if x := v.at(L); x < 0 || x > 63 {
						undecided = "XORQ $63 of a value outside 0..63"
						return
					}
				}
				st.regs = cloneRegs(st.regs)
				st.regs[i.a2] = lzVal{kind: "lin", a: -v.a, c: 63 - v.c}
				st.zfSet = false
			case "MOVQ":
				v, ok := src(i.a1)
				if !ok {
					undecided = "MOVQ from " + i.a1 + " (unknown, or undefined for input 0)"
					return
				}
				if isRet(i.a2) {
					vv := v
					st.ret = &vv
				} else {
					st.regs = cloneRegs(st.regs)
					st.undef = cloneBools(st.undef)
					st.regs[i.a2] = v
					delete(st.undef, i.a2)
				}
			case "RET":
				paths++
				if st.ret == nil {
					bad = append(bad, "returns without storing a result (path "+strings.Join(p.trail, ",")+")")
					return
				}
				res, ok := st.ret.lin()
				if !ok {
					undecided = "the result is not a function of L"
					return
				}
				for L := p.lo; L <= p.hi; L++ {
					if got := res.at(L); got != L {
						in := "an input with " + strconv.FormatInt(L, 10) + " leading zeros"
						if L == 64 {
							in = "input 0"
						}
						bad = append(bad, fmt.Sprintf("returns %d for %s (path %s)", got, in, strings.Join(p.trail, ",")))
						break
					}
				}
				return
			default:
				undecided = "instruction " + i.op
				return
			}
			pc++
		}
	}
	run(0, state{regs: map[string]lzVal{}, undef: map[string]bool{}}, lzPath{lo: 0, hi: 64}, 0)
	return
}

func cloneRegs(m map[string]lzVal) map[string]lzVal {
	o := map[string]lzVal{}
	for k, v := range m {
		o[k] = v
	}
	return o
}
func cloneBools(m map[string]bool) map[string]bool {
	o := map[string]bool{}
	for k, v := range m {
		o[k] = v
	}
	return o
}

func runR185(c *core.Ctx) {
	c.Rule("R18.5", "the assembly bit-count routine and its portable fallback both return the number of leading zero bits for every input, 0 included (64): decided by symbolic execution of both over the 65 possible leading-zero counts", 2)
	// the routine: the body-less (assembly) function of package metrics on amd64
	name := ""
	if c.P.Arch == "" || c.P.Arch == "amd64" {
		for _, fn := range pkgFuncs(c, "metrics") {
			if fn.Parent() == nil && len(fn.Blocks) == 0 && fn.Synthetic == "" && sigIs(fn, []string{"uint64"}, []string{"uint64"}) {
				name = fn.Name()
			}
		}
	}
	if name == "" {
		if f := findFunc(c, "metrics", "lzcnt", nil); f != nil {
			name = f.Name()
		}
	}
	if name == "" {
		c.Undecided("R18.5", "metrics#bit-count-routine", "-", "no assembly-backed func(uint64) uint64 in package metrics")
		return
	}
	// --- assembly
	files, _ := filepath.Glob(filepath.Join(c.P.Dir, "metrics", "*_amd64.s"))
	sort.Strings(files)
	asmKey := "metrics." + name + "#assembly(amd64)"
	done := false
	for _, f := range files {
		b, ok := c.P.Overlay[f]
		if !ok {
			var err error
			if b, err = os.ReadFile(f); err != nil {
				continue
			}
		}
		if !strings.Contains(string(b), "·"+name+"(SB)") {
			continue
		}
		done = true
		rel, _ := filepath.Rel(c.P.Dir, f)
		bad, und, paths := checkLzcntAsm(string(b), name)
		switch {
		case und != "":
			c.Undecided("R18.5", asmKey, rel, "cannot establish that the routine counts leading zeros: "+und)
		case len(bad) > 0:
			c.Violate("R18.5", asmKey, rel, "the assembly routine does not count leading zeros: "+strings.Join(bad, "; "))
		default:
			c.OK("R18.5", asmKey, rel, fmt.Sprintf("%d paths: result == number of leading zeros for every count 0..64", paths))
		}
	}
	if !done {
		c.Undecided("R18.5", asmKey, "-", "no metrics/*_amd64.s defines "+name)
	}
	// --- portable fallback (excluded from the amd64 build: loaded for another architecture)
	goKey := "metrics." + name + "#portable"
	sp, _, err := c.P.LoadOne("arm64", "./metrics")
	if err != nil {
		c.Undecided("R18.5", goKey, "-", "loading ./metrics for GOARCH=arm64: "+err.Error())
		return
	}
	fn := sp.Func(name)
	if fn == nil || len(fn.Blocks) == 0 {
		c.Undecided("R18.5", goKey, "-", "no Go body for "+name+" on GOARCH=arm64")
		return
	}
	pos := "metrics/" + filepath.Base(sp.Prog.Fset.Position(fn.Pos()).Filename)
	bad, und, paths := checkLzcntGo(fn)
	switch {
	case und != "":
		c.Undecided("R18.5", goKey, pos, "cannot establish that the routine counts leading zeros: "+und)
	case len(bad) > 0:
		c.Violate("R18.5", goKey, pos, "the portable routine disagrees with the assembly one (which counts leading zeros): "+strings.Join(bad, "; "))
	default:
		c.OK("R18.5", goKey, pos, fmt.Sprintf("%d paths: result == number of leading zeros for every count 0..64", paths))
	}
}

// fieldRead: v is the value of struct field (owner type, name): a Field of a struct value or a load of a FieldAddr.
func fieldRead(v ssa.Value) (owner string, name string, ok bool) {
	v = ssax.Unwrap(v)
	if u, isU := v.(*ssa.UnOp); isU && u.Op == token.MUL {
		v = u.X
	}
	switch x := v.(type) {
	case *ssa.Field:
		n, _ := ssax.FieldName(x)
		return ssax.ShortType(x.X.Type()), n, true
	case *ssa.FieldAddr:
		n, _ := ssax.FieldName(x)
		return strings.TrimPrefix(ssax.ShortType(x.X.Type()), "*"), n, true
	}
	return "", "", false
}

// runR186: the observer's ring slot and the reader's window agree.
//
// writer: buf[(counter after increment + off) & mask] = value, where the counter is a field F of the period record;
// reader: buf[low : F + hi] (taken when F < len(buf)); ring: every buffer is allocated with mask+1 slots.
// The n-th kept observation (n = 1..F) must land in the window and the window must hold nothing else:
// 1 + off == low and hi == low.
func runR186(c *core.Ctx) {
	c.Rule("R18.6", "the ring slot the observer writes for the n-th kept observation of a period is slot n-1 of the window buf[:kept] the percentile computation reads, and every ring buffer has mask+1 slots: the reported percentiles are this period's observations, none missing, none stale", 3)
	type writer struct {
		fn             *ssa.Function
		pos            token.Pos
		owner, counter string
		off, mask      int64
	}
	var ws []writer
	type reader struct {
		fn        *ssa.Function
		pos       token.Pos
		owner, hf string
		low, hi   int64
	}
	var rs []reader
	var bufField = map[string]bool{}
	fns := pkgFuncs(c, "metrics")
	for _, fn := range fns {
		ssax.Instrs(fn, func(ins ssa.Instruction) {
			switch x := ins.(type) {
			case *ssa.Store:
				ia, ok := x.Addr.(*ssa.IndexAddr)
				if !ok {
					return
				}
				owner, bf, ok := fieldRead(ia.X)
				if !ok {
					return
				}
				// index = (AddUintNN(&rec.F, 1) + off) & mask
				v := ssax.Unwrap(ia.Index)
				mask := int64(-1)
				if bo, ok := v.(*ssa.BinOp); ok && bo.Op == token.AND {
					if k, isC := ssax.ConstInt(bo.Y); isC {
						mask, v = k, ssax.Unwrap(bo.X)
					} else if k, isC := ssax.ConstInt(bo.X); isC {
						mask, v = k, ssax.Unwrap(bo.Y)
					}
				}
				off := int64(0)
				for {
					bo, ok := v.(*ssa.BinOp)
					if !ok {
						break
					}
					k, isC := ssax.ConstInt(bo.Y)
					if !isC {
						break
					}
					if bo.Op == token.SUB {
						off -= k
					} else if bo.Op == token.ADD {
						off += k
					} else {
						break
					}
					v = ssax.Unwrap(bo.X)
				}
				call, ok := v.(*ssa.Call)
				if !ok || !strings.HasPrefix(ssax.CalleeName(&call.Call), "sync/atomic.AddUint") {
					return
				}
				if d, isC := ssax.ConstInt(call.Call.Args[1]); !isC || d != 1 {
					return
				}
				o2, cf, ok := fieldRead(call.Call.Args[0])
				if !ok || o2 != owner {
					return
				}
				bufField[owner+"."+bf] = true
				ws = append(ws, writer{fn, x.Pos(), owner, cf, off, mask})
			}
		})
	}
	for _, fn := range fns {
		ssax.Instrs(fn, func(ins ssa.Instruction) {
			sl, ok := ins.(*ssa.Slice)
			if !ok || sl.High == nil {
				return
			}
			owner, bf, ok := fieldRead(sl.X)
			if !ok || !bufField[owner+"."+bf] {
				return
			}
			low := int64(0)
			if sl.Low != nil {
				k, isC := ssax.ConstInt(sl.Low)
				if !isC {
					return
				}
				low = k
			}
			v := ssax.Unwrap(sl.High)
			hi := int64(0)
			if bo, ok := v.(*ssa.BinOp); ok {
				if k, isC := ssax.ConstInt(bo.Y); isC && (bo.Op == token.ADD || bo.Op == token.SUB) {
					if bo.Op == token.ADD {
						hi = k
					} else {
						hi = -k
					}
					v = ssax.Unwrap(bo.X)
				}
			}
			o2, hf, ok := fieldRead(v)
			if !ok || o2 != owner {
				return
			}
			rs = append(rs, reader{fn, sl.Pos(), owner, hf, low, hi})
		})
	}
	if len(ws) == 0 || len(rs) == 0 {
		c.Undecided("R18.6", "metrics#ring-window", "-", fmt.Sprintf("%d ring writers and %d window readers found", len(ws), len(rs)))
		return
	}
	for _, w := range ws {
		key := core.FuncName(w.fn) + "#ring-slot"
		var bad []string
		matched := false
		for _, r := range rs {
			if r.owner != w.owner || r.hf != w.counter {
				continue
			}
			matched = true
			if 1+w.off != r.low {
				bad = append(bad, fmt.Sprintf("the first kept observation of a period is stored in slot %d but the window read at %s starts at slot %d", 1+w.off, c.P.Pos(r.pos), r.low))
			}
			if r.hi != r.low {
				bad = append(bad, fmt.Sprintf("the window read at %s holds %s%+d slots for %s observations", c.P.Pos(r.pos), r.hf, r.hi-r.low, r.hf))
			} else if w.off >= r.hi {
				bad = append(bad, fmt.Sprintf("the newest observation is stored in slot %s%+d, outside the window [%d, %s%+d) read at %s: a stale slot is reported in its place", w.counter, w.off, r.low, r.hf, r.hi, c.P.Pos(r.pos)))
			}
		}
		if !matched {
			c.Undecided("R18.6", key, c.P.Pos(w.pos), "no window reader bounded by "+w.owner+"."+w.counter)
			continue
		}
		if w.mask < 0 {
			bad = append(bad, "the slot is not reduced by a constant mask")
		}
		c.Check(len(bad) == 0, "R18.6", key, c.P.Pos(w.pos), fmt.Sprintf("slot of the n-th kept observation = (n%+d) & %#x, inside the reader's window", w.off, w.mask), strings.Join(uniq(bad), "; "))
		// ring size
		for _, fn := range fns {
			counts := map[string]int{}
			ssax.Instrs(fn, func(ins ssa.Instruction) {
				// make([]T, n): a MakeSlice, or (constant n) a slice of a fresh array
				var mk ssa.Value
				var n int64
				isC := false
				switch x := ins.(type) {
				case *ssa.MakeSlice:
					mk = x
					n, isC = ssax.ConstInt(x.Len)
				case *ssa.Slice:
					al, ok := x.X.(*ssa.Alloc)
					if !ok || x.Low != nil {
						return
					}
					arr, ok := al.Type().(*types.Pointer).Elem().Underlying().(*types.Array)
					if !ok {
						return
					}
					mk, n, isC = x, arr.Len(), true
					if x.High != nil {
						if h, hc := ssax.ConstInt(x.High); hc {
							n = h
						} else {
							isC = false
						}
					}
				default:
					return
				}
				if mk.Referrers() == nil {
					return
				}
				for _, ref := range *mk.Referrers() {
					st, ok := ref.(*ssa.Store)
					if !ok || st.Val != mk {
						continue
					}
					_, f, ok := fieldRead(st.Addr)
					if !ok || !strings.Contains(f, "buf") {
						continue
					}
					k := ordinalKey(counts, core.FuncName(fn)+"#ring-size:"+f)
					c.Check(isC && n == w.mask+1, "R18.6", k, c.P.Pos(mk.Pos()), fmt.Sprintf("%d slots == mask+1", n),
						fmt.Sprintf("the ring buffer has %d slots but slots are reduced with mask %#x (%d slots): %s", n, w.mask, w.mask+1,
							map[bool]string{true: "the observer indexes past the end", false: "slots beyond the mask are never written yet reported once the ring is full"}[n < w.mask+1]))
				}
			})
		}
	}
}

// runR187: double buffering. The extractor retires the period record and puts a fresh one into service under the
// exclusive lock. It must exchange the two ring buffers: the new primary is the old backup and the new backup is the
// old primary (the one handed to the reader). If both end up being the same slice, the reader sorts the very ring the
// observers of the next period are writing into.
func runR187(c *core.Ctx) []*ssa.Function {
	var extractors []*ssa.Function
	c.Rule("R18.7", "the extractor exchanges the ring buffers: new primary buffer = old backup, new backup = old primary (the buffer handed to the reader is never the one observers write into next)", 1)
	found := 0
	for _, fn := range pkgFuncs(c, "metrics") {
		if fn.Parent() != nil || len(fn.Params) != 1 {
			continue
		}
		// stores into slice-typed fields of the parameter's struct (directly or inside a nested record)
		type bufStore struct {
			path  string
			st    *ssa.Store
			entry string
		}
		param := ssa.Value(fn.Params[0])
		// rootedPath: a FieldAddr chain on the parameter -> field path
		rootedPath := func(a ssa.Value) ([]string, bool) {
			var path []string
			for {
				f, ok := a.(*ssa.FieldAddr)
				if !ok {
					break
				}
				n, _ := ssax.FieldName(f)
				path = append([]string{n}, path...)
				a = f.X
			}
			return path, a == param && len(path) > 0
		}
		var pstores []*ssa.Store
		ssax.Instrs(fn, func(ins ssa.Instruction) {
			if st, ok := ins.(*ssa.Store); ok {
				if _, ok := rootedPath(st.Addr); ok {
					pstores = append(pstores, st)
				}
			}
		})
		isPrefix := func(a, b []string) bool {
			if len(a) > len(b) {
				return false
			}
			for i := range a {
				if a[i] != b[i] {
					return false
				}
			}
			return true
		}
		// resolve: which location's value at function entry does v (selected by rest) hold?
		var resolve func(v ssa.Value, rest []string, depth int) string
		resolve = func(v ssa.Value, rest []string, depth int) string {
			if depth > 8 {
				return "?"
			}
			v = ssax.Unwrap(v)
			switch x := v.(type) {
			case *ssa.Field:
				n, _ := ssax.FieldName(x)
				return resolve(x.X, append([]string{n}, rest...), depth+1)
			case *ssa.UnOp:
				if x.Op != token.MUL {
					return "?"
				}
				if al, ok := x.X.(*ssa.Alloc); ok {
					// a local record (composite literal or copy)
					if len(rest) > 0 {
						if vals := fieldStoreVals(x, rest[0]); len(vals) == 1 {
							return resolve(vals[0], rest[1:], depth+1)
						}
					}
					if sts := ssax.StoresTo(al); len(sts) == 1 {
						return resolve(sts[0].Val, rest, depth+1)
					}
					return "?"
				}
				p, ok := rootedPath(x.X)
				if !ok {
					// a field of a local record: &local.f1.f2
					var lp []string
					a := x.X
					for {
						f, isF := a.(*ssa.FieldAddr)
						if !isF {
							break
						}
						n, _ := ssax.FieldName(f)
						lp = append([]string{n}, lp...)
						a = f.X
					}
					al, isAl := a.(*ssa.Alloc)
					if !isAl || len(lp) == 0 {
						return "?"
					}
					full := append(lp, rest...)
					// stored field by field (composite literal)?
					var direct []ssa.Value
					for _, r := range *al.Referrers() {
						if fa, ok := r.(*ssa.FieldAddr); ok {
							if n, _ := ssax.FieldName(fa); n == full[0] {
								for _, st := range ssax.StoresTo(fa) {
									direct = append(direct, st.Val)
								}
							}
						}
					}
					if len(direct) == 1 {
						return resolve(direct[0], full[1:], depth+1)
					}
					if sts := ssax.StoresTo(al); len(sts) == 1 && len(direct) == 0 {
						return resolve(sts[0].Val, full, depth+1)
					}
					return "?"
				}
				full := append(append([]string{}, p...), rest...)
				// an earlier store through the parameter that overlaps the loaded location?
				for _, s := range pstores {
					q, _ := rootedPath(s.Addr)
					if !(isPrefix(q, full) || isPrefix(full, q)) {
						continue
					}
					if hit, _ := (ssax.Reach{Target: func(i ssa.Instruction) bool { return i == ssa.Instruction(x) }}).From(s); hit != nil {
						if isPrefix(q, full) {
							return resolve(s.Val, full[len(q):], depth+1)
						}
						return "?"
					}
				}
				return strings.Join(full, ".")
			}
			return "?"
		}
		var stores []bufStore
		for _, st := range pstores {
			path, _ := rootedPath(st.Addr)
			switch ty := st.Val.Type().Underlying().(type) {
			case *types.Slice:
				stores = append(stores, bufStore{strings.Join(path, "."), st, resolve(st.Val, nil, 0)})
			case *types.Struct:
				for i := 0; i < ty.NumFields(); i++ {
					if _, isSl := ty.Field(i).Type().Underlying().(*types.Slice); isSl {
						stores = append(stores, bufStore{strings.Join(append(append([]string{}, path...), ty.Field(i).Name()), "."), st, resolve(st.Val, []string{ty.Field(i).Name()}, 0)})
					}
				}
			}
		}
		if len(stores) != 2 {
			continue
		}
		found++
		extractors = append(extractors, fn)
		key := core.FuncName(fn) + "#buffers-exchanged"
		a, b := stores[0], stores[1]
		ok := a.entry == b.path && b.entry == a.path && a.path != b.path
		c.Check(ok, "R18.7", key, c.P.Pos(fn.Pos()), fmt.Sprintf("%s <- old %s, %s <- old %s", a.path, a.entry, b.path, b.entry),
			fmt.Sprintf("the ring buffers are not exchanged: %s <- old %s, %s <- old %s; afterwards the buffer handed to the reader and the buffer observers write into can be the same slice (percentiles are computed from a ring that is being overwritten)", a.path, a.entry, b.path, b.entry))
	}
	if found == 0 {
		c.Undecided("R18.7", "metrics#extractor", "-", "no function exchanging two buffer fields of its parameter found")
	}
	return extractors
}

// runR188: the readers of the histograms are serialised. The extractor retires a ring buffer to its caller and re-arms
// the buffer the previous reader was given; a second reader that runs the extractor while the first is still sorting
// would put that very buffer back into service. Every chain of callers from an entry point of the package down to the
// extractor therefore holds one package-level mutex exclusively (Lock, not RLock) at the call.
func runR188(c *core.Ctx, extractors []*ssa.Function) {
	c.Rule("R18.8", "histogram readers are serialised: every call chain from an entry point of the metrics package to the buffer-exchanging extractor holds a package-level mutex exclusively at the call", 1)
	if len(extractors) == 0 {
		c.Undecided("R18.8", "metrics#extractor", "-", "no extractor found")
		return
	}
	fns := pkgFuncs(c, "metrics")
	callers := func(target *ssa.Function) map[*ssa.Function][]ssa.Instruction {
		out := map[*ssa.Function][]ssa.Instruction{}
		for _, fn := range fns {
			ssax.Instrs(fn, func(ins ssa.Instruction) {
				if cc := ssax.CallOf(ins); cc != nil && cc.StaticCallee() == target {
					out[fn] = append(out[fn], ins)
				}
			})
		}
		return out
	}
	for _, ex := range extractors {
		// walk up; a chain is protected as soon as one call on it is made under an exclusive package-level lock
		type item struct {
			fn    *ssa.Function
			chain []string
		}
		work := []item{{ex, []string{ex.Name()}}}
		seen := map[*ssa.Function]bool{ex: true}
		var bad []string
		chains := 0
		for len(work) > 0 {
			it := work[0]
			work = work[1:]
			cs := callers(it.fn)
			if len(cs) == 0 {
				// an entry point reached without protection
				chains++
				bad = append(bad, strings.Join(it.chain, " <- ")+" (no exclusive package-level lock held anywhere on the chain)")
				continue
			}
			var names []*ssa.Function
			for f := range cs {
				names = append(names, f)
			}
			sort.Slice(names, func(i, j int) bool { return names[i].Name() < names[j].Name() })
			for _, f := range names {
				held := ssax.HeldLocks(f)
				for _, call := range cs[f] {
					protected, sharedOnly := false, ""
					for k, mode := range held[call] {
						if !strings.Contains(k, ".") || strings.Contains(k, "(") {
							continue // not a package-level variable
						}
						if mode == ssax.Exclusive {
							protected = true
						} else if mode == ssax.Shared {
							sharedOnly = k
						}
					}
					chain := append(append([]string{}, it.chain...), f.Name())
					if protected {
						chains++
						continue
					}
					if sharedOnly != "" {
						chains++
						bad = append(bad, strings.Join(chain, " <- ")+" holds "+sharedOnly+" only in shared mode at "+c.P.Pos(call.Pos())+": several readers run the extractor at once")
						continue
					}
					if !seen[f] {
						seen[f] = true
						work = append(work, item{f, chain})
					}
				}
			}
		}
		key := "metrics." + ex.Name() + "#readers-serialised"
		if chains == 0 {
			c.Undecided("R18.8", key, c.P.Pos(ex.Pos()), "the extractor has no caller")
			continue
		}
		c.Check(len(bad) == 0, "R18.8", key, c.P.Pos(ex.Pos()), fmt.Sprintf("%d call chain(s), each under an exclusive package-level lock", chains), strings.Join(uniq(bad), "; "))
	}
}
