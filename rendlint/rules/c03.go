package rules

import (
	"fmt"
	"go/token"
	"go/types"
	"sort"
	"strings"

	"golang.org/x/tools/go/ssa"

	"rendlint/core"
	"rendlint/ssax"
)

func init() {
	Meta["C03"] = &PropMeta{
		Title: "Under the locking wrapper, concurrent commands on one key are atomic",
		Explain: "The lock protocol that linearizability presupposes, decided structurally: (R3.1) every mutating command and get-and-touch takes the exclusive locker, get/gete the shared one - 'shared' and 'exclusive' resolved from the lock-set constructor (which table receives RLocker() results) through the wrapper's fields to the constant passed at each call site; (R3.2) the lock is selected by hashing exactly the key of the command (per key for multi-key gets), masked by the table size, and that same key is what the wrapped orchestrator is called with; (R3.3) the wrapped call lies between Lock and Unlock of that locker on every path; (R3.4) main and batch port share one lock set: the id given to LockedWithExisting is the id returned by the Locked call that serves the main port, and both constructors index the same tables; (R3.5) multi-reader mode is never selected when chunking is on. " +
			"Decides the lock protocol, not linearizability of histories nor the final L1/L2 agreement.",
		Assume: commonAssume,
		Run:    runC03,
	}
}

var mutators = map[string]bool{"Set": true, "Add": true, "Replace": true, "Append": true, "Prepend": true, "Delete": true, "Touch": true, "Gat": true}

func runC03(c *core.Ctx) {
	c.Rule("R3.1", "lock kind: every mutating command and get-and-touch locks exclusively, get and gete lock shared; the shared table is the one holding RLocker() results", 10)
	c.Rule("R3.2", "key to lock: the selector hashes the key of the command (the loop's key for multi-key gets), the bucket is that hash masked by the table size, and the wrapped call is given the same key", 10)
	c.Rule("R3.3", "critical section: the wrapped orchestrator call is dominated by Lock and followed by Unlock of the same locker on every path", 10)
	c.Rule("R3.4", "both listening ports use one lock set: LockedWithExisting gets the id returned by the Locked call of the main port, and both constructors index the same lock tables and create the same key hasher", 3)
	c.Rule("R3.5", "multi-reader locking is not selected when chunking is enabled", 1)

	role, err := resolveOrca(c, "Locked")
	if err != nil {
		c.Undecided("R3.1", "orcas.Locked", "-", err.Error())
		return
	}
	pv := &ssax.Prov{}
	pkg := c.P.Pkg("orcas")

	// ---- which global table is shared: the one whose elements receive RLocker() results
	sharedG, exclG := "", ""
	for _, fn := range pkgFuncs(c, "orcas") {
		ssax.Instrs(fn, func(ins ssa.Instruction) {
			st, ok := ins.(*ssa.Store)
			if !ok {
				return
			}
			g, _ := rootedAt(st.Addr)
			if g == nil || !strings.Contains(types.TypeString(g.Type(), nil), "sync.Locker") {
				return
			}
			isR := false
			for _, s := range pv.Sources(st.Val) {
				if s.Kind == "call" && ssax.CalleeName(s.Call) == "(*sync.RWMutex).RLocker" {
					isR = true
				}
			}
			if isR {
				sharedG = g.Name()
			} else if _, isElem := st.Addr.(*ssa.IndexAddr); isElem {
				// element store of a mutex into a table
				if _, isMk := st.Val.(*ssa.MakeSlice); !isMk {
					if exclG == "" || g.Name() != sharedG {
						exclG = g.Name()
					}
				}
			}
		})
	}
	if sharedG == "" || exclG == "" || sharedG == exclG {
		// the non-multi-reader branch stores the same mutex in both tables; identify the exclusive table as the other Locker table
		for name, m := range pkg.Members {
			if g, ok := m.(*ssa.Global); ok && strings.Contains(types.TypeString(g.Type(), nil), "[][]sync.Locker") && name != sharedG {
				exclG = name
			}
		}
	}
	if sharedG == "" || exclG == "" {
		c.Undecided("R3.1", "orcas#lock-tables", "-", "cannot tell the shared from the exclusive lock table")
		return
	}
	c.Rule("R3.6", "per bucket the shared and the exclusive table hold two views of one mutex: the value stored in the shared table is the object stored in the exclusive table at the same index, or its RLocker()", 1)
	checkLockPairs(c, "R3.6", sharedG, exclG)
	c.Rule("R3.7", "the lock constructors wrap on every path: no return of Locked / LockedWithExisting hands the given orchestrator constructor back unwrapped", 2)
	checkConstructorsAlwaysWrap(c, "R3.7", role.Impl.Named)
	c.Share(map[string]string{"R14.3": "R3.9"}, runC14) // a reply header used after its release is overwritten by another connection's reply: the command's outcome is no longer that of any serial order
	c.Share(map[string]string{"R6.2": "R3.8"}, runC06) // L1 and L2 agree at the end only if each tier executes the command it was sent (a batched L1 that appends where L2 prepends differs for good)
	// wrapper fields -> table
	fieldTable := map[string]string{}
	var ctorAllocs []*ssa.Alloc
	for _, cn := range []string{"Locked", "LockedWithExisting"} {
		cf := c.P.Func("orcas", cn)
		if cf == nil {
			c.Undecided("R3.4", "orcas."+cn, "-", "constructor not found")
			continue
		}
		for _, f := range append([]*ssa.Function{cf}, cf.AnonFuncs...) {
			ssax.Instrs(f, func(ins ssa.Instruction) {
				al, ok := ins.(*ssa.Alloc)
				if !ok || !types.Identical(al.Type(), role.Impl.Recv()) {
					return
				}
				ctorAllocs = append(ctorAllocs, al)
				st := role.Impl.Named.Underlying().(*types.Struct)
				for i := 0; i < st.NumFields(); i++ {
					for _, s := range pv.Sources(al, st.Field(i).Name()) {
						if s.Kind == "global" && (s.V.Name() == sharedG || s.V.Name() == exclG) {
							k := cn + "." + st.Field(i).Name()
							fieldTable[k] = s.V.Name()
						}
					}
				}
			})
		}
	}
	// R3.4 (b): both constructors map each field to the same table
	same := true
	var fields []string
	for k, v := range fieldTable {
		if strings.HasPrefix(k, "Locked.") {
			f := strings.TrimPrefix(k, "Locked.")
			fields = append(fields, f)
			if fieldTable["LockedWithExisting."+f] != v {
				same = false
			}
		}
	}
	c.Check(same && len(fields) == 2, "R3.4", "orcas.Locked/LockedWithExisting#same-tables", c.P.Pos(role.Ctor.Pos()), fmt.Sprintf("both constructors take fields %v from the same lock tables", fields),
		"Locked and LockedWithExisting do not index the same lock tables: the two ports lock different mutexes for one key")
	tableOfField := func(f string) string { return fieldTable["Locked."+f] }
	// R3.4 (c): both constructors equip the wrapper with the same hash function (a key must select the same stripe on
	// both ports)
	hashers := map[string][]string{}
	for _, cn := range []string{"Locked", "LockedWithExisting"} {
		cf := c.P.Func("orcas", cn)
		if cf == nil {
			continue
		}
		seen := map[*ssa.Function]bool{}
		var visit func(f *ssa.Function)
		visit = func(f *ssa.Function) {
			if seen[f] {
				return
			}
			seen[f] = true
			ssax.Instrs(f, func(ins ssa.Instruction) {
				if cc := ssax.CallOf(ins); cc != nil {
					if n := ssax.CalleeName(cc); strings.HasPrefix(n, "hash/") || strings.HasPrefix(n, "crypto/") {
						hashers[cn] = append(hashers[cn], n)
					}
				}
			})
			for _, a := range f.AnonFuncs {
				visit(a)
			}
		}
		visit(cf)
		sort.Strings(hashers[cn])
	}
	hl, hw := strings.Join(uniq(hashers["Locked"]), ","), strings.Join(uniq(hashers["LockedWithExisting"]), ",")
	c.Check(hl == hw, "R3.4", "orcas.Locked/LockedWithExisting#same-hash", c.P.Pos(role.Ctor.Pos()), "both constructors create the key hasher with ["+hl+"]",
		"Locked creates the key hasher with ["+hl+"], LockedWithExisting with ["+hw+"]: a key selects different lock stripes on the two ports, whose commands then do not exclude each other")

	// ---- the selector
	var selector *ssa.Function
	for _, fn := range pkgFuncs(c, "orcas") {
		sig := fn.Signature
		if sig.Recv() != nil && namedOf(sig.Recv().Type()) == role.Impl.Named && sig.Results().Len() == 1 && types.TypeString(sig.Results().At(0).Type(), nil) == lockerT && sig.Params().Len() == 2 {
			selector = fn
		}
	}
	if selector == nil {
		c.Undecided("R3.1", "orcas.LockedOrca#selector", "-", "no method returning sync.Locker from (key, bool) found")
		return
	}
	readP := selector.Params[2]
	keyP := selector.Params[1]
	selOK := true
	var selWhy []string
	var bucketVals []ssa.Value
	type retDef struct {
		d ssa.Value
		b *ssa.BasicBlock
	}
	var retDefs []retDef
	for _, r := range ssax.Returns(selector) {
		if selector.Recover != nil && r.Block() == selector.Recover {
			continue
		}
		if u, ok := r.Results[0].(*ssa.UnOp); ok {
			if al, ok := u.X.(*ssa.Alloc); ok {
				// result cell of a function with defers: the path conditions hold where the cell is stored
				for _, st := range ssax.StoresTo(al) {
					retDefs = append(retDefs, retDef{st.Val, st.Block()})
				}
				continue
			}
		}
		retDefs = append(retDefs, retDef{r.Results[0], r.Block()})
	}
	for _, rd := range retDefs {
		r := struct{ blk *ssa.BasicBlock }{rd.b}
		for _, d := range ssax.Defs(rd.d) {
			u, ok := d.(*ssa.UnOp)
			if !ok {
				selOK = false
				selWhy = append(selWhy, "returns something other than a table element")
				continue
			}
			ia, ok := u.X.(*ssa.IndexAddr)
			if !ok {
				selOK = false
				continue
			}
			bucketVals = append(bucketVals, ia.Index)
			fld := ""
			for _, s := range pv.Sources(ia.X) {
				if s.Kind == "param" && len(s.Path) == 1 {
					fld = s.Path[0]
				}
			}
			underRead := false
			for _, ec := range ssax.DomConds(r.blk) {
				if ssax.Unwrap(ec.Cond) == ssa.Value(readP) && ec.True {
					underRead = true
				}
				if ds := ssax.Defs(ec.Cond); len(ds) == 1 && ds[0] == ssa.Value(readP) && ec.True {
					underRead = true
				}
			}
			want := exclG
			if underRead {
				want = sharedG
			}
			if tableOfField(fld) != want {
				selOK = false
				selWhy = append(selWhy, fmt.Sprintf("returns an element of field %s (table %s) where the %s table is required", fld, tableOfField(fld), want))
			}
		}
	}
	c.Check(selOK, "R3.1", "orcas.(*LockedOrca)."+selector.Name()+"#kind-by-flag", c.P.Pos(selector.Pos()), "returns the shared table's locker only when its flag is true, the exclusive one otherwise", strings.Join(selWhy, "; "))
	// bucket = hash(key) & (len-1)
	hashOK := false
	nWrites := 0
	var writeIns ssa.Instruction
	var hasher ssa.Value
	ssax.Instrs(selector, func(ins ssa.Instruction) {
		cc := ssax.CallOf(ins)
		if cc != nil && cc.IsInvoke() && cc.Method.Name() == "Write" {
			nWrites++
			if len(cc.Args) == 1 && ssax.Unwrap(cc.Args[0]) == ssa.Value(keyP) {
				hashOK = true
				writeIns, hasher = ins, cc.Value
			}
		}
	})
	if nWrites != 1 {
		hashOK = false
	}
	// the hasher is pooled: it must be reset after it was taken from the pool and before the key is written,
	// otherwise the bucket depends on the keys hashed before
	if hashOK {
		fresh := false
		for _, d := range ssax.Defs(hasher) {
			if ta, ok := d.(*ssa.TypeAssert); ok {
				d = ta.X
			}
			if call, ok := d.(*ssa.Call); ok && ssax.CalleeName(&call.Call) != "(*sync.Pool).Get" {
				fresh = true // created for this call
			}
		}
		reset := false
		ssax.Instrs(selector, func(ins ssa.Instruction) {
			cc := ssax.CallOf(ins)
			if cc != nil && cc.IsInvoke() && cc.Method.Name() == "Reset" && cc.Value == hasher {
				if _, isDefer := ins.(*ssa.Defer); !isDefer && ins.Block().Dominates(writeIns.Block()) && (ins.Block() != writeIns.Block() || ssax.IndexIn(ins) < ssax.IndexIn(writeIns)) {
					reset = true
				}
			}
		})
		if !fresh && !reset {
			hashOK = false
		}
	}
	maskOK := len(bucketVals) > 0
	for _, b := range bucketVals {
		ok := false
		for _, d := range ssax.Defs(b) {
			if bo, isBo := d.(*ssa.BinOp); isBo && bo.Op == token.AND {
				// one side: len(table)-1 ; other: derived from Sum32
				var m, h ssa.Value = bo.Y, bo.X
				if sub, isSub := ssax.Unwrap(m).(*ssa.BinOp); isSub && sub.Op == token.SUB {
					if k, isC := ssax.ConstInt(sub.Y); isC && k == 1 {
						if call, isCall := ssax.Unwrap(sub.X).(*ssa.Call); isCall {
							if bi, isB := call.Call.Value.(*ssa.Builtin); isB && bi.Name() == "len" {
								for _, hd := range ssax.Defs(h) {
									if hc, isHC := ssax.Unwrap(hd).(*ssa.Call); isHC && hc.Call.IsInvoke() && strings.HasPrefix(hc.Call.Method.Name(), "Sum") {
										ok = true
									}
								}
							}
						}
					}
				}
			}
		}
		if !ok {
			maskOK = false
		}
	}
	c.Check(hashOK && maskOK, "R3.2", "orcas.(*LockedOrca)."+selector.Name()+"#bucket", c.P.Pos(selector.Pos()), "bucket = hash(key) & (len(table)-1) of exactly the key passed in",
		fmt.Sprintf("the lock bucket is not hash(key) & (len-1) of the selector's key (hashes exactly the key with a reset hasher: %v, masked hash of it: %v): two commands on one key may take different locks", hashOK, maskOK))

	// ---- call sites
	for _, m := range orcaMethods(c) {
		fn := c.P.Method(role.Impl, m)
		if fn == nil || len(fn.Blocks) == 0 {
			continue
		}
		var selCall *ssa.Call
		ssax.Instrs(fn, func(ins ssa.Instruction) {
			if call, ok := ins.(*ssa.Call); ok && call.Call.StaticCallee() == selector {
				selCall = call
			}
		})
		if selCall == nil {
			if mutators[m] || m == "Get" || m == "GetE" {
				c.Violate("R3.1", "(*orcas.LockedOrca)."+m+"#lock-kind", c.P.Pos(fn.Pos()), "the command takes no key lock at all")
			}
			continue
		}
		pos := c.P.Pos(selCall.Pos())
		flag, isConst := ssax.ConstInt(selCall.Call.Args[2])
		wantRead := m == "Get" || m == "GetE"
		c.Check(isConst && (flag == 1) == wantRead, "R3.1", "(*orcas.LockedOrca)."+m+"#lock-kind", pos,
			map[bool]string{true: "shared lock for a read", false: "exclusive lock for a mutating command"}[wantRead],
			map[bool]string{true: "a read takes the exclusive lock or a non-constant kind", false: "a mutating command takes the shared (read) lock: two writers, or a writer and readers, run on one key at once"}[wantRead])
		// key provenance and forwarding
		ks := pv.Sources(selCall.Call.Args[1])
		keyGood := ssax.All(ks, func(s ssax.Src) bool {
			return s.Kind == "param" && paramIndex(s.V.(*ssa.Parameter)) == 1 && (s.PathIs("Key") || s.PathIs("Keys", "[]"))
		})
		// the wrapped call
		var wcall ssa.Instruction
		var wcc *ssa.CallCommon
		for _, tc := range tierCalls(fn, role) {
			if tc.Tier == "wrapped" {
				wcall, wcc = tc.Ins, tc.Call
			}
		}
		fwdGood := false
		if wcc != nil && len(wcc.Args) > 0 {
			if wantRead {
				fk := pv.Sources(wcc.Args[0], "Keys", "[]")
				fwdGood = strings.Join(ssax.Strings(fk), ",") == strings.Join(ssax.Strings(ks), ",")
				// exactly one key per sub-request
			} else {
				ds := ssax.Defs(wcc.Args[0])
				fwdGood = len(ds) == 1 && ds[0] == ssa.Value(fn.Params[1])
			}
		}
		c.Check(keyGood && fwdGood, "R3.2", "(*orcas.LockedOrca)."+m+"#key", pos, "lock chosen by "+strings.Join(ssax.Strings(ks), ",")+", the key the wrapped command works on",
			fmt.Sprintf("the lock is chosen by %s but the wrapped command works on a different key (lock key from the request: %v, same key forwarded: %v)", strings.Join(ssax.Strings(ks), ","), keyGood, fwdGood))
		// R3.3
		if wcall == nil {
			c.Violate("R3.3", "(*orcas.LockedOrca)."+m+"#critical-section", pos, "the wrapped orchestrator is never called")
			continue
		}
		var lockIns ssa.Instruction
		for _, s := range lockSites(fn) {
			lockIns = s.ins
		}
		dom := lockIns != nil && lockIns.Block().Dominates(wcall.Block()) && (lockIns.Block() != wcall.Block() || ssax.IndexIn(lockIns) < ssax.IndexIn(wcall))
		// unlock after: deferred unlock, or every path from the wrapped call reaches Unlock before Lock/Return
		after := false
		ssax.Instrs(fn, func(ins ssa.Instruction) {
			if d, ok := ins.(*ssa.Defer); ok && isLockerCall(&d.Call, "Unlock") && d.Block().Dominates(wcall.Block()) {
				after = true
			}
		})
		if !after {
			hit, _ := (ssax.Reach{
				Target: func(ins ssa.Instruction) bool {
					if _, ok := ins.(*ssa.Return); ok {
						return true
					}
					cc := ssax.CallOf(ins)
					return isLockerCall(cc, "Lock")
				},
				Avoid: func(ins ssa.Instruction) bool { return isLockerCall(ssax.CallOf(ins), "Unlock") },
			}).From(wcall)
			after = hit == nil
		}
		c.Check(dom && after, "R3.3", "(*orcas.LockedOrca)."+m+"#critical-section", c.P.Pos(wcall.Pos()), "the wrapped call runs with the key's lock held", "the wrapped orchestrator call is not enclosed by Lock/Unlock of the key's locker")
	}

	runR34(c)
}

func runR34(c *core.Ctx) {
	app, err := c.P.LoadApp("memproxy.go")
	if err != nil {
		c.Undecided("R3.4", "app/memproxy.go", "-", err.Error())
		return
	}
	mainFn := app.SSA.Func("main")
	if mainFn == nil {
		c.Undecided("R3.4", "app/memproxy.go#main", "-", "no main")
		return
	}
	pv := &ssax.Prov{}
	var lockedCalls []*ssa.Call
	var lwe *ssa.Call
	var serves []*ssa.CallCommon
	ssax.Instrs(mainFn, func(ins ssa.Instruction) {
		cc := ssax.CallOf(ins)
		switch ssax.CalleeName(cc) {
		case core.Mod + "/orcas.Locked":
			lockedCalls = append(lockedCalls, ins.(*ssa.Call))
		case core.Mod + "/orcas.LockedWithExisting":
			lwe = ins.(*ssa.Call)
		case core.Mod + "/server.ListenAndServe":
			serves = append(serves, cc)
		}
	})
	key := "app/memproxy.go:main#shared-lock-set"
	if lwe == nil || len(lockedCalls) == 0 || len(serves) < 2 {
		c.Violate("R3.4", key, c.P.Pos(mainFn.Pos()), fmt.Sprintf("wiring not found: Locked calls=%d, LockedWithExisting=%v, ListenAndServe calls=%d (the batch port must be wrapped with LockedWithExisting)", len(lockedCalls), lwe != nil, len(serves)))
	} else {
		isLocked := func(cc *ssa.CallCommon) bool {
			for _, lc := range lockedCalls {
				if &lc.Call == cc {
					return true
				}
			}
			return false
		}
		idSrcs := pv.Sources(lwe.Call.Args[1])
		fromLocked := ssax.Any(idSrcs, func(s ssax.Src) bool { return s.Kind == "call" && isLocked(s.Call) && s.Res == 1 }) &&
			ssax.All(idSrcs, func(s ssax.Src) bool {
				return (s.Kind == "call" && isLocked(s.Call) && s.Res == 1) || s.Kind == "const" || s.Kind == "zero"
			})
		// the main port's orchestrator comes from the same Locked calls
		mainSrcs := pv.Sources(serves[0].Args[3])
		mainLocked := ssax.Any(mainSrcs, func(s ssax.Src) bool { return s.Kind == "call" && isLocked(s.Call) && s.Res == 0 })
		// the batch port's orchestrator is the LockedWithExisting result
		batchSrcs := pv.Sources(serves[1].Args[3])
		batchLWE := ssax.Any(batchSrcs, func(s ssax.Src) bool { return s.Kind == "call" && s.Call == &lwe.Call })
		// every Locked call feeding the main port also feeds the id (no second, private Locked call for the batch port)
		c.Check(fromLocked && mainLocked && batchLWE, "R3.4", key, c.P.Pos(lwe.Pos()), "the batch port reuses the lock set created for the main port",
			fmt.Sprintf("the batch port does not share the main port's lock set (id from the main port's Locked call: %v, main port locked: %v, batch port uses LockedWithExisting: %v): the two ports do not exclude each other on a key", fromLocked, mainLocked, batchLWE))
	}
	// ---- R3.5
	// the global bound to the --chunked flag
	var chunkedG *ssa.Global
	for _, m := range app.SSA.Members {
		fn, ok := m.(*ssa.Function)
		if !ok {
			continue
		}
		ssax.Instrs(fn, func(ins ssa.Instruction) {
			cc := ssax.CallOf(ins)
			if cc != nil && ssax.CalleeName(cc) == "flag.BoolVar" {
				if name, ok := ssax.ConstString(cc.Args[1]); ok && name == "chunked" {
					if g, ok := cc.Args[0].(*ssa.Global); ok {
						chunkedG = g
					}
				}
			}
		})
	}
	k5 := "app/memproxy.go:main#no-multi-reader-with-chunking"
	if chunkedG == nil {
		c.Undecided("R3.5", k5, c.P.Pos(mainFn.Pos()), "no --chunked flag variable found")
		return
	}
	n, bad := 0, 0
	for _, lc := range lockedCalls {
		mr, isConst := ssax.ConstInt(lc.Call.Args[1])
		if !isConst {
			bad++
			continue
		}
		if mr == 0 {
			continue
		}
		n++
		guarded := false
		for _, ec := range ssax.DomConds(lc.Block()) {
			if ssax.GlobalLoad(ec.Cond) == chunkedG && !ec.True {
				guarded = true
			}
		}
		if !guarded {
			bad++
		}
	}
	c.Check(bad == 0, "R3.5", k5, c.P.Pos(mainFn.Pos()), fmt.Sprintf("%d multi-reader Locked call(s), each only reachable with chunking off", n),
		"multi-reader locking can be selected while chunking is enabled: concurrent readers interleave their pipelined chunk reads on one backend connection")
}
