package rules

import (
	"fmt"
	"go/token"
	"go/types"
	"strings"

	"golang.org/x/tools/go/ssa"

	"rendlint/core"
	"rendlint/ssax"
)

// checkOwedMultiset (R6.10 / R13.10): the table of replies still owed by a multi-key get is a multiset - the same
// (key, opaque, quiet) triple may be requested more than once (text "get a a") and is populated by counting. An entry
// may therefore be deleted only when its count is one; otherwise it is decremented. Deleting it at the first reply makes
// a retry after a connection failure ask for fewer keys than are still owed: the caller gets fewer replies than keys
// and no error.
func checkOwedMultiset(c *core.Ctx, rule string) {
	// counting map types: some function stores lookup(m,k)+1 into m[k]
	counting := map[string]bool{}
	fns := pkgFuncs(c, relBatched)
	isIncrementOf := func(v ssa.Value, m ssa.Value) bool {
		bo, ok := ssax.Unwrap(v).(*ssa.BinOp)
		if !ok || bo.Op != token.ADD {
			return false
		}
		for _, pair := range [][2]ssa.Value{{bo.X, bo.Y}, {bo.Y, bo.X}} {
			if k, isC := ssax.ConstInt(pair[1]); isC && k == 1 {
				for _, d := range ssax.Defs(pair[0]) {
					if lk, isLk := ssax.Unwrap(d).(*ssa.Lookup); isLk && types.Identical(lk.X.Type(), m.Type()) {
						return true
					}
					if ex, isEx := ssax.Unwrap(d).(*ssa.Extract); isEx {
						if lk, isLk := ex.Tuple.(*ssa.Lookup); isLk && types.Identical(lk.X.Type(), m.Type()) {
							return true
						}
					}
				}
			}
		}
		return false
	}
	for _, fn := range fns {
		ssax.Instrs(fn, func(ins ssa.Instruction) {
			if mu, ok := ins.(*ssa.MapUpdate); ok && isIncrementOf(mu.Value, mu.Map) {
				counting[types.TypeString(mu.Map.Type(), nil)] = true
			}
		})
	}
	if len(counting) == 0 {
		c.Undecided(rule, "batched#owed-multiset", "-", "no table populated by counting found in the batching handler")
		return
	}
	n := 0
	for _, fn := range fns {
		counts := map[string]int{}
		ssax.Instrs(fn, func(ins ssa.Instruction) {
			cc := ssax.CallOf(ins)
			if cc == nil {
				return
			}
			b, isB := cc.Value.(*ssa.Builtin)
			if !isB || b.Name() != "delete" || !counting[types.TypeString(cc.Args[0].Type(), nil)] {
				return
			}
			n++
			key := ordinalKey(counts, core.FuncName(fn)+"#owed-entry-deleted-at-count-one")
			guarded := false
			for _, ec := range ssax.DomConds(ins.Block()) {
				bo, ok := ec.Cond.(*ssa.BinOp)
				if !ok {
					continue
				}
				isCount := func(v ssa.Value) bool {
					for _, d := range ssax.Defs(v) {
						d = ssax.Unwrap(d)
						if ex, isEx := d.(*ssa.Extract); isEx {
							d = ex.Tuple
						}
						if lk, isLk := d.(*ssa.Lookup); isLk && types.Identical(lk.X.Type(), cc.Args[0].Type()) && sameKeyValue(lk.Index, cc.Args[1]) {
							return true
						}
					}
					return false
				}
				konst := func(v ssa.Value, k int64) bool { n, ok := ssax.ConstInt(v); return ok && n == k }
				switch {
				case bo.Op == token.EQL && ec.True && ((isCount(bo.X) && konst(bo.Y, 1)) || (isCount(bo.Y) && konst(bo.X, 1))),
					bo.Op == token.NEQ && !ec.True && ((isCount(bo.X) && konst(bo.Y, 1)) || (isCount(bo.Y) && konst(bo.X, 1))),
					bo.Op == token.LEQ && ec.True && isCount(bo.X) && konst(bo.Y, 1),
					bo.Op == token.LSS && ec.True && isCount(bo.X) && konst(bo.Y, 2),
					bo.Op == token.GTR && !ec.True && isCount(bo.X) && konst(bo.Y, 1),
					bo.Op == token.GEQ && !ec.True && isCount(bo.X) && konst(bo.Y, 2):
					guarded = true
				}
			}
			c.Check(guarded, rule, key, c.P.Pos(ins.Pos()), "the entry is deleted only when its count is one",
				"an entry of the table of replies still owed is deleted whatever its count, although the table is populated by counting (the same key may be requested more than once in one get): after a connection failure the retry asks for fewer keys than are owed and the get ends short without an error")
		})
	}
	if n == 0 {
		c.Undecided(rule, "batched#owed-multiset", "-", "entries of the counting table are never deleted")
	}
}

// sameKeyValue: the two map keys are the same SSA value, or loads of the same local cell with no store in between
// being possible (the cell is stored once).
func sameKeyValue(a, b ssa.Value) bool {
	a, b = ssax.Unwrap(a), ssax.Unwrap(b)
	if a == b {
		return true
	}
	la, ok1 := a.(*ssa.UnOp)
	lb, ok2 := b.(*ssa.UnOp)
	if ok1 && ok2 && la.Op == token.MUL && lb.Op == token.MUL && la.X == lb.X {
		if al, isAl := la.X.(*ssa.Alloc); isAl {
			// whole-value stores to the cell: at most one per execution of the defining block
			n := 0
			for _, r := range *al.Referrers() {
				if st, isSt := r.(*ssa.Store); isSt && st.Addr == ssa.Value(al) {
					n++
				}
			}
			return n <= 1
		}
	}
	return false
}

// checkOutcomeReturned (R6.11): a handler method of the batching backend hands the pool's outcome to its caller: the
// error it returns is the error result of the pool's request function it called (and, for get-and-touch, the response
// is that call's response). A method that drops the error tells the orchestrator "stored / touched / deleted" for a
// command the backend refused - the outcome differs from the same command over a direct connection.
func checkOutcomeReturned(c *core.Ctx, rule string) {
	impl, ok := handlerImpl(c, relBatched)
	if !ok {
		c.Undecided(rule, "batched.Handler", "-", "handler not found")
		return
	}
	pv := &ssax.Prov{}
	n := 0
	for _, m := range []string{"Set", "Add", "Replace", "Append", "Prepend", "Delete", "Touch", "GAT"} {
		fn := c.P.Method(impl, m)
		if fn == nil || len(fn.Blocks) == 0 {
			continue
		}
		// the pool call: a same-package callee whose last result is an error
		var pool *ssa.Call
		ssax.Instrs(fn, func(ins ssa.Instruction) {
			if call, ok := ins.(*ssa.Call); ok {
				if cal := call.Call.StaticCallee(); cal != nil && cal.Pkg == fn.Pkg && errResult(call) != nil {
					pool = call
				}
			}
		})
		key := "(batched.Handler)." + m + "#outcome-returned"
		if pool == nil {
			c.Undecided(rule, key, c.P.Pos(fn.Pos()), "the method calls no request function of the pool")
			continue
		}
		n++
		e := errResult(pool)
		var bad []string
		for _, r := range ssax.Returns(fn) {
			last := r.Results[len(r.Results)-1]
			for _, d := range ssax.Defs(last) {
				if d != e {
					bad = append(bad, "the error returned at "+c.P.Pos(r.Pos())+" is "+d.String()+", not the pool's outcome")
				}
			}
			if len(r.Results) == 2 {
				fromPool := false
				seen := map[ssa.Value]bool{}
				var walk func(v ssa.Value, d int)
				walk = func(v ssa.Value, d int) {
					if v == nil || seen[v] || d > 10 {
						return
					}
					seen[v] = true
					if v == ssa.Value(pool) {
						fromPool = true
						return
					}
					if ins, ok := v.(ssa.Instruction); ok {
						for _, op := range ins.Operands(nil) {
							if op != nil && *op != nil {
								walk(*op, d+1)
							}
						}
					}
				}
				walk(r.Results[0], 0)
				_ = pv
				if !fromPool {
					bad = append(bad, "the response returned at "+c.P.Pos(r.Pos())+" does not come from the pool's answer")
				}
			}
		}
		c.Check(len(bad) == 0, rule, key, c.P.Pos(pool.Pos()), "returns the outcome of "+pool.Call.StaticCallee().Name(), strings.Join(uniq(bad), "; ")+": a refused command is reported to the orchestrator as done")
	}
	if n == 0 {
		c.Undecided(rule, "batched.Handler#outcome-returned", "-", "no single-reply method found")
	}
}

// orChainConsts: block b is entered only through the true edges of a chain `x == c1 || x == c2 || ...` over one subject;
// returns the constants (nil if b has another way in).
func orChainConsts(b *ssa.BasicBlock, isSubject func(ssa.Value) bool) []int64 {
	var out []int64
	if len(b.Preds) == 0 {
		return nil
	}
	for _, p := range b.Preds {
		ifi, ok := p.Instrs[len(p.Instrs)-1].(*ssa.If)
		if !ok || p.Succs[0] != b {
			return nil
		}
		bo, ok := ifi.Cond.(*ssa.BinOp)
		if !ok || bo.Op != token.EQL {
			return nil
		}
		var k int64
		var isK bool
		switch {
		case isSubject(bo.X):
			k, isK = ssax.ConstInt(bo.Y)
		case isSubject(bo.Y):
			k, isK = ssax.ConstInt(bo.X)
		}
		if !isK {
			return nil
		}
		out = append(out, k)
	}
	return out
}

// checkReaderDecodesHits (R6.13): the pool reader decodes a hit as the backend frames it. The response it hands to the
// caller takes Flags from the first extras word read after the header and Exptime from the second, and that second
// word is read exactly for the opcodes whose replies carry it (gete, geteq: 8 bytes of extras; get, getq, gat: 4). An
// expiry read for another opcode eats the first four bytes of the value; flags and expiry exchanged give the caller an
// item with the wrong flags and the get back-fill a wrong lifetime.
func checkReaderDecodesHits(c *core.Ctx, rule string) {
	rd := findFunc(c, relBatched, "(*conn).reader", rolePoolReader)
	if rd == nil {
		c.Undecided(rule, "batched.(*conn).reader#hit-decoding", "-", "reader not found")
		return
	}
	n := 0
	// the response records built in the reader, wherever they live (a literal of their own, or the gr field of the
	// pool's response built in place): field stores grouped by the record's address
	recs := map[ssa.Value]map[string]ssa.Value{}
	var order []ssa.Value
	ssax.Instrs(rd, func(ins ssa.Instruction) {
		st, ok := ins.(*ssa.Store)
		if !ok {
			return
		}
		fa, ok := st.Addr.(*ssa.FieldAddr)
		if !ok || !strings.HasSuffix(ssax.ShortType(fa.X.Type()), "common.GetEResponse") {
			return
		}
		if recs[fa.X] == nil {
			recs[fa.X] = map[string]ssa.Value{}
			order = append(order, fa.X)
		}
		f, _ := ssax.FieldName(fa)
		recs[fa.X][f] = st.Val
	})
	for _, base := range order {
		fields := recs[base]
		literalField := func(_ ssa.Value, f string) ssa.Value { return fields[f] }
		al := base
		dv := fields["Data"]
		if dv == nil || ssax.IsNilConst(dv) {
			continue
		}
		n++
		key := "batched.(*conn).reader#hit-decoding"
		var bad []string
		word := func(field string) *ssa.Call {
			v := literalField(al, field)
			if v == nil {
				return nil
			}
			var found *ssa.Call
			for _, d := range ssax.Defs(v) {
				if call, ok := ssax.Unwrap(d).(*ssa.Call); ok && strings.Contains(ssax.CalleeName(&call.Call), "ndian).Uint32") {
					found = call
				}
			}
			return found
		}
		fl, ex := word("Flags"), word("Exptime")
		switch {
		case fl == nil:
			bad = append(bad, "Flags is not a 32-bit word decoded from the reply")
		case ex == nil:
			bad = append(bad, "Exptime is not a 32-bit word decoded from the reply")
		case fl == ex:
			bad = append(bad, "Flags and Exptime are the same word")
		default:
			if !fl.Block().Dominates(ex.Block()) || (fl.Block() == ex.Block() && ssax.IndexIn(fl) > ssax.IndexIn(ex)) {
				bad = append(bad, "the word returned as Flags is not the first extras word (the word returned as Exptime is decoded before it)")
			}
			isOpcode := func(v ssa.Value) bool { return isFieldLoad(v, "Opcode") }
			// the guard of the second read: the nearest or-chain on the opcode dominating the expiry word
			var got []int64
			for b := ex.Block(); b != nil && got == nil; b = b.Idom() {
				got = orChainConsts(b, isOpcode)
			}
			want := map[int64]bool{}
			for _, nm := range []string{"OpcodeGetE", "OpcodeGetEQ"} {
				if k, ok := namedConst(c, "protocol/binprot", nm); ok {
					want[k] = true
				}
			}
			same := len(got) == len(want)
			for _, k := range got {
				if !want[k] {
					same = false
				}
			}
			if !same {
				bad = append(bad, fmt.Sprintf("the second extras word is read for opcodes %v; only gete/geteq replies (0x40, 0x41) carry it", got))
			}
		}
		c.Check(len(bad) == 0, rule, key, c.P.Pos(al.Pos()), "Flags from the first extras word, Exptime from the second, read for gete/geteq only",
			strings.Join(bad, "; ")+": the caller gets other flags / another lifetime than a direct connection returns, or the value is read four bytes late")
	}
	if n == 0 {
		c.Undecided(rule, "batched.(*conn).reader#hit-decoding", c.P.Pos(rd.Pos()), "the reader builds no hit response")
	}
}

// checkReaderSkipsWholeBodies (R6.15): a reply the pool reader does not decode (error statuses, replies of non-get
// commands) is skipped whole: the number of bytes discarded from the stream is the TotalBodyLength of the header just
// read. Replies of touch carry extras, error replies carry a message; skipping anything else (the key length, a
// constant) leaves body bytes in front of the next reply header: the batch is abandoned ("bad magic"), its callers
// retry commands that were in fact executed - an append applied twice - and their own results are lost.
func checkReaderSkipsWholeBodies(c *core.Ctx, rule string) {
	rd := findFunc(c, relBatched, "(*conn).reader", rolePoolReader)
	if rd == nil {
		c.Undecided(rule, "batched.(*conn).reader#skipped-bodies", "-", "reader not found")
		return
	}
	pv := &ssax.Prov{}
	counts := map[string]int{}
	n := 0
	ssax.Instrs(rd, func(ins ssa.Instruction) {
		cc := ssax.CallOf(ins)
		if cc == nil || len(cc.Args) < 2 {
			return
		}
		name := ssax.CalleeName(cc)
		if name != "(*bufio.Reader).Discard" && name != "(*bufio.ReadWriter).Discard" && !strings.HasSuffix(name, ").Discard") {
			return
		}
		n++
		key := ordinalKey(counts, "batched.(*conn).reader#skipped-body")
		srcs := pv.Sources(cc.Args[1])
		ok := len(srcs) > 0 && ssax.All(srcs, func(s ssax.Src) bool {
			return s.Kind == "call" && strings.HasSuffix(ssax.CalleeName(s.Call), "binprot.ReadResponseHeader") && s.Res == 0 &&
				len(s.Path) == 1 && s.Path[0] == "TotalBodyLength"
		})
		c.Check(ok, rule, key, c.P.Pos(ins.Pos()), "the whole body of the reply just read is discarded",
			fmt.Sprintf("the reader discards %v bytes of a reply it does not decode, not the TotalBodyLength of the header just read: the rest of the body is taken for the next reply header", ssax.Strings(srcs)))
	})
	if n == 0 {
		c.Undecided(rule, "batched.(*conn).reader#skipped-bodies", "-", "the reader discards nothing")
	}
}

// checkRelayPublishedReady (R6.16): a relay is shared by all client connections that use one backend socket, and
// submit() picks one of its connections at random - with none it panics (rand.Intn(0)). The relay therefore becomes
// visible to other connections (the registry lock is released after its registration) only after the goroutine that
// adds the first connection has said so: the constructor's wait for that goroutine precedes the release of the lock,
// and the goroutine signals only after it stored the first connection.
func checkRelayPublishedReady(c *core.Ctx, rule string) {
	key := "batched.getRelay#published-with-a-connection"
	var ctor *ssa.Function
	var regs []ssa.Instruction
	for _, fn := range pkgFuncs(c, relBatched) {
		ssax.Instrs(fn, func(ins ssa.Instruction) {
			mu, ok := ins.(*ssa.MapUpdate)
			if !ok {
				return
			}
			if g := globalOf(mu.Map); g != nil && strings.HasSuffix(types.TypeString(mu.Value.Type(), nil), "batched.relay") {
				ctor = fn
				regs = append(regs, ins)
			}
		})
	}
	if ctor == nil {
		c.Undecided(rule, key, "-", "no registration of a relay in a package-level map found")
		return
	}
	// the wait: a receive from a channel that is handed to a goroutine started in the constructor
	var waits []ssa.Instruction
	var starter *ssa.Go
	ssax.Instrs(ctor, func(ins ssa.Instruction) {
		g, ok := ins.(*ssa.Go)
		if !ok {
			return
		}
		for _, a := range g.Call.Args {
			if _, isChan := a.Type().Underlying().(*types.Chan); !isChan {
				continue
			}
			ssax.Instrs(ctor, func(r ssa.Instruction) {
				if u, ok := r.(*ssa.UnOp); ok && u.Op == token.ARROW && u.X == a {
					waits = append(waits, r)
					starter = g
				}
			})
		}
	})
	var bad []string
	if len(waits) == 0 {
		bad = append(bad, "the constructor does not wait for the goroutine that adds the first connection")
	}
	// every release of a lock after the registration is preceded by the wait
	for _, reg := range regs {
		ssax.Instrs(ctor, func(u ssa.Instruction) {
			cc := ssax.CallOf(u)
			if cc == nil || !strings.HasSuffix(ssax.CalleeName(cc), ").Unlock") || len(cc.Args) == 0 || globalOf(cc.Args[0]) == nil {
				return
			}
			if _, isDefer := u.(*ssa.Defer); isDefer {
				return
			}
			after, _ := (ssax.Reach{Target: func(i ssa.Instruction) bool { return i == u }}).From(reg)
			if after == nil {
				return
			}
			waited := false
			for _, w := range waits {
				if ssax.DominatesInstr(w, u) {
					waited = true
				}
			}
			if !waited {
				bad = append(bad, fmt.Sprintf("the registry lock is released at %s, after the relay was registered at %s, without the wait for its first connection in between", c.P.Pos(u.Pos()), c.P.Pos(reg.Pos())))
			}
		})
	}
	// the goroutine signals after it stored a connection
	if starter != nil {
		if callee := starter.Call.StaticCallee(); callee != nil && len(callee.Blocks) > 0 {
			var adds []ssa.Instruction
			ssax.Instrs(callee, func(ins ssa.Instruction) {
				cc := ssax.CallOf(ins)
				if cc == nil {
					return
				}
				if f := cc.StaticCallee(); f != nil && f.Pkg == callee.Pkg {
					stores := false
					ssax.Instrs(f, func(i ssa.Instruction) {
						if c2 := ssax.CallOf(i); c2 != nil && ssax.CalleeName(c2) == "(*sync/atomic.Value).Store" {
							stores = true
						}
					})
					if stores {
						adds = append(adds, ins)
					}
				}
			})
			ssax.Instrs(callee, func(ins ssa.Instruction) {
				s, ok := ins.(*ssa.Send)
				if !ok {
					return
				}
				if _, isParam := s.Chan.(*ssa.Parameter); !isParam {
					return
				}
				okSend := false
				for _, a := range adds {
					if ssax.DominatesInstr(a, ins) {
						okSend = true
					}
				}
				if !okSend {
					bad = append(bad, fmt.Sprintf("%s signals at %s before it has stored a connection", core.FuncName(callee), c.P.Pos(ins.Pos())))
				}
			})
		}
	}
	c.Check(len(bad) == 0, rule, key, c.P.Pos(ctor.Pos()), "the relay is registered and the registry lock released only after its first connection exists",
		strings.Join(uniq(bad), "; ")+": a second client connection picks up a relay without connections and panics in submit (rand.Intn(0)); its command gets no outcome")
}

// checkReaderAddressesReplies (R6.18): what tells a caller which of its requests a response answers - Key, Opaque and
// the quiet flag - is taken from the handle the request was registered under (looked up by the reply's token), never
// from the backend's reply: the pool rewrites opaques and sends every get as a loud one, so the reply's own fields
// describe the pool's request, not the caller's. A response with the wrong quiet flag is not ticked off by the
// caller's bookkeeping: the key is asked for again and answered more than once.
func checkReaderAddressesReplies(c *core.Ctx, rule string) {
	rd := findFunc(c, relBatched, "(*conn).reader", rolePoolReader)
	if rd == nil {
		c.Undecided(rule, "batched.(*conn).reader#addressing", "-", "reader not found")
		return
	}
	counts := map[string]int{}
	n := 0
	ssax.Instrs(rd, func(ins ssa.Instruction) {
		st, ok := ins.(*ssa.Store)
		if !ok {
			return
		}
		fa, ok := st.Addr.(*ssa.FieldAddr)
		if !ok || !strings.HasSuffix(ssax.ShortType(fa.X.Type()), "common.GetEResponse") {
			return
		}
		f, _ := ssax.FieldName(fa)
		if f != "Key" && f != "Opaque" && f != "Quiet" {
			return
		}
		n++
		key := ordinalKey(counts, "batched.(*conn).reader#response."+f)
		root, path := selPath(st.Val)
		fromHandle := len(path) == 1 && strings.EqualFold(path[0], f) && strings.HasSuffix(ssax.ShortType(root.Type()), "reshandle")
		c.Check(fromHandle, rule, key, c.P.Pos(st.Pos()), "taken from the caller's request handle",
			fmt.Sprintf("field %s of the response handed to the caller is not the %s recorded in the request's handle: it is derived from the backend's reply, which describes the pool's own request (rewritten opaque, loud opcode)", f, strings.ToLower(f)))
	})
	if n == 0 {
		c.Undecided(rule, "batched.(*conn).reader#addressing", c.P.Pos(rd.Pos()), "the reader builds no response")
	}
}
