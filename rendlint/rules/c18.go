package rules

import (
	"fmt"
	"go/token"
	"sort"
	"strings"

	"golang.org/x/tools/go/ssa"

	"rendlint/core"
	"rendlint/ssax"
)

func init() {
	Meta["C18"] = &PropMeta{
		Title: "Metrics report what happened: exact counts, consistent latency summaries",
		Explain: "Concurrency structure of the metrics package: (R18.1) every run-time access to the counter, gauge and bucket arrays is a sync/atomic call (no plain read, copy or write), and metric ids are claimed by an atomic increment; (R18.2) histogram period integrity - every update of a histogram's per-period data in the observer holds the histogram's lock shared from the first to the last update, the extractor swaps the period under the exclusive lock, every other plain access to per-period fields holds it exclusively, and every path of a function that takes the lock releases it exactly once. " +
			"These are the conditions under which 'count == number of increments' and 'a period's summary is consistent' can hold for every interleaving. NOT decided (numeric, outside this technique family): that percentiles lie between min and max and are observations, bucket index monotonicity and upper bounds, and agreement of the assembly bit-count with the portable one.",
		Assume: commonAssume,
		Run:    runC18,
	}
}

func runC18(c *core.Ctx) {
	c.Rule("R18.1", "every run-time access to a metric value array (counters, gauges, buckets, histogram period fields updated atomically) is a sync/atomic operation or happens under the exclusive lock its atomic writers hold; ids of new metrics are claimed by an atomic increment", 10)
	c.Rule("R18.2", "histogram period integrity: observer updates hold the histogram lock shared; the extractor and every other plain access to per-period data hold it exclusively; every path of a locking function unlocks exactly once", 4)

	initOnly := initOnlySet(c)
	inMetrics := func(fn *ssa.Function) bool {
		for fn.Parent() != nil {
			fn = fn.Parent()
		}
		return fn.Pkg != nil && fn.Pkg.Pkg.Path() == core.Mod+"/metrics"
	}
	runAtomicConsistency(c, "R18.1", inMetrics, initOnly)

	// ids claimed atomically: every Add*/Register* function indexes its tables with a value derived from atomic.Add
	for _, fn := range pkgFuncs(c, "metrics") {
		if fn.Object() == nil || !fn.Object().Exported() || !(strings.HasPrefix(fn.Name(), "Add") || strings.HasPrefix(fn.Name(), "Register")) {
			continue
		}
		nStores, bad := 0, 0
		ssax.Instrs(fn, func(ins ssa.Instruction) {
			st, ok := ins.(*ssa.Store)
			if !ok {
				return
			}
			g, uniq := rootedAt(st.Addr)
			if g == nil {
				return
			}
			nStores++
			if !uniq {
				bad++
			}
		})
		if nStores == 0 {
			continue
		}
		c.Check(bad == 0, "R18.1", "metrics."+fn.Name()+"#id-claimed-atomically", c.P.Pos(fn.Pos()), fmt.Sprintf("%d table writes, all at an index claimed by an atomic increment", nStores),
			fmt.Sprintf("%d of %d writes into the metric tables use an index that was not claimed by an atomic increment: two registrations can share a slot", bad, nStores))
	}

	runR183(c)
	runR184(c)
	runR185(c)
	runR186(c)
	extractors := runR187(c)
	runR188(c, extractors)
	runR1812(c, extractors)
	runR189(c)
	runR1810(c)
	runR1811(c)
	runR1813(c)
	runR1814(c)
	runR1815(c)
	runR1816(c)

	// ---- R18.2
	lockKey := "T:" + core.Mod + "/metrics.hist.lock*"
	datPrefix := "T:" + core.Mod + "/metrics.hist."
	for _, fn := range pkgFuncs(c, "metrics") {
		if initOnly[fn] {
			continue
		}
		held := ssax.HeldLocks(fn)
		var bad []string
		nAcc := 0
		locks := false
		ssax.Instrs(fn, func(ins ssa.Instruction) {
			if cc := ssax.CallOf(ins); cc != nil {
				switch ssax.CalleeName(cc) {
				case "(*sync.RWMutex).Lock", "(*sync.RWMutex).RLock":
					if ssax.LockKey(cc.Args[0]) == lockKey {
						locks = true
					}
				}
				if isAtomicCall(cc) {
					_, t := ssax.AddrKeys(cc.Args[0])
					if strings.HasPrefix(t, datPrefix+"dat") {
						nAcc++
						if held[ins][lockKey] == ssax.NotHeld {
							bad = append(bad, fmt.Sprintf("atomic update of %s at %s without the histogram lock: the update can land in a period that was already reported", short(t), c.P.Pos(ins.Pos())))
						}
					}
				}
			}
			var addr ssa.Value
			write := false
			switch x := ins.(type) {
			case *ssa.Store:
				addr, write = x.Addr, true
				for _, bv := range baseChain(addr) {
					if _, isAlloc := bv.(*ssa.Alloc); isAlloc {
						return
					}
				}
			case *ssa.UnOp:
				if x.Op == token.MUL {
					addr = x.X
				}
			}
			if addr == nil {
				return
			}
			_, t := ssax.AddrKeys(addr)
			if !(strings.HasPrefix(t, datPrefix+"dat") || strings.HasPrefix(t, datPrefix+"bakbuf")) {
				return
			}
			nAcc++
			mode := held[ins][lockKey]
			// element stores into the period buffer at an atomically claimed index are the observer's ring-buffer writes
			if write {
				if ia, ok := addr.(*ssa.IndexAddr); ok && derivesFromAtomicAdd(ia.Index, 0) {
					if mode == ssax.NotHeld {
						bad = append(bad, "ring-buffer write at "+c.P.Pos(ins.Pos())+" without the histogram lock")
					}
					return
				}
			}
			// loading the slice header on the way to such a write
			if !write && t == datPrefix+"dat.buf" && mode != ssax.NotHeld {
				return
			}
			if mode != ssax.Exclusive {
				bad = append(bad, fmt.Sprintf("plain %s of %s at %s with the histogram lock in mode %s", map[bool]string{true: "write", false: "read"}[write], short(t), c.P.Pos(ins.Pos()), lockModeName(mode)))
			}
		})
		if nAcc == 0 && !locks {
			continue
		}
		sort.Strings(bad)
		key := "metrics." + fn.Name() + "#period-lock"
		c.Check(len(bad) == 0, "R18.2", key, c.P.Pos(fn.Pos()), fmt.Sprintf("%d accesses to per-period data, all under the histogram lock in the required mode", nAcc), strings.Join(bad, "; "), bad...)
		if locks {
			// pairing: every path unlocks exactly once
			var pb []string
			ex := &ssax.Explorer{Fn: fn}
			ex.Instr = func(ins ssa.Instruction, st ssax.PState) bool {
				ls := st.(*lockState)
				call, ok := ins.(*ssa.Call)
				if !ok {
					return true
				}
				switch ssax.CalleeName(&call.Call) {
				case "(*sync.RWMutex).Lock", "(*sync.RWMutex).RLock":
					if ssax.LockKey(call.Call.Args[0]) == lockKey {
						if ls.held != 0 {
							pb = append(pb, "lock taken twice at "+c.P.Pos(ins.Pos()))
						}
						ls.held = 1
					}
				case "(*sync.RWMutex).Unlock", "(*sync.RWMutex).RUnlock":
					if ssax.LockKey(call.Call.Args[0]) == lockKey {
						if ls.held == 0 {
							pb = append(pb, "unlock without lock at "+c.P.Pos(ins.Pos()))
						}
						ls.held = 0
					}
				}
				return true
			}
			ex.Exit = func(ins ssa.Instruction, st ssax.PState) {
				if st.(*lockState).held != 0 {
					pb = append(pb, "return at "+c.P.Pos(ins.Pos())+" with the histogram lock held: every later observation of this histogram blocks")
				}
			}
			ex.Run(&lockState{})
			c.Check(len(pb) == 0 && !ex.Exceeded, "R18.2", "metrics."+fn.Name()+"#lock-pairing", c.P.Pos(fn.Pos()), "every path releases the histogram lock exactly once", strings.Join(uniq(pb), "; "))
		}
	}
}

// runR183: the bucket index returned by the bucket function is provably inside the bucket array.
func runR183(c *core.Ctx) {
	c.Rule("R18.3", "the bucket index computed for an observation is provably below the number of buckets on every return path (an index one past the end panics in the observer, loses the observation and leaves the histogram lock held)", 1)
	n, ok := namedConst(c, "metrics", "numAtlasBuckets")
	fn := findFunc(c, "metrics", "getBucket", roleBucketFn)
	key := "metrics.getBucket#index-in-range"
	if !ok || fn == nil {
		c.Undecided("R18.3", key, "-", "bucket function or bucket count not found")
		return
	}
	var bad []string
	for _, r := range ssax.Returns(fn) {
		v := ssax.Unwrap(r.Results[0])
		ub, known := upperBound(v, r.Block(), 0)
		if !known {
			bad = append(bad, fmt.Sprintf("no upper bound established for the value returned at %s", c.P.Pos(r.Pos())))
		} else if ub > n-1 {
			bad = append(bad, fmt.Sprintf("the value returned at %s can be as large as %d, the last bucket is %d", c.P.Pos(r.Pos()), ub, n-1))
		}
	}
	c.Check(len(bad) == 0, "R18.3", key, c.P.Pos(fn.Pos()), fmt.Sprintf("every return is bounded by %d", n-1), strings.Join(bad, "; "))
}

// upperBound derives v <= K from constants, "+ const" and the comparisons that dominate block b.
func upperBound(v ssa.Value, b *ssa.BasicBlock, depth int) (int64, bool) {
	if depth > 6 {
		return 0, false
	}
	v = ssax.Unwrap(v)
	if k, ok := ssax.ConstInt(v); ok {
		return k, true
	}
	for _, ec := range ssax.DomConds(b) {
		bo, ok := ec.Cond.(*ssa.BinOp)
		if !ok {
			continue
		}
		k, isC := ssax.ConstInt(bo.Y)
		if !isC || ssax.Unwrap(bo.X) != v {
			continue
		}
		op := bo.Op
		if !ec.True {
			switch op {
			case token.GEQ:
				op = token.LSS
			case token.GTR:
				op = token.LEQ
			case token.LSS:
				op = token.GEQ
			case token.LEQ:
				op = token.GTR
			}
		}
		switch op {
		case token.LSS:
			return k - 1, true
		case token.LEQ:
			return k, true
		}
	}
	if bo, ok := v.(*ssa.BinOp); ok && bo.Op == token.ADD {
		if k, isC := ssax.ConstInt(bo.Y); isC {
			if ub, ok := upperBound(bo.X, b, depth+1); ok {
				return ub + k, true
			}
		}
	}
	return 0, false
}

// runR184: a compare-and-swap that maintains min/max is retried until it succeeds or has become unnecessary.
func runR184(c *core.Ctx) {
	c.Rule("R18.4", "every CompareAndSwap in the metrics package sits in a retry loop: when the swap fails the value is loaded and compared again (a single attempt loses an update when another observer wins the race with a smaller value)", 2)
	for _, fn := range pkgFuncs(c, "metrics") {
		loops := ssax.Loops(fn)
		counts := map[string]int{}
		ssax.Instrs(fn, func(ins ssa.Instruction) {
			call, ok := ins.(*ssa.Call)
			if !ok || !strings.HasPrefix(ssax.CalleeName(&call.Call), "sync/atomic.CompareAndSwap") {
				return
			}
			_, t := ssax.AddrKeys(call.Call.Args[0])
			key := ordinalKey(counts, "metrics."+fn.Name()+"#cas-retry:"+short(strings.TrimPrefix(t, "T:")))
			l := ssax.InnermostLoop(loops, call.Block())
			retried := false
			if l != nil {
				// from the failed swap the loop header (the re-load) is reachable inside the loop
				for _, r := range *call.Referrers() {
					if ifi, ok := r.(*ssa.If); ok {
						fail := ifi.Block().Succs[1]
						if fail == l.Header {
							retried = true
						} else if hit, _ := (ssax.Reach{Target: func(x ssa.Instruction) bool { return x.Block() == l.Header }, Within: l.Blocks}).FromBlock(fail); hit != nil && l.Blocks[fail] {
							retried = true
						}
					}
				}
			}
			c.Check(retried, "R18.4", key, c.P.Pos(call.Pos()), "the swap is retried in a loop until it succeeds or is no longer needed",
				"a failed CompareAndSwap is not retried: when another observer swaps first with a smaller (max) or larger (min) value, this observation's value is lost and the reported extreme can lie inside the observed range")
		})
	}
}
