package rules

import (
	"fmt"
	"go/token"
	"go/types"
	"sort"
	"strings"

	"golang.org/x/tools/go/ssa"

	"rendlint/core"
	"rendlint/ssax"
)

func init() {
	Meta["C08"] = &PropMeta{
		Title: "Reply discipline: one well-formed reply per request, one terminator per get",
		Explain: "Path and provenance rules over the orchestrators, the locking wrapper and both responders: (R8.1) on every path of every orchestrator method a non-nil error is returned with no reply sent, and a nil/forwarded result with exactly one terminal reply of the command's own kind (gets: any number of per-key replies, exactly one GetEnd); (R8.2) the locking wrapper, which issues one sub-get per key, cannot multiply the terminator: every responder's GetEnd is silent unless told it is the batch end, or the wrapper mutes it for all but the last key; (R8.3) the opaque of every reply comes from the request (or the handler response built from the same index of the request's keys), and every header a binary responder method writes carries that method's opaque; (R8.4) declared body/extras/key lengths of every binary reply equal the bytes written; (R8.5) every responder path that writes ends with a flush; (R8.6) after an application error the loop replies and continues; (R8.7) error replies carry the failing request's opaque, type and error. " +
			"Decides the reply structure per request; staying in sync after malformed text data blocks is not decided.",
		Assume: commonAssume,
		Run:    runC08,
	}
}

// terminal responder method for an orchestrator method
var terminalReply = map[string]string{
	"Set": "Set", "Add": "Add", "Replace": "Replace", "Append": "Append", "Prepend": "Prepend", "Delete": "Delete", "Touch": "Touch",
	"Get": "GetEnd", "GetE": "GetEnd", "Gat": "GAT", "Noop": "Noop", "Quit": "Quit", "Version": "Version", "Stat": "Stat", "Error": "Error",
}
var perKeyReply = map[string]string{"Get": "Get", "GetE": "GetE"}

type replyState struct {
	f       ssax.Facts
	n       int // terminal replies so far (capped at 2)
	resVals map[ssa.Value]bool
	foreign string
}

func (s *replyState) Key() string {
	var rv []string
	for v := range s.resVals {
		rv = append(rv, fmt.Sprintf("%p", v))
	}
	sort.Strings(rv)
	return fmt.Sprintf("%d/%s/%s/%s", s.n, s.foreign, strings.Join(rv, ","), s.f.Key())
}
func (s *replyState) Copy() ssax.PState {
	c := &replyState{f: s.f.Clone(), n: s.n, resVals: map[ssa.Value]bool{}, foreign: s.foreign}
	for k := range s.resVals {
		c.resVals[k] = true
	}
	return c
}

func checkReplyPaths(c *core.Ctx, rule string, fn *ssa.Function, role *orcaRole, method string) {
	tcs := tierCalls(fn, role)
	isTier := map[ssa.Instruction]tierCall{}
	for _, tc := range tcs {
		isTier[tc.Ins] = tc
	}
	term, perKey := terminalReply[method], perKeyReply[method]
	type finding struct{ pos, msg string }
	var finds []finding
	nRet := 0
	ex := &ssax.Explorer{Fn: fn}
	ex.Enter = func(b, pred *ssa.BasicBlock, ps ssax.PState) {
		s := ps.(*replyState)
		// phis carrying a responder result
		if pred != nil {
			for _, ins := range b.Instrs {
				phi, ok := ins.(*ssa.Phi)
				if !ok {
					break
				}
				if op := ssax.PhiOperand(phi, pred); op != nil && s.resVals[op] {
					s.resVals[phi] = true
				} else {
					delete(s.resVals, phi)
				}
			}
		}
		s.f.EnterBlock(b, pred)
		s.f.Retain(func(v ssa.Value) bool { return ssax.IsErrorValue(v) || types.TypeString(v.Type(), nil) == "bool" })
	}
	ex.Instr = func(ins ssa.Instruction, ps ssax.PState) bool {
		s := ps.(*replyState)
		if tc, ok := isTier[ins]; ok && tc.Tier == "res" {
			switch tc.Method {
			case term:
				if s.n < 2 {
					s.n++
				}
				if v, ok := ins.(ssa.Value); ok {
					s.resVals[v] = true
				}
			case perKey:
			default:
				s.foreign = tc.Method
			}
		}
		if v, ok := ins.(ssa.Value); ok {
			if _, isTierCall := isTier[ins]; !isTierCall {
				delete(s.resVals, v)
			}
		}
		s.f.Step(ins)
		return true
	}
	ex.Branch = func(ifi *ssa.If, truth bool, ps ssax.PState) bool { return ps.(*replyState).f.Assume(ifi.Cond, truth) }
	ex.Exit = func(ins ssa.Instruction, ps ssax.PState) {
		s := ps.(*replyState)
		ret, ok := ins.(*ssa.Return)
		if !ok {
			return
		}
		nRet++
		pos := c.P.Pos(ret.Pos())
		if s.foreign != "" {
			finds = append(finds, finding{pos, fmt.Sprintf("the command replies through the responder's %s method", s.foreign)})
		}
		if len(ret.Results) == 0 {
			// Error(): exactly one reply
			if s.n != 1 {
				finds = append(finds, finding{pos, fmt.Sprintf("%d replies on a path of a method that must reply exactly once", s.n)})
			}
			return
		}
		r := ret.Results[len(ret.Results)-1]
		f := s.f.Eval(r)
		switch {
		case s.resVals[r]:
			// the responder's own result is returned: that reply is the one
			if s.n != 1 {
				finds = append(finds, finding{pos, fmt.Sprintf("%d terminal replies on a path returning the responder's result", s.n)})
			}
		case f.Nil == ssax.Yes || ssax.IsNilConst(r):
			if s.n != 1 {
				finds = append(finds, finding{pos, fmt.Sprintf("the command returns nil after %d terminal replies (exactly one %s expected): the client gets no answer, or two", s.n, term)})
			}
		case f.Nil == ssax.No || ssax.SentinelOf(r) != "":
			if s.n != 0 {
				finds = append(finds, finding{pos, fmt.Sprintf("an error is returned after %d reply/replies were already sent: the loop sends an error reply on top", s.n)})
			}
		default:
			finds = append(finds, finding{pos, "cannot tell whether the returned error is nil on this path (undecided)"})
		}
	}
	ex.Run(&replyState{f: ssax.Facts{}, resVals: map[ssa.Value]bool{}})
	key := core.FuncName(fn) + "#one-reply"
	pos := c.P.Pos(fn.Pos())
	if ex.Exceeded {
		c.Undecided(rule, key, pos, "state space exceeded")
		return
	}
	if len(finds) > 0 {
		var msgs []string
		for _, f := range finds {
			msgs = append(msgs, f.msg+" (return at "+f.pos+")")
		}
		msgs = uniq(msgs)
		if strings.Contains(msgs[0], "undecided") {
			c.Undecided(rule, key, pos, msgs[0])
		} else {
			c.Violate(rule, key, pos, msgs[0], msgs...)
		}
		return
	}
	c.OK(rule, key, pos, fmt.Sprintf("%d return paths: error without reply, or exactly one %s", nRet, term))
}

func runC08(c *core.Ctx) {
	defer func() {
		c.Share(map[string]string{"R18.6": "R8.17"}, runC18) // the orchestrators record a latency before they reply: an observer that indexes past its ring panics, the request gets no reply
		c.Share(map[string]string{"R11.2": "R8.10"}, runC11)                                  // continuing after a parse error that consumed nothing leaves the stream out of sync
		c.Share(map[string]string{"R7.9": "R8.9", "R7.6": "R8.12", "R7.10": "R8.13"}, runC07) // a header released twice is decoded by two connections: replies carry another request's opaque
	}()
	c.Rule("R8.1", "on every path of an in-scope orchestrator method: a non-nil error is returned with no terminal reply sent, nil (or the responder's own result) with exactly one terminal reply of the command's own responder method; gets send any number of per-key replies and exactly one GetEnd", 40)
	c.Rule("R8.2", "a wrapper that issues one sub-get per key must not multiply the terminator: every responder's GetEnd is silent unless its batch-end argument is true, or the wrapper mutes GetEnd on all but the last sub-get", 2)
	c.Rule("R8.3", "opaque echo: reply opaques come from the request (or from a handler response built from the same index of the request's keys/opaques/quiet flags); every header a binary responder method writes carries that method's opaque", 30)
	c.Rule("R8.4", "frame lengths: the total body length, extras length and key length declared by every binary responder method equal the bytes it writes before the flush", 6)
	c.Rule("R8.5", "every responder method path that writes to the client ends with a flush after the last write", 20)
	c.Rule("R8.6", "after an application error the loop sends an error reply and keeps serving the connection", 2)
	c.Rule("R8.7", "error replies are attributed: the orchestrators' Error passes the failing request's opaque and quiet flag, the given request type and error to the responder; the loop passes the failing request, its type and the orchestrator's error", 4)

	// ---- R8.1
	for _, ctor := range inScopeCtors {
		role, err := resolveOrca(c, ctor)
		if err != nil {
			c.Undecided("R8.1", "orcas."+ctor, "-", err.Error())
			continue
		}
		for _, m := range orcaMethods(c) {
			if m == "Unknown" {
				continue
			}
			fn := c.P.Method(role.Impl, m)
			if fn == nil || len(fn.Blocks) == 0 {
				c.Undecided("R8.1", "orcas."+ctor+"."+m, "-", "method not found")
				continue
			}
			checkReplyPaths(c, "R8.1", fn, role, m)
		}
	}
	c.Rule("R8.8", "a rebuilt multi-key get request keeps keys, opaques and quiet flags aligned (one origin for the three slices): otherwise replies go out under another key's opaque or quiet flag", 4)
	checkParallelSlices(c, "R8.8")
	runR82(c)
	runR811(c)
	runR814(c)
	runR815(c)
	runR816(c)
	runR83(c)
	runR84(c)
	runR85(c)
	// ---- R8.6 (= R10.3's two loop obligations)
	runR103Into(c, "R8.6")
	runR87(c)
}

// runR103Into re-evaluates the loop classification under another rule id.
func runR103Into(c *core.Ctx, rule string) {
	sub := core.NewCtx(c.P, c.Property, c.Config)
	sub.Rule("R10.3", "", 0)
	runR103(sub)
	for _, o := range sub.Obs {
		if strings.HasPrefix(o.Key, "server.") {
			c.Import(o, rule)
		}
	}
}

// ---------------------------------------------------------------- R8.2

// emits: fn (transitively, repository callees, depth <= 3) writes to or flushes a bufio.Writer.
func emitsCall(cc *ssa.CallCommon, depth int) bool {
	if cc == nil {
		return false
	}
	name := ssax.CalleeName(cc)
	if strings.HasPrefix(name, "(*bufio.Writer).") || name == "fmt.Fprintf" || name == "encoding/binary.Write" {
		return true
	}
	if callee := cc.StaticCallee(); callee != nil && len(callee.Blocks) > 0 && depth < 3 && callee.Pkg != nil && strings.HasPrefix(callee.Pkg.Pkg.Path(), core.Mod) {
		found := false
		ssax.Instrs(callee, func(ins ssa.Instruction) {
			if emitsCall(ssax.CallOf(ins), depth+1) {
				found = true
			}
		})
		return found
	}
	return false
}

// classifyGetEnd: "silent" (writes only when the batch-end parameter is true), "always", "forwards-unless:<field>", "undecided".
func classifyGetEnd(fn *ssa.Function) string {
	if len(fn.Params) < 3 {
		return "undecided"
	}
	batchEnd := fn.Params[len(fn.Params)-1]
	// forwarding wrapper: every forward (invoke GetEnd) is on the false edge of a test of a receiver bool field
	forwards, emitsDirect := false, false
	field := ""
	okFwd := true
	silent := true
	ssax.Instrs(fn, func(ins ssa.Instruction) {
		cc := ssax.CallOf(ins)
		if cc == nil {
			return
		}
		if cc.IsInvoke() && cc.Method.Name() == "GetEnd" {
			forwards = true
			guarded := false
			for _, ec := range ssax.DomConds(ins.Block()) {
				if u, ok := ec.Cond.(*ssa.UnOp); ok && u.Op == token.MUL {
					if n, ok := ssax.FieldName(u.X); ok && !ec.True {
						field, guarded = n, true
					}
				}
			}
			if !guarded {
				okFwd = false
			}
			return
		}
		if emitsCall(cc, 0) {
			emitsDirect = true
			dominated := false
			for _, ec := range ssax.DomConds(ins.Block()) {
				if ec.Cond == ssa.Value(batchEnd) && ec.True {
					dominated = true
				}
			}
			if !dominated {
				silent = false
			}
		}
	})
	switch {
	case forwards && !emitsDirect && okFwd:
		return "forwards-unless:" + field
	case forwards:
		return "undecided"
	case emitsDirect && silent:
		return "silent"
	case emitsDirect:
		return "always"
	}
	return "silent"
}

func runR82(c *core.Ctx) {
	ri := c.P.Iface("protocol", "Responder")
	if ri == nil {
		c.Undecided("R8.2", "protocol.Responder", "-", "interface not found")
		return
	}
	type rcls struct {
		impl core.Impl
		cls  string
	}
	var responders []rcls
	for _, impl := range c.P.Implementers(ri) {
		fn := c.P.Method(impl, "GetEnd")
		if fn == nil || len(fn.Blocks) == 0 {
			continue
		}
		responders = append(responders, rcls{impl, classifyGetEnd(fn)})
	}
	// wrapper methods: Orca.Get / GetE invoked inside a loop
	n := 0
	for _, fn := range pkgFuncs(c, "orcas") {
		loops := ssax.Loops(fn)
		ssax.Instrs(fn, func(ins ssa.Instruction) {
			cc := ssax.CallOf(ins)
			if cc == nil || !cc.IsInvoke() || types.TypeString(cc.Value.Type(), nil) != tOrca || (cc.Method.Name() != "Get" && cc.Method.Name() != "GetE") {
				return
			}
			l := ssax.InnermostLoop(loops, ins.Block())
			if l == nil {
				return
			}
			n++
			key := core.FuncName(fn) + "#sub-get-terminator"
			pos := c.P.Pos(ins.Pos())
			if ok, how := mutesTerminator(c, fn, l, ins); ok {
				c.OK("R8.2", key, pos, "one sub-get per key; "+how)
				return
			}
			var bad []string
			for _, r := range responders {
				switch {
				case r.cls == "silent" || strings.HasPrefix(r.cls, "forwards-unless:"):
				case r.cls == "always":
					// a responder that cannot serve this command at all is not a combination that exists
					if m := c.P.Method(r.impl, perKeyReply[cc.Method.Name()]); m != nil && panicsUnconditionally(m) {
						continue
					}
					bad = append(bad, ssax.ShortType(r.impl.Named)+".GetEnd writes a terminator on every call")
				default:
					bad = append(bad, ssax.ShortType(r.impl.Named)+".GetEnd: "+r.cls)
				}
			}
			c.Check(len(bad) == 0, "R8.2", key, pos, "one sub-get per key; every responder's GetEnd is silent unless told it is the batch end",
				fmt.Sprintf("the wrapper issues one %s per key in a loop, so GetEnd runs once per key, but %s: a multi-key get is answered with one terminator per key (text: 'get a b c' => END ... END ... END)", cc.Method.Name(), strings.Join(bad, "; ")))
		})
	}
	if n == 0 {
		c.Undecided("R8.2", "orcas#sub-get-loops", "-", "no wrapper issuing sub-gets in a loop found")
	}
}

func panicsUnconditionally(fn *ssa.Function) bool {
	if len(fn.Blocks) == 0 {
		return false
	}
	_, ok := fn.Blocks[0].Instrs[len(fn.Blocks[0].Instrs)-1].(*ssa.Panic)
	return ok
}

// mutesTerminator recognises the accepted idiom: the wrapper owns a responder wrapper whose GetEnd forwards only
// while a flag is clear; inside the sub-get loop the flag is set in every iteration before the sub-get and cleared
// only on the edge guarded by "this is the last key"; the wrapped orchestrator was constructed with that responder.
func mutesTerminator(c *core.Ctx, fn *ssa.Function, l *ssax.Loop, subGet ssa.Instruction) (bool, string) {
	ri := c.P.Iface("protocol", "Responder")
	var trueStores, falseStores []*ssa.Store
	flagField := ""
	var holderT types.Type
	for b := range l.Blocks {
		for _, ins := range b.Instrs {
			st, ok := ins.(*ssa.Store)
			if !ok {
				continue
			}
			v, isConst := ssax.ConstInt(st.Val)
			fa, isFA := st.Addr.(*ssa.FieldAddr)
			if !isConst || !isFA || types.TypeString(st.Val.Type(), nil) != "bool" {
				continue
			}
			if !types.Implements(fa.X.Type(), ri) {
				continue
			}
			n, _ := ssax.FieldName(fa)
			flagField, holderT = n, fa.X.Type()
			if v == 1 {
				trueStores = append(trueStores, st)
			} else {
				falseStores = append(falseStores, st)
			}
		}
	}
	if len(trueStores) == 0 || len(falseStores) == 0 {
		return false, ""
	}
	// the holder's GetEnd forwards unless that field
	sel := c.P.SSA.MethodSets.MethodSet(holderT).Lookup(fn.Pkg.Pkg, "GetEnd")
	if sel == nil {
		return false, ""
	}
	ge := c.P.SSA.MethodValue(sel)
	if ge == nil || classifyGetEnd(ge) != "forwards-unless:"+flagField {
		return false, ""
	}
	// set in every iteration before the sub-get
	setDominates := false
	for _, st := range trueStores {
		if st.Block().Dominates(subGet.Block()) && (st.Block() != subGet.Block() || ssax.IndexIn(st) < ssax.IndexIn(subGet)) {
			setDominates = true
		}
	}
	if !setDominates {
		return false, ""
	}
	// cleared (inside the loop, before the sub-get) only under the last-key test
	for _, st := range falseStores {
		guarded := false
		for _, ec := range ssax.DomConds(st.Block()) {
			bo, ok := ec.Cond.(*ssa.BinOp)
			if !ok || bo.Op != token.EQL || !ec.True || !l.Blocks[ec.If.Block()] {
				continue
			}
			if sub, ok := bo.Y.(*ssa.BinOp); ok && sub.Op == token.SUB {
				if k, ok := ssax.ConstInt(sub.Y); ok && k == 1 {
					if call, ok := sub.X.(*ssa.Call); ok {
						if bi, ok := call.Call.Value.(*ssa.Builtin); ok && bi.Name() == "len" {
							guarded = true
						}
					}
				}
			}
		}
		if !guarded {
			return false, ""
		}
	}
	// the wrapped orchestrator answers through that responder: in every constructor closure that builds the wrapper,
	// the value stored in the responder field is the one given to the wrapped constructor
	wired := false
	for _, f := range pkgFuncs(c, "orcas") {
		ssax.Instrs(f, func(ins ssa.Instruction) {
			al, ok := ins.(*ssa.Alloc)
			if !ok || fn.Signature.Recv() == nil || !types.Identical(al.Type(), fn.Signature.Recv().Type()) {
				return
			}
			pv := &ssax.Prov{}
			st := al.Type().(*types.Pointer).Elem().Underlying().(*types.Struct)
			for i := 0; i < st.NumFields(); i++ {
				if !types.Identical(st.Field(i).Type(), holderT) {
					continue
				}
				held := pv.Sources(al, st.Field(i).Name())
				for _, w := range pv.Sources(al, "wrapped") {
					if w.Kind == "call" && len(w.Call.Args) == 3 {
						given := pv.Sources(w.Call.Args[2])
						if len(held) == 1 && len(given) == 1 && held[0].V == given[0].V {
							wired = true
						}
					}
				}
			}
		})
	}
	if !wired {
		return false, ""
	}
	return true, fmt.Sprintf("GetEnd is muted through the wrapper's responder (flag %s set every iteration, cleared only for the last key)", flagField)
}
