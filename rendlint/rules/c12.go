package rules

import (
	"fmt"
	"go/token"
	"go/types"
	"strings"

	"golang.org/x/tools/go/ssa"

	"rendlint/core"
	"rendlint/ssax"
)

func init() {
	Meta["C12"] = &PropMeta{
		Title: "Key locks are always released and a failure below closes the connection",
		Explain: "Typestate/pairing analysis of every sync.Locker acquisition in the locking wrapper: each Lock is paired with an Unlock on every normal exit and on the panic path (defer, or deferred recover that unlocks the captured lock cell); no second Lock is reachable while one is held; every recover() on the request path re-panics or aborts the connection; the wrapped orchestrator handed to Locked/LockedWithExisting in app/memproxy.go is never itself a locking wrapper. " +
			"Decides the lock-release and panic-propagation structure; does not decide liveness of the Go runtime ('the next command proceeds').",
		Assume: commonAssume,
		Run:    runC12,
	}
}

const lockerT = "sync.Locker"

// lockSite describes one Lock call.
type lockSite struct {
	fn   *ssa.Function
	ins  ssa.Instruction
	cc   *ssa.CallCommon
	cell ssa.Value // identity of the locker: the SSA value, or the memory cell it is loaded from
}

func lockerIdentity(v ssa.Value) ssa.Value {
	if u, ok := v.(*ssa.UnOp); ok && u.Op == token.MUL {
		if fv, ok := u.X.(*ssa.FreeVar); ok {
			if cell := ssax.ResolveFreeVar(fv); cell != nil {
				return cell
			}
		}
		return u.X
	}
	return v
}

func isLockerCall(cc *ssa.CallCommon, method string) bool {
	return cc != nil && cc.IsInvoke() && cc.Method.Name() == method && types.TypeString(cc.Value.Type(), nil) == lockerT
}

func lockSites(fn *ssa.Function) []lockSite {
	var out []lockSite
	ssax.Instrs(fn, func(ins ssa.Instruction) {
		if _, isCall := ins.(*ssa.Call); !isCall {
			return
		}
		cc := ssax.CallOf(ins)
		if isLockerCall(cc, "Lock") {
			out = append(out, lockSite{fn, ins, cc, lockerIdentity(cc.Value)})
		}
	})
	return out
}

// lockState is the explorer state for the loop form.
type lockState struct{ held int }

func (s *lockState) Key() string       { return fmt.Sprint(s.held) }
func (s *lockState) Copy() ssax.PState { c := *s; return &c }

func runC12(c *core.Ctx) {
	c.Rule("R12.1", "every Lock in the locking wrapper is released on every exit, panics included: Lock is immediately followed by `defer Unlock` of the same locker, or (loop form) exactly one Unlock lies on every normal path to the next Lock/exit and a deferred closure unlocks the captured lock cell when recover() != nil", 10)
	c.Rule("R12.2", "a connection holds at most one key lock: no Lock is reachable from a Lock without passing the Unlock of the same locker, and the orchestrator wrapped by Locked/LockedWithExisting is not a locking wrapper", 10)
	c.Rule("R12.3", "every recover() in server, orcas and handlers ends, on its non-nil branch, in panic(r) or abort(conns): a panic is never swallowed", 3)
	c.Rule("R12.4", "the connection loop defers its recovering closure before the first request is parsed", 1)

	for _, fn := range pkgFuncs(c, "orcas") {
		sites := lockSites(fn)
		for i, s := range sites {
			key := fmt.Sprintf("%s#lock%d", core.FuncName(fn), i)
			if len(sites) == 1 {
				key = core.FuncName(fn) + "#lock"
			}
			checkLockSite(c, s, key)
		}
	}
	wrappedNotLocked(c)
	c.Share(map[string]string{"R13.4": "R12.5", "R13.12": "R12.7"}, runC13) // a pool goroutine blocked for ever leaves the requests routed to it - and their key locks - hanging
	c.Share(map[string]string{"R15.2": "R12.6"}, runC15)                    // the loop's recover closes the connection only if abort closes every closer

	// R12.3 / R12.4
	for _, rel := range []string{"server", "orcas", "handlers"} {
		for _, fn := range c.P.RepoFuncs(rel) {
			checkRecover(c, fn, "R12.3")
		}
	}
	loop := c.P.Func("server", "(*DefaultServer).Loop")
	if loop == nil {
		c.Undecided("R12.4", "server.(*DefaultServer).Loop", "-", "anchor not found")
	} else {
		ok := false
		for _, ins := range loop.Blocks[0].Instrs {
			if d, isDefer := ins.(*ssa.Defer); isDefer {
				if mc, isMC := d.Call.Value.(*ssa.MakeClosure); isMC {
					if hasRecover(mc.Fn.(*ssa.Function)) {
						ok = true
					}
				}
			}
			if cc := ssax.CallOf(ins); cc != nil && cc.IsInvoke() && cc.Method.Name() == "Parse" {
				break
			}
		}
		c.Check(ok, "R12.4", "server.(*DefaultServer).Loop#defer-recover", c.P.Pos(loop.Pos()),
			"recovering closure deferred in the entry block", "Loop does not defer a recovering closure in its entry block: a panic below kills the process instead of closing the connection")
	}
}

func hasRecover(fn *ssa.Function) bool {
	found := false
	ssax.Instrs(fn, func(ins ssa.Instruction) {
		if cc := ssax.CallOf(ins); cc != nil {
			if b, ok := cc.Value.(*ssa.Builtin); ok && b.Name() == "recover" {
				found = true
			}
		}
	})
	return found
}

func checkLockSite(c *core.Ctx, s lockSite, key string) {
	fn := s.fn
	pos := c.P.Pos(s.ins.Pos())
	// Form A: defer Unlock on the same locker follows before any other call
	b := s.ins.Block()
	idx := ssax.IndexIn(s.ins)
	formA := false
	for _, nx := range b.Instrs[idx+1:] {
		if d, ok := nx.(*ssa.Defer); ok {
			if isLockerCall(&d.Call, "Unlock") && lockerIdentity(d.Call.Value) == s.cell {
				formA = true
			}
			// defer func() { lock.Unlock() }(): the closure's entry block unlocks the captured locker unconditionally
			if mc, ok := d.Call.Value.(*ssa.MakeClosure); ok {
				if cl, ok := mc.Fn.(*ssa.Function); ok && len(cl.Blocks) > 0 {
					for _, ci := range cl.Blocks[0].Instrs {
						if cc := ssax.CallOf(ci); isLockerCall(cc, "Unlock") && lockerIdentity(cc.Value) == s.cell {
							if _, isDefer := ci.(*ssa.Defer); !isDefer {
								formA = true
							}
						}
					}
				}
			}
			break
		}
		if ssax.CallOf(nx) != nil {
			break
		}
	}
	if formA {
		c.OK("R12.1", key, pos, "defer Unlock on the same locker follows the Lock before any other call")
		// R12.2: the lock is held until the function returns, so no Lock may be reachable from here
		nxt, trail := (ssax.Reach{Target: func(i ssa.Instruction) bool {
			if _, isCall := i.(*ssa.Call); !isCall {
				return false
			}
			return isLockerCall(ssax.CallOf(i), "Lock")
		}}).From(s.ins)
		why := ""
		if nxt != nil {
			why = fmt.Sprintf("the lock taken here is held until return (deferred Unlock), yet another Lock is reachable at %s (%s)", c.P.Pos(nxt.Pos()), strings.Join(ssax.BlockTrail(c.P.Fset, trail), " -> "))
		}
		c.Check(nxt == nil, "R12.2", key, pos, "no other Lock is reachable while this one is held until return", why)
		return
	}
	// Form B: explicit unlock + deferred recover/unlock
	// (i) counting exploration: held ∈ {0,1}; Lock when held==1 => R12.2; exit with held==1 => R12.1
	var r121, r122 []string
	ex := &ssax.Explorer{Fn: fn}
	ex.Instr = func(ins ssa.Instruction, st ssax.PState) bool {
		ls := st.(*lockState)
		if _, isCall := ins.(*ssa.Call); !isCall {
			return true
		}
		cc := ssax.CallOf(ins)
		if isLockerCall(cc, "Lock") && lockerIdentity(cc.Value) == s.cell {
			if ls.held >= 1 {
				r122 = append(r122, fmt.Sprintf("Lock at %s reached while the lock taken earlier is still held", c.P.Pos(ins.Pos())))
				return false
			}
			ls.held = 1
		}
		if isLockerCall(cc, "Unlock") && lockerIdentity(cc.Value) == s.cell {
			if ls.held == 0 {
				r121 = append(r121, fmt.Sprintf("Unlock at %s without a held lock", c.P.Pos(ins.Pos())))
				return false
			}
			ls.held = 0
		}
		return true
	}
	ex.Exit = func(ins ssa.Instruction, st ssax.PState) {
		if st.(*lockState).held != 0 {
			r121 = append(r121, fmt.Sprintf("exit at %s with the lock held", c.P.Pos(ins.Pos())))
		}
	}
	ex.Run(&lockState{})
	// (ii) deferred closure that recovers and unlocks the same cell
	deferOK := false
	why := "no deferred closure recovers and unlocks the lock cell"
	// the recovering closure must be deferred before the Lock on every path: in a block that dominates the Lock
	var domDefers []ssa.Instruction
	for _, db := range fn.Blocks {
		if db != s.ins.Block() && !db.Dominates(s.ins.Block()) {
			continue
		}
		for _, ins := range db.Instrs {
			if ins == s.ins {
				break
			}
			if _, ok := ins.(*ssa.Defer); ok {
				domDefers = append(domDefers, ins)
			}
		}
	}
	for _, ins := range domDefers {
		d, ok := ins.(*ssa.Defer)
		if !ok {
			continue
		}
		mc, ok := d.Call.Value.(*ssa.MakeClosure)
		if !ok {
			continue
		}
		cl := mc.Fn.(*ssa.Function)
		if !hasRecover(cl) {
			continue
		}
		// on the recover()!=nil branch an Unlock of the captured cell must be reachable, guarded at most by cell != nil
		unl := false
		ssax.Instrs(cl, func(ins ssa.Instruction) {
			cc := ssax.CallOf(ins)
			if isLockerCall(cc, "Unlock") && lockerIdentity(cc.Value) == s.cell {
				conds := ssax.DomConds(ins.Block())
				good := true
				sawRecover := false
				for _, ec := range conds {
					bo, ok := ec.Cond.(*ssa.BinOp)
					if !ok {
						good = false
						continue
					}
					if isRecoverResult(bo.X) || isRecoverResult(bo.Y) {
						if (bo.Op == token.NEQ) == ec.True {
							sawRecover = true
						} else {
							good = false
						}
						continue
					}
					// lock != nil guard
					if (ssax.IsNilConst(bo.Y) && lockerIdentity(bo.X) == s.cell) || (ssax.IsNilConst(bo.X) && lockerIdentity(bo.Y) == s.cell) {
						if (bo.Op == token.NEQ) != ec.True {
							good = false
						}
						continue
					}
					good = false
				}
				if good && sawRecover {
					unl = true
				}
			}
		})
		if unl {
			deferOK = true
		} else {
			why = "the deferred recovering closure does not unlock the lock cell on the recover()!=nil branch"
		}
	}
	if ex.Exceeded {
		c.Undecided("R12.1", key, pos, "state space exceeded")
		return
	}
	switch {
	case len(r121) > 0:
		c.Violate("R12.1", key, pos, r121[0], r121...)
	case !deferOK:
		c.Violate("R12.1", key, pos, why)
	default:
		c.OK("R12.1", key, pos, "explicit Unlock on every normal path; deferred closure unlocks the captured cell on panic")
	}
	if len(r122) > 0 {
		c.Violate("R12.2", key, pos, r122[0], r122...)
	} else {
		c.OK("R12.2", key, pos, "the lock is released before the next Lock on every path")
	}
}

func isRecoverResult(v ssa.Value) bool {
	v = ssax.Unwrap(v)
	if call, ok := v.(*ssa.Call); ok {
		if b, ok := call.Call.Value.(*ssa.Builtin); ok && b.Name() == "recover" {
			return true
		}
	}
	return false
}

// checkRecover: R12.3 for one function.
func checkRecover(c *core.Ctx, fn *ssa.Function, rule string) {
	ssax.Instrs(fn, func(ins ssa.Instruction) {
		call, ok := ins.(*ssa.Call)
		if !ok {
			return
		}
		b, ok := call.Call.Value.(*ssa.Builtin)
		if !ok || b.Name() != "recover" {
			return
		}
		key := core.FuncName(fn) + "#recover"
		pos := c.P.Pos(call.Pos())
		// find the If testing the result against nil
		var ifi *ssa.If
		var nonNilSucc *ssa.BasicBlock
		for _, r := range *call.Referrers() {
			bo, ok := r.(*ssa.BinOp)
			if !ok || !(ssax.IsNilConst(bo.X) || ssax.IsNilConst(bo.Y)) || (bo.Op != token.NEQ && bo.Op != token.EQL) {
				continue
			}
			for _, rr := range *bo.Referrers() {
				if i2, ok := rr.(*ssa.If); ok {
					ifi = i2
					if bo.Op == token.NEQ {
						nonNilSucc = i2.Block().Succs[0]
					} else {
						nonNilSucc = i2.Block().Succs[1]
					}
				}
			}
		}
		if ifi == nil {
			c.Undecided(rule, key, pos, "recover() result is not tested against nil by an if: idiom not recognised")
			return
		}
		isAbort := func(ins ssa.Instruction) bool {
			cc := ssax.CallOf(ins)
			return isAbortCallee(cc)
		}
		hit, trail := ssax.Reach{
			Target: func(ins ssa.Instruction) bool { _, ok := ins.(*ssa.Return); return ok },
			Avoid:  isAbort,
		}.FromBlock(nonNilSucc)
		if hit != nil {
			c.Violate(rule, key, pos, "a recovered panic can reach the normal return at "+c.P.Pos(hit.Pos())+" without panic(r) or abort: the panic is swallowed and the connection loop never learns of it",
				ssax.BlockTrail(c.P.Fset, trail)...)
		} else {
			c.OK(rule, key, pos, "non-nil branch ends in panic(r) or abort")
		}
	})
}

// wrappedNotLocked: the OrcaConst handed to Locked / LockedWithExisting in app/memproxy.go is a plain orchestrator constructor.
func wrappedNotLocked(c *core.Ctx) {
	app, err := c.P.LoadApp("memproxy.go")
	if err != nil {
		c.Undecided("R12.2", "app/memproxy.go#wiring", "-", "cannot load app/memproxy.go: "+err.Error())
		return
	}
	mainFn := app.SSA.Func("main")
	if mainFn == nil {
		c.Undecided("R12.2", "app/memproxy.go#wiring", "-", "no main function")
		return
	}
	pv := &ssax.Prov{}
	n := 0
	ssax.Instrs(mainFn, func(ins ssa.Instruction) {
		cc := ssax.CallOf(ins)
		name := ssax.CalleeName(cc)
		if name != core.Mod+"/orcas.Locked" && name != core.Mod+"/orcas.LockedWithExisting" {
			return
		}
		n++
		key := fmt.Sprintf("app/memproxy.go:main#%s-arg%d", short(name), n)
		srcs := pv.Sources(cc.Args[0])
		bad := ""
		for _, s := range srcs {
			f, isFn := s.V.(*ssa.Function)
			if s.Kind == "other" && isFn {
				fname := f.Object().(*types.Func).FullName()
				if fname == core.Mod+"/orcas.Locked" || fname == core.Mod+"/orcas.LockedWithExisting" {
					bad = fname
				}
				continue
			}
			if s.Kind == "const" && ssax.IsNilConst(s.V) {
				continue
			}
			bad = "value of unknown origin: " + s.String()
		}
		c.Check(bad == "", "R12.2", key, c.P.Pos(ins.Pos()), "wrapped constructor is one of "+fmt.Sprint(ssax.Strings(srcs)), "the wrapped orchestrator may itself be a locking wrapper ("+bad+"): two key locks held at once")
	})
	if n == 0 {
		c.Undecided("R12.2", "app/memproxy.go#wiring", "-", "no call of orcas.Locked / LockedWithExisting found in main")
	}
}
