package rules

import (
	"fmt"
	"go/token"
	"go/types"
	"sort"
	"strings"

	"golang.org/x/tools/go/ssa"

	"rendlint/core"
	"rendlint/ssax"
)

// batchTablesOf walks backwards from v (operands of every instruction, the updates of maps built locally, the ranges
// values were taken from) and reports which of the batch's bookkeeping tables ("channels": outstanding replies per
// channel, "responses": handles of the replies still owed) it derives from.
func batchTablesOf(v ssa.Value) map[string]bool {
	out := map[string]bool{}
	seen := map[ssa.Value]bool{}
	var walk func(v ssa.Value, depth int)
	walk = func(v ssa.Value, depth int) {
		if v == nil || seen[v] || depth > 24 {
			return
		}
		seen[v] = true
		for _, f := range []string{"channels", "responses"} {
			if isFieldLoad(v, f) {
				out[f] = true
				return
			}
		}
		if mm, ok := v.(*ssa.MakeMap); ok {
			// a set/map built locally: what its updates store
			if mm.Referrers() != nil {
				for _, r := range *mm.Referrers() {
					if mu, ok := r.(*ssa.MapUpdate); ok {
						walk(mu.Key, depth+1)
						walk(mu.Value, depth+1)
					}
				}
			}
		}
		if ins, ok := v.(ssa.Instruction); ok {
			for _, op := range ins.Operands(nil) {
				if op != nil && *op != nil {
					walk(*op, depth+1)
				}
			}
		}
	}
	walk(v, 0)
	return out
}

// markerGuardTables: the tables the guard of the retry-marker send consults, and whether the guard has one of the
// recognised forms (count > 0 of the channel's outstanding replies; membership among the handles still owed).
func markerGuardTables(markerSend ssa.Instruction) (tables map[string]bool, ok bool) {
	tables = map[string]bool{}
	for _, ec := range ssax.DomConds(markerSend.Block()) {
		cond, truth := ec.Cond, ec.True
		for {
			if u, isU := cond.(*ssa.UnOp); isU && u.Op == token.NOT {
				cond, truth = u.X, !truth
				continue
			}
			break
		}
		switch x := cond.(type) {
		case *ssa.BinOp:
			pos := (x.Op == token.GTR && truth && isConstZero(x.Y)) || (x.Op == token.LSS && truth && isConstZero(x.X)) ||
				(x.Op == token.NEQ && truth && (isConstZero(x.Y) || isConstZero(x.X))) ||
				(x.Op == token.LEQ && !truth && isConstZero(x.Y)) || (x.Op == token.EQL && !truth && (isConstZero(x.Y) || isConstZero(x.X)))
			if pos {
				for t := range batchTablesOf(x) {
					if t == "channels" {
						tables[t] = true
						ok = true
					}
				}
			}
		case *ssa.Extract:
			// _, present := set[ch]
			if lk, isLk := x.Tuple.(*ssa.Lookup); isLk && lk.CommaOk && x.Index == 1 && truth {
				for t := range batchTablesOf(lk.X) {
					tables[t] = true
					ok = true
				}
			}
		}
	}
	return
}

// checkBookkeepingAtHandOver (R13.9): whichever table recovery consults to decide who still waits, the reader removes a
// reply's entry from it only when the reply is handed over: between that removal and the send of the reply (or the
// read of the next reply's header) no edge leads into recovery. An entry removed before the reply's body is read is
// missing exactly when the connection breaks in that body: recovery then tells nobody, closes the channel, and the
// caller takes the zero response for a success.
func checkBookkeepingAtHandOver(c *core.Ctx, rule string, rd *ssa.Function) {
	rec := findFunc(c, relBatched, "(*conn).recoveryMonitor", rolePoolRecovery)
	if rec == nil {
		c.Undecided(rule, "reader#bookkeeping-at-hand-over", "-", "recovery goroutine not found")
		return
	}
	pv := &ssax.Prov{}
	var markerSend ssa.Instruction
	ssax.Instrs(rec, func(ins ssa.Instruction) {
		if x, ok := ins.(*ssa.Send); ok && strings.HasSuffix(types.TypeString(x.X.Type(), nil), "batched.response") {
			if ssax.All(pv.Sources(x.X, "err"), func(s ssax.Src) bool { return s.Kind == "global" && strings.HasPrefix(s.V.Name(), "errRetry") }) {
				markerSend = ins
			}
		}
	})
	if markerSend == nil {
		c.Undecided(rule, "reader#bookkeeping-at-hand-over", c.P.Pos(rec.Pos()), "recovery sends no retry marker (see R13.2)")
		return
	}
	consulted, ok := markerGuardTables(markerSend)
	if !ok {
		c.Undecided(rule, "reader#bookkeeping-at-hand-over", c.P.Pos(markerSend.Pos()), "the guard of the retry-marker send consults none of the batch's tables in a recognised form (see R13.2)")
		return
	}
	// recovery edges of the reader: jumps into the service loop's head that carry flag == true
	loops := ssax.Loops(rd)
	var flag *ssa.Phi
	for _, l := range loops {
		for _, ins := range l.Header.Instrs {
			phi, isPhi := ins.(*ssa.Phi)
			if !isPhi {
				break
			}
			if types.TypeString(phi.Type(), nil) == "bool" {
				for _, e := range phi.Edges {
					if k, isC := ssax.ConstInt(e); isC && k == 1 {
						flag = phi
					}
				}
			}
		}
	}
	if flag == nil {
		c.Undecided(rule, "reader#bookkeeping-at-hand-over", c.P.Pos(rd.Pos()), "no recovery flag found in the reader (see R13.1)")
		return
	}
	recoveryJump := map[ssa.Instruction]bool{}
	for i, p := range flag.Block().Preds {
		if k, isC := ssax.ConstInt(flag.Edges[i]); isC && k == 1 {
			recoveryJump[p.Instrs[len(p.Instrs)-1]] = true
		}
	}
	isHandOver := func(ins ssa.Instruction) bool {
		if snd, isS := ins.(*ssa.Send); isS && strings.HasSuffix(types.TypeString(snd.X.Type(), nil), "batched.response") {
			return true
		}
		cc := ssax.CallOf(ins)
		return cc != nil && ssax.CalleeName(cc) == pBinprot+".ReadResponseHeader"
	}
	counts := map[string]int{}
	n := 0
	ssax.Instrs(rd, func(ins ssa.Instruction) {
		table := ""
		switch x := ins.(type) {
		case *ssa.MapUpdate:
			for _, t := range []string{"channels", "responses"} {
				if isFieldLoad(x.Map, t) {
					table = t
				}
			}
		default:
			if cc := ssax.CallOf(ins); cc != nil {
				if b, isB := cc.Value.(*ssa.Builtin); isB && b.Name() == "delete" {
					for _, t := range []string{"channels", "responses"} {
						if isFieldLoad(cc.Args[0], t) {
							table = t
						}
					}
				}
			}
		}
		if table == "" {
			return
		}
		key := ordinalKey(counts, "reader#"+table+"-entry-removed-at-hand-over")
		if !consulted[table] {
			c.Info(rule, key, c.P.Pos(ins.Pos()), "recovery does not consult this table")
			return
		}
		n++
		hit, trail := (ssax.Reach{
			Target: func(i ssa.Instruction) bool { return recoveryJump[i] },
			Avoid:  isHandOver,
		}).From(ins)
		c.Check(hit == nil, rule, key, c.P.Pos(ins.Pos()), "after the entry is removed nothing can fail before the reply is handed over (or the next reply is read)",
			"the reply's entry is removed from batch."+table+", which recovery consults, and the reader can still fail into recovery before that reply is handed over ("+strings.Join(ssax.BlockTrail(c.P.Fset, trail), " -> ")+"): recovery then sends no retry marker, closes the channel and the caller takes the zero response for a success")
	})
	if n == 0 {
		c.Undecided(rule, "reader#bookkeeping-at-hand-over", c.P.Pos(rd.Pos()), "the reader never removes an entry from the table recovery consults")
	}
}

// checkCallersKeepReceiving (R13.12): a caller never abandons its reply channel while the pool may still send on it.
// The loops that receive the replies of a multi-key request are left only when the channel is closed - or, at most,
// on the retry marker, and then only if recovery sends that marker at most once per channel and closes it right after.
// A caller that leaves earlier makes the reader or the recovery goroutine block forever on an unbuffered send: the
// pooled connection is wedged, never reconnects, and every later request routed to it hangs.
func checkCallersKeepReceiving(c *core.Ctx, rule string) {
	// how often recovery sends the marker per channel
	rec := findFunc(c, relBatched, "(*conn).recoveryMonitor", rolePoolRecovery)
	markerMany, markerKnown := false, false
	pv := &ssax.Prov{}
	if rec != nil {
		loops := ssax.Loops(rec)
		ssax.Instrs(rec, func(ins ssa.Instruction) {
			x, ok := ins.(*ssa.Send)
			if !ok || !strings.HasSuffix(types.TypeString(x.X.Type(), nil), "batched.response") {
				return
			}
			if !ssax.All(pv.Sources(x.X, "err"), func(s ssax.Src) bool { return s.Kind == "global" && strings.HasPrefix(s.V.Name(), "errRetry") }) {
				return
			}
			markerKnown = true
			// the loop over the batch's channels is the innermost loop holding a Next over a range; a loop nested
			// inside it that contains the send repeats the marker
			l := ssax.InnermostLoop(loops, ins.Block())
			isRangeLoop := false
			if l != nil {
				for _, hi := range l.Header.Instrs {
					if _, isNext := hi.(*ssa.Next); isNext {
						isRangeLoop = true
					}
				}
			}
			if l != nil && !isRangeLoop {
				markerMany = true
			}
		})
	}
	n := 0
	for _, fn := range pkgFuncs(c, relBatched) {
		loops := ssax.Loops(fn)
		counts := map[string]int{}
		for _, l := range loops {
			// a receive loop: the header receives (comma-ok) from a channel of responses
			isRecv := false
			for _, hi := range l.Header.Instrs {
				if u, ok := hi.(*ssa.UnOp); ok && u.Op == token.ARROW && u.CommaOk {
					if ch, isCh := u.X.Type().Underlying().(*types.Chan); isCh && strings.HasSuffix(types.TypeString(ch.Elem(), nil), "batched.response") {
						isRecv = true
					}
				}
			}
			if !isRecv {
				continue
			}
			n++
			key := ordinalKey(counts, core.FuncName(fn)+"#reply-loop-runs-to-close")
			var early, onMarker []string
			for b := range l.Blocks {
				exits := false
				for _, s := range b.Succs {
					if !l.Blocks[s] {
						exits = true
					}
				}
				if _, isRet := b.Instrs[len(b.Instrs)-1].(*ssa.Return); isRet {
					exits = true
				}
				if !exits || b == l.Header {
					continue
				}
				marker := false
				conds := append(ssax.DomConds(b), ssax.EdgeConds(b)...)
				if ifi, isIf := b.Instrs[len(b.Instrs)-1].(*ssa.If); isIf && b.Succs[0] != b.Succs[1] {
					// the exit edge itself is a branch of this block
					if !l.Blocks[b.Succs[0]] && l.Blocks[b.Succs[1]] {
						conds = append(conds, ssax.EdgeCond{Cond: ifi.Cond, True: true, If: ifi})
					} else if !l.Blocks[b.Succs[1]] && l.Blocks[b.Succs[0]] {
						conds = append(conds, ssax.EdgeCond{Cond: ifi.Cond, True: false, If: ifi})
					}
				}
				for _, ec := range conds {
					bo, ok := ec.Cond.(*ssa.BinOp)
					if !ok || !((bo.Op == token.EQL && ec.True) || (bo.Op == token.NEQ && !ec.True)) {
						continue
					}
					for _, side := range []ssa.Value{bo.X, bo.Y} {
						if g := ssax.GlobalLoad(side); g != nil && strings.HasPrefix(g.Name(), "errRetry") {
							marker = true
						}
					}
				}
				if marker {
					onMarker = append(onMarker, c.P.Pos(firstPos(b)))
				} else {
					early = append(early, c.P.Pos(firstPos(b)))
				}
			}
			sort.Strings(early)
			sort.Strings(onMarker)
			pos := c.P.Pos(firstPos(l.Header))
			switch {
			case len(early) > 0:
				c.Violate(rule, key, pos, "the loop receiving the replies of a multi-key request is left at "+strings.Join(early, ", ")+" while the channel is still open: the pool's next send on it blocks forever and the pooled connection is wedged")
			case len(onMarker) > 0 && (!markerKnown || markerMany):
				c.Violate(rule, key, pos, "the loop is left on the retry marker at "+strings.Join(onMarker, ", ")+", but recovery may send that marker more than once per channel: its second send blocks forever, the connection never reconnects and every later request on it hangs")
			case len(onMarker) > 0:
				c.OK(rule, key, pos, "left only when the channel is closed or on the retry marker, which recovery sends at most once per channel immediately before closing it")
			default:
				c.OK(rule, key, pos, "left only when the channel is closed")
			}
		}
	}
	if n == 0 {
		c.Undecided(rule, "batched#reply-loops", "-", "no loop receiving pool replies found")
	}
}

// checkFixedTableIndices (R13.13 / R10.9): the pool's goroutines (reader, batcher, recovery, the per-call goroutines of
// the multi-key gets) run outside the connection loop's recover, so an index out of range there terminates the whole
// process. Every non-constant index into a package-level table whose size is fixed at initialisation is dominated by a
// comparison that keeps it below that size.
func checkFixedTableIndices(c *core.Ctx, rule string) {
	pkg := c.P.Pkg(relBatched)
	if pkg == nil {
		c.Undecided(rule, "batched#fixed-tables", "-", "package not found")
		return
	}
	size := map[*ssa.Global]int64{}
	for _, fn := range pkgFuncs(c, relBatched) {
		ssax.Instrs(fn, func(ins ssa.Instruction) {
			st, ok := ins.(*ssa.Store)
			if !ok {
				return
			}
			g, isG := st.Addr.(*ssa.Global)
			if !isG {
				return
			}
			if ms, isMS := st.Val.(*ssa.MakeSlice); isMS {
				if k, isC := ssax.ConstInt(ms.Len); isC {
					if old, seen := size[g]; !seen || k < old {
						size[g] = k
					}
					return
				}
			}
			// make([]T, constant) is built as new([K]T)[:]
			if sl, isSl := st.Val.(*ssa.Slice); isSl && sl.Low == nil {
				if pt, isP := sl.X.Type().Underlying().(*types.Pointer); isP {
					if at, isA := pt.Elem().Underlying().(*types.Array); isA {
						n := at.Len()
						if sl.High != nil {
							h, isC := ssax.ConstInt(sl.High)
							if !isC {
								size[g] = -1
								return
							}
							n = h
						}
						if old, seen := size[g]; !seen || n < old {
							size[g] = n
						}
						return
					}
				}
			}
			if _, isSlice := g.Type().(*types.Pointer).Elem().Underlying().(*types.Slice); isSlice {
				size[g] = -1 // stored from something else: size unknown
			}
		})
	}
	n := 0
	for _, fn := range pkgFuncs(c, relBatched) {
		if fn.Name() == "init" || strings.HasPrefix(fn.Name(), "init#") {
			continue
		}
		counts := map[string]int{}
		ssax.Instrs(fn, func(ins ssa.Instruction) {
			ia, ok := ins.(*ssa.IndexAddr)
			if !ok {
				return
			}
			g := ssax.GlobalLoad(ia.X)
			if g == nil {
				return
			}
			k, known := size[g]
			if !known {
				return
			}
			if _, isConst := ssax.ConstInt(ia.Index); isConst {
				return
			}
			n++
			key := ordinalKey(counts, core.FuncName(fn)+"#index:"+g.Name())
			if k < 0 {
				c.Undecided(rule, key, c.P.Pos(ia.Pos()), "the table's size is not a constant fixed at initialisation")
				return
			}
			ok2 := false
			for _, ec := range ssax.DomConds(ia.Block()) {
				bo, isBO := ec.Cond.(*ssa.BinOp)
				if !isBO {
					continue
				}
				bound := func(v ssa.Value) (int64, bool) {
					if kk, isC := ssax.ConstInt(v); isC {
						return kk, true
					}
					if call, isCall := ssax.Unwrap(v).(*ssa.Call); isCall {
						if b, isB := call.Call.Value.(*ssa.Builtin); isB && b.Name() == "len" && ssax.GlobalLoad(call.Call.Args[0]) == g {
							return k, true
						}
					}
					return 0, false
				}
				isIdx := func(v ssa.Value) bool { return ssax.Unwrap(v) == ssax.Unwrap(ia.Index) }
				switch {
				case bo.Op == token.LSS && ec.True && isIdx(bo.X):
					if b, okb := bound(bo.Y); okb && b <= k {
						ok2 = true
					}
				case bo.Op == token.LEQ && ec.True && isIdx(bo.X):
					if b, okb := bound(bo.Y); okb && b <= k-1 {
						ok2 = true
					}
				case bo.Op == token.GEQ && !ec.True && isIdx(bo.X):
					if b, okb := bound(bo.Y); okb && b <= k {
						ok2 = true
					}
				case bo.Op == token.GTR && !ec.True && isIdx(bo.X):
					if b, okb := bound(bo.Y); okb && b <= k-1 {
						ok2 = true
					}
				case bo.Op == token.GTR && ec.True && isIdx(bo.Y):
					if b, okb := bound(bo.X); okb && b <= k {
						ok2 = true
					}
				}
			}
			c.Check(ok2, rule, key, c.P.Pos(ia.Pos()), fmt.Sprintf("the index is kept below the table's size (%d) by a dominating comparison", k),
				fmt.Sprintf("%s has %d entries, fixed at initialisation, and is indexed here by a value no dominating comparison keeps below %d: the index runs past the end on a long outage / many retries, and the panic - on a goroutine of the pool, outside the connection loop's recover - terminates the process", g.Name(), k, k))
		})
	}
	if n == 0 {
		c.Undecided(rule, "batched#fixed-tables", "-", "no variable index into a fixed-size package-level table found")
	}
}
