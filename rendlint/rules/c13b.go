package rules

import (
	"fmt"
	"go/token"
	"go/types"
	"sort"
	"strings"

	"golang.org/x/tools/go/ssa"

	"rendlint/core"
	"rendlint/ssax"
)

// batchTablesOf walks backwards from v (operands of every instruction, the updates of maps built locally, the ranges
// values were taken from) and reports which of the batch's bookkeeping tables ("channels": outstanding replies per
// channel, "responses": handles of the replies still owed) it derives from.
func batchTablesOf(v ssa.Value) map[string]bool {
	out := map[string]bool{}
	seen := map[ssa.Value]bool{}
	var walk func(v ssa.Value, depth int)
	walk = func(v ssa.Value, depth int) {
		if v == nil || seen[v] || depth > 24 {
			return
		}
		seen[v] = true
		for _, f := range []string{"channels", "responses"} {
			if isFieldLoad(v, f) {
				out[f] = true
				return
			}
		}
		if mm, ok := v.(*ssa.MakeMap); ok {
			// a set/map built locally: what its updates store
			if mm.Referrers() != nil {
				for _, r := range *mm.Referrers() {
					if mu, ok := r.(*ssa.MapUpdate); ok {
						walk(mu.Key, depth+1)
						walk(mu.Value, depth+1)
					}
				}
			}
		}
		if ins, ok := v.(ssa.Instruction); ok {
			for _, op := range ins.Operands(nil) {
				if op != nil && *op != nil {
					walk(*op, depth+1)
				}
			}
		}
	}
	walk(v, 0)
	return out
}

// markerGuardTables: the tables the guard of the retry-marker send consults, and whether the guard has one of the
// recognised forms (count > 0 of the channel's outstanding replies; membership among the handles still owed).
func markerGuardTables(markerSend ssa.Instruction) (tables map[string]bool, ok bool) {
	tables = map[string]bool{}
	for _, ec := range ssax.DomConds(markerSend.Block()) {
		cond, truth := ec.Cond, ec.True
		for {
			if u, isU := cond.(*ssa.UnOp); isU && u.Op == token.NOT {
				cond, truth = u.X, !truth
				continue
			}
			break
		}
		switch x := cond.(type) {
		case *ssa.BinOp:
			pos := (x.Op == token.GTR && truth && isConstZero(x.Y)) || (x.Op == token.LSS && truth && isConstZero(x.X)) ||
				(x.Op == token.NEQ && truth && (isConstZero(x.Y) || isConstZero(x.X))) ||
				(x.Op == token.LEQ && !truth && isConstZero(x.Y)) || (x.Op == token.EQL && !truth && (isConstZero(x.Y) || isConstZero(x.X)))
			if pos {
				for t := range batchTablesOf(x) {
					if t == "channels" {
						tables[t] = true
						ok = true
					}
				}
			}
		case *ssa.Extract:
			// _, present := set[ch]
			if lk, isLk := x.Tuple.(*ssa.Lookup); isLk && lk.CommaOk && x.Index == 1 && truth {
				for t := range batchTablesOf(lk.X) {
					tables[t] = true
					ok = true
				}
			}
		}
	}
	return
}

// checkBookkeepingAtHandOver (R13.9): whichever table recovery consults to decide who still waits, the reader removes a
// reply's entry from it only when the reply is handed over: between that removal and the send of the reply (or the
// read of the next reply's header) no edge leads into recovery. An entry removed before the reply's body is read is
// missing exactly when the connection breaks in that body: recovery then tells nobody, closes the channel, and the
// caller takes the zero response for a success.
func checkBookkeepingAtHandOver(c *core.Ctx, rule string, rd *ssa.Function) {
	rec := findFunc(c, relBatched, "(*conn).recoveryMonitor", rolePoolRecovery)
	if rec == nil {
		c.Undecided(rule, "reader#bookkeeping-at-hand-over", "-", "recovery goroutine not found")
		return
	}
	pv := &ssax.Prov{}
	var markerSend ssa.Instruction
	ssax.Instrs(rec, func(ins ssa.Instruction) {
		if x, ok := ins.(*ssa.Send); ok && strings.HasSuffix(types.TypeString(x.X.Type(), nil), "batched.response") {
			if ssax.All(pv.Sources(x.X, "err"), func(s ssax.Src) bool { return s.Kind == "global" && strings.HasPrefix(s.V.Name(), "errRetry") }) {
				markerSend = ins
			}
		}
	})
	if markerSend == nil {
		c.Undecided(rule, "reader#bookkeeping-at-hand-over", c.P.Pos(rec.Pos()), "recovery sends no retry marker (see R13.2)")
		return
	}
	consulted, ok := markerGuardTables(markerSend)
	if !ok {
		c.Undecided(rule, "reader#bookkeeping-at-hand-over", c.P.Pos(markerSend.Pos()), "the guard of the retry-marker send consults none of the batch's tables in a recognised form (see R13.2)")
		return
	}
	// recovery edges of the reader: jumps into the service loop's head that carry flag == true
	loops := ssax.Loops(rd)
	var flag *ssa.Phi
	for _, l := range loops {
		for _, ins := range l.Header.Instrs {
			phi, isPhi := ins.(*ssa.Phi)
			if !isPhi {
				break
			}
			if types.TypeString(phi.Type(), nil) == "bool" {
				for _, e := range phi.Edges {
					if k, isC := ssax.ConstInt(e); isC && k == 1 {
						flag = phi
					}
				}
			}
		}
	}
	if flag == nil {
		c.Undecided(rule, "reader#bookkeeping-at-hand-over", c.P.Pos(rd.Pos()), "no recovery flag found in the reader (see R13.1)")
		return
	}
	recoveryJump := map[ssa.Instruction]bool{}
	for i, p := range flag.Block().Preds {
		if k, isC := ssax.ConstInt(flag.Edges[i]); isC && k == 1 {
			recoveryJump[p.Instrs[len(p.Instrs)-1]] = true
		}
	}
	isHandOver := func(ins ssa.Instruction) bool {
		if snd, isS := ins.(*ssa.Send); isS && strings.HasSuffix(types.TypeString(snd.X.Type(), nil), "batched.response") {
			return true
		}
		cc := ssax.CallOf(ins)
		return cc != nil && ssax.CalleeName(cc) == pBinprot+".ReadResponseHeader"
	}
	counts := map[string]int{}
	n := 0
	ssax.Instrs(rd, func(ins ssa.Instruction) {
		table := ""
		switch x := ins.(type) {
		case *ssa.MapUpdate:
			for _, t := range []string{"channels", "responses"} {
				if isFieldLoad(x.Map, t) {
					table = t
				}
			}
		default:
			if cc := ssax.CallOf(ins); cc != nil {
				if b, isB := cc.Value.(*ssa.Builtin); isB && b.Name() == "delete" {
					for _, t := range []string{"channels", "responses"} {
						if isFieldLoad(cc.Args[0], t) {
							table = t
						}
					}
				}
			}
		}
		if table == "" {
			return
		}
		key := ordinalKey(counts, "reader#"+table+"-entry-removed-at-hand-over")
		if !consulted[table] {
			c.Info(rule, key, c.P.Pos(ins.Pos()), "recovery does not consult this table")
			return
		}
		n++
		hit, trail := (ssax.Reach{
			Target: func(i ssa.Instruction) bool { return recoveryJump[i] },
			Avoid:  isHandOver,
		}).From(ins)
		c.Check(hit == nil, rule, key, c.P.Pos(ins.Pos()), "after the entry is removed nothing can fail before the reply is handed over (or the next reply is read)",
			"the reply's entry is removed from batch."+table+", which recovery consults, and the reader can still fail into recovery before that reply is handed over ("+strings.Join(ssax.BlockTrail(c.P.Fset, trail), " -> ")+"): recovery then sends no retry marker, closes the channel and the caller takes the zero response for a success")
	})
	if n == 0 {
		c.Undecided(rule, "reader#bookkeeping-at-hand-over", c.P.Pos(rd.Pos()), "the reader never removes an entry from the table recovery consults")
	}
}

// checkCallersKeepReceiving (R13.12): a caller never abandons its reply channel while the pool may still send on it.
// The loops that receive the replies of a multi-key request are left only when the channel is closed - or, at most,
// on the retry marker, and then only if recovery sends that marker at most once per channel and closes it right after.
// A caller that leaves earlier makes the reader or the recovery goroutine block forever on an unbuffered send: the
// pooled connection is wedged, never reconnects, and every later request routed to it hangs.
func checkCallersKeepReceiving(c *core.Ctx, rule string) {
	// how often recovery sends the marker per channel
	rec := findFunc(c, relBatched, "(*conn).recoveryMonitor", rolePoolRecovery)
	markerMany, markerKnown := false, false
	pv := &ssax.Prov{}
	if rec != nil {
		loops := ssax.Loops(rec)
		ssax.Instrs(rec, func(ins ssa.Instruction) {
			x, ok := ins.(*ssa.Send)
			if !ok || !strings.HasSuffix(types.TypeString(x.X.Type(), nil), "batched.response") {
				return
			}
			if !ssax.All(pv.Sources(x.X, "err"), func(s ssax.Src) bool { return s.Kind == "global" && strings.HasPrefix(s.V.Name(), "errRetry") }) {
				return
			}
			markerKnown = true
			// the loop over the batch's channels is the innermost loop holding a Next over a range; a loop nested
			// inside it that contains the send repeats the marker
			l := ssax.InnermostLoop(loops, ins.Block())
			isRangeLoop := false
			if l != nil {
				for _, hi := range l.Header.Instrs {
					if _, isNext := hi.(*ssa.Next); isNext {
						isRangeLoop = true
					}
				}
			}
			if l != nil && !isRangeLoop {
				markerMany = true
			}
		})
	}
	n := 0
	for _, fn := range pkgFuncs(c, relBatched) {
		loops := ssax.Loops(fn)
		counts := map[string]int{}
		for _, l := range loops {
			// a receive loop: the header receives (comma-ok) from a channel of responses
			isRecv := false
			for _, hi := range l.Header.Instrs {
				if u, ok := hi.(*ssa.UnOp); ok && u.Op == token.ARROW && u.CommaOk {
					if ch, isCh := u.X.Type().Underlying().(*types.Chan); isCh && strings.HasSuffix(types.TypeString(ch.Elem(), nil), "batched.response") {
						isRecv = true
					}
				}
			}
			if !isRecv {
				continue
			}
			n++
			key := ordinalKey(counts, core.FuncName(fn)+"#reply-loop-runs-to-close")
			var early, onMarker []string
			for b := range l.Blocks {
				exits := false
				for _, s := range b.Succs {
					if !l.Blocks[s] {
						exits = true
					}
				}
				if _, isRet := b.Instrs[len(b.Instrs)-1].(*ssa.Return); isRet {
					exits = true
				}
				if !exits || b == l.Header {
					continue
				}
				marker := false
				conds := append(ssax.DomConds(b), ssax.EdgeConds(b)...)
				if ifi, isIf := b.Instrs[len(b.Instrs)-1].(*ssa.If); isIf && b.Succs[0] != b.Succs[1] {
					// the exit edge itself is a branch of this block
					if !l.Blocks[b.Succs[0]] && l.Blocks[b.Succs[1]] {
						conds = append(conds, ssax.EdgeCond{Cond: ifi.Cond, True: true, If: ifi})
					} else if !l.Blocks[b.Succs[1]] && l.Blocks[b.Succs[0]] {
						conds = append(conds, ssax.EdgeCond{Cond: ifi.Cond, True: false, If: ifi})
					}
				}
				for _, ec := range conds {
					bo, ok := ec.Cond.(*ssa.BinOp)
					if !ok || !((bo.Op == token.EQL && ec.True) || (bo.Op == token.NEQ && !ec.True)) {
						continue
					}
					for _, side := range []ssa.Value{bo.X, bo.Y} {
						if g := ssax.GlobalLoad(side); g != nil && strings.HasPrefix(g.Name(), "errRetry") {
							marker = true
						}
					}
				}
				if marker {
					onMarker = append(onMarker, c.P.Pos(firstPos(b)))
				} else {
					early = append(early, c.P.Pos(firstPos(b)))
				}
			}
			sort.Strings(early)
			sort.Strings(onMarker)
			pos := c.P.Pos(firstPos(l.Header))
			switch {
			case len(early) > 0:
				c.Violate(rule, key, pos, "the loop receiving the replies of a multi-key request is left at "+strings.Join(early, ", ")+" while the channel is still open: the pool's next send on it blocks forever and the pooled connection is wedged")
			case len(onMarker) > 0 && (!markerKnown || markerMany):
				c.Violate(rule, key, pos, "the loop is left on the retry marker at "+strings.Join(onMarker, ", ")+", but recovery may send that marker more than once per channel: its second send blocks forever, the connection never reconnects and every later request on it hangs")
			case len(onMarker) > 0:
				c.OK(rule, key, pos, "left only when the channel is closed or on the retry marker, which recovery sends at most once per channel immediately before closing it")
			default:
				c.OK(rule, key, pos, "left only when the channel is closed")
			}
		}
	}
	if n == 0 {
		c.Undecided(rule, "batched#reply-loops", "-", "no loop receiving pool replies found")
	}
}

// checkFixedTableIndices (R13.13 / R10.9): the pool's goroutines (reader, batcher, recovery, the per-call goroutines of
// the multi-key gets) run outside the connection loop's recover, so an index out of range there terminates the whole
// process. Every non-constant index into a package-level table whose size is fixed at initialisation is dominated by a
// comparison that keeps it below that size.
func checkFixedTableIndices(c *core.Ctx, rule string) {
	pkg := c.P.Pkg(relBatched)
	if pkg == nil {
		c.Undecided(rule, "batched#fixed-tables", "-", "package not found")
		return
	}
	size := map[*ssa.Global]int64{}
	for _, fn := range pkgFuncs(c, relBatched) {
		ssax.Instrs(fn, func(ins ssa.Instruction) {
			st, ok := ins.(*ssa.Store)
			if !ok {
				return
			}
			g, isG := st.Addr.(*ssa.Global)
			if !isG {
				return
			}
			if ms, isMS := st.Val.(*ssa.MakeSlice); isMS {
				if k, isC := ssax.ConstInt(ms.Len); isC {
					if old, seen := size[g]; !seen || k < old {
						size[g] = k
					}
					return
				}
			}
			// make([]T, constant) is built as new([K]T)[:]
			if sl, isSl := st.Val.(*ssa.Slice); isSl && sl.Low == nil {
				if pt, isP := sl.X.Type().Underlying().(*types.Pointer); isP {
					if at, isA := pt.Elem().Underlying().(*types.Array); isA {
						n := at.Len()
						if sl.High != nil {
							h, isC := ssax.ConstInt(sl.High)
							if !isC {
								size[g] = -1
								return
							}
							n = h
						}
						if old, seen := size[g]; !seen || n < old {
							size[g] = n
						}
						return
					}
				}
			}
			if _, isSlice := g.Type().(*types.Pointer).Elem().Underlying().(*types.Slice); isSlice {
				size[g] = -1 // stored from something else: size unknown
			}
		})
	}
	n := 0
	for _, fn := range pkgFuncs(c, relBatched) {
		if fn.Name() == "init" || strings.HasPrefix(fn.Name(), "init#") {
			continue
		}
		counts := map[string]int{}
		ssax.Instrs(fn, func(ins ssa.Instruction) {
			ia, ok := ins.(*ssa.IndexAddr)
			if !ok {
				return
			}
			g := ssax.GlobalLoad(ia.X)
			if g == nil {
				return
			}
			k, known := size[g]
			if !known {
				return
			}
			if _, isConst := ssax.ConstInt(ia.Index); isConst {
				return
			}
			n++
			key := ordinalKey(counts, core.FuncName(fn)+"#index:"+g.Name())
			if k < 0 {
				c.Undecided(rule, key, c.P.Pos(ia.Pos()), "the table's size is not a constant fixed at initialisation")
				return
			}
			ok2 := false
			for _, ec := range ssax.DomConds(ia.Block()) {
				bo, isBO := ec.Cond.(*ssa.BinOp)
				if !isBO {
					continue
				}
				bound := func(v ssa.Value) (int64, bool) {
					if kk, isC := ssax.ConstInt(v); isC {
						return kk, true
					}
					if call, isCall := ssax.Unwrap(v).(*ssa.Call); isCall {
						if b, isB := call.Call.Value.(*ssa.Builtin); isB && b.Name() == "len" && ssax.GlobalLoad(call.Call.Args[0]) == g {
							return k, true
						}
					}
					return 0, false
				}
				isIdx := func(v ssa.Value) bool { return ssax.Unwrap(v) == ssax.Unwrap(ia.Index) }
				switch {
				case bo.Op == token.LSS && ec.True && isIdx(bo.X):
					if b, okb := bound(bo.Y); okb && b <= k {
						ok2 = true
					}
				case bo.Op == token.LEQ && ec.True && isIdx(bo.X):
					if b, okb := bound(bo.Y); okb && b <= k-1 {
						ok2 = true
					}
				case bo.Op == token.GEQ && !ec.True && isIdx(bo.X):
					if b, okb := bound(bo.Y); okb && b <= k {
						ok2 = true
					}
				case bo.Op == token.GTR && !ec.True && isIdx(bo.X):
					if b, okb := bound(bo.Y); okb && b <= k-1 {
						ok2 = true
					}
				case bo.Op == token.GTR && ec.True && isIdx(bo.Y):
					if b, okb := bound(bo.X); okb && b <= k {
						ok2 = true
					}
				}
			}
			c.Check(ok2, rule, key, c.P.Pos(ia.Pos()), fmt.Sprintf("the index is kept below the table's size (%d) by a dominating comparison", k),
				fmt.Sprintf("%s has %d entries, fixed at initialisation, and is indexed here by a value no dominating comparison keeps below %d: the index runs past the end on a long outage / many retries, and the panic - on a goroutine of the pool, outside the connection loop's recover - terminates the process", g.Name(), k, k))
		})
	}
	if n == 0 {
		c.Undecided(rule, "batched#fixed-tables", "-", "no variable index into a fixed-size package-level table found")
	}
}

// checkStreamFixedAtHandOff (R13.14, shared as R14.11): recovery replaces the pooled connection's stream (the fields
// reconnect assigns). The batcher hands a batch to the reader and only then writes it; the reader may fail, and recovery
// may swap the stream, at any moment after the hand-off. A read of such a field by the batcher after a hand-off is
// ordered with recovery's write only in one of two ways:
//
//   - it comes after a synchronisation with the recovery side (a receive from a channel recovery sends on after the
//     reconnect, a lock reconnect also takes, or the next hand-off, which the reader only takes once recovery is over);
//   - or recovery waits for the batcher: reconnect is called only after a receive from a channel X ("ordering channel")
//     on which the batcher sends once per batch after its last use of the stream. Then the per-batch token has to be
//     balanced - one send per hand-off, one receive per batch on the reader/recovery side - or the token recovery
//     receives belongs to another batch (no ordering) or never arrives (the pool is wedged); and recovery has to close
//     the broken connection before it waits, or a batcher blocked in the write keeps it waiting forever.
//
// Anything else is a data race under the Go memory model, and the batch may be written to the new connection although
// its callers were already told to retry.
func checkStreamFixedAtHandOff(c *core.Ctx, rule string) {
	rec := findFunc(c, relBatched, "(*conn).reconnect", rolePoolReconnect)
	key := "(*conn).batcher#stream-read-after-hand-off"
	if rec == nil {
		c.Undecided(rule, key, "-", "reconnect not found")
		return
	}
	swapped := map[string]bool{}
	reconnectLocks := map[string]bool{}
	ssax.Instrs(rec, func(ins ssa.Instruction) {
		if st, ok := ins.(*ssa.Store); ok {
			if fa, ok := st.Addr.(*ssa.FieldAddr); ok {
				if _, isParam := ssax.Unwrap(fa.X).(*ssa.Parameter); isParam {
					f, _ := ssax.FieldName(fa)
					swapped[f] = true
				}
			}
		}
		if cc := ssax.CallOf(ins); cc != nil && strings.HasSuffix(ssax.CalleeName(cc), ").Lock") {
			reconnectLocks[ssax.LockKey(cc.Args[0])] = true
		}
	})
	if len(swapped) == 0 {
		c.OK(rule, key, c.P.Pos(rec.Pos()), "reconnect assigns no field of the connection")
		return
	}
	// the batcher: the goroutine function of the connection that sends on the hand-off channel
	var batcher, reader *ssa.Function
	var handOffs, takes []ssa.Instruction
	for _, fn := range pkgFuncs(c, relBatched) {
		ssax.Instrs(fn, func(ins ssa.Instruction) {
			if isChanSendOn(ins, "batchchan") {
				batcher = fn
				handOffs = append(handOffs, ins)
			}
			if isChanRecvOn(ins, "batchchan") {
				reader = fn
				takes = append(takes, ins)
			}
		})
	}
	if batcher == nil {
		c.Undecided(rule, key, "-", "no function hands batches to the reader")
		return
	}
	// the call sites of reconnect that can run while the batcher exists (not the constructor's, which precedes `go`)
	type site struct {
		fn  *ssa.Function
		ins ssa.Instruction
	}
	var sites []site
	for _, fn := range pkgFuncs(c, relBatched) {
		hasGo := false
		ssax.Instrs(fn, func(ins ssa.Instruction) {
			if _, ok := ins.(*ssa.Go); ok {
				hasGo = true
			}
		})
		ssax.Instrs(fn, func(ins ssa.Instruction) {
			cc := ssax.CallOf(ins)
			if cc == nil || cc.StaticCallee() != rec {
				return
			}
			if hasGo {
				back, _ := (ssax.Reach{Target: func(i ssa.Instruction) bool { _, ok := i.(*ssa.Go); return ok }}).FromBlock(fn.Blocks[0])
				reached, _ := (ssax.Reach{Target: func(i ssa.Instruction) bool { return i == ins }, Avoid: func(i ssa.Instruction) bool { _, ok := i.(*ssa.Go); return ok }}).FromBlock(fn.Blocks[0])
				after, _ := (ssax.Reach{Target: func(i ssa.Instruction) bool { return i == ins }}).From(back)
				if reached != nil && after == nil {
					return // runs before any goroutine of the connection is started
				}
			}
			sites = append(sites, site{fn, ins})
		})
	}
	if len(sites) == 0 {
		c.OK(rule, key, c.P.Pos(rec.Pos()), "reconnect is only called before the connection's goroutines start")
		return
	}
	// channels recovery sends on after the reconnect: receiving from one orders the receiver after the swap
	released := map[string]bool{}
	// ordering channels: received from before every reconnect
	var ordering map[string]bool
	for _, s := range sites {
		ssax.Instrs(s.fn, func(ins ssa.Instruction) {
			if snd, ok := ins.(*ssa.Send); ok {
				if f, ok := chanField(snd.Chan); ok && ssax.DominatesInstr(s.ins, ins) {
					released[f] = true
				}
			}
		})
		here := map[string]bool{}
		ssax.Instrs(s.fn, func(ins ssa.Instruction) {
			u, ok := ins.(*ssa.UnOp)
			if !ok || u.Op != token.ARROW {
				return
			}
			f, ok := chanField(u.X)
			if !ok {
				return
			}
			avoid := func(i ssa.Instruction) bool { return isChanRecvOn(i, f) }
			isSite := func(i ssa.Instruction) bool { return i == s.ins }
			fromEntry, _ := (ssax.Reach{Target: isSite, Avoid: avoid}).FromBlock(s.fn.Blocks[0])
			around, _ := (ssax.Reach{Target: isSite, Avoid: avoid}).From(s.ins)
			if fromEntry == nil && around == nil {
				here[f] = true
			}
		})
		if ordering == nil {
			ordering = here
		} else {
			for f := range ordering {
				if !here[f] {
					delete(ordering, f)
				}
			}
		}
	}
	// only channels the batcher sends on order anything with the batcher
	batcherSends := map[string]bool{}
	ssax.Instrs(batcher, func(ins ssa.Instruction) {
		if snd, ok := ins.(*ssa.Send); ok {
			if f, ok := chanField(snd.Chan); ok {
				batcherSends[f] = true
			}
		}
	})
	for f := range ordering {
		if !batcherSends[f] || f == "batchchan" {
			delete(ordering, f)
		}
	}
	isHandOff := func(ins ssa.Instruction) bool { return isChanSendOn(ins, "batchchan") }
	isDone := func(ins ssa.Instruction) bool {
		snd, ok := ins.(*ssa.Send)
		if !ok {
			return false
		}
		f, ok := chanField(snd.Chan)
		return ok && ordering[f]
	}
	isDoneRecv := func(ins ssa.Instruction) bool {
		u, ok := ins.(*ssa.UnOp)
		if !ok || u.Op != token.ARROW {
			return false
		}
		f, ok := chanField(u.X)
		return ok && ordering[f]
	}
	syncPoint := func(ins ssa.Instruction) bool {
		if u, ok := ins.(*ssa.UnOp); ok && u.Op == token.ARROW {
			if f, ok := chanField(u.X); ok && released[f] {
				return true
			}
		}
		if cc := ssax.CallOf(ins); cc != nil && strings.HasSuffix(ssax.CalleeName(cc), ").Lock") && reconnectLocks[ssax.LockKey(cc.Args[0])] {
			return true
		}
		// the next hand-off orders everything after it with the recovery of earlier batches
		return isHandOff(ins)
	}
	isSwappedRead := func(ins ssa.Instruction) bool {
		u, ok := ins.(*ssa.UnOp)
		if !ok || u.Op != token.MUL {
			return false
		}
		fa, ok := u.X.(*ssa.FieldAddr)
		if !ok {
			return false
		}
		f, _ := ssax.FieldName(fa)
		return swapped[f]
	}
	// the points of the batcher from which a read of the stream is unordered with recovery: a hand-off when recovery
	// does not wait for the batcher, the "done" send when it does
	var from []ssa.Instruction
	what := "handing a batch to the reader"
	if len(ordering) == 0 {
		from = handOffs
	} else {
		what = "telling recovery it is done with the connection"
		ssax.Instrs(batcher, func(ins ssa.Instruction) {
			if isDone(ins) {
				from = append(from, ins)
			}
		})
	}
	var bad []string
	for _, h := range from {
		hit, _ := (ssax.Reach{Target: isSwappedRead, Avoid: syncPoint}).From(h)
		if hit != nil {
			f, _ := ssax.FieldName(hit.(*ssa.UnOp).X)
			bad = append(bad, fmt.Sprintf("after %s (%s) the batcher reads c.%s at %s, which reconnect assigns (recovery of that very batch may run by then)", what, c.P.Pos(h.Pos()), f, c.P.Pos(hit.Pos())))
		}
	}
	c.Check(len(bad) == 0, rule, key, c.P.Pos(batcher.Pos()), "the batcher reads no field that reconnect assigns between a hand-off and its next synchronisation with recovery"+
		map[bool]string{true: " (recovery waits for the batcher's per-batch signal on " + strings.Join(sortedKeys(ordering), ",") + ")", false: ""}[len(ordering) > 0],
		strings.Join(uniq(bad), "; ")+": unsynchronised with recovery's write (a data race), and the batch can go out on the new connection after its callers were told to retry")
	if len(ordering) == 0 {
		return
	}
	// ---- the per-batch token is balanced ----
	tkey := "(*conn)#done-signal-per-batch"
	var unbalanced []string
	isReturn := func(ins ssa.Instruction) bool { _, ok := ins.(*ssa.Return); return ok }
	for _, h := range handOffs {
		if hit, _ := (ssax.Reach{Target: func(i ssa.Instruction) bool { return isHandOff(i) || isReturn(i) }, Avoid: isDone}).From(h); hit != nil {
			unbalanced = append(unbalanced, fmt.Sprintf("the batcher can go from the hand-off at %s to %s without signalling that it is done with the connection: recovery of that batch (and the reader, after a complete batch) waits forever", c.P.Pos(h.Pos()), c.P.Pos(hit.Pos())))
		}
	}
	for _, d := range from {
		if hit, _ := (ssax.Reach{Target: isDone, Avoid: isHandOff}).From(d); hit != nil {
			unbalanced = append(unbalanced, fmt.Sprintf("the batcher can signal twice for one batch (%s, then %s): the second signal is taken for the next batch, whose write may still be going on when recovery swaps the stream", c.P.Pos(d.Pos()), c.P.Pos(hit.Pos())))
		}
	}
	if hit, _ := (ssax.Reach{Target: isDone, Avoid: isHandOff}).FromBlock(batcher.Blocks[0]); hit != nil {
		unbalanced = append(unbalanced, fmt.Sprintf("the batcher signals at %s before any batch was handed over: the signal is taken for the first batch while it is still being written", c.P.Pos(hit.Pos())))
	}
	if reader == nil {
		c.Undecided(rule, tkey, "-", "no function takes batches from the hand-off channel")
		return
	}
	jumps := recoveryJumps(reader)
	if jumps == nil {
		c.Undecided(rule, tkey, c.P.Pos(reader.Pos()), "no recovery flag found in the reader (see R13.1)")
		return
	}
	isTake := func(ins ssa.Instruction) bool { return isChanRecvOn(ins, "batchchan") }
	consumed := func(ins ssa.Instruction) bool { return isDoneRecv(ins) || jumps[ins] }
	for _, t := range takes {
		if hit, _ := (ssax.Reach{Target: func(i ssa.Instruction) bool { return isTake(i) || isReturn(i) }, Avoid: consumed}).From(t); hit != nil {
			unbalanced = append(unbalanced, fmt.Sprintf("the reader can go from taking a batch (%s) to %s without taking the batcher's signal for it or failing into recovery: the signal stays in the channel, the batcher blocks on the next one and recovery takes a stale signal", c.P.Pos(t.Pos()), c.P.Pos(hit.Pos())))
		}
	}
	ssax.Instrs(reader, func(ins ssa.Instruction) {
		if !isDoneRecv(ins) {
			return
		}
		if hit, _ := (ssax.Reach{Target: consumed, Avoid: isTake}).From(ins); hit != nil {
			unbalanced = append(unbalanced, fmt.Sprintf("after taking the batcher's signal at %s the reader can take it again or fail into recovery (%s): the second taker waits for a signal that never comes", c.P.Pos(ins.Pos()), c.P.Pos(hit.Pos())))
		}
	})
	for _, s := range sites {
		isSite := func(i ssa.Instruction) bool { return i == s.ins }
		ssax.Instrs(s.fn, func(ins ssa.Instruction) {
			if !isDoneRecv(ins) {
				return
			}
			if hit, _ := (ssax.Reach{Target: isDoneRecv, Avoid: isSite}).From(ins); hit != nil {
				unbalanced = append(unbalanced, fmt.Sprintf("recovery takes the batcher's signal twice before one reconnect (%s, %s): the second wait never ends", c.P.Pos(ins.Pos()), c.P.Pos(hit.Pos())))
			}
		})
	}
	c.Check(len(unbalanced) == 0, rule, tkey, c.P.Pos(batcher.Pos()), "one signal per batch: the batcher sends it once after each hand-off, the reader takes it once per completed batch and recovery once per failed batch",
		strings.Join(uniq(unbalanced), "; "))
	// ---- recovery closes the broken connection before it waits ----
	ckey := "(*conn)#blocked-write-released"
	var unreleased []string
	for _, s := range sites {
		isClose := func(ins ssa.Instruction) bool {
			cc := ssax.CallOf(ins)
			if cc == nil || !strings.HasSuffix(ssax.CalleeName(cc), ".Close") {
				return false
			}
			var recv ssa.Value
			if cc.IsInvoke() {
				recv = cc.Value
			} else if len(cc.Args) > 0 {
				recv = cc.Args[0]
			}
			if recv == nil {
				return false
			}
			for f := range swapped {
				if isFieldLoad(recv, f) {
					return true
				}
			}
			return false
		}
		ssax.Instrs(s.fn, func(ins ssa.Instruction) {
			if !isDoneRecv(ins) {
				return
			}
			isWait := func(i ssa.Instruction) bool { return i == ins }
			fromEntry, _ := (ssax.Reach{Target: isWait, Avoid: isClose}).FromBlock(s.fn.Blocks[0])
			around, _ := (ssax.Reach{Target: isWait, Avoid: isClose}).From(s.ins)
			if fromEntry != nil || around != nil {
				unreleased = append(unreleased, fmt.Sprintf("recovery waits for the batcher at %s without having closed the broken connection: a batcher blocked in the write of that batch (backend not reading) never signals, recovery never reconnects", c.P.Pos(ins.Pos())))
			}
		})
	}
	c.Check(len(unreleased) == 0, rule, ckey, c.P.Pos(batcher.Pos()), "recovery closes the connection being replaced before it waits for the batcher, so a blocked write returns", strings.Join(uniq(unreleased), "; "))
}

// chanField names the connection field a channel operand is loaded from.
func chanField(v ssa.Value) (string, bool) {
	v = ssax.Unwrap(v)
	if u, ok := v.(*ssa.UnOp); ok && u.Op == token.MUL {
		return ssax.FieldName(u.X)
	}
	return "", false
}

// recoveryJumps returns the jumps of the reader that enter its service loop's head with the recovery flag set, or nil
// when the reader has no such flag.
func recoveryJumps(rd *ssa.Function) map[ssa.Instruction]bool {
	var flag *ssa.Phi
	for _, l := range ssax.Loops(rd) {
		for _, ins := range l.Header.Instrs {
			phi, isPhi := ins.(*ssa.Phi)
			if !isPhi {
				break
			}
			if types.TypeString(phi.Type(), nil) == "bool" {
				for _, e := range phi.Edges {
					if k, isC := ssax.ConstInt(e); isC && k == 1 {
						flag = phi
					}
				}
			}
		}
	}
	if flag == nil {
		return nil
	}
	out := map[ssa.Instruction]bool{}
	for i, p := range flag.Block().Preds {
		if k, isC := ssax.ConstInt(flag.Edges[i]); isC && k == 1 {
			out[p.Instrs[len(p.Instrs)-1]] = true
		}
	}
	return out
}

func sortedKeys(m map[string]bool) []string {
	var out []string
	for k := range m {
		out = append(out, k)
	}
	sort.Strings(out)
	return out
}

// checkPooledBuffersStartEmpty (R13.16, shared as R6.14): a byte buffer taken from an object pool may hold what its
// previous user left in it - in the batching pool the tail of a batch whose write failed half-way. Every such buffer
// is emptied (Reset / Truncate(0)) before anything else is done with it; otherwise the leftover requests of a batch
// whose callers were told to retry are sent again in front of the next batch: they are executed a second time and
// their replies arrive under opaques the reader does not expect.
func checkPooledBuffersStartEmpty(c *core.Ctx, rule string) {
	n := 0
	for _, fn := range c.P.RepoFuncs("") {
		counts := map[string]int{}
		ssax.Instrs(fn, func(ins ssa.Instruction) {
			ta, ok := ins.(*ssa.TypeAssert)
			if !ok || types.TypeString(ta.AssertedType, nil) != "*bytes.Buffer" {
				return
			}
			call, ok := ta.X.(*ssa.Call)
			if !ok || ssax.CalleeName(&call.Call) != "(*sync.Pool).Get" {
				return
			}
			n++
			key := ordinalKey(counts, core.FuncName(fn)+"#pooled-buffer-emptied")
			uses := func(i ssa.Instruction) bool {
				for _, op := range i.Operands(nil) {
					if op != nil && *op != nil && ssax.Unwrap(*op) == ssa.Value(ta) {
						return true
					}
				}
				return false
			}
			empties := func(i ssa.Instruction) bool {
				cc := ssax.CallOf(i)
				if cc == nil || len(cc.Args) == 0 || ssax.Unwrap(cc.Args[0]) != ssa.Value(ta) {
					return false
				}
				switch ssax.CalleeName(cc) {
				case "(*bytes.Buffer).Reset":
					return true
				case "(*bytes.Buffer).Truncate":
					k, isC := ssax.ConstInt(cc.Args[1])
					return isC && k == 0
				}
				return false
			}
			hit, _ := (ssax.Reach{Target: uses, Avoid: empties}).From(ta)
			if hit != nil && poolReceivesOnlyEmptied(c, call.Call.Args[0]) {
				c.OK(rule, key, c.P.Pos(ta.Pos()), "every buffer put into this pool was emptied just before")
				return
			}
			c.Check(hit == nil, rule, key, c.P.Pos(ta.Pos()), "the buffer taken from the pool is emptied before its first use",
				fmt.Sprintf("the buffer taken from the pool at %s is used at %s without having been emptied: what its previous user left in it (the unwritten tail of a failed batch) is sent again in front of the new contents", c.P.Pos(ta.Pos()), posOf(c, hit)))
		})
	}
	if n == 0 {
		c.Undecided(rule, "pools#byte-buffers", "-", "no byte buffer is taken from an object pool")
	}
}

func posOf(c *core.Ctx, ins ssa.Instruction) string {
	if ins == nil {
		return "-"
	}
	return c.P.Pos(ins.Pos())
}

// poolReceivesOnlyEmptied: every Put into the pool (identified by the package-level variable it is loaded from) hands
// over a buffer that was emptied after its last other use.
func poolReceivesOnlyEmptied(c *core.Ctx, pool ssa.Value) bool {
	g := globalOf(pool)
	if g == nil {
		return false
	}
	puts, ok := 0, true
	for _, fn := range c.P.RepoFuncs("") {
		ssax.Instrs(fn, func(ins ssa.Instruction) {
			cc := ssax.CallOf(ins)
			if cc == nil || ssax.CalleeName(cc) != "(*sync.Pool).Put" || len(cc.Args) != 2 || globalOf(cc.Args[0]) != g {
				return
			}
			puts++
			x := ssax.Unwrap(cc.Args[1])
			emptied := false
			ssax.Instrs(fn, func(r ssa.Instruction) {
				rc := ssax.CallOf(r)
				if rc == nil || len(rc.Args) == 0 || ssax.Unwrap(rc.Args[0]) != x || !ssax.DominatesInstr(r, ins) {
					return
				}
				switch ssax.CalleeName(rc) {
				case "(*bytes.Buffer).Reset":
				case "(*bytes.Buffer).Truncate":
					if k, isC := ssax.ConstInt(rc.Args[1]); !isC || k != 0 {
						return
					}
				default:
					return
				}
				used, _ := (ssax.Reach{
					Target: func(i ssa.Instruction) bool {
						if i == ins {
							return false
						}
						if _, pure := i.(*ssa.MakeInterface); pure {
							return false
						}
						for _, op := range i.Operands(nil) {
							if op != nil && *op != nil && ssax.Unwrap(*op) == x {
								return true
							}
						}
						return false
					},
					Avoid: func(i ssa.Instruction) bool { return i == ins },
				}).From(r)
				if used == nil {
					emptied = true
				}
			})
			if !emptied {
				ok = false
			}
		})
	}
	return ok && puts > 0
}

func globalOf(v ssa.Value) *ssa.Global {
	v = ssax.Unwrap(v)
	if u, isLoad := v.(*ssa.UnOp); isLoad {
		if g, isG := u.X.(*ssa.Global); isG {
			return g
		}
	}
	return nil
}
