package rules

import (
	"fmt"
	"go/token"
	"go/types"
	"sort"
	"strings"

	"golang.org/x/tools/go/ssa"

	"rendlint/core"
	"rendlint/ssax"
)

// R19.6 / R19.7 / R19.8: the node set every connection routes over, and the replica count per node.
func runC19b(c *core.Ctx) {
	c.Rule("R19.6", "every connection routes over the whole configured node set: the cluster handler's constructor hands the ring one bucket per configured address, and a node that cannot be reached fails the constructor (no path from a failed dial back into the loop or on to the ring construction): a ring built from the nodes that happened to answer makes the route depend on which connection asks", 2)
	c.Rule("R19.7", "the number of ring points of a node does not depend on how many nodes there are when weights are equal: the replica count is computed in exact integer arithmetic or rounded to nearest - a float product truncated towards zero loses a whole replica whenever rounding error leaves it just below the integer, and the nodes that survive a removal then exchange keys", 1)
	c.Rule("R19.9", "a ring lookup stays inside the ring: every index into the sorted ring is the constant wrap-around or a search result tested to be below len(ring) on the edge it arrives by", 1)
	runR199(c, "R19.9")
	c.Rule("R19.10", "backfill mode: a copy sent to the local cluster carries the key of the very response whose data it stores", 1)
	runR1910(c, "R19.10")
	c.Rule("R19.8", "the listing position of a node flows into nothing that is stored in a ring point except the node itself: a position stored beside the point (and consulted by the comparator or the lookup) makes the sorted ring depend on listing order", 1)

	// ---- R19.6
	ctor := c.P.Func(relCluster, "NewHandler")
	if ctor == nil {
		c.Undecided("R19.6", "cluster.NewHandler", "-", "anchor not found")
	} else {
		loops := ssax.Loops(ctor)
		var ringCalls []ssa.Instruction
		ssax.Instrs(ctor, func(ins ssa.Instruction) {
			if cc := ssax.CallOf(ins); cc != nil {
				n := ssax.CalleeName(cc)
				if strings.HasSuffix(n, relCluster+".New") || strings.HasSuffix(n, "cluster.Continuum).Reset") {
					ringCalls = append(ringCalls, ins)
				}
			}
		})
		if len(ringCalls) == 0 {
			c.Undecided("R19.6", "cluster.NewHandler#ring", c.P.Pos(ctor.Pos()), "no ring construction (cluster.New / Reset) found in the constructor")
		}
		addrs := ctor.Params[0]
		// (a) the bucket slice covers every configured address
		for _, rc := range ringCalls {
			cc := ssax.CallOf(rc)
			arg := cc.Args[len(cc.Args)-1]
			key := "cluster.NewHandler#ring-covers-every-address"
			ok, why := false, "the bucket list given to the ring is not make([]Bucket, len(addresses)) filled at the loop index"
			if ms, isMS := ssax.Unwrap(arg).(*ssa.MakeSlice); isMS {
				if lenOfParam(ms.Len, addrs) {
					// every iteration of the address loop stores into the slice at the loop index
					stores := 0
					for _, r := range *ms.Referrers() {
						if ia, isIA := r.(*ssa.IndexAddr); isIA {
							for _, rr := range *ia.Referrers() {
								if st, isSt := rr.(*ssa.Store); isSt && st.Addr == ssa.Value(ia) {
									if l := ssax.InnermostLoop(loops, st.Block()); l != nil && isRangeIndexOf(ia.Index, addrs) {
										stores++
										// the store must be passed on every path of an iteration that goes round again
										if ins, trail := (ssax.Reach{
											Target:    func(i ssa.Instruction) bool { return i.Block() == l.Header && ssax.IndexIn(i) == 0 },
											Avoid:     func(i ssa.Instruction) bool { return i == ssa.Instruction(st) },
											AvoidEdge: func(from, to *ssa.BasicBlock) bool { return !l.Blocks[to] },
										}).FromBlock(firstBodyBlock(l)); ins != nil {
											ok = false
											why = "an iteration of the address loop can go round without storing its node into the bucket list (" + strings.Join(ssax.BlockTrail(c.P.Fset, trail), " -> ") + "): the ring then holds a nil bucket / fewer nodes for this connection"
											stores = -1000
										}
									}
								}
							}
						}
					}
					if stores > 0 {
						ok, why = true, ""
					}
				} else {
					why = "the bucket list is not sized by the number of configured addresses"
				}
			}
			c.Check(ok, "R19.6", key, c.P.Pos(rc.Pos()), "the ring is built over make([]Bucket, len(addresses)), filled at the loop index on every iteration", why)
		}
		// (b) a failed dial fails the constructor
		n := 0
		counts := map[string]int{}
		for _, ins := range ssax.AllCalls(ctor) {
			call, isCall := ins.(*ssa.Call)
			if !isCall {
				continue
			}
			e := errResult(call)
			if e == nil {
				continue
			}
			l := ssax.InnermostLoop(loops, call.Block())
			if l == nil {
				continue
			}
			n++
			key := ordinalKey(counts, "cluster.NewHandler#unreachable-node-fails:"+short(ssax.CalleeName(&call.Call)))
			starts := failureStarts(e, ctor)
			if len(starts) == 0 {
				c.Violate("R19.6", key, c.P.Pos(call.Pos()), "the error of "+short(ssax.CalleeName(&call.Call))+" is not tested: an unreachable node is silently left out of (or left nil in) this connection's ring")
				continue
			}
			bad := ""
			for _, s := range starts {
				if ins, trail := (ssax.Reach{Target: func(i ssa.Instruction) bool {
					if i.Block() == l.Header && ssax.IndexIn(i) == 0 {
						return true
					}
					for _, rc := range ringCalls {
						if i == rc {
							return true
						}
					}
					return false
				}}).FromBlock(s); ins != nil {
					bad = fmt.Sprintf("after %s failed the constructor can still reach %s (%s): the ring of this connection is built without that node, so the same key is routed differently on different connections", short(ssax.CalleeName(&call.Call)), c.P.Pos(ins.Pos()), strings.Join(ssax.BlockTrail(c.P.Fset, trail), " -> "))
				}
			}
			c.Check(bad == "", "R19.6", key, c.P.Pos(call.Pos()), "a failed "+short(ssax.CalleeName(&call.Call))+" leaves the constructor without building a ring", bad)
		}
		if n == 0 {
			c.Undecided("R19.6", "cluster.NewHandler#unreachable-node-fails", c.P.Pos(ctor.Pos()), "no fallible per-node call found in the address loop")
		}
	}

	reset := c.P.Func(relCluster, "(*Continuum).Reset")
	if reset == nil {
		c.Undecided("R19.7", "cluster.(*Continuum).Reset#replica-count", "-", "anchor not found")
		return
	}
	// ---- R19.7
	nTrunc := 0
	ssax.Instrs(reset, func(ins ssa.Instruction) {
		cv, ok := ins.(*ssa.Convert)
		if !ok || !isFloat(cv.X.Type()) || !isInteger(cv.Type()) {
			return
		}
		if _, isConst := cv.X.(*ssa.Const); isConst {
			return
		}
		nTrunc++
		chain, rounded, inexact := floatChain(cv.X)
		key := "cluster.(*Continuum).Reset#replica-count:int(" + chain + ")"
		if rounded {
			c.OK("R19.7", key, c.P.Pos(cv.Pos()), "the float value is rounded to nearest before the conversion")
			return
		}
		if !inexact {
			c.OK("R19.7", key, c.P.Pos(cv.Pos()), "conversion of a value that involves no inexact float arithmetic")
			return
		}
		c.Violate("R19.7", key, c.P.Pos(cv.Pos()), "the replica count is int("+chain+"): a float quotient/product truncated towards zero. With equal weights the exact value is 40, but the rounded product can fall just below it, so for some node counts every node gets 39 replicas; adding or removing a node then moves keys between nodes that stay")
	})
	if nTrunc == 0 {
		c.OK("R19.7", "cluster.(*Continuum).Reset#replica-count", c.P.Pos(reset.Pos()), "no float-to-integer truncation in the ring construction: the replica count is integer arithmetic")
	}

	// ---- R19.8: the listing position is stored nowhere in a ring point
	bucketsParam := reset.Params[1]
	pos := map[ssa.Value]bool{}
	ssax.Instrs(reset, func(ins ssa.Instruction) {
		switch x := ins.(type) {
		case *ssa.IndexAddr:
			if ssax.Unwrap(x.X) == ssa.Value(bucketsParam) {
				pos[x.Index] = true
			}
		case *ssa.Index:
			if ssax.Unwrap(x.X) == ssa.Value(bucketsParam) {
				pos[x.Index] = true
			}
		case *ssa.Next:
			// range over the bucket list: extract #0 is the position
			if rg, ok := x.Iter.(*ssa.Range); ok && ssax.Unwrap(rg.X) == ssa.Value(bucketsParam) {
				for _, r := range *x.Referrers() {
					if ex, ok := r.(*ssa.Extract); ok && ex.Index == 1 {
						pos[ex] = true
					}
				}
			}
		}
	})
	// close over arithmetic / conversions / phis of position values
	for changed := true; changed; {
		changed = false
		ssax.Instrs(reset, func(ins ssa.Instruction) {
			v, ok := ins.(ssa.Value)
			if !ok || pos[v] {
				return
			}
			switch x := ins.(type) {
			case *ssa.BinOp:
				if isInteger(x.Type()) && (pos[x.X] || pos[x.Y]) {
					pos[v], changed = true, true
				}
			case *ssa.Convert:
				if pos[x.X] {
					pos[v], changed = true, true
				}
			case *ssa.ChangeType:
				if pos[x.X] {
					pos[v], changed = true, true
				}
			}
		})
	}
	var bad []string
	nStores := 0
	ssax.Instrs(reset, func(ins ssa.Instruction) {
		st, ok := ins.(*ssa.Store)
		if !ok {
			return
		}
		fa, ok := st.Addr.(*ssa.FieldAddr)
		if !ok {
			return
		}
		pt, ok := fa.X.Type().(*types.Pointer)
		if !ok {
			return
		}
		nm, ok := pt.Elem().(*types.Named)
		if !ok || nm.Obj().Pkg() == nil || nm.Obj().Pkg().Path() != core.Mod+"/"+relCluster {
			return
		}
		if _, isStruct := nm.Underlying().(*types.Struct); !isStruct || nm.Obj().Name() == "Continuum" {
			return
		}
		nStores++
		if pos[st.Val] {
			fld := nm.Underlying().(*types.Struct).Field(fa.Field).Name()
			bad = append(bad, fmt.Sprintf("field %s.%s is set from the node's position in the listing at %s", nm.Obj().Name(), fld, c.P.Pos(st.Pos())))
		}
	})
	sort.Strings(bad)
	if nStores == 0 {
		c.Undecided("R19.8", "cluster.(*Continuum).Reset#position-not-stored", c.P.Pos(reset.Pos()), "no ring point construction found")
	} else {
		c.Check(len(bad) == 0, "R19.8", "cluster.(*Continuum).Reset#position-not-stored", c.P.Pos(reset.Pos()), fmt.Sprintf("%d ring point field stores; none takes the listing position", nStores),
			strings.Join(bad, "; ")+": two listings of the same node set give different rings")
	}
}

func isFloat(t types.Type) bool {
	b, ok := t.Underlying().(*types.Basic)
	return ok && b.Info()&types.IsFloat != 0
}

func isInteger(t types.Type) bool {
	b, ok := t.Underlying().(*types.Basic)
	return ok && b.Info()&types.IsInteger != 0
}

// floatChain describes the float expression v by its chain of precisions down to the first arithmetic operator,
// e.g. "float32(float64 *)", and reports whether it is rounded to nearest (math.Round & co, or floor(x+0.5)) and
// whether inexact float arithmetic (a quotient or product of non-constants) feeds it.
func floatChain(v ssa.Value) (chain string, rounded, inexact bool) {
	switch x := v.(type) {
	case *ssa.Convert:
		if isFloat(x.X.Type()) {
			in, r, ie := floatChain(x.X)
			return types.TypeString(x.Type(), nil) + "(" + in + ")", r, ie
		}
		return types.TypeString(x.Type(), nil), false, false
	case *ssa.BinOp:
		_, _, lie := floatChain(x.X)
		_, _, rie := floatChain(x.Y)
		ie := lie || rie
		_, lc := x.X.(*ssa.Const)
		_, rc := x.Y.(*ssa.Const)
		if (x.Op == token.QUO || x.Op == token.MUL) && !(lc && rc) {
			ie = true
		}
		return types.TypeString(x.Type(), nil) + " " + x.Op.String(), false, ie
	case *ssa.Call:
		switch ssax.CalleeName(&x.Call) {
		case "math.Round", "math.RoundToEven":
			return "round", true, false
		case "math.Floor", "math.Trunc", "math.Ceil":
			// floor(x + 0.5) is rounding to nearest
			if bo, ok := x.Call.Args[0].(*ssa.BinOp); ok && bo.Op == token.ADD {
				for _, o := range []ssa.Value{bo.X, bo.Y} {
					if k, ok := o.(*ssa.Const); ok && k.Value != nil && k.Value.String() == "0.5" {
						return "floor(+0.5)", true, false
					}
				}
			}
			in, _, ie := floatChain(x.Call.Args[0])
			return short(ssax.CalleeName(&x.Call)) + "(" + in + ")", false, ie
		}
		return "call " + short(ssax.CalleeName(&x.Call)), false, true
	case *ssa.Phi:
		ie := false
		for _, e := range x.Edges {
			_, _, i := floatChain(e)
			ie = ie || i
		}
		return "phi", false, ie
	}
	return types.TypeString(v.Type(), nil), false, false
}

// lenOfParam: v is len(p).
func lenOfParam(v ssa.Value, p *ssa.Parameter) bool {
	call, ok := ssax.Unwrap(v).(*ssa.Call)
	if !ok {
		return false
	}
	if b, ok := call.Call.Value.(*ssa.Builtin); !ok || b.Name() != "len" {
		return false
	}
	return ssax.Unwrap(call.Call.Args[0]) == ssa.Value(p)
}

// isRangeIndexOf: idx is the index variable of a loop over p (range key, or a counter compared with len(p)).
func isRangeIndexOf(idx ssa.Value, p *ssa.Parameter) bool {
	switch x := idx.(type) {
	case *ssa.Extract:
		if nx, ok := x.Tuple.(*ssa.Next); ok && x.Index == 1 {
			if rg, ok := nx.Iter.(*ssa.Range); ok {
				return ssax.Unwrap(rg.X) == ssa.Value(p)
			}
		}
	case *ssa.Phi:
		// rotated "for i := range slice": phi(-1|0, i+1) compared with len(p)
		for _, r := range *x.Referrers() {
			if bo, ok := r.(*ssa.BinOp); ok && (bo.Op == token.LSS || bo.Op == token.ADD) {
				if bo.Op == token.LSS && lenOfParam(bo.Y, p) {
					return true
				}
				if bo.Op == token.ADD {
					for _, rr := range *bo.Referrers() {
						if b2, ok := rr.(*ssa.BinOp); ok && b2.Op == token.LSS && lenOfParam(b2.Y, p) {
							return true
						}
					}
				}
			}
		}
	case *ssa.BinOp:
		// i+1 form of the rotated range loop
		if x.Op == token.ADD {
			if ph, ok := x.X.(*ssa.Phi); ok {
				for _, rr := range *x.Referrers() {
					if b2, ok := rr.(*ssa.BinOp); ok && b2.Op == token.LSS && lenOfParam(b2.Y, p) {
						_ = ph
						return true
					}
				}
			}
		}
	}
	return false
}

// firstBodyBlock: the successor of the loop header that stays inside the loop.
func firstBodyBlock(l *ssax.Loop) *ssa.BasicBlock {
	for _, s := range l.Header.Succs {
		if l.Blocks[s] && s != l.Header {
			return s
		}
	}
	return l.Header
}

// runR199 (R19.9, shared as R11.8 / R10.14): a ring lookup stays inside the ring. Every index into the sorted ring is a
// constant (the wrap-around to the first point) or a search result that, on the edge it arrives by, was tested to be
// below the ring's length (not "at most": sort.Search answers len(ring) for a hash beyond the last point). The lookup
// of a multi-key get runs on a goroutine of its own, outside the connection loop's recover: an index one past the end
// there ends the process.
func runR199(c *core.Ctx, rule string) {
	n := 0
	isRingLen := func(v ssa.Value) bool {
		v = ssax.Unwrap(v)
		if cv, ok := v.(*ssa.Convert); ok {
			v = ssax.Unwrap(cv.X)
		}
		call, ok := v.(*ssa.Call)
		if !ok {
			return false
		}
		if b, ok := call.Call.Value.(*ssa.Builtin); !ok || b.Name() != "len" {
			return false
		}
		return isFieldLoad(call.Call.Args[0], "ring")
	}
	below := func(cond ssa.Value, truth bool, idx ssa.Value) bool {
		bo, ok := cond.(*ssa.BinOp)
		if !ok {
			return false
		}
		same := func(a ssa.Value) bool { return ssax.Unwrap(a) == ssax.Unwrap(idx) }
		switch {
		case bo.Op == token.GEQ && !truth && same(bo.X) && isRingLen(bo.Y),
			bo.Op == token.LSS && truth && same(bo.X) && isRingLen(bo.Y),
			bo.Op == token.GTR && truth && same(bo.Y) && isRingLen(bo.X),
			bo.Op == token.LEQ && !truth && same(bo.Y) && isRingLen(bo.X):
			return true
		}
		return false
	}
	for _, fn := range pkgFuncs(c, relCluster) {
		if fn.Name() == "Less" || fn.Name() == "Swap" || fn.Name() == "Len" || fn.Parent() != nil {
			continue // sort.Interface methods and the search predicate are handed valid indices by package sort
		}
		counts := map[string]int{}
		ssax.Instrs(fn, func(ins ssa.Instruction) {
			ia, ok := ins.(*ssa.IndexAddr)
			if !ok || !isFieldLoad(ia.X, "ring") {
				return
			}
			n++
			key := ordinalKey(counts, core.FuncName(fn)+"#ring-index")
			var bad []string
			var judge func(v ssa.Value, at *ssa.BasicBlock, d int)
			judge = func(v ssa.Value, at *ssa.BasicBlock, d int) {
				if _, isConst := ssax.ConstInt(v); isConst {
					return
				}
				if phi, ok := v.(*ssa.Phi); ok && d < 3 {
					for i, e := range phi.Edges {
						pred := phi.Block().Preds[i]
						if _, isConst := ssax.ConstInt(e); isConst {
							continue
						}
						okEdge := false
						for _, ec := range append(edgeCondsInto(pred, phi.Block()), ssax.DomConds(pred)...) {
							if below(ec.Cond, ec.True, e) {
								okEdge = true
							}
						}
						if !okEdge {
							bad = append(bad, fmt.Sprintf("the index %s arriving from block %d is not tested to be below len(ring)", e.Name(), pred.Index))
						}
					}
					return
				}
				okHere := false
				for _, ec := range ssax.DomConds(at) {
					if below(ec.Cond, ec.True, v) {
						okHere = true
					}
				}
				if !okHere {
					bad = append(bad, "the index "+v.Name()+" is not tested to be below len(ring)")
				}
			}
			judge(ia.Index, ia.Block(), 0)
			c.Check(len(bad) == 0, rule, key, c.P.Pos(ia.Pos()), "the index is the constant wrap-around or a search result tested to be below len(ring)",
				strings.Join(bad, "; ")+": for a hash beyond the last ring point sort.Search answers len(ring), the lookup indexes one past the end and panics - on the goroutine of a multi-key get that ends the whole process")
		})
	}
	if n == 0 {
		c.Undecided(rule, "cluster#ring-index", "-", "no index into the sorted ring found")
	}
}

// runR1910 (R19.10): in backfill mode the copy of an item goes to the node its own key hashes to. Every set the backfill
// orchestrator sends to the local cluster takes Key and Data from the *same* response received from the source cluster;
// a key taken from anywhere else (the request's key list by position, say) stores one key's data under another key -
// and on the node of that other key: a later get of either key does not find what the source cluster holds for it.
func runR1910(c *core.Ctx, rule string) {
	var fns []*ssa.Function
	for _, fn := range pkgFuncs(c, "orcas") {
		root := fn
		for root.Parent() != nil {
			root = root.Parent()
		}
		if strings.Contains(core.FuncName(root), "BackfillOrca).Get") {
			fns = append(fns, fn)
		}
	}
	pv := &ssax.Prov{}
	n := 0
	for _, fn := range fns {
		counts := map[string]int{}
		ssax.Instrs(fn, func(ins ssa.Instruction) {
			cc := ssax.CallOf(ins)
			if cc == nil || len(cc.Args) == 0 {
				return
			}
			var req ssa.Value
			for _, a := range cc.Args {
				if strings.HasSuffix(types.TypeString(a.Type(), nil), "common.SetRequest") {
					req = a
				}
			}
			if req == nil {
				return
			}
			n++
			key := ordinalKey(counts, core.FuncName(fn)+"#backfill-set")
			ks := pv.Sources(req, "Key")
			ds := pv.Sources(req, "Data")
			ok := len(ks) > 0 && len(ds) > 0
			for _, k := range ks {
				match := false
				for _, d := range ds {
					if k.Kind == "recv" && d.Kind == "recv" && k.V == d.V && len(k.Path) == 1 && k.Path[0] == "Key" {
						match = true
					}
				}
				if !match {
					ok = false
				}
			}
			// the key may also be taken from the request by position - provided the source handler answers every key, in
			// order, so that the position of a response is the position of its key
			byPosition := len(ks) > 0
			for _, k := range ks {
				if !(k.Kind == "param" && len(k.Path) == 2 && k.Path[0] == "Keys" && k.Path[1] == "[]") {
					byPosition = false
				}
			}
			// ... by a position that moves: the index is a counter, not a constant
			ssax.Instrs(fn, func(i ssa.Instruction) {
				if ia, isIdx := i.(*ssa.IndexAddr); isIdx && isFieldLoad(ia.X, "Keys") {
					if _, isConst := ia.Index.(*ssa.Const); isConst {
						byPosition = false
					}
				}
			})
			if byPosition && ssax.All(ds, func(d ssax.Src) bool { return d.Kind == "recv" }) {
				skipped := keysWithoutResponse(c)
				c.Check(len(skipped) == 0, rule, key, c.P.Pos(ins.Pos()), "the key is taken by position and the cluster handler answers every key in order",
					"the copy sent to the local cluster takes its key from the request by the position of the response, but the cluster handler does not answer every key ("+strings.Join(skipped, "; ")+"): after a skipped key every later response is paired with the key before it - data stored under another key, on that key's node")
				return
			}
			c.Check(ok, rule, key, c.P.Pos(ins.Pos()), "key and data of the copy come from one response of the source cluster",
				fmt.Sprintf("the copy sent to the local cluster takes its key from %v and its data from %v: not the key of the response whose data it stores - the data of one key is stored under another key, on that key's node", ssax.Strings(ks), ssax.Strings(ds)))
		})
	}
	if n == 0 {
		c.Undecided(rule, "orcas.BackfillOrca.Get#backfill-set", "-", "no set to the local cluster found in the backfill orchestrator")
	}
}

// keysWithoutResponse lists the paths through one iteration of the cluster handler's per-key get loop that reach the
// next key without having sent a response for this one.
func keysWithoutResponse(c *core.Ctx) []string {
	var out []string
	found := false
	for _, fn := range pkgFuncs(c, relCluster) {
		isSend := func(ins ssa.Instruction) bool {
			s, ok := ins.(*ssa.Send)
			return ok && strings.HasSuffix(types.TypeString(s.X.Type(), nil), "common.GetResponse")
		}
		for _, l := range ssax.Loops(fn) {
			has := false
			for b := range l.Blocks {
				for _, ins := range b.Instrs {
					if isSend(ins) {
						has = true
					}
				}
			}
			if !has {
				continue
			}
			found = true
			for _, s := range l.Header.Succs {
				if !l.Blocks[s] {
					continue
				}
				hit, trail := (ssax.Reach{
					Target: func(ins ssa.Instruction) bool { return ins == l.Header.Instrs[0] },
					Avoid:  isSend,
					Within: l.Blocks,
				}).FromBlock(s)
				if hit != nil {
					out = append(out, core.FuncName(fn)+": "+strings.Join(ssax.BlockTrail(c.P.Fset, trail), " -> "))
				}
			}
		}
	}
	if !found {
		out = append(out, "no per-key response loop found in the cluster handler")
	}
	return out
}
