package rules

import (
	"fmt"
	"go/token"
	"go/types"
	"strings"

	"golang.org/x/tools/go/ssa"

	"rendlint/core"
	"rendlint/ssax"
)

func init() {
	Meta["C13"] = &PropMeta{
		Title: "The batching pool survives loss of its backend connections",
		Explain: "Path rules over the pool's reader, recovery goroutine and callers: (R13.1) every edge that leaves the reader's per-batch reply loop is either the drained exit, after which all channels of the batch are closed before the next batch is taken, or it sets the recovery flag, and a set flag always hands the batch to the recovery goroutine and waits for it before the next batch; (R13.2) recovery fails every channel with replies outstanding with the retry marker, closes every channel of the batch, reconnects and only then releases the reader, and reconnect leaves its dial loop only after a successful dial; (R13.3) callers retry a bounded number of times and never hand the retry marker to their caller (it becomes ErrInternal). " +
			"Decides the hand-off structure; behaviour for every cut position and schedule is not enumerated (see DESIGN section 5, observation O3).",
		Assume: commonAssume,
		Run:    runC13,
	}
}

func isChanRecvOn(ins ssa.Instruction, field string) bool {
	u, ok := ins.(*ssa.UnOp)
	return ok && u.Op == token.ARROW && isFieldLoad(u.X, field)
}

func isChanSendOn(ins ssa.Instruction, field string) bool {
	s, ok := ins.(*ssa.Send)
	return ok && isFieldLoad(s.Chan, field)
}

func isCloseCall(ins ssa.Instruction) bool {
	cc := ssax.CallOf(ins)
	if cc == nil {
		return false
	}
	b, ok := cc.Value.(*ssa.Builtin)
	return ok && b.Name() == "close"
}

func runC13(c *core.Ctx) {
	c.Rule("R13.1", "every edge leaving the reader's per-batch reply loop is the drained exit (all channels of the batch are then closed before the next batch) or sets the recovery flag; a set flag hands the batch to the recovery goroutine and waits for it before the next batch is taken", 6)
	c.Rule("R13.2", "recovery sends the retry marker on every channel with replies outstanding, closes every channel of the batch, reconnects, then signals the reader - in that order; reconnect leaves its dial loop only after a successful dial", 4)
	c.Rule("R13.3", "callers of the pool retry in a bounded loop and never hand the retry marker to their own caller", 4)

	rd := findFunc(c, relBatched, "(*conn).reader", rolePoolReader)
	if rd == nil {
		c.Undecided("R13.1", "batched.(*conn).reader", "-", "reader not found")
	} else {
		checkReaderHandoff(c, rd)
	}
	checkRecovery(c)
	checkMarker(c)
	if rd != nil {
		checkCountedOff(c, rd)
	}
	c.Rule("R13.5", "the request rebuilt for a retry keeps keys, opaques and quiet flags aligned entry by entry (one origin, one variable per appended triple)", 1)
	checkParallelSlicesIn(c, "R13.5", pkgFuncs(c, relBatched))
	c.Rule("R13.6", "a caller that retries submits a reply channel created for that attempt: recovery closes the channels of the failed batch, a reused one yields a zero response (success) at once", 3)
	checkReplyChannelPerAttempt(c, "R13.6")
	c.Rule("R13.7", "the serialiser hands each written batch to the reader synchronously (unbuffered channel): no batch is on the wire that recovery does not know about", 1)
	checkHandOffSynchronous(c, "R13.7")
	c.Rule("R13.8", "the request rebuilt for a retry asks for every key still owed: each entry of the tracker table reaches the rebuilt request", 1)
	checkRebuildKeepsEveryEntry(c, "R13.8")
	c.Rule("R13.14", "the stream a batch is written to is fixed with respect to recovery: between handing a batch to the reader and its next synchronisation with the recovery side the batcher reads no connection field that reconnect assigns", 1)
	checkStreamFixedAtHandOff(c, "R13.14")
	c.Rule("R13.16", "a byte buffer taken from an object pool is emptied before its first use: nothing of a batch whose write failed is sent again with the next batch", 1)
	checkPooledBuffersStartEmpty(c, "R13.16")
	c.Rule("R13.17", "on the pool's own goroutines every bounded random draw (rand.Intn and friends) has an argument with a proven positive lower bound, computed without leaving the range of any intermediate type", 2)
	checkRandBoundsOnPoolGoroutines(c, "R13.17")
	c.Rule("R13.13", "every variable index into a fixed-size package-level table of the pool is kept below the table's size by a dominating comparison: the pool's goroutines run outside any recover, an index out of range there ends the process", 3)
	checkFixedTableIndices(c, "R13.13")
	c.Rule("R13.12", "a caller never abandons its reply channel while the pool may still send on it: the loops receiving the replies of a multi-key request run until the channel is closed (or leave on the retry marker only if recovery sends it at most once per channel)", 2)
	checkCallersKeepReceiving(c, "R13.12")
	c.Share(map[string]string{"R6.3": "R13.11", "R6.5": "R13.15"}, runC06) // recovery tells a caller to retry only if its channel's count of outstanding replies is right
	c.Rule("R13.10", "the table of replies still owed is a multiset (populated by counting): an entry is deleted only when its count is one, otherwise decremented - or a retry asks for fewer keys than are owed", 2)
	checkOwedMultiset(c, "R13.10")
	c.Rule("R13.9", "the table recovery consults to decide who still waits loses a reply's entry only when that reply is handed over: between the removal and the send (or the next header read) the reader cannot fail into recovery", 2)
	if rd != nil {
		checkBookkeepingAtHandOver(c, "R13.9", rd)
	}
}

// checkCountedOff (R13.4): every reply the reader delivers is counted off the channel's outstanding-reply count
// before the next reply is read; recovery relies on that count to know who still waits.
func checkCountedOff(c *core.Ctx, rd *ssa.Function) {
	c.Rule("R13.4", "every reply the reader hands to a caller is counted off that channel's outstanding count before the next reply is read: recovery sends the retry marker exactly to the channels that still wait", 3)
	pv := &ssax.Prov{}
	counts := map[string]int{}
	ssax.Instrs(rd, func(ins ssa.Instruction) {
		snd, ok := ins.(*ssa.Send)
		if !ok || !strings.HasSuffix(types.TypeString(snd.X.Type(), nil), "batched.response") {
			return
		}
		key := ordinalKey(counts, "reader#reply-counted-off")
		chanSrc := strings.Join(ssax.Strings(pv.Sources(snd.Chan)), ",")
		hit, _ := (ssax.Reach{
			Target: func(x ssa.Instruction) bool {
				cc := ssax.CallOf(x)
				return cc != nil && ssax.CalleeName(cc) == pBinprot+".ReadResponseHeader"
			},
			Avoid: func(x ssa.Instruction) bool {
				mu, ok := x.(*ssa.MapUpdate)
				if !ok || !isFieldLoad(mu.Map, "channels") {
					return false
				}
				return strings.Join(ssax.Strings(pv.Sources(mu.Key)), ",") == chanSrc
			},
		}).From(ins)
		// also the drained exit: reaching the close loop without the decrement is equally wrong, but closing covers it
		c.Check(hit == nil, "R13.4", key, c.P.Pos(ins.Pos()), "the delivered reply is counted off before the next header is read",
			"a reply is delivered without decrementing the channel's outstanding count: if the connection is cut later in the batch, recovery sends the retry marker on a channel nobody reads any more and blocks forever - the pooled connection never reconnects")
	})
}

func checkReaderHandoff(c *core.Ctx, rd *ssa.Function) {
	loops := ssax.Loops(rd)
	// the per-batch loop: innermost loop containing the header read
	var hdr *ssa.Call
	ssax.Instrs(rd, func(ins ssa.Instruction) {
		if call, ok := ins.(*ssa.Call); ok && ssax.CalleeName(&call.Call) == pBinprot+".ReadResponseHeader" {
			hdr = call
		}
	})
	if hdr == nil {
		c.Undecided("R13.1", "reader#reply-loop", c.P.Pos(rd.Pos()), "the reader reads no response header")
		return
	}
	inner := ssax.InnermostLoop(loops, hdr.Block())
	var outer *ssax.Loop
	for _, l := range loops {
		if inner != nil && l != inner && l.Blocks[inner.Header] && (outer == nil || len(l.Blocks) < len(outer.Blocks)) {
			outer = l
		}
	}
	if inner == nil || outer == nil {
		c.Undecided("R13.1", "reader#reply-loop", c.P.Pos(hdr.Pos()), "expected a per-batch reply loop inside a service loop")
		return
	}
	// the recovery flag: a bool phi of the outer header that receives 'true' from inside the inner loop
	var flag *ssa.Phi
	for _, ins := range outer.Header.Instrs {
		phi, ok := ins.(*ssa.Phi)
		if !ok {
			break
		}
		if types.TypeString(phi.Type(), nil) == "bool" {
			flag = phi
		}
	}
	if flag == nil {
		c.Undecided("R13.1", "reader#recovery-flag", c.P.Pos(outer.Header.Instrs[0].Pos()), "no boolean recovery flag carried by the service loop")
		return
	}
	// exits of the inner loop
	nErr := 0
	for b := range inner.Blocks {
		for si, s := range b.Succs {
			if inner.Blocks[s] {
				continue
			}
			isHeaderExit := b == inner.Header
			// follow jumps to the outer header, remember the last edge
			cur, prev := s, b
			for cur != outer.Header && len(cur.Succs) == 1 && len(cur.Instrs) == 1 {
				prev, cur = cur, cur.Succs[0]
			}
			pos := c.P.Pos(firstPos(b))
			if isHeaderExit {
				// drained: channels closed before the next batch is received
				hit, _ := (ssax.Reach{
					Target: func(ins ssa.Instruction) bool { return isChanRecvOn(ins, "batchchan") },
					Avoid:  isCloseCall,
				}).FromBlock(s)
				// the close must sit in a range over the batch's channels; an empty map legitimately skips it,
				// so require instead that the path runs through the range loop over 'channels'
				ranged := false
				if hit != nil {
					h2, _ := (ssax.Reach{
						Target: func(ins ssa.Instruction) bool { return isChanRecvOn(ins, "batchchan") },
						Avoid: func(ins ssa.Instruction) bool {
							rg, ok := ins.(*ssa.Range)
							return ok && isFieldLoad(rg.X, "channels")
						},
					}).FromBlock(s)
					ranged = h2 == nil
				}
				closesInRange := false
				ssax.Instrs(rd, func(ins ssa.Instruction) {
					if isCloseCall(ins) {
						if l := ssax.InnermostLoop(loops, ins.Block()); l != nil && l != inner && l != outer {
							closesInRange = true
						}
					}
				})
				c.Check((hit == nil || ranged) && closesInRange, "R13.1", "reader#drained-exit", pos,
					"after the last reply of a batch every channel of the batch is closed before the next batch is taken",
					"after a batch is drained the reader can take the next batch without closing the batch's channels: multi-key callers wait forever")
				_ = si
				continue
			}
			if _, isPanic := s.Instrs[len(s.Instrs)-1].(*ssa.Panic); isPanic {
				c.Info("R13.1", "reader#panic-exit", pos, "the reader panics when a reply's opaque is unknown (process-level failure by design, outside this rule)")
				continue
			}
			nErr++
			// the flag operand on the edge into the outer header
			val := ssax.PhiOperand(flag, prev)
			if cur != outer.Header {
				val = nil
			}
			k := "reader#error-exit:" + exitLabel(c, b)
			if val == nil {
				c.Violate("R13.1", k, pos, "an error exit of the reply loop does not return to the service loop's head: the unfinished batch is neither recovered nor closed")
				continue
			}
			cv, isConst := ssax.ConstInt(val)
			c.Check(isConst && cv == 1, "R13.1", k, pos, "the error exit sets the recovery flag",
				"an error exit of the reply loop reaches the next batch without setting the recovery flag: callers of the unfinished batch never get an outcome and the broken connection is reused")
		}
	}
	if nErr == 0 {
		c.Undecided("R13.1", "reader#error-exits", c.P.Pos(hdr.Pos()), "the reply loop has no error exit")
	}
	// hand-off: on flag==true, send on leftovers and wait on recovered before the next batch
	var ifi *ssa.If
	for _, r := range *flag.Referrers() {
		if x, ok := r.(*ssa.If); ok {
			ifi = x
		}
	}
	if ifi == nil {
		c.Violate("R13.1", "reader#hand-off", c.P.Pos(outer.Header.Instrs[0].Pos()), "the recovery flag is never tested: a failed batch is not handed to the recovery goroutine")
		return
	}
	t := ifi.Block().Succs[0]
	h1, _ := (ssax.Reach{Target: func(ins ssa.Instruction) bool { return isChanRecvOn(ins, "batchchan") }, Avoid: func(ins ssa.Instruction) bool { return isChanSendOn(ins, "leftovers") }}).FromBlock(t)
	h2, _ := (ssax.Reach{Target: func(ins ssa.Instruction) bool { return isChanRecvOn(ins, "batchchan") }, Avoid: func(ins ssa.Instruction) bool { return isChanRecvOn(ins, "recovered") }}).FromBlock(t)
	// and the batch handed over is the unfinished one (the same variable that the reply loop works on)
	c.Check(h1 == nil && h2 == nil, "R13.1", "reader#hand-off", c.P.Pos(ifi.Pos()), "a set recovery flag sends the batch to the recovery goroutine and waits for its signal before the next batch",
		"with the recovery flag set the reader can take the next batch without handing the unfinished one to the recovery goroutine and waiting for the reconnect")
}

func exitLabel(c *core.Ctx, b *ssa.BasicBlock) string {
	// label an exit by the nearest preceding call in the block (what failed)
	label := "?"
	for _, ins := range b.Instrs {
		if cc := ssax.CallOf(ins); cc != nil {
			if n := ssax.CalleeName(cc); n != "" && !strings.Contains(n, "metrics.") {
				label = short(n)
			}
		}
	}
	// the If's condition tells which error is tested: use the defining call of the tested value
	if ifi, ok := b.Instrs[len(b.Instrs)-1].(*ssa.If); ok {
		if bo, ok := ifi.Cond.(*ssa.BinOp); ok {
			for _, d := range ssax.Defs(bo.X) {
				if ex, ok := d.(*ssa.Extract); ok {
					if call, ok := ex.Tuple.(*ssa.Call); ok {
						label = short(ssax.CalleeName(&call.Call)) + fmt.Sprintf("@L%d", c.P.Line(call.Pos())-c.P.Line(b.Parent().Pos()))
					}
				}
			}
		}
	}
	return label
}

func checkRecovery(c *core.Ctx) {
	fn := findFunc(c, relBatched, "(*conn).recoveryMonitor", rolePoolRecovery)
	if fn == nil {
		c.Undecided("R13.2", "batched.(*conn).recoveryMonitor", "-", "recovery goroutine not found")
		return
	}
	loops := ssax.Loops(fn)
	var rng *ssa.Range
	var closeIns, markerSend, reconnect, signal ssa.Instruction
	pv := &ssax.Prov{}
	ssax.Instrs(fn, func(ins ssa.Instruction) {
		switch x := ins.(type) {
		case *ssa.Range:
			if isFieldLoad(x.X, "channels") || derivesFromFieldNamed(x.X, "channels") {
				rng = x
			}
		case *ssa.Send:
			if isFieldLoad(x.Chan, "recovered") {
				signal = ins
			} else if strings.HasSuffix(types.TypeString(x.X.Type(), nil), "batched.response") {
				if ssax.All(pv.Sources(x.X, "err"), func(s ssax.Src) bool { return s.Kind == "global" && strings.HasPrefix(s.V.Name(), "errRetry") }) {
					markerSend = ins
				}
			}
		}
		if isCloseCall(ins) {
			closeIns = ins
		}
		if cc := ssax.CallOf(ins); cc != nil && strings.HasSuffix(ssax.CalleeName(cc), "batched.conn).reconnect") {
			reconnect = ins
		}
	})
	pos := c.P.Pos(fn.Pos())
	if rng == nil || closeIns == nil || reconnect == nil || signal == nil {
		c.Violate("R13.2", "recoveryMonitor#steps", pos, fmt.Sprintf("recovery lacks one of its steps: range over the batch's channels=%v close=%v reconnect=%v signal=%v", rng != nil, closeIns != nil, reconnect != nil, signal != nil))
		return
	}
	rl := ssax.InnermostLoop(loops, closeIns.Block())
	inRange := rl != nil && rl.Blocks[rng.Block()] == false && func() bool {
		// the range loop's header holds the Next instruction of rng
		for b := range rl.Blocks {
			for _, ins := range b.Instrs {
				if nx, ok := ins.(*ssa.Next); ok && nx.Iter == ssa.Value(rng) {
					return true
				}
			}
		}
		return false
	}()
	closesKey := false
	if cc := ssax.CallOf(closeIns); cc != nil {
		for _, s := range pv.Sources(cc.Args[0]) {
			if s.Kind == "rangekey" {
				closesKey = true
			}
		}
	}
	c.Check(inRange && closesKey, "R13.2", "recoveryMonitor#close-all", c.P.Pos(closeIns.Pos()), "every channel of the handed-over batch is closed", "recovery does not close every channel of the unfinished batch: callers ranging over their reply channel never finish")
	markerOK := markerSend != nil && rl != nil && rl.Blocks[markerSend.Block()]
	if markerOK {
		// in the same iteration as the close, guarded by "this channel still waits": outstanding count > 0, or
		// membership among the handles still owed
		_, markerOK = markerGuardTables(markerSend)
	}
	c.Check(markerOK, "R13.2", "recoveryMonitor#retry-marker", pos, "channels with replies outstanding get the retry marker before they are closed", "recovery does not tell callers with outstanding replies to retry: their call ends without an outcome")
	// order: range loop, then reconnect, then signal
	afterLoop := rl != nil && !rl.Blocks[reconnect.Block()] && rl.Header.Dominates(reconnect.Block())
	sigAfter := reconnect.Block().Dominates(signal.Block()) && (reconnect.Block() != signal.Block() || ssax.IndexIn(reconnect) < ssax.IndexIn(signal))
	c.Check(afterLoop && sigAfter, "R13.2", "recoveryMonitor#order", c.P.Pos(reconnect.Pos()), "channels are failed and closed, then the connection is re-established, then the reader is released",
		"recovery steps are out of order: the reader is released before the connection is re-established, or the reconnect happens before the callers were told")

	// reconnect: leaves the dial loop only on success
	rc := findFunc(c, relBatched, "(*conn).reconnect", rolePoolReconnect)
	if rc == nil {
		c.Undecided("R13.2", "batched.(*conn).reconnect", "-", "not found")
		return
	}
	var dial *ssa.Call
	ssax.Instrs(rc, func(ins ssa.Instruction) {
		if call, ok := ins.(*ssa.Call); ok && ssax.CalleeName(&call.Call) == "net.Dial" {
			dial = call
		}
	})
	if dial == nil {
		c.Undecided("R13.2", "reconnect#dial-loop", c.P.Pos(rc.Pos()), "no net.Dial")
		return
	}
	dl := ssax.InnermostLoop(ssax.Loops(rc), dial.Block())
	derr := errResult(dial)
	if dl == nil || derr == nil {
		c.Violate("R13.2", "reconnect#dial-loop", c.P.Pos(dial.Pos()), "the dial is not retried in a loop: after one failed dial the pooled connection stays dead")
		return
	}
	good := true
	for b := range dl.Blocks {
		for _, s := range b.Succs {
			if dl.Blocks[s] {
				continue
			}
			ok := false
			conds := append(ssax.DomConds(b), edgeCondOf(b, s)...)
			for _, ec := range conds {
				bo, isBo := ec.Cond.(*ssa.BinOp)
				if !isBo {
					continue
				}
				tested := bo.X
				if ssax.IsNilConst(tested) {
					tested = bo.Y
				}
				if ds := ssax.Defs(tested); len(ds) == 1 && ds[0] == derr {
					if (bo.Op == token.NEQ && !ec.True) || (bo.Op == token.EQL && ec.True) {
						ok = true
					}
				}
			}
			if !ok {
				good = false
			}
		}
	}
	c.Check(good, "R13.2", "reconnect#dial-loop", c.P.Pos(dial.Pos()), "the dial loop is left only when net.Dial succeeded", "reconnect can leave its retry loop without a successful dial: the reader is released onto a nil connection")
}

func edgeCondOf(from, to *ssa.BasicBlock) []ssax.EdgeCond {
	ifi, ok := from.Instrs[len(from.Instrs)-1].(*ssa.If)
	if !ok || from.Succs[0] == from.Succs[1] {
		return nil
	}
	return []ssax.EdgeCond{{Cond: ifi.Cond, True: from.Succs[0] == to, If: ifi}}
}

func checkMarker(c *core.Ctx) {
	pkg := c.P.Pkg(relBatched)
	var marker *ssa.Global
	for n, m := range pkg.Members {
		if g, ok := m.(*ssa.Global); ok && strings.HasPrefix(n, "errRetry") {
			marker = g
		}
	}
	if marker == nil {
		c.Undecided("R13.3", "batched#retry-marker", "-", "no retry marker variable found")
		return
	}
	isMarker := func(v ssa.Value) bool { return ssax.GlobalLoad(v) == marker }
	pv := &ssax.Prov{}
	for _, fn := range submitters(c) {
		key := core.FuncName(fn)
		// bounded retry
		var sub ssa.Instruction
		ssax.Instrs(fn, func(ins ssa.Instruction) {
			if isSubmit(ssax.CallOf(ins)) {
				sub = ins
			}
		})
		fnLoops := ssax.Loops(fn)
		l := ssax.InnermostLoop(fnLoops, sub.Block())
		for l != nil && !countedLoop(l) {
			// the submit may sit in a nested range loop; look for the enclosing counted loop
			var outer *ssax.Loop
			for _, o := range fnLoops {
				if o.Header != l.Header && o.Blocks[l.Header] && (outer == nil || len(o.Blocks) < len(outer.Blocks)) {
					outer = o
				}
			}
			l = outer
		}
		c.Check(l != nil, "R13.3", key+"#bounded-retry", c.P.Pos(sub.Pos()), "the request is retried in a counted loop", "the pool request is retried in a loop without a bound on the number of tries")
		// marker never handed to the caller
		var bad []string
		n := 0
		judge := func(v ssa.Value, at ssa.Instruction, what string) {
			for _, s := range pv.Sources(v) {
				if s.Kind == "global" && s.V == ssa.Value(marker) {
					bad = append(bad, "the retry marker itself is "+what+" at "+c.P.Pos(at.Pos()))
				}
				if s.Kind == "recv" && len(s.Path) > 0 && s.Path[len(s.Path)-1] == "err" {
					n++
					// must be dominated by a comparison with the marker, taken on the unequal side
					ok := false
					for _, ec := range ssax.DomConds(at.Block()) {
						bo, isBo := ec.Cond.(*ssa.BinOp)
						if !isBo || !(isMarker(bo.X) || isMarker(bo.Y)) {
							continue
						}
						if (bo.Op == token.EQL && !ec.True) || (bo.Op == token.NEQ && ec.True) {
							ok = true
						}
					}
					if !ok {
						bad = append(bad, "an error received from the pool is "+what+" at "+c.P.Pos(at.Pos())+" without having been compared with the retry marker")
					}
				}
			}
		}
		for _, r := range ssax.Returns(fn) {
			for _, res := range r.Results {
				if types.TypeString(res.Type(), nil) == "error" {
					judge(res, r, "returned")
				}
			}
		}
		ssax.Instrs(fn, func(ins ssa.Instruction) {
			if snd, ok := ins.(*ssa.Send); ok {
				if _, isParam := snd.Chan.(*ssa.Parameter); isParam && types.TypeString(snd.X.Type(), nil) == "error" {
					judge(snd.X, ins, "sent to the caller")
				}
			}
		})
		c.Check(len(bad) == 0, "R13.3", key+"#marker-contained", c.P.Pos(fn.Pos()), fmt.Sprintf("%d pool errors handed on, each after the marker was ruled out", n), strings.Join(uniq(bad), "; "))
	}
}

// checkReplyChannelPerAttempt: recovery closes every reply channel of a failed batch after sending the retry marker.
// A caller that submits again must do so on a channel of its own attempt: receiving on the closed one yields a zero
// response at once (reported as success before the backend saw the request), and the reader later sends on it.
func checkReplyChannelPerAttempt(c *core.Ctx, rule string) {
	for _, fn := range pkgFuncs(c, relBatched) {
		loops := ssax.Loops(fn)
		counts := map[string]int{}
		ssax.Instrs(fn, func(ins ssa.Instruction) {
			cc := ssax.CallOf(ins)
			if cc == nil {
				return
			}
			for _, a := range cc.Args {
				if ssax.ShortType(a.Type()) != relBatched+".request" {
					continue
				}
				loop := ssax.InnermostLoop(loops, ins.Block())
				if loop == nil {
					continue // a single submission
				}
				key := ordinalKey(counts, core.FuncName(fn)+"#reply-channel")
				vals := fieldStoreVals(a, "reschan")
				var bad []string
				n := 0
				if len(vals) == 0 {
					bad, n = loopFresh(c, fn, loop, a, "reschan")
				}
				for _, v := range vals {
					b, k := loopFresh(c, fn, loop, v)
					bad, n = append(bad, b...), n+k
				}
				if n == 0 {
					c.Undecided(rule, key, c.P.Pos(ins.Pos()), "cannot find the reply channel of the submitted request")
					continue
				}
				c.Check(len(bad) == 0, rule, key, c.P.Pos(ins.Pos()), "each attempt submits a reply channel created in that attempt",
					"the request is submitted again on a reply channel from an earlier attempt: "+strings.Join(uniq(bad), ", ")+"; recovery closed that channel, so the retry reads a zero response (success) at once and the reader later sends on a closed channel")
			}
		})
	}
}

// checkHandOffSynchronous: the serialiser hands each written batch to the reader over a channel; recovery relies on
// that hand-off being synchronous - when the reader fails on batch N, batch N+1 has not been written to the dead socket
// yet. With a buffered channel N+1 is written early, is never handed to recovery and its callers get no outcome.
func checkHandOffSynchronous(c *core.Ctx, rule string) {
	ser := findFunc(c, relBatched, "(*conn).batcher", rolePoolSerialiser)
	rd := findFunc(c, relBatched, "(*conn).reader", rolePoolReader)
	if ser == nil || rd == nil {
		c.Undecided(rule, "batched#hand-off", "-", "serialiser / reader not found")
		return
	}
	// the channel field sent on by the serialiser and received from by the reader
	sent := map[string]bool{}
	ssax.Instrs(ser, func(ins ssa.Instruction) {
		if s, ok := ins.(*ssa.Send); ok {
			if _, f, ok := fieldRead(s.Chan); ok {
				sent[f] = true
			}
		}
	})
	var field string
	ssax.Instrs(rd, func(ins ssa.Instruction) {
		if u, ok := ins.(*ssa.UnOp); ok && u.Op == token.ARROW {
			// the hand-off carries the batch (its bookkeeping tables); signal channels between the two are no hand-off
			if _, f, ok := fieldRead(u.X); ok && sent[f] && carriesTables(u.X.Type()) {
				field = f
			}
		}
	})
	if field == "" {
		c.Undecided(rule, "batched#hand-off", "-", "no channel field is sent on by the serialiser and received from by the reader")
		return
	}
	n := 0
	for _, fn := range pkgFuncs(c, relBatched) {
		ssax.Instrs(fn, func(ins ssa.Instruction) {
			mk, ok := ins.(*ssa.MakeChan)
			if !ok || mk.Referrers() == nil {
				return
			}
			for _, r := range *mk.Referrers() {
				st, ok := r.(*ssa.Store)
				if !ok || st.Val != ssa.Value(mk) {
					continue
				}
				if f, _ := ssax.FieldName(st.Addr); f != field {
					continue
				}
				n++
				size, isC := ssax.ConstInt(mk.Size)
				c.Check(isC && size == 0, rule, core.FuncName(fn)+"#hand-off:"+field, c.P.Pos(mk.Pos()), "the serialiser-to-reader channel is unbuffered",
					fmt.Sprintf("the channel %s over which the serialiser hands written batches to the reader is buffered: the next batch is written to the socket before the reader has taken over the previous one; if the connection fails then, that batch is never recovered and its callers get no outcome", field))
			}
		})
	}
	if n == 0 {
		c.Undecided(rule, "batched#hand-off:"+field, "-", "no make(chan) is stored into the field")
	}
}

// checkRebuildKeepsEveryEntry: the request for a retry is rebuilt from the table of replies still owed. Every entry of
// that table must reach the rebuilt request: on each path through the body of the loop that ranges over the table the
// entry's key is appended to a slice. (Assumption: the per-entry counts are positive - entries are deleted when their
// count reaches zero - so a loop `for i < count` around the append runs at least once.)
func checkRebuildKeepsEveryEntry(c *core.Ctx, rule string) {
	pv := &ssax.Prov{}
	found := 0
	for _, fn := range pkgFuncs(c, relBatched) {
		res := fn.Signature.Results()
		if fn.Parent() != nil || res.Len() != 1 || types.TypeString(res.At(0).Type(), nil) != pCommon+".GetRequest" {
			continue
		}
		loops := ssax.Loops(fn)
		ssax.Instrs(fn, func(ins ssa.Instruction) {
			rg, ok := ins.(*ssa.Range)
			if !ok {
				return
			}
			if _, isMap := rg.X.Type().Underlying().(*types.Map); !isMap {
				return
			}
			// the loop whose header holds the Next of this range
			var next *ssa.Next
			for _, r := range *rg.Referrers() {
				if n, ok := r.(*ssa.Next); ok {
					next = n
				}
			}
			if next == nil {
				return
			}
			loop := ssax.InnermostLoop(loops, next.Block())
			if loop == nil || loop.Header != next.Block() {
				return
			}
			found++
			key := core.FuncName(fn) + "#every-entry-rebuilt"
			keeps := func(ins ssa.Instruction) bool {
				cc := ssax.CallOf(ins)
				if cc == nil {
					return false
				}
				if b, ok := cc.Value.(*ssa.Builtin); !ok || b.Name() != "append" || len(cc.Args) < 2 {
					return false
				}
				for _, s := range pv.Sources(cc.Args[1]) {
					if s.Kind == "rangekey" {
						return true
					}
				}
				return false
			}
			inner := map[*ssa.BasicBlock]*ssax.Loop{}
			for _, l := range loops {
				if l != loop && loop.Blocks[l.Header] {
					inner[l.Header] = l
				}
			}
			r := ssax.Reach{
				Target: func(ins ssa.Instruction) bool { return ins == ssa.Instruction(next) },
				Avoid:  keeps,
				Within: loop.Blocks,
				AvoidEdge: func(from, to *ssa.BasicBlock) bool {
					l := inner[from]
					return l != nil && !l.Blocks[to] // leaving a counted inner loop: assumed to have run (counts are positive)
				},
			}
			hit, trail := r.From(next)
			if hit != nil {
				c.Violate(rule, key, c.P.Pos(next.Pos()), "an entry of the table of replies still owed can be passed over without its key being appended to the rebuilt request: after a connection failure that key is never asked for again and the caller gets an incomplete answer without an error",
					ssax.BlockTrail(c.P.Fset, trail)...)
			} else {
				c.OK(rule, key, c.P.Pos(next.Pos()), "every path through the loop body appends the entry's key")
			}
		})
	}
	if found == 0 {
		c.Undecided(rule, "batched#rebuild", "-", "no function rebuilding a GetRequest from a map found")
	}
}

// carriesTables reports whether a channel's element type is a struct with map-typed fields (the batch and its tables).
func carriesTables(t types.Type) bool {
	ch, ok := t.Underlying().(*types.Chan)
	if !ok {
		return false
	}
	st, ok := ch.Elem().Underlying().(*types.Struct)
	if !ok {
		return false
	}
	for i := 0; i < st.NumFields(); i++ {
		if _, isMap := st.Field(i).Type().Underlying().(*types.Map); isMap {
			return true
		}
	}
	return false
}
