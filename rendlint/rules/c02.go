package rules

import (
	"fmt"
	"go/token"
	"sort"
	"strings"

	"golang.org/x/tools/go/ssa"

	"rendlint/core"
	"rendlint/ssax"
)

func init() {
	Meta["C02"] = &PropMeta{
		Title: "L1 is only a cache: losing L1 entries is invisible; L1 never disagrees with L2",
		Explain: "The write discipline that makes 'L1 is a subset of L2' inductive, decided on every path of the two-tier orchestrators: (R2.1) every L1 operation that changes a value, presence or TTL is dominated by the success edge of an L2 operation on the same key in the same command (one reasoned exemption: L1L2's get-and-touch reads L1 first with GAT, which only changes the TTL of an entry already there and fails the command if L2 then misses); (R2.2) the batch port never creates L1 entries: its L1 operations are limited to get, replace, append, prepend, touch, delete, all of which fail rather than create when the key is absent; (R2.3) a refused L1 write after an L2 success is compensated by an L1 delete before the success reply; (R2.4) delete hits L2 first and leaves L1 alone on an L2 miss; (R2.5) the get back-fill stores into L1 exactly the key, flags, data and remaining TTL of the response received from L2. " +
			"Decides the write discipline; invisibility of evictions in replies and the invariant under concurrent commands are not decided.",
		Assume: commonAssume,
		Run:    runC02,
	}
}

// l2SuccessDominates: block b is only reached after l2call succeeded (its error tested nil), or - for calls that
// answer through a channel - after a non-miss response was received from that channel.
func l2SuccessDominates(pv *ssax.Prov, b *ssa.BasicBlock, l2 tierCall) (bool, string) {
	call, ok := l2.Ins.(*ssa.Call)
	if !ok {
		return false, ""
	}
	if e := errResult(call); e != nil && call.Call.Signature().Results().Len() <= 2 && !strings.HasPrefix(l2.Method, "Get") {
		for _, ec := range ssax.DomConds(b) {
			bo, ok := ec.Cond.(*ssa.BinOp)
			if !ok || !(ssax.IsNilConst(bo.X) || ssax.IsNilConst(bo.Y)) {
				continue
			}
			tested := bo.X
			if ssax.IsNilConst(tested) {
				tested = bo.Y
			}
			if ds := ssax.Defs(tested); len(ds) == 1 && ds[0] == e {
				if (bo.Op == token.NEQ && !ec.True) || (bo.Op == token.EQL && ec.True) {
					// a GAT additionally needs a hit
					if l2.Method == "GAT" {
						for _, ec2 := range ssax.DomConds(b) {
							if isFieldLoad(ec2.Cond, "Miss") || fieldOfValue(ec2.Cond, "Miss") {
								if !ec2.True {
									return true, "after " + l2.String() + " returned a hit"
								}
							}
						}
						return false, ""
					}
					return true, "after " + l2.String() + " succeeded"
				}
			}
		}
		return false, ""
	}
	// channel answer: a response received from the call's channel with Miss == false
	for _, ec := range ssax.DomConds(b) {
		if ec.True {
			continue
		}
		for _, s := range pv.Sources(ec.Cond) {
			if s.Kind != "recv" || !s.PathIs("Miss") {
				continue
			}
			for _, cs := range pv.Sources(s.V) {
				if cs.Kind == "call" && cs.Call == l2.Call {
					return true, "after a hit was received from " + l2.String()
				}
			}
		}
	}
	return false, ""
}

func fieldOfValue(v ssa.Value, field string) bool {
	f, ok := v.(*ssa.Field)
	if !ok {
		return false
	}
	n, _ := ssax.FieldName(f)
	return n == field
}

func keySources(pv *ssax.Prov, cc *ssa.CallCommon) string {
	if len(cc.Args) == 0 {
		return ""
	}
	a := cc.Args[0]
	if hasField(a.Type(), "Key") {
		return strings.Join(ssax.Strings(pv.Sources(a, "Key")), ",")
	}
	if hasField(a.Type(), "Keys") {
		return strings.Join(ssax.Strings(pv.Sources(a, "Keys", "[]")), ",")
	}
	return ""
}

// checkL2First implements R2.1 (also used by C01 as R1.2's ordering clause).
func checkL2First(c *core.Ctx, rule string) {
	pv := &ssax.Prov{}
	for _, ctor := range []string{"L1L2", "L1L2Batch"} {
		role, err := resolveOrca(c, ctor)
		if err != nil {
			c.Undecided(rule, "orcas."+ctor, "-", err.Error())
			continue
		}
		for _, m := range orcaMethods(c) {
			fn := c.P.Method(role.Impl, m)
			if fn == nil || len(fn.Blocks) == 0 {
				continue
			}
			tcs := tierCalls(fn, role)
			counts := map[string]int{}
			for _, w := range tcs {
				if w.Tier != "l1" || !isOneOf(w.Method, "Set", "Add", "Replace", "Append", "Prepend", "Delete", "Touch", "GAT") {
					continue
				}
				key := ordinalKey(counts, core.FuncName(fn)+"#"+w.String())
				pos := c.P.Pos(w.Ins.Pos())
				if ctor == "L1L2" && m == "Gat" && w.Method == "GAT" {
					c.OK(rule, key, pos, "exemption: get-and-touch reads L1 first; it changes only the TTL of an entry already in L1 and the command fails if L2 then misses")
					continue
				}
				wk := keySources(pv, w.Call)
				good, how := false, ""
				for _, l2 := range tcs {
					if l2.Tier != "l2" {
						continue
					}
					ok, h := l2SuccessDominates(pv, w.Ins.Block(), l2)
					if !ok {
						continue
					}
					// same key: the request's key, or the key of the response received from L2
					lk := keySources(pv, l2.Call)
					same := wk == lk || strings.HasPrefix(wk, "recv") || strings.Contains(h, "received")
					if w.Call.Args[0] == l2.Call.Args[0] {
						same = true
					}
					if same {
						good, how = true, h
					}
				}
				c.Check(good, rule, key, pos, "L1 is changed only "+how,
					"L1 is changed by "+w.String()+" on a path where no L2 operation on that key has succeeded: L1 can hold a value L2 does not have")
			}
		}
	}
}

func runC02(c *core.Ctx) {
	defer func() {
		c.Rule("R2.9", "the tiers are wired as the orchestrators assume (first handler constructor = L1, second = L2, in the accept loop and in main for both ports): a swap makes the authoritative tier the one that evicts", 3)
		runR118(c, "R2.9")
		c.Share(map[string]string{"R4.11": "R2.8", "R4.12": "R2.12"}, runC04)
		c.Share(map[string]string{"R1.11": "R2.10", "R1.10": "R2.13"}, runC01) // misaligned keys/opaques make the reply to a key depend on whether another key was in L1
		c.Share(map[string]string{"R3.4": "R2.11", "R3.6": "R2.14"}, runC03)  // a port that locks through the wrong table lets a delete slip between a get's L2 read and its L1 back-fill // an L1 append that changes the flags makes L1 differ from L2
		c.Share(map[string]string{"R3.1": "R2.7"}, runC03)   // a TTL/value change under the shared lock interleaves with a get's back-fill: L1 keeps what L2 dropped
	}()
	c.Rule("R2.1", "every L1 operation that changes a value, presence or TTL is dominated by the success of an L2 operation on the same key in the same command", 18)
	c.Rule("R2.2", "the batch port never populates L1: its L1 operations are limited to get, replace, append, prepend, touch and delete", 9)
	c.Rule("R2.3", "a refused L1 write after an L2 success is compensated by an L1 delete of the same key before the success reply (or the error is returned)", 10)
	c.Rule("R2.4", "delete: the L2 delete dominates the L1 delete", 2)
	c.Rule("R2.5", "the get back-fill writes into L1 the key, flags, data and remaining TTL of the response received from L2's gete", 1)

	checkL2First(c, "R2.1")
	c.Rule("R2.6", "each two-tier orchestrator method calls exactly the handler methods of the orchestration contract: the L1 operation is the one that keeps L1 a copy of what the L2 operation of the same command stored", 20)
	runR12(c, "R2.6", []string{"L1L2", "L1L2Batch"})

	// ---- R2.2
	if role, err := resolveOrca(c, "L1L2Batch"); err != nil {
		c.Undecided("R2.2", "orcas.L1L2Batch", "-", err.Error())
	} else {
		allowed := map[string]bool{"Get": true, "Replace": true, "Append": true, "Prepend": true, "Touch": true, "Delete": true}
		for _, m := range orcaMethods(c) {
			fn := c.P.Method(role.Impl, m)
			if fn == nil || len(fn.Blocks) == 0 {
				continue
			}
			var used, bad []string
			for _, tc := range tierCalls(fn, role) {
				if tc.Tier != "l1" {
					continue
				}
				used = append(used, tc.Method)
				if !allowed[tc.Method] {
					bad = append(bad, fmt.Sprintf("l1.%s at %s", tc.Method, c.P.Pos(tc.Ins.Pos())))
				}
			}
			if len(used) == 0 {
				continue
			}
			sort.Strings(used)
			c.Check(len(bad) == 0, "R2.2", core.FuncName(fn)+"#l1-ops", c.P.Pos(fn.Pos()), "L1 operations: "+strings.Join(uniq(used), ","),
				"the batch port creates entries in L1 ("+strings.Join(bad, ", ")+"): bulk loads must only refresh keys that are already hot")
		}
	}

	// ---- R2.3
	runR101(c, "R2.3")

	// ---- R2.4
	for _, ctor := range []string{"L1L2", "L1L2Batch"} {
		role, err := resolveOrca(c, ctor)
		if err != nil {
			continue
		}
		fn := c.P.Method(role.Impl, "Delete")
		if fn == nil {
			c.Undecided("R2.4", "orcas."+ctor+".Delete", "-", "method not found")
			continue
		}
		var l1d, l2d ssa.Instruction
		for _, tc := range tierCalls(fn, role) {
			if tc.Method == "Delete" && tc.Tier == "l1" {
				l1d = tc.Ins
			}
			if tc.Method == "Delete" && tc.Tier == "l2" {
				l2d = tc.Ins
			}
		}
		good := l1d != nil && l2d != nil && l2d.Block().Dominates(l1d.Block()) && (l2d.Block() != l1d.Block() || ssax.IndexIn(l2d) < ssax.IndexIn(l1d))
		c.Check(good, "R2.4", core.FuncName(fn)+"#l2-first", c.P.Pos(fn.Pos()), "l2.Delete dominates l1.Delete", "delete does not remove the key from L2 before L1: a concurrent get can back-fill L1 from L2 after L1 was cleared")
	}

	// ---- R2.5
	if role, err := resolveOrca(c, "L1L2"); err == nil {
		fn := c.P.Method(role.Impl, "Get")
		pv := &ssax.Prov{}
		n := 0
		if fn != nil {
			for _, tc := range tierCalls(fn, role) {
				if tc.Tier != "l1" || tc.Method != "Set" {
					continue
				}
				n++
				var bad []string
				for _, f := range []string{"Key", "Flags", "Data", "Exptime"} {
					srcs := pv.Sources(tc.Call.Args[0], f)
					if !ssax.All(srcs, func(s ssax.Src) bool {
						return s.Kind == "recv" && s.PathIs(f) && chanFromTier(pv, s.V, fn, role, "l2", "GetE")
					}) {
						bad = append(bad, f+" <- "+strings.Join(ssax.Strings(srcs), ","))
					}
				}
				c.Check(len(bad) == 0, "R2.5", core.FuncName(fn)+"#back-fill", c.P.Pos(tc.Ins.Pos()), "Key, Flags, Data and Exptime of the back-fill come from the gete response of L2",
					"the L1 back-fill does not copy L2's entry: "+strings.Join(bad, "; "))
			}
		}
		if n == 0 {
			c.Undecided("R2.5", "orcas.L1L2.Get#back-fill", "-", "no l1.Set in Get")
		}
	}
}
