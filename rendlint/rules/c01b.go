package rules

import (
	"fmt"
	"go/types"
	"sort"
	"strings"

	"golang.org/x/tools/go/ssa"

	"rendlint/core"
	"rendlint/ssax"
)

// benignTable: orchestration contract (DESIGN 4.B.2) - L1 statuses that still end in a success reply after the
// same command succeeded in L2, per orchestrator constructor, orchestrator method and L1 handler method.
var benignTable = map[string][]string{
	"L1L2.Replace.Replace": {"common.ErrKeyNotFound"},
	"L1L2.Append.Append":   {"common.ErrItemNotStored", "common.ErrKeyNotFound"},
	"L1L2.Prepend.Prepend": {"common.ErrItemNotStored", "common.ErrKeyNotFound"},
	"L1L2.Delete.Delete":   {"common.ErrKeyNotFound"},
	"L1L2.Touch.Touch":     {"common.ErrKeyNotFound"},
	"L1L2.Gat.Add":         {"common.ErrKeyExists"},

	"L1L2Batch.Set.Replace":     {"common.ErrKeyNotFound"},
	"L1L2Batch.Add.Replace":     {"common.ErrKeyNotFound"},
	"L1L2Batch.Replace.Replace": {"common.ErrKeyNotFound"},
	"L1L2Batch.Append.Append":   {"common.ErrItemNotStored", "common.ErrKeyNotFound"},
	"L1L2Batch.Prepend.Prepend": {"common.ErrItemNotStored", "common.ErrKeyNotFound"},
	"L1L2Batch.Delete.Delete":   {"common.ErrKeyNotFound"},
	"L1L2Batch.Touch.Touch":     {"common.ErrKeyNotFound"},
	"L1L2Batch.Gat.Touch":       {"common.ErrKeyNotFound"},
}

func benignFor(ctor, method, l1method string) map[string]bool {
	out := map[string]bool{}
	for _, s := range benignTable[ctor+"."+method+"."+l1method] {
		out[s] = true
	}
	return out
}

type benignState struct {
	f      ssax.Facts
	passed bool
}

func (s *benignState) Key() string       { return fmt.Sprintf("%v/%s", s.passed, s.f.Key()) }
func (s *benignState) Copy() ssax.PState { return &benignState{s.f.Clone(), s.passed} }

// checkBenignSucceeds: when the L1 call answers with a benign status (L1 simply holds no copy) after L2 accepted
// the command, the command must still succeed - returning that status tells the client a command failed that L2
// has already applied, and makes the tier placement observable.
func checkBenignSucceeds(c *core.Ctx, rule string) {
	var rows []string
	for k := range benignTable {
		rows = append(rows, k)
	}
	sort.Strings(rows)
	roles := map[string]*orcaRole{}
	for _, row := range rows {
		parts := strings.Split(row, ".")
		ctor, m, l1m := parts[0], parts[1], parts[2]
		role := roles[ctor]
		if role == nil {
			r, err := resolveOrca(c, ctor)
			if err != nil {
				c.Undecided(rule, "orcas."+ctor, "-", err.Error())
				continue
			}
			role = r
			roles[ctor] = r
		}
		fn := c.P.Method(role.Impl, m)
		if fn == nil || len(fn.Blocks) == 0 {
			c.Undecided(rule, "orcas."+ctor+"."+m, "-", "method not found")
			continue
		}
		var w *ssa.Call
		for _, tc := range tierCalls(fn, role) {
			if tc.Tier == "l1" && tc.Method == l1m {
				w, _ = tc.Ins.(*ssa.Call)
			}
		}
		if w == nil {
			// the contract table (R1.2) reports the missing call
			continue
		}
		e := errResult(w)
		if e == nil {
			continue
		}
		for _, sent := range benignTable[row] {
			key := fmt.Sprintf("%s#l1.%s:%s-succeeds", core.FuncName(fn), l1m, strings.TrimPrefix(sent, "common.Err"))
			var bad []string
			ex := &ssax.Explorer{Fn: fn}
			ex.Enter = func(b, pred *ssa.BasicBlock, ps ssax.PState) {
				s := ps.(*benignState)
				s.f.EnterBlock(b, pred)
				s.f.Retain(func(v ssa.Value) bool { return ssax.IsErrorValue(v) || types.TypeString(v.Type(), nil) == "bool" })
			}
			ex.Instr = func(ins ssa.Instruction, ps ssax.PState) bool {
				s := ps.(*benignState)
				s.f.Step(ins)
				if v, ok := ins.(ssa.Value); ok && v == e {
					s.f.Set(e, ssax.Fact{Nil: ssax.No, Sent: sent})
					s.passed = true
				}
				return true
			}
			ex.Branch = func(ifi *ssa.If, truth bool, ps ssax.PState) bool { return ps.(*benignState).f.Assume(ifi.Cond, truth) }
			ex.Exit = func(ins ssa.Instruction, ps ssax.PState) {
				s := ps.(*benignState)
				ret, ok := ins.(*ssa.Return)
				if !ok || !s.passed || len(ret.Results) == 0 {
					return
				}
				r := ret.Results[len(ret.Results)-1]
				f := s.f.Eval(r)
				if f.Sent == sent || (f.Nil == ssax.No && f.Sent != "") {
					bad = append(bad, fmt.Sprintf("returns %s at %s", f.Sent, c.P.Pos(ret.Pos())))
				}
			}
			ex.Run(&benignState{f: ssax.Facts{}})
			if ex.Exceeded {
				c.Undecided(rule, key, c.P.Pos(w.Pos()), "state space exceeded")
				continue
			}
			c.Check(len(bad) == 0, rule, key, c.P.Pos(w.Pos()), "an L1 answer of "+sent+" after the L2 success still ends in the success reply",
				fmt.Sprintf("after L2 applied the command, an L1 answer of %s (L1 simply holds no copy) makes the command fail (%s): the client is told a command failed that took effect, depending only on what L1 happens to hold", sent, strings.Join(uniq(bad), ", ")))
		}
	}
}

// ---------------------------------------------------------------- parallel slices of rebuilt multi-key requests

type sliceOrigin struct {
	kind    string // param | acc | lit | other
	root    string
	appends []*ssa.Call
	desc    string
}

func appendChain(v ssa.Value) []*ssa.Call {
	var out []*ssa.Call
	seen := map[ssa.Value]bool{}
	var walk func(v ssa.Value)
	walk = func(v ssa.Value) {
		if v == nil || seen[v] {
			return
		}
		seen[v] = true
		for _, d := range ssax.Defs(v) {
			switch x := d.(type) {
			case *ssa.Call:
				if b, ok := x.Call.Value.(*ssa.Builtin); ok && b.Name() == "append" {
					out = append(out, x)
					walk(x.Call.Args[0])
				}
			case *ssa.Phi:
				for _, e := range x.Edges {
					walk(e)
				}
			}
		}
	}
	walk(v)
	return out
}

func originOf(pv *ssax.Prov, v ssa.Value) sliceOrigin {
	if v == nil {
		return sliceOrigin{kind: "other", desc: "unset"}
	}
	if apps := appendChain(v); len(apps) > 0 {
		return sliceOrigin{kind: "acc", appends: apps, desc: "a slice accumulated by append"}
	}
	if sl, ok := v.(*ssa.Slice); ok {
		if _, isArr := sl.X.(*ssa.Alloc); isArr {
			srcs := pv.Sources(sl, "[]")
			return sliceOrigin{kind: "lit", root: strings.Join(ssax.Strings(srcs), ","), desc: "a one-element literal of " + strings.Join(ssax.Strings(srcs), ",")}
		}
	}
	srcs := pv.Sources(v)
	if len(srcs) == 1 && srcs[0].Kind == "param" && len(srcs[0].Path) == 1 {
		return sliceOrigin{kind: "param", root: srcs[0].V.Name(), desc: srcs[0].String()}
	}
	return sliceOrigin{kind: "other", desc: strings.Join(ssax.Strings(srcs), ",")}
}

// checkParallelSlices: a GetRequest's Keys, Opaques and Quiet describe the same list of keys position by position.
// Wherever a GetRequest is rebuilt, the three slices must have one origin: all three fields of the same request,
// all three accumulated together (appended in the same place from one response), or all three built from the same
// index of the original request.
func checkParallelSlices(c *core.Ctx, rule string) {
	var fns []*ssa.Function
	for _, ctor := range append(append([]string{}, inScopeCtors...), "Locked") {
		role, err := resolveOrca(c, ctor)
		if err != nil {
			continue
		}
		for _, m := range []string{"Get", "GetE"} {
			if fn := c.P.Method(role.Impl, m); fn != nil && len(fn.Blocks) > 0 {
				fns = append(fns, fn)
			}
		}
	}
	for _, fn := range pkgFuncs(c, relBatched) {
		fns = append(fns, fn)
	}
	checkParallelSlicesIn(c, rule, fns)
}

func checkParallelSlicesIn(c *core.Ctx, rule string, fns []*ssa.Function) {
	pv := &ssax.Prov{}
	n := 0
	for _, fn := range fns {
		counts := map[string]int{}
		ssax.Instrs(fn, func(ins ssa.Instruction) {
			al, ok := ins.(*ssa.Alloc)
			if !ok || ssax.ShortType(al.Type()) != "*common.GetRequest" {
				return
			}
			kv, ov, qv := literalField(al, "Keys"), literalField(al, "Opaques"), literalField(al, "Quiet")
			if kv == nil && ov == nil && qv == nil {
				return
			}
			n++
			key := ordinalKey(counts, core.FuncName(fn)+"#GetRequest-slices")
			ko, oo, qo := originOf(pv, kv), originOf(pv, ov), originOf(pv, qv)
			var bad []string
			if ko.kind != oo.kind || ko.kind != qo.kind {
				bad = append(bad, fmt.Sprintf("Keys is %s, Opaques is %s, Quiet is %s: the three lists no longer describe the same keys position by position", ko.desc, oo.desc, qo.desc))
			} else {
				switch ko.kind {
				case "param":
					if ko.root != oo.root || ko.root != qo.root {
						bad = append(bad, "Keys, Opaques and Quiet come from different requests")
					}
				case "acc":
					// every append to Keys has sibling appends to Opaques and Quiet in the same block
					for _, ka := range ko.appends {
						var hasO, hasQ bool
						for _, oa := range oo.appends {
							if oa.Block() == ka.Block() {
								hasO = true
							}
						}
						for _, qa := range qo.appends {
							if qa.Block() == ka.Block() {
								hasQ = true
							}
						}
						if !hasO || !hasQ {
							bad = append(bad, fmt.Sprintf("the key appended at %s has no opaque/quiet flag appended with it", c.P.Pos(ka.Pos())))
						}
					}
					if len(oo.appends) != len(ko.appends) || len(qo.appends) != len(ko.appends) {
						bad = append(bad, "Keys, Opaques and Quiet are appended to in a different number of places")
					}
					// the three elements appended in one place come from the same object (one response, one tracker entry)
					rootOf := func(call *ssa.Call) string {
						var roots []string
						for _, s := range pv.Sources(call.Call.Args[1], "[]") {
							if s.Kind == "const" || s.Kind == "zero" {
								continue
							}
							roots = append(roots, fmt.Sprintf("%s@%p", s.Kind, s.V))
						}
						return strings.Join(uniq(roots), ",")
					}
					// ... and, where visible, from the same variable: a struct kept from another iteration has the same
					// provenance but is a different entry
					baseOf := func(call *ssa.Call) ssa.Value {
						sl, ok := call.Call.Args[1].(*ssa.Slice)
						if !ok {
							return nil
						}
						al, ok := sl.X.(*ssa.Alloc)
						if !ok {
							return nil
						}
						for _, r := range *al.Referrers() {
							ia, ok := r.(*ssa.IndexAddr)
							if !ok {
								continue
							}
							for _, st := range ssax.StoresTo(ia) {
								v := ssax.Unwrap(st.Val)
								switch x := v.(type) {
								case *ssa.Field:
									if u, ok := x.X.(*ssa.UnOp); ok {
										return u.X
									}
									return x.X
								case *ssa.UnOp:
									if fa, ok := x.X.(*ssa.FieldAddr); ok {
										return fa.X
									}
								}
							}
						}
						return nil
					}
					for _, ka := range ko.appends {
						kb := baseOf(ka)
						for _, group := range [][]*ssa.Call{oo.appends, qo.appends} {
							for _, oa := range group {
								if oa.Block() == ka.Block() {
									if ob := baseOf(oa); ob != nil && kb != nil && ob != kb {
										bad = append(bad, fmt.Sprintf("at %s the key is taken from variable %s but the %s appended with it from variable %s", c.P.Pos(ka.Pos()), kb.Name(), map[bool]string{true: "opaque", false: "quiet flag"}[types.TypeString(oa.Type(), nil) == "[]uint32"], ob.Name()))
									}
								}
							}
						}
					}
					for _, ka := range ko.appends {
						kr := rootOf(ka)
						for _, group := range [][]*ssa.Call{oo.appends, qo.appends} {
							for _, oa := range group {
								if oa.Block() == ka.Block() {
									if or := rootOf(oa); or != "" && kr != "" && or != kr {
										bad = append(bad, fmt.Sprintf("at %s the key and the %s appended with it come from different objects: the lists are the same length but describe different keys", c.P.Pos(ka.Pos()), map[bool]string{true: "opaque", false: "quiet flag"}[types.TypeString(oa.Type(), nil) == "[]uint32"]))
									}
								}
							}
						}
					}
				case "lit":
				case "other":
					bad = append(bad, "cannot relate the three slices: "+ko.desc)
				}
			}
			c.Check(len(bad) == 0, rule, key, c.P.Pos(al.Pos()), "Keys, Opaques and Quiet have one origin ("+ko.kind+")", strings.Join(uniq(bad), "; "))
		})
	}
	if n == 0 {
		c.Undecided(rule, "orcas#GetRequest-literals", "-", "no rebuilt GetRequest found")
	}
}
