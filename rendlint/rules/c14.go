package rules

import (
	"fmt"
	"go/token"
	"go/types"
	"sort"
	"strings"

	"golang.org/x/tools/go/ssa"

	"rendlint/core"
	"rendlint/ssax"
)

func init() {
	Meta["C14"] = &PropMeta{
		Title: "Concurrent connections do not interfere with each other",
		Explain: "Shared-state analysis of the server packages: (1) typestate over pooled objects - after Put / PutResponseHeader(x) no path reads, writes or returns x (kill at redefinition, phi per edge); (2) atomic consistency - every location updated through sync/atomic is never read, copied or written plainly at run time unless under the exclusive lock its atomic writers hold shared; (3) inventory - every package-level variable is classified (immutable after init, synchronisation primitive, atomic-only, mutex-guarded, unique-slot registration) or reported; (4) one backend socket and handler per accepted connection; (5) what the constructor factories capture and share between connections is immutable or synchronisation-safe. " +
			"Decides these structural conditions of race freedom; does not decide absence of data races in general.",
		Assume: commonAssume,
		Run:    runC14,
	}
}

// ---------------------------------------------------------------- R14.3

// releaseArg returns the released value if ins is a non-deferred pool release.
func releaseArg(ins ssa.Instruction, wrappers map[*ssa.Function]int) ssa.Value {
	call, ok := ins.(*ssa.Call)
	if !ok {
		return nil
	}
	cc := &call.Call
	if ssax.CalleeName(cc) == "(*sync.Pool).Put" && len(cc.Args) == 2 {
		return ssax.Unwrap(cc.Args[1])
	}
	if f := cc.StaticCallee(); f != nil {
		if idx, ok := wrappers[f]; ok && idx < len(cc.Args) {
			return ssax.Unwrap(cc.Args[idx])
		}
	}
	return nil
}

// deferredReleaseArg returns the released value if d defers a pool release.
func deferredReleaseArg(d *ssa.Defer, wrappers map[*ssa.Function]int) ssa.Value {
	cc := &d.Call
	if ssax.CalleeName(cc) == "(*sync.Pool).Put" && len(cc.Args) == 2 {
		return ssax.Unwrap(cc.Args[1])
	}
	if f := cc.StaticCallee(); f != nil {
		if idx, ok := wrappers[f]; ok && idx < len(cc.Args) {
			return ssax.Unwrap(cc.Args[idx])
		}
	}
	return nil
}

// poolWrappers finds thin wrappers of (*sync.Pool).Put: single-block functions that put one of their parameters.
func poolWrappers(c *core.Ctx) map[*ssa.Function]int {
	out := map[*ssa.Function]int{}
	for _, fn := range c.P.RepoFuncs("") {
		if len(fn.Blocks) == 0 || len(fn.Blocks) > 4 {
			continue
		}
		ssax.Instrs(fn, func(ins ssa.Instruction) {
			call, ok := ins.(*ssa.Call)
			if !ok || ssax.CalleeName(&call.Call) != "(*sync.Pool).Put" {
				return
			}
			arg := ssax.Unwrap(call.Call.Args[1])
			if len(fn.Blocks) > 1 {
				// a small guarded wrapper (if cap(b) > 0 { pool.Put(b[:0]) }): the parameter's storage is what goes back
				if sl, ok := arg.(*ssa.Slice); ok {
					arg = ssax.Unwrap(sl.X)
				}
			}
			if p, ok := arg.(*ssa.Parameter); ok {
				out[fn] = paramIndex(p)
			}
		})
	}
	return out
}

// baseChain lists v and the values it is derived from by field/index/slice selection.
func baseChain(v ssa.Value) []ssa.Value {
	var out []ssa.Value
	for i := 0; i < 16 && v != nil; i++ {
		out = append(out, v)
		switch x := v.(type) {
		case *ssa.FieldAddr:
			v = x.X
		case *ssa.IndexAddr:
			v = x.X
		case *ssa.Slice:
			v = x.X
		case *ssa.ChangeType:
			v = x.X
		case *ssa.MakeInterface:
			v = x.X
		case *ssa.Convert:
			v = x.X
		case *ssa.UnOp:
			if x.Op == token.MUL {
				// a load through a released pointer is a use of that pointer
				v = x.X
			} else {
				return out
			}
		case *ssa.Call:
			// a slice, pointer or map handed out by a method of the object (buf.Bytes()) shares its storage
			if x.Call.IsInvoke() || x.Call.Signature().Recv() == nil || len(x.Call.Args) == 0 {
				return out
			}
			switch x.Type().Underlying().(type) {
			case *types.Slice, *types.Pointer, *types.Map:
				v = x.Call.Args[0]
			default:
				return out
			}
		default:
			return out
		}
	}
	return out
}

type relSet map[ssa.Value]ssa.Instruction // released value -> releasing instruction

func (s relSet) clone() relSet {
	c := relSet{}
	for k, v := range s {
		c[k] = v
	}
	return c
}

func useAfterRelease(c *core.Ctx, fn *ssa.Function, wrappers map[*ssa.Function]int) (sites int, viols []string, pos []string) {
	// any release in this function?
	ssax.Instrs(fn, func(ins ssa.Instruction) {
		if releaseArg(ins, wrappers) != nil {
			sites++
		}
	})
	if sites == 0 {
		return
	}
	var deferred []*ssa.Defer
	ssax.Instrs(fn, func(ins ssa.Instruction) {
		if d, ok := ins.(*ssa.Defer); ok && deferredReleaseArg(d, wrappers) != nil {
			deferred = append(deferred, d)
		}
	})
	in := map[*ssa.BasicBlock]relSet{fn.Blocks[0]: {}}
	outB := map[*ssa.BasicBlock]relSet{}
	reported := map[string]bool{}
	work := []*ssa.BasicBlock{fn.Blocks[0]}
	iter := 0
	for len(work) > 0 && iter < 10000 {
		iter++
		b := work[0]
		work = work[1:]
		st := in[b].clone()
		for _, ins := range b.Instrs {
			if _, isPhi := ins.(*ssa.Phi); isPhi {
				continue // evaluated on the edges
			}
			// uses
			rel := releaseArg(ins, wrappers)
			for _, op := range ins.Operands(nil) {
				if op == nil || *op == nil {
					continue
				}
				for _, bv := range baseChain(*op) {
					if by, ok := st[bv]; ok {
						if rel != nil && ssax.Unwrap(*op) == rel {
							// releasing twice
							k := fmt.Sprintf("double|%p", ins)
							if !reported[k] {
								reported[k] = true
								viols = append(viols, fmt.Sprintf("%s released again at %s after the release at %s", bv.Name(), c.P.Pos(ins.Pos()), c.P.Pos(by.Pos())))
								pos = append(pos, c.P.Pos(ins.Pos()))
							}
							continue
						}
						k := fmt.Sprintf("%p|%p", ins, bv)
						if !reported[k] {
							reported[k] = true
							what := "used"
							if _, isRet := ins.(*ssa.Return); isRet {
								what = "returned to the caller"
							}
							p := ins.Pos()
							if !p.IsValid() {
								if v, ok := (*op).(ssa.Instruction); ok {
									p = v.Pos()
								}
							}
							viols = append(viols, fmt.Sprintf("pooled object %s (%s) is %s at %s after it was put back at %s", bv.Name(), ssax.ShortType(bv.Type()), what, c.P.Pos(p), c.P.Pos(by.Pos())))
							pos = append(pos, c.P.Pos(by.Pos()))
						}
					}
				}
			}
			// the deferred releases run here: an object already released on this path is released a second time
			if _, isRun := ins.(*ssa.RunDefers); isRun {
				for _, d := range deferred {
					dv := deferredReleaseArg(d, wrappers)
					by, ok := st[dv]
					if !ok {
						continue
					}
					isBy := func(i ssa.Instruction) bool { return i == by }
					isD := func(i ssa.Instruction) bool { return i == ssa.Instruction(d) }
					h1, _ := (ssax.Reach{Target: isBy}).From(d)
					h2, _ := (ssax.Reach{Target: isD}).From(by)
					if h1 == nil && h2 == nil {
						continue // the two never happen on one path
					}
					k := fmt.Sprintf("double-defer|%p|%p", d, by)
					if !reported[k] {
						reported[k] = true
						viols = append(viols, fmt.Sprintf("%s is put back at %s and again by the deferred release registered at %s: the pool hands the same object to two users", dv.Name(), c.P.Pos(by.Pos()), c.P.Pos(d.Pos())))
						pos = append(pos, c.P.Pos(by.Pos()))
					}
				}
			}
			// kill at redefinition
			if v, ok := ins.(ssa.Value); ok {
				delete(st, v)
			}
			if rel != nil {
				st[rel] = ins
			}
		}
		outB[b] = st
		for _, s := range b.Succs {
			// state along the edge b -> s: phis of s are released iff their operand on this edge is
			es := st.clone()
			for _, ins := range s.Instrs {
				phi, ok := ins.(*ssa.Phi)
				if !ok {
					break
				}
				opnd := ssax.PhiOperand(phi, b)
				relBy, isRel := ssa.Instruction(nil), false
				if opnd != nil {
					for _, bv := range baseChain(opnd) {
						if by, ok := st[bv]; ok {
							relBy, isRel = by, true
						}
					}
				}
				if isRel {
					es[phi] = relBy
				} else {
					delete(es, phi)
				}
			}
			old, seen := in[s]
			changed := !seen
			if !seen {
				in[s] = es
			} else {
				for k, v := range es {
					if _, ok := old[k]; !ok {
						old[k] = v
						changed = true
					}
				}
			}
			if changed {
				work = append(work, s)
			}
		}
	}
	return
}

// ---------------------------------------------------------------- R14.2

type atomicLoc struct {
	global, typ string
	sites       []ssa.Instruction
}

func isAtomicCall(cc *ssa.CallCommon) bool {
	n := ssax.CalleeName(cc)
	return strings.HasPrefix(n, "sync/atomic.") && len(cc.Args) > 0
}

type plainAccess struct {
	ins    ssa.Instruction
	fn     *ssa.Function
	kind   string // load | store
	g, t   string
	inside string // the atomic location it overlaps
}

func runAtomicConsistency(c *core.Ctx, rule string, scope func(*ssa.Function) bool, initOnly map[*ssa.Function]bool) {
	fns := c.P.RepoFuncs("")
	// 1. atomic locations
	locs := map[string]*atomicLoc{}
	lockOfSite := map[ssa.Instruction]map[string]ssax.LockMode{}
	held := map[*ssa.Function]map[ssa.Instruction]map[string]ssax.LockMode{}
	heldOf := func(fn *ssa.Function) map[ssa.Instruction]map[string]ssax.LockMode {
		if h, ok := held[fn]; ok {
			return h
		}
		h := ssax.HeldLocks(fn)
		held[fn] = h
		return h
	}
	for _, fn := range fns {
		ssax.Instrs(fn, func(ins ssa.Instruction) {
			cc := ssax.CallOf(ins)
			if cc == nil || !isAtomicCall(cc) {
				return
			}
			g, t := ssax.AddrKeys(cc.Args[0])
			if g == "" && t == "" {
				// pointer value held in a variable: key of the pointer itself
				if u, ok := cc.Args[0].(*ssa.UnOp); ok && u.Op == token.MUL {
					g2, t2 := ssax.AddrKeys(u.X)
					if g2 != "" {
						g = g2 + "*"
					}
					if t2 != "" {
						t = t2 + "*"
					}
				}
			}
			if g == "" && t == "" {
				return // local
			}
			k := g + "|" + t
			l := locs[k]
			if l == nil {
				l = &atomicLoc{global: g, typ: t}
				locs[k] = l
			}
			l.sites = append(l.sites, ins)
			lockOfSite[ins] = heldOf(fn)[ins]
		})
	}
	var keys []string
	for k := range locs {
		keys = append(keys, k)
	}
	sort.Strings(keys)
	// 2. plain accesses overlapping an atomic location
	overlaps := func(g, t string, l *atomicLoc) bool {
		if g != "" && l.global != "" && (ssax.HasPrefixPath(l.global, g) || ssax.HasPrefixPath(g, l.global)) {
			return true
		}
		if t != "" && l.typ != "" && (ssax.HasPrefixPath(l.typ, t) || ssax.HasPrefixPath(t, l.typ)) {
			return true
		}
		return false
	}
	byLoc := map[string][]plainAccess{}
	for _, fn := range fns {
		ssax.Instrs(fn, func(ins ssa.Instruction) {
			var addr ssa.Value
			kind := ""
			switch x := ins.(type) {
			case *ssa.UnOp:
				if x.Op == token.MUL {
					addr, kind = x.X, "load"
					// a load of a pointer/slice header that is only used to form addresses is not an access to the pointee
				}
			case *ssa.Store:
				addr, kind = x.Addr, "store"
				// initialisation of a freshly allocated object is not shared yet
				for _, bv := range baseChain(addr) {
					if _, isAlloc := bv.(*ssa.Alloc); isAlloc {
						return
					}
				}
			}
			if addr == nil {
				return
			}
			g, t := ssax.AddrKeys(addr)
			if g == "" && t == "" {
				return
			}
			for _, k := range keys {
				l := locs[k]
				// the access must cover the atomic cell: same location, or an aggregate containing it
				covers := (g != "" && l.global != "" && ssax.HasPrefixPath(l.global, g)) || (t != "" && l.typ != "" && ssax.HasPrefixPath(l.typ, t))
				if !covers {
					continue
				}
				// loading a slice header / pointer on the way to the cell is not an access of the cell
				if kind == "load" {
					lt := ins.(*ssa.UnOp).Type().Underlying()
					switch lt.(type) {
					case *types.Slice, *types.Pointer, *types.Map, *types.Chan:
						if !(g == l.global && g != "") && !(t == l.typ && t != "") {
							continue
						}
					}
				}
				_ = overlaps
				byLoc[k] = append(byLoc[k], plainAccess{ins: ins, fn: fn, kind: kind, g: g, t: t})
			}
		})
	}
	for _, k := range keys {
		l := locs[k]
		if scope != nil {
			inScope := false
			for _, s := range l.sites {
				if scope(s.Parent()) {
					inScope = true
				}
			}
			if !inScope {
				continue
			}
		}
		name := l.global
		if name == "" {
			name = l.typ
		}
		name = short(strings.TrimPrefix(strings.TrimPrefix(name, "G:"), "T:"))
		key := "atomic:" + name
		// the lock all atomic writers hold (shared or exclusive)
		common := map[string]bool{}
		first := true
		for _, s := range l.sites {
			if initOnly[s.Parent()] {
				continue
			}
			hs := lockOfSite[s]
			if first {
				for lk := range hs {
					common[lk] = true
				}
				first = false
			} else {
				for lk := range common {
					if _, ok := hs[lk]; !ok {
						delete(common, lk)
					}
				}
			}
		}
		var bad []string
		nPlain := 0
		for _, pa := range byLoc[k] {
			if initOnly[pa.fn] {
				continue // registration-time code
			}
			nPlain++
			hs := heldOf(pa.fn)[pa.ins]
			okLock := false
			for lk := range common {
				if hs[lk] == ssax.Exclusive {
					okLock = true
				}
			}
			if okLock {
				continue
			}
			where := pa.g
			if where == "" {
				where = pa.t
			}
			bad = append(bad, fmt.Sprintf("plain %s of %s in %s at %s", pa.kind, short(where), core.FuncName(pa.fn), c.P.Pos(pa.ins.Pos())))
		}
		pos := c.P.Pos(l.sites[0].Pos())
		if len(bad) > 0 {
			sort.Strings(bad)
			c.Violate(rule, key, pos, fmt.Sprintf("location is updated through sync/atomic at %d sites but also accessed plainly at run time without the writers' lock held exclusively: %s", len(l.sites), bad[0]), bad...)
		} else {
			c.OK(rule, key, pos, fmt.Sprintf("%d atomic sites; %d run-time plain accesses, all under the exclusive lock; registration-time accesses ignored", len(l.sites), nPlain))
		}
	}
}

// ---------------------------------------------------------------- driver

func runC14(c *core.Ctx) {
	defer func() {
		c.Rule("R14.12", "a *math/rand.Rand held in a struct field of the batching pool is used from at most one of the goroutines the package starts", 1)
		checkRandConfined(c, "R14.12")
		c.Share(map[string]string{"R6.3": "R14.9"}, runC06)
		c.Share(map[string]string{"R13.14": "R14.11"}, runC13) // the pooled connection's stream field is written by recovery and read by the batcher without synchronisation: a data race
		c.Share(map[string]string{"R12.1": "R14.10"}, runC12) // a lock leaked by one connection's failure blocks other connections' commands on that stripe  // two requests of one batch under one opaque: a connection receives another connection's reply
		c.Share(map[string]string{"R17.1": "R14.8"}, runC17)  // the in-memory backend is one instance shared by all connections: its map is shared mutable state
	}()
	c.Rule("R14.1", "every package-level variable of the server packages is classified: immutable after initialisation, synchronisation primitive, accessed only through sync/atomic, written only under one mutex, or unique-slot registration (index claimed by an atomic increment); anything else is shared mutable state", 40)
	c.Rule("R14.2", "a location updated through sync/atomic is never read, copied or written plainly at run time unless under the exclusive lock that all its atomic writers hold; registration-time (init-only) code is exempt", 12)
	c.Rule("R14.3", "after Put / PutResponseHeader(x) on a path, x is not read, written, released again (explicitly or by a deferred release that is registered on the same path) or returned; a deferred release never returns the object", 20)
	c.Rule("R14.4", "one backend handler and socket per client connection: ListenAndServe calls both handler constructors inside the accept loop, the memcached constructors dial inside the returned closure and hand the fresh connection to NewHandler", 4)
	c.Rule("R14.5", "guarded globals: batched.relays is accessed only under relayLock (writes under the exclusive lock); a relay's connection list is stored only under addConnLock and read only through its atomic.Value", 3)
	c.Rule("R14.6", "state created once by a constructor factory and captured by the per-connection closure is immutable or synchronisation-safe", 8)

	c.Rule("R14.7", "a pooled object is released by one owner: a function that is handed a pooled object its caller releases (deferred or later) never puts that object back itself", 2)
	initOnly := initOnlySet(c)
	wrappers := poolWrappers(c)

	// R14.3
	for _, fn := range c.P.RepoFuncs("") {
		sites, viols, _ := useAfterRelease(c, fn, wrappers)
		// deferred release returning the object
		ssax.Instrs(fn, func(ins ssa.Instruction) {
			d, ok := ins.(*ssa.Defer)
			if !ok {
				return
			}
			var rel ssa.Value
			if ssax.CalleeName(&d.Call) == "(*sync.Pool).Put" && len(d.Call.Args) == 2 {
				rel = ssax.Unwrap(d.Call.Args[1])
			} else if f := d.Call.StaticCallee(); f != nil {
				if idx, ok := wrappers[f]; ok {
					rel = ssax.Unwrap(d.Call.Args[idx])
				}
			}
			if rel == nil {
				return
			}
			sites++
			for _, r := range ssax.Returns(fn) {
				for _, res := range r.Results {
					for _, def := range append([]ssa.Value{res}, ssax.Defs(res)...) {
						for _, bv := range baseChain(def) {
							if bv == rel {
								viols = append(viols, fmt.Sprintf("pooled object %s (or storage it hands out) is returned although a deferred release puts it back at exit (%s)", rel.Name(), c.P.Pos(d.Pos())))
							}
						}
					}
				}
			}
		})
		if sites == 0 {
			continue
		}
		key := core.FuncName(fn) + "#pooled"
		if len(viols) > 0 {
			c.Violate("R14.3", key, c.P.Pos(fn.Pos()), viols[0], viols...)
		} else {
			c.OK("R14.3", key, c.P.Pos(fn.Pos()), fmt.Sprintf("%d release sites, no use after release", sites))
		}
	}

	// R14.7
	runR147(c, "R14.7", wrappers, "")
	c.Rule("R14.13", "nothing nil goes into a shared pool: a (deferred) release of the first result of a call that can return (nil, err) happens only where that call succeeded", 3)
	checkNoNilIntoPool(c, "R14.13", wrappers)
	c.Rule("R14.14", "memory handed to another goroutine over a channel is not put into an object pool afterwards by the sender", 10)
	checkNoReleaseAfterHandOff(c, "R14.14", wrappers)

	// R14.2
	runAtomicConsistency(c, "R14.2", nil, initOnly)

	runR141(c, initOnly)
	runR144(c)
	runR145(c)
	runR146(c)
}

// ---------------------------------------------------------------- R14.7

type ownState struct {
	f     ssax.Facts
	alias map[ssa.Value]bool // values that currently denote the caller-owned parameter object
}

func (s *ownState) Key() string {
	var a []string
	for v := range s.alias {
		a = append(a, fmt.Sprintf("%p", v))
	}
	sort.Strings(a)
	return strings.Join(a, ",") + "|" + s.f.Key()
}
func (s *ownState) Copy() ssax.PState {
	c := &ownState{f: s.f.Clone(), alias: map[ssa.Value]bool{}}
	for k := range s.alias {
		c.alias[k] = true
	}
	return c
}

func releasedValue(ins ssa.Instruction, wrappers map[*ssa.Function]int) ssa.Value {
	cc := ssax.CallOf(ins)
	if cc == nil {
		return nil
	}
	if ssax.CalleeName(cc) == "(*sync.Pool).Put" && len(cc.Args) == 2 {
		return ssax.Unwrap(cc.Args[1])
	}
	if f := cc.StaticCallee(); f != nil {
		if idx, ok := wrappers[f]; ok && idx < len(cc.Args) {
			return ssax.Unwrap(cc.Args[idx])
		}
	}
	return nil
}

func runR147(c *core.Ctx, rule string, wrappers map[*ssa.Function]int, rel string) {
	fns := c.P.RepoFuncs(rel)
	n := 0
	for _, caller := range fns {
		// objects the caller releases itself
		owned := map[ssa.Value]ssa.Instruction{}
		ssax.Instrs(caller, func(ins ssa.Instruction) {
			if v := releasedValue(ins, wrappers); v != nil {
				for _, d := range ssax.Defs(v) {
					owned[d] = ins
				}
				owned[v] = ins
			}
		})
		if len(owned) == 0 {
			continue
		}
		counts := map[string]int{}
		ssax.Instrs(caller, func(ins ssa.Instruction) {
			call, ok := ins.(*ssa.Call)
			if !ok {
				return
			}
			callee := call.Call.StaticCallee()
			if callee == nil || len(callee.Blocks) == 0 || callee.Pkg == nil || !strings.HasPrefix(callee.Pkg.Pkg.Path(), core.Mod) {
				return
			}
			if _, isWrapper := wrappers[callee]; isWrapper {
				return
			}
			for ai, a := range call.Call.Args {
				var rel ssa.Instruction
				for _, d := range append(ssax.Defs(a), ssax.Unwrap(a)) {
					if r, ok := owned[d]; ok {
						rel = r
					}
				}
				if rel == nil || ai >= len(callee.Params) {
					continue
				}
				if _, isPtr := a.Type().Underlying().(*types.Pointer); !isPtr {
					continue
				}
				// the caller's release must still be ahead (deferred, or reachable after the call)
				if _, isDefer := rel.(*ssa.Defer); !isDefer {
					if hit, _ := (ssax.Reach{Target: func(x ssa.Instruction) bool { return x == rel }}).From(call); hit == nil {
						continue
					}
				}
				n++
				key := ordinalKey(counts, core.FuncName(caller)+"#passes-owned-to:"+callee.Name())
				viol := calleeReleasesParam(c, callee, ai, call, wrappers)
				c.Check(viol == "", rule, key, c.P.Pos(call.Pos()), "the callee never releases the object its caller owns",
					fmt.Sprintf("%s releases the pooled object it was handed (%s) and %s releases it again at %s: the pool holds it twice and hands it to two connections at once", callee.Name(), viol, caller.Name(), c.P.Pos(rel.Pos())))
			}
		})
	}
	if n == 0 {
		c.Undecided(rule, "pooled#ownership", "-", "no function passes a pooled object it owns to a callee")
	}
}

// calleeReleasesParam explores callee path-sensitively: which values denote parameter idx at each point, with the
// facts the call site establishes about that object's fields (e.g. header.Opcode == X).
func calleeReleasesParam(c *core.Ctx, callee *ssa.Function, idx int, site *ssa.Call, wrappers map[*ssa.Function]int) string {
	p := callee.Params[idx]
	// field facts established at the call site: conditions `arg.F == const`
	known := map[string]int64{}
	for _, ec := range ssax.DomConds(site.Block()) {
		bo, ok := ec.Cond.(*ssa.BinOp)
		if !ok || bo.Op != token.EQL || !ec.True {
			continue
		}
		k, isC := ssax.ConstInt(bo.Y)
		if !isC {
			continue
		}
		if u, ok := bo.X.(*ssa.UnOp); ok && u.Op == token.MUL {
			if fa, ok := u.X.(*ssa.FieldAddr); ok {
				same := false
				for _, d := range append(ssax.Defs(site.Call.Args[idx]), ssax.Unwrap(site.Call.Args[idx])) {
					if fa.X == d {
						same = true
					}
				}
				if n, _ := ssax.FieldName(fa); same {
					known[n] = k
				}
			}
		}
	}
	viol := ""
	ex := &ssax.Explorer{Fn: callee}
	ex.Enter = func(b, pred *ssa.BasicBlock, ps ssax.PState) {
		s := ps.(*ownState)
		if pred != nil {
			for _, ins := range b.Instrs {
				phi, ok := ins.(*ssa.Phi)
				if !ok {
					break
				}
				if op := ssax.PhiOperand(phi, pred); op != nil && s.alias[op] {
					s.alias[phi] = true
				} else {
					delete(s.alias, phi)
				}
			}
		}
		s.f.EnterBlock(b, pred)
		s.f.Retain(func(v ssa.Value) bool { return types.TypeString(v.Type(), nil) == "bool" })
	}
	ex.Instr = func(ins ssa.Instruction, ps ssax.PState) bool {
		s := ps.(*ownState)
		if _, isDefer := ins.(*ssa.Defer); !isDefer {
			if v := releasedValue(ins, wrappers); v != nil && s.alias[v] {
				viol = "at " + c.P.Pos(ins.Pos())
			}
		}
		s.f.Step(ins)
		return true
	}
	ex.Branch = func(ifi *ssa.If, truth bool, ps ssax.PState) bool {
		s := ps.(*ownState)
		// a comparison of a field of the owned object with a constant the call site has pinned down
		if bo, ok := ifi.Cond.(*ssa.BinOp); ok && (bo.Op == token.EQL || bo.Op == token.NEQ) {
			if k, isC := ssax.ConstInt(bo.Y); isC {
				if u, ok := bo.X.(*ssa.UnOp); ok && u.Op == token.MUL {
					if fa, ok := u.X.(*ssa.FieldAddr); ok && s.alias[fa.X] {
						if n, _ := ssax.FieldName(fa); true {
							if kv, has := known[n]; has {
								val := (kv == k) == (bo.Op == token.EQL)
								return val == truth
							}
						}
					}
				}
			}
		}
		return s.f.Assume(ifi.Cond, truth)
	}
	ex.Run(&ownState{f: ssax.Facts{}, alias: map[ssa.Value]bool{p: true}})
	if ex.Exceeded {
		return "analysis exceeded its state bound"
	}
	return viol
}
