package rules

import (
	"fmt"
	"go/token"
	"go/types"
	"strings"

	"golang.org/x/tools/go/ssa"

	"rendlint/core"
	"rendlint/ssax"
)

func init() {
	Meta["C16"] = &PropMeta{
		Title: "Fixed-size chunk discipline: every chunk of a key fits one slab class",
		Explain: "Symbolic (linear) evaluation of the chunk-size function and of the sizes declared on the wire: (R16.1) full chunk size = K - keylen with coefficient -1, K + 4 (longest chunk-key suffix for <= 999 chunks) + 67 (item overhead) <= 1184, payload = full - T with T the token length (constant == length of the token array); (R16.2) every chunk write declares exactly the full size computed from the length of the same key it is stored under, the chunk iterator is built with the payload size of the same computation, and every metadata write declares the metadata size; (R16.3) the metadata size constant equals the sum of the encoded field sizes, the bytes the metadata writer emits and the bytes the reader consumes, and writer and reader agree on every field offset; (R16.4) the chunk count is computed by the same formula over the same operands in the writer and in the chunk iterator. " +
			"Decides the size algebra; the padding bytes actually written and ceil arithmetic at boundary lengths are numeric and not decided.",
		Assume: commonAssume,
		Run:    runC16,
	}
}

const (
	slabBudget     = 1184
	itemOverhead   = 67
	maxSuffixBytes = 4 // "-" + up to three digits: chunk indices 0..998
	maxKeyLen      = 250
)

func findChunkSizeFunc(c *core.Ctx) *ssa.Function {
	for _, fn := range pkgFuncs(c, relChunked) {
		sig := fn.Signature
		if fn.Parent() == nil && sig.Recv() == nil && sig.Params().Len() == 1 && sig.Results().Len() == 2 &&
			types.TypeString(sig.Params().At(0).Type(), nil) == "int" &&
			types.TypeString(sig.Results().At(0).Type(), nil) == "uint32" && types.TypeString(sig.Results().At(1).Type(), nil) == "uint32" {
			return fn
		}
	}
	return nil
}

func namedConst(c *core.Ctx, rel, name string) (int64, bool) {
	pk := c.P.Pkg(rel)
	if pk == nil {
		return 0, false
	}
	k, ok := pk.Members[name].(*ssa.NamedConst)
	if !ok {
		return 0, false
	}
	return ssax.ConstInt(k.Value)
}

func runC16(c *core.Ctx) {
	c.Rule("R16.1", "chunk budget: full = K - keylen (coefficient -1), K + 4 + 67 <= 1184, payload = full - T, T == token length == length of the token array, payload stays positive for keys up to 250 bytes", 1)
	c.Rule("R16.2", "every chunk write declares the full chunk size computed from the length of the key it is stored under; the chunk iterator uses the payload size of the same computation; every metadata write declares the metadata size", 4)
	c.Rule("R16.3", "metadataSize == sum of the encoded field sizes of the metadata record == bytes emitted by the metadata writer == bytes consumed by the metadata reader; writer and reader agree on every field offset", 2)
	c.Rule("R16.4", "the number of chunks is computed by the same formula over the same operands in the chunk writer and in the chunk iterator", 1)

	c.Share(map[string]string{"R4.7": "R16.6"}, runC04) // backend key length is part of the slab budget: the suffix is the decimal index, nothing more
	c.Share(map[string]string{"R7.9": "R16.5"}, runC07) // the declared length of a chunk write lives in a pooled request header: released twice, it is shared with another connection, which overwrites it between "declare" and "write"
	cs := findChunkSizeFunc(c)
	if cs == nil {
		c.Undecided("R16.1", "chunked#chunk-size-function", "-", "no func(int) (uint32, uint32) found in package chunked")
		return
	}
	// ---- R16.1
	tokenSize, okT := namedConst(c, relChunked, "tokenSize")
	var lins [][2]ssax.Lin
	for _, r := range ssax.Returns(cs) {
		ev := &ssax.SymEval{}
		lins = append(lins, [2]ssax.Lin{ev.Eval(r.Results[0]), ev.Eval(r.Results[1])})
	}
	key := "chunked." + cs.Name() + "#budget"
	pos := c.P.Pos(cs.Pos())
	if len(lins) != 1 {
		c.Undecided("R16.1", key, pos, fmt.Sprintf("%d return sites", len(lins)))
	} else {
		data, full := lins[0][0], lins[0][1]
		psym := "param:" + cs.Params[0].Name()
		var bad []string
		if full.Terms[psym] != -1 || len(full.Terms) != 1 {
			bad = append(bad, "full chunk size "+full.String()+" is not K - keylen")
		}
		if data.Terms[psym] != -1 || len(data.Terms) != 1 {
			bad = append(bad, "payload size "+data.String()+" is not K' - keylen")
		}
		if full.Const+maxSuffixBytes+itemOverhead > slabBudget {
			bad = append(bad, fmt.Sprintf("key + value + overhead = keylen+%d + %d-keylen + %d = %d exceeds the %d-byte slab budget", maxSuffixBytes, full.Const, itemOverhead, full.Const+maxSuffixBytes+itemOverhead, slabBudget))
		}
		t := full.Const - data.Const
		if !okT || t != tokenSize {
			bad = append(bad, fmt.Sprintf("full - payload = %d differs from the token length %d", t, tokenSize))
		}
		if data.Const-maxKeyLen <= 0 {
			bad = append(bad, "payload size is not positive for a 250-byte key")
		}
		// token array length
		if md := c.P.Named(relChunked, "metadata"); md != nil {
			st := md.Underlying().(*types.Struct)
			for i := 0; i < st.NumFields(); i++ {
				if arr, ok := st.Field(i).Type().Underlying().(*types.Array); ok && st.Field(i).Name() == "Token" {
					if arr.Len() != tokenSize {
						bad = append(bad, fmt.Sprintf("metadata.Token holds %d bytes, token length is %d", arr.Len(), tokenSize))
					}
				}
			}
		}
		c.Check(len(bad) == 0, "R16.1", key, pos, fmt.Sprintf("full = %s, payload = %s, %d+%d+%d <= %d, token %d", full.String(), data.String(), full.Const, maxSuffixBytes, itemOverhead, slabBudget, tokenSize), strings.Join(bad, "; "))
	}

	// ---- R16.2
	prods := keyProducers(c)
	metaSize, okM := namedConst(c, relChunked, "metadataSize")
	pv := &ssax.Prov{}
	counts := map[string]int{}
	for _, fn := range pkgFuncs(c, relChunked) {
		ssax.Instrs(fn, func(ins ssa.Instruction) {
			cc := ssax.CallOf(ins)
			name := ssax.CalleeName(cc)
			if name != pBinprot+".WriteSetCmd" && name != pBinprot+".WriteAddCmd" && name != pBinprot+".WriteReplaceCmd" {
				return
			}
			// which kind of key
			isChunk, isMeta := false, false
			var ctorCall *ssa.Call
			for _, d := range ssax.Defs(cc.Args[1]) {
				var call *ssa.Call
				switch x := d.(type) {
				case *ssa.Call:
					call = x
				case *ssa.Extract:
					call, _ = x.Tuple.(*ssa.Call)
				}
				if call == nil {
					continue
				}
				if kp, ok := prods[call.Call.StaticCallee()]; ok {
					if kp.via.Signature.Params().Len() >= 2 {
						isChunk, ctorCall = true, call
					} else {
						isMeta = true
					}
				}
			}
			k := ordinalKey(counts, core.FuncName(fn)+"#declared-size:"+short(name))
			p := c.P.Pos(ins.Pos())
			size := cc.Args[4]
			switch {
			case isMeta:
				v, ok := ssax.ConstInt(size)
				c.Check(ok && okM && v == metaSize, "R16.2", k, p, fmt.Sprintf("metadata write declares %d bytes", v), "a metadata write declares a size other than metadataSize")
			case isChunk:
				var bad []string
				ex, ok := ssax.Unwrap(size).(*ssa.Extract)
				var szCall *ssa.Call
				if ok {
					szCall, _ = ex.Tuple.(*ssa.Call)
				}
				if szCall == nil || szCall.Call.StaticCallee() != cs || ex.Index != 1 {
					bad = append(bad, "the declared size is not the full chunk size returned by "+cs.Name())
				} else {
					// size computed from the length of the same key
					lenArg := szCall.Call.Args[0]
					keyOfLen := ""
					if lc, ok := ssax.Unwrap(lenArg).(*ssa.Call); ok {
						if b, ok := lc.Call.Value.(*ssa.Builtin); ok && b.Name() == "len" {
							keyOfLen = strings.Join(ssax.Strings(pv.Sources(lc.Call.Args[0])), ",")
						}
					}
					base := strings.Join(ssax.Strings(pv.Sources(ctorCall.Call.Args[0])), ",")
					if keyOfLen == "" || keyOfLen != base {
						bad = append(bad, fmt.Sprintf("chunk size computed from len(%s) but the chunk is stored under a key derived from %s", keyOfLen, base))
					}
					// the iterator uses the payload size of the same call
					iterOK := false
					ssax.Instrs(fn, func(x ssa.Instruction) {
						xc := ssax.CallOf(x)
						if xc == nil || xc.StaticCallee() == nil || !strings.HasPrefix(xc.StaticCallee().Name(), "newChunk") || len(xc.Args) < 2 {
							return
						}
						if e2, ok := ssax.Unwrap(xc.Args[1]).(*ssa.Extract); ok && e2.Tuple == ssa.Value(szCall) && e2.Index == 0 {
							iterOK = true
						}
					})
					if !iterOK {
						bad = append(bad, "the chunk iterator is not built with the payload size of the same size computation")
					}
				}
				c.Check(len(bad) == 0, "R16.2", k, p, "chunk write declares the full size of its own key's size class", strings.Join(bad, "; "))
			default:
				c.Undecided("R16.2", k, p, "the write's key is neither a metadata nor a chunk key")
			}
		})
	}

	// ---- R16.3
	runR163(c, metaSize, okM, tokenSize)
	// ---- R16.4
	runR164(c, cs)
}

func encodedSize(t types.Type) (int64, bool) {
	switch u := t.Underlying().(type) {
	case *types.Basic:
		switch u.Kind() {
		case types.Uint8, types.Int8, types.Bool:
			return 1, true
		case types.Uint16, types.Int16:
			return 2, true
		case types.Uint32, types.Int32:
			return 4, true
		case types.Uint64, types.Int64:
			return 8, true
		}
	case *types.Array:
		e, ok := encodedSize(u.Elem())
		return e * u.Len(), ok
	}
	return 0, false
}

func runR163(c *core.Ctx, metaSize int64, okM bool, tokenSize int64) {
	md := c.P.Named(relChunked, "metadata")
	wr := findFunc(c, relChunked, "writeMetadata", roleMetaWriter)
	rdm := findFunc(c, relChunked, "readMetadata", roleMetaReader)
	if md == nil || wr == nil || rdm == nil || !okM {
		c.Undecided("R16.3", "chunked#metadata-codec", "-", "metadata type, writer or reader not found")
		return
	}
	st := md.Underlying().(*types.Struct)
	sum := int64(0)
	for i := 0; i < st.NumFields(); i++ {
		n, ok := encodedSize(st.Field(i).Type())
		if !ok {
			c.Undecided("R16.3", "chunked.metadata#field-sizes", c.P.Pos(md.Obj().Pos()), "field "+st.Field(i).Name()+" has no fixed encoded size")
			return
		}
		sum += n
	}
	// bytes written: sum of lengths of the slices given to Write
	written := int64(0)
	wOK := true
	ssax.Instrs(wr, func(ins ssa.Instruction) {
		cc := ssax.CallOf(ins)
		if cc == nil || !cc.IsInvoke() || cc.Method.Name() != "Write" {
			return
		}
		n, ok := sliceConstLen(cc.Args[0])
		if !ok {
			wOK = false
		}
		written += n
	})
	// bytes read
	read := int64(0)
	rOK := true
	ssax.Instrs(rdm, func(ins ssa.Instruction) {
		cc := ssax.CallOf(ins)
		if cc == nil || (ssax.CalleeName(cc) != "io.ReadAtLeast" && ssax.CalleeName(cc) != "io.ReadFull") {
			return
		}
		n, ok := sliceConstLen(cc.Args[1])
		if !ok {
			rOK = false
		}
		if ssax.CalleeName(cc) == "io.ReadAtLeast" {
			if m, ok := ssax.ConstInt(cc.Args[2]); !ok || m != n {
				rOK = false
			}
		}
		read += n
	})
	good := wOK && rOK && sum == metaSize && written == metaSize && read == metaSize
	c.Check(good, "R16.3", "chunked.metadata#size", c.P.Pos(md.Obj().Pos()), fmt.Sprintf("metadataSize = %d = field sizes = bytes written = bytes read", metaSize),
		fmt.Sprintf("metadataSize=%d, encoded field sizes=%d, writer emits %d (const %v), reader consumes %d (const %v)", metaSize, sum, written, wOK, read, rOK))

	// field offsets: writer PutUintNN(buf[a:b], md.F)  vs reader m.F = UintNN(buf[a:b])
	wmap := map[string]string{}
	for _, a := range ssax.BufAccesses(wr) {
		if a.Kind == "put" {
			if n, ok := ssax.FieldName(ssax.Unwrap(a.Val)); ok {
				wmap[fmt.Sprintf("%d:%d", a.Lo, a.Hi)] = n
			} else if f, ok := ssax.Unwrap(a.Val).(*ssa.UnOp); ok && f.Op == token.MUL {
				if n, ok := ssax.FieldName(f.X); ok {
					wmap[fmt.Sprintf("%d:%d", a.Lo, a.Hi)] = n
				}
			}
		}
	}
	rmap := map[string]string{}
	for _, a := range ssax.BufAccesses(rdm) {
		if a.Kind == "get" {
			if v, ok := a.Ins.(ssa.Value); ok && v.Referrers() != nil {
				for _, r := range *v.Referrers() {
					if stIns, ok := r.(*ssa.Store); ok {
						if n, ok := ssax.FieldName(stIns.Addr); ok {
							rmap[fmt.Sprintf("%d:%d", a.Lo, a.Hi)] = n
						}
					}
				}
			}
		}
	}
	var diffs []string
	for rng, f := range wmap {
		if rmap[rng] != f {
			diffs = append(diffs, fmt.Sprintf("bytes [%s]: written from %s, read into %q", rng, f, rmap[rng]))
		}
	}
	for rng, f := range rmap {
		if _, ok := wmap[rng]; !ok {
			diffs = append(diffs, fmt.Sprintf("bytes [%s]: read into %s, never written", rng, f))
		}
	}
	// every fixed-width field must be covered
	nFixed := 0
	for i := 0; i < st.NumFields(); i++ {
		if _, isArr := st.Field(i).Type().Underlying().(*types.Array); !isArr {
			nFixed++
		}
	}
	if len(wmap) != nFixed {
		diffs = append(diffs, fmt.Sprintf("%d of %d integer fields are serialised", len(wmap), nFixed))
	}
	c.Check(len(diffs) == 0, "R16.3", "chunked.metadata#field-offsets", c.P.Pos(wr.Pos()), fmt.Sprintf("%d integer fields at identical offsets in writer and reader; token follows", len(wmap)), strings.Join(diffs, "; "))
}

// sliceConstLen: constant length of a byte slice (make of a constant, or array[:] ).
func sliceConstLen(v ssa.Value) (int64, bool) {
	switch x := v.(type) {
	case *ssa.MakeSlice:
		return ssax.ConstInt(x.Len)
	case *ssa.Slice:
		if x.Low == nil && x.High == nil {
			if pt, ok := x.X.Type().Underlying().(*types.Pointer); ok {
				if arr, ok := pt.Elem().Underlying().(*types.Array); ok {
					return arr.Len(), true
				}
			}
			return sliceConstLen(x.X)
		}
		if x.Low == nil && x.High != nil {
			return ssax.ConstInt(x.High)
		}
	case *ssa.Alloc:
		// new [N]byte (makeslice)
		if arr, ok := x.Type().(*types.Pointer).Elem().Underlying().(*types.Array); ok {
			return arr.Len(), true
		}
	}
	return 0, false
}

// ceilOperands finds the chunk-count computation of fn: math.Ceil(float(a)/float(b)) or the integer form (a+b-1)/b.
// n counts the candidate computations; other describes a division that is neither form.
func ceilOperands(fn *ssa.Function) (a, b ssa.Value, n int, other string) {
	ssax.Instrs(fn, func(ins ssa.Instruction) {
		if cc := ssax.CallOf(ins); cc != nil && ssax.CalleeName(cc) == "math.Ceil" {
			n++
			if bo, ok := cc.Args[0].(*ssa.BinOp); ok && bo.Op == token.QUO {
				a, b = ssax.Unwrap(bo.X), ssax.Unwrap(bo.Y)
			}
			return
		}
		bo, ok := ins.(*ssa.BinOp)
		if !ok || bo.Op != token.QUO {
			return
		}
		if _, isFloat := bo.Type().Underlying().(*types.Basic); isFloat && bo.Type().Underlying().(*types.Basic).Info()&types.IsFloat != 0 {
			return // the float division inside Ceil
		}
		n++
		// (a + b - 1) / b
		ev := &ssax.SymEval{}
		num, den := ev.Eval(bo.X), ev.Eval(bo.Y)
		d := num.Sub(den) // a - 1 expected
		if d.Const == -1 && len(d.Terms) == 1 && len(den.Terms) == 1 {
			// recover a as the operand of the numerator that is not b
			var find func(v ssa.Value) ssa.Value
			find = func(v ssa.Value) ssa.Value {
				v = ssax.Unwrap(v)
				if x, ok := v.(*ssa.BinOp); ok && (x.Op == token.ADD || x.Op == token.SUB) {
					for _, o := range []ssa.Value{x.X, x.Y} {
						if _, isC := ssax.ConstInt(o); isC {
							continue
						}
						e2 := &ssax.SymEval{}
						if e2.Eval(o).Equal(den) {
							continue
						}
						if r := find(o); r != nil {
							return r
						}
					}
					return nil
				}
				return v
			}
			a, b = find(bo.X), ssax.Unwrap(bo.Y)
			if a == nil {
				other = "(" + num.String() + ") / (" + den.String() + ")"
			}
			return
		}
		other = "(" + num.String() + ") / (" + den.String() + ")"
	})
	return
}

func runR164(c *core.Ctx, cs *ssa.Function) {
	var writer *ssa.Function
	var iterCall *ssa.Call
	for _, fn := range pkgFuncs(c, relChunked) {
		ssax.Instrs(fn, func(ins ssa.Instruction) {
			if call, ok := ins.(*ssa.Call); ok && call.Call.StaticCallee() != nil && strings.HasPrefix(call.Call.StaticCallee().Name(), "newChunk") {
				writer, iterCall = fn, call
			}
		})
	}
	key := "chunked#chunk-count-formula"
	if writer == nil {
		c.Undecided("R16.4", key, "-", "no chunk iterator constructor call found")
		return
	}
	iter := iterCall.Call.StaticCallee()
	wa, wb, wn, wo := ceilOperands(writer)
	ia, ib, in, io := ceilOperands(iter)
	if wo != "" || io != "" {
		c.Violate("R16.4", key, c.P.Pos(iterCall.Pos()), "the number of chunks is computed as "+wo+io+", which is neither ceil(length / payload) nor (length + payload - 1) / payload: the writer emits a different number of chunks than the metadata records for some lengths")
		return
	}
	if wn == 0 || in == 0 {
		c.Info("R16.4", key, c.P.Pos(iterCall.Pos()), "only one computation of the chunk count remains; nothing to compare")
		return
	}
	if wn != 1 || in != 1 || wa == nil || ia == nil {
		c.Undecided("R16.4", key, c.P.Pos(iterCall.Pos()), "chunk count is not computed as Ceil(a/b) once in each place")
		return
	}
	// the iterator's operands must be its parameters; substitute the call-site arguments
	subst := func(v ssa.Value) ssa.Value {
		if p, ok := v.(*ssa.Parameter); ok {
			if i := paramIndex(p); i >= 0 && i < len(iterCall.Call.Args) {
				return iterCall.Call.Args[i]
			}
		}
		return nil
	}
	sa, sb := subst(ia), subst(ib)
	if sa == nil || sb == nil {
		c.Undecided("R16.4", key, c.P.Pos(iter.Pos()), "the iterator's chunk count does not depend on its parameters only")
		return
	}
	e1, e2 := &ssax.SymEval{}, &ssax.SymEval{}
	okA := e1.Eval(wa).Equal(e2.Eval(sa))
	okB := e1.Eval(wb).Equal(e2.Eval(sb))
	c.Check(okA && okB, "R16.4", key, c.P.Pos(iterCall.Pos()), "writer and iterator both compute ceil("+e1.Eval(wa).String()+" / "+e1.Eval(wb).String()+")",
		fmt.Sprintf("the metadata's chunk count is ceil(%s / %s) but the iterator produces ceil(%s / %s) chunks", e1.Eval(wa).String(), e1.Eval(wb).String(), e2.Eval(sa).String(), e2.Eval(sb).String()))
}
