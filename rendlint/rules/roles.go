package rules

import (
	"fmt"
	"go/types"
	"sort"
	"strings"

	"golang.org/x/tools/go/ssa"

	"rendlint/core"
	"rendlint/ssax"
)

const (
	tHandler   = "github.com/netflix/rend/handlers.Handler"
	tResponder = "github.com/netflix/rend/protocol.Responder"
	tOrca      = "github.com/netflix/rend/orcas.Orca"
	pCommon    = "github.com/netflix/rend/common"
	pBinprot   = "github.com/netflix/rend/protocol/binprot"
)

// orcaRole is an orchestrator resolved from its public constructor.
type orcaRole struct {
	Name    string // constructor name (public API anchor)
	Ctor    *ssa.Function
	Impl    core.Impl
	Fields  map[string]string // role ("l1","l2","res","wrapped") -> field name
	ByField map[string]string // field name -> role
}

// the four data-path orchestrators named by the properties (C01 quantifier) and their constructors
var inScopeCtors = []string{"L1Only", "L1L2", "L1L2Batch"}

func resolveOrca(c *core.Ctx, ctor string) (*orcaRole, error) {
	fn := c.P.Func("orcas", ctor)
	if fn == nil {
		return nil, fmt.Errorf("constructor orcas.%s not found", ctor)
	}
	orcaI := c.P.Iface("orcas", "Orca")
	if orcaI == nil {
		return nil, fmt.Errorf("orcas.Orca not found")
	}
	role := &orcaRole{Name: ctor, Ctor: fn, Fields: map[string]string{}, ByField: map[string]string{}}
	fns := append([]*ssa.Function{fn}, fn.AnonFuncs...)
	pv := &ssax.Prov{}
	for _, f := range fns {
		ssax.Instrs(f, func(ins ssa.Instruction) {
			al, ok := ins.(*ssa.Alloc)
			if !ok {
				return
			}
			n, ok := al.Type().(*types.Pointer).Elem().(*types.Named)
			if !ok || !types.Implements(al.Type(), orcaI) {
				return
			}
			role.Impl = core.Impl{Named: n, Ptr: true, Pkg: c.P.Pkg("orcas")}
			st := n.Underlying().(*types.Struct)
			for i := 0; i < st.NumFields(); i++ {
				fname := st.Field(i).Name()
				for _, s := range pv.Sources(al, fname) {
					r := ""
					switch {
					case s.Kind == "param" && len(s.Path) == 0:
						t := types.TypeString(s.V.Type(), nil)
						idx := paramIndex(s.V.(*ssa.Parameter))
						if t == tHandler && idx == 0 {
							r = "l1"
						} else if t == tHandler && idx == 1 {
							r = "l2"
						} else if t == tResponder {
							r = "res"
						}
					case s.Kind == "call" && types.TypeString(st.Field(i).Type(), nil) == tOrca:
						r = "wrapped"
					}
					if r != "" {
						role.Fields[r] = fname
						role.ByField[fname] = r
					}
				}
			}
		})
	}
	if role.Impl.Named == nil {
		return nil, fmt.Errorf("orcas.%s: no Orca implementation allocated in the constructor", ctor)
	}
	return role, nil
}

func paramIndex(p *ssa.Parameter) int {
	for i, q := range p.Parent().Params {
		if q == p {
			return i
		}
	}
	return -1
}

// tierCall is a call on one of the orchestrator's collaborators.
type tierCall struct {
	Ins    ssa.Instruction
	Call   *ssa.CallCommon
	Tier   string // l1 | l2 | res | wrapped
	Method string
}

func (t tierCall) String() string { return t.Tier + "." + t.Method }

// tierCalls lists the interface invokes of fn whose receiver is a collaborator field of the receiver.
func tierCalls(fn *ssa.Function, role *orcaRole) []tierCall {
	var out []tierCall
	pv := &ssax.Prov{}
	ssax.Instrs(fn, func(ins ssa.Instruction) {
		cc := ssax.CallOf(ins)
		if cc == nil || !cc.IsInvoke() {
			return
		}
		srcs := pv.Sources(cc.Value)
		tier := ""
		for _, s := range srcs {
			if s.Kind == "param" && paramIndex(s.V.(*ssa.Parameter)) == 0 && len(s.Path) == 1 {
				if r, ok := role.ByField[s.Path[0]]; ok {
					tier = r
				}
			}
		}
		if tier != "" {
			out = append(out, tierCall{ins, cc, tier, cc.Method.Name()})
		}
	})
	return out
}

// orcaMethods returns the methods of orcas.Orca in sorted order.
func orcaMethods(c *core.Ctx) []string {
	it := c.P.Iface("orcas", "Orca")
	var out []string
	for i := 0; i < it.NumMethods(); i++ {
		out = append(out, it.Method(i).Name())
	}
	sort.Strings(out)
	return out
}

// dataMethods are the nine data commands plus gete.
var keyedWrites = []string{"Set", "Add", "Replace", "Append", "Prepend", "Delete", "Touch"}

func isOneOf(s string, xs ...string) bool {
	for _, x := range xs {
		if s == x {
			return true
		}
	}
	return false
}

func short(s string) string { return strings.ReplaceAll(s, core.Mod+"/", "") }

// handlerImpls returns implementations of handlers.Handler in the memcached backends named by the properties.
func handlerImpl(c *core.Ctx, rel string) (core.Impl, bool) {
	hi := c.P.Iface("handlers", "Handler")
	n := c.P.Named(rel, "Handler")
	if n == nil || hi == nil {
		return core.Impl{}, false
	}
	if types.Implements(n, hi) {
		return core.Impl{Named: n, Ptr: false, Pkg: c.P.Pkg(rel)}, true
	}
	if types.Implements(types.NewPointer(n), hi) {
		return core.Impl{Named: n, Ptr: true, Pkg: c.P.Pkg(rel)}, true
	}
	return core.Impl{}, false
}

// pkgFuncs returns the source functions (with anonymous ones) of package rel, sorted.
func pkgFuncs(c *core.Ctx, rel string) []*ssa.Function {
	var out []*ssa.Function
	for _, fn := range c.P.RepoFuncs(rel) {
		pk := fn.Pkg
		if pk == nil && fn.Parent() != nil {
			pk = fn.Parent().Pkg
		}
		if pk != nil && pk.Pkg.Path() == core.Mod+"/"+rel {
			out = append(out, fn)
		}
	}
	return out
}
