package rules

import (
	"fmt"
	"go/types"
	"sort"
	"strings"

	"golang.org/x/tools/go/ssa"

	"rendlint/core"
	"rendlint/ssax"
)

const (
	tHandler   = "github.com/netflix/rend/handlers.Handler"
	tResponder = "github.com/netflix/rend/protocol.Responder"
	tOrca      = "github.com/netflix/rend/orcas.Orca"
	pCommon    = "github.com/netflix/rend/common"
	pBinprot   = "github.com/netflix/rend/protocol/binprot"
)

// orcaRole is an orchestrator resolved from its public constructor.
type orcaRole struct {
	Name    string // constructor name (public API anchor)
	Ctor    *ssa.Function
	Impl    core.Impl
	Fields  map[string]string // role ("l1","l2","res","wrapped") -> field name
	ByField map[string]string // field name -> role
}

// the four data-path orchestrators named by the properties (C01 quantifier) and their constructors
var inScopeCtors = []string{"L1Only", "L1L2", "L1L2Batch"}

func resolveOrca(c *core.Ctx, ctor string) (*orcaRole, error) {
	fn := c.P.Func("orcas", ctor)
	if fn == nil {
		return nil, fmt.Errorf("constructor orcas.%s not found", ctor)
	}
	orcaI := c.P.Iface("orcas", "Orca")
	if orcaI == nil {
		return nil, fmt.Errorf("orcas.Orca not found")
	}
	role := &orcaRole{Name: ctor, Ctor: fn, Fields: map[string]string{}, ByField: map[string]string{}}
	fns := append([]*ssa.Function{fn}, fn.AnonFuncs...)
	pv := &ssax.Prov{}
	for _, f := range fns {
		ssax.Instrs(f, func(ins ssa.Instruction) {
			al, ok := ins.(*ssa.Alloc)
			if !ok {
				return
			}
			n, ok := al.Type().(*types.Pointer).Elem().(*types.Named)
			if !ok || !types.Implements(al.Type(), orcaI) {
				return
			}
			role.Impl = core.Impl{Named: n, Ptr: true, Pkg: c.P.Pkg("orcas")}
			st := n.Underlying().(*types.Struct)
			for i := 0; i < st.NumFields(); i++ {
				fname := st.Field(i).Name()
				for _, s := range pv.Sources(al, fname) {
					r := ""
					switch {
					case s.Kind == "param" && len(s.Path) == 0:
						t := types.TypeString(s.V.Type(), nil)
						idx := paramIndex(s.V.(*ssa.Parameter))
						if t == tHandler && idx == 0 {
							r = "l1"
						} else if t == tHandler && idx == 1 {
							r = "l2"
						} else if t == tResponder {
							r = "res"
						}
					case s.Kind == "call" && types.TypeString(st.Field(i).Type(), nil) == tOrca:
						r = "wrapped"
					}
					if r != "" {
						role.Fields[r] = fname
						role.ByField[fname] = r
					}
				}
			}
		})
	}
	if role.Impl.Named == nil {
		return nil, fmt.Errorf("orcas.%s: no Orca implementation allocated in the constructor", ctor)
	}
	return role, nil
}

func paramIndex(p *ssa.Parameter) int {
	for i, q := range p.Parent().Params {
		if q == p {
			return i
		}
	}
	return -1
}

// tierCall is a call on one of the orchestrator's collaborators.
type tierCall struct {
	Ins    ssa.Instruction
	Call   *ssa.CallCommon
	Tier   string // l1 | l2 | res | wrapped
	Method string
}

func (t tierCall) String() string { return t.Tier + "." + t.Method }

// tierCalls lists the interface invokes of fn whose receiver is a collaborator field of the receiver.
func tierCalls(fn *ssa.Function, role *orcaRole) []tierCall {
	var out []tierCall
	pv := &ssax.Prov{}
	ssax.Instrs(fn, func(ins ssa.Instruction) {
		cc := ssax.CallOf(ins)
		if cc == nil || !cc.IsInvoke() {
			return
		}
		srcs := pv.Sources(cc.Value)
		tier := ""
		for _, s := range srcs {
			if s.Kind == "param" && paramIndex(s.V.(*ssa.Parameter)) == 0 && len(s.Path) == 1 {
				if r, ok := role.ByField[s.Path[0]]; ok {
					tier = r
				}
			}
		}
		if tier != "" {
			out = append(out, tierCall{ins, cc, tier, cc.Method.Name()})
		}
	})
	return out
}

// orcaMethods returns the methods of orcas.Orca in sorted order.
func orcaMethods(c *core.Ctx) []string {
	it := c.P.Iface("orcas", "Orca")
	var out []string
	for i := 0; i < it.NumMethods(); i++ {
		out = append(out, it.Method(i).Name())
	}
	sort.Strings(out)
	return out
}

// dataMethods are the nine data commands plus gete.
var keyedWrites = []string{"Set", "Add", "Replace", "Append", "Prepend", "Delete", "Touch"}

func isOneOf(s string, xs ...string) bool {
	for _, x := range xs {
		if s == x {
			return true
		}
	}
	return false
}

func short(s string) string { return strings.ReplaceAll(s, core.Mod+"/", "") }

// handlerImpls returns implementations of handlers.Handler in the memcached backends named by the properties.
func handlerImpl(c *core.Ctx, rel string) (core.Impl, bool) {
	hi := c.P.Iface("handlers", "Handler")
	n := c.P.Named(rel, "Handler")
	if n == nil || hi == nil {
		return core.Impl{}, false
	}
	if types.Implements(n, hi) {
		return core.Impl{Named: n, Ptr: false, Pkg: c.P.Pkg(rel)}, true
	}
	if types.Implements(types.NewPointer(n), hi) {
		return core.Impl{Named: n, Ptr: true, Pkg: c.P.Pkg(rel)}, true
	}
	return core.Impl{}, false
}

// pkgFuncs returns the source functions (with anonymous ones) of package rel, sorted.
func pkgFuncs(c *core.Ctx, rel string) []*ssa.Function {
	var out []*ssa.Function
	for _, fn := range c.P.RepoFuncs(rel) {
		pk := fn.Pkg
		if pk == nil && fn.Parent() != nil {
			pk = fn.Parent().Pkg
		}
		if pk != nil && pk.Pkg.Path() == core.Mod+"/"+rel {
			out = append(out, fn)
		}
	}
	return out
}

// findFunc resolves an anchor: by name first (cheap, exact); if the name is gone (an unexported helper was
// renamed), by role - the unique function of the package that satisfies the predicate. nil when unresolvable.
func findFunc(c *core.Ctx, rel, name string, role func(*ssa.Function) bool) *ssa.Function {
	if fn := c.P.Func(rel, name); fn != nil {
		return fn
	}
	if role == nil {
		return nil
	}
	var found []*ssa.Function
	for _, fn := range pkgFuncs(c, rel) {
		if fn.Parent() == nil && role(fn) {
			found = append(found, fn)
		}
	}
	if len(found) == 1 {
		return found[0]
	}
	return nil
}

func callsAny(fn *ssa.Function, names ...string) bool {
	hit := false
	ssax.Instrs(fn, func(ins ssa.Instruction) {
		if cc := ssax.CallOf(ins); cc != nil {
			n := ssax.CalleeName(cc)
			for _, w := range names {
				if n == w || (strings.HasSuffix(w, "*") && strings.HasPrefix(n, strings.TrimSuffix(w, "*"))) {
					hit = true
				}
			}
		}
	})
	return hit
}

func recvNamed(fn *ssa.Function, typeName string) bool {
	r := fn.Signature.Recv()
	if r == nil {
		return false
	}
	n := namedOf(r.Type())
	return n != nil && n.Obj().Name() == typeName
}

func sigIs(fn *ssa.Function, params []string, results []string) bool {
	sig := fn.Signature
	if sig.Params().Len() != len(params) || sig.Results().Len() != len(results) {
		return false
	}
	for i, p := range params {
		if p != "" && ssax.ShortType(sig.Params().At(i).Type()) != p {
			return false
		}
	}
	for i, r := range results {
		if r != "" && ssax.ShortType(sig.Results().At(i).Type()) != r {
			return false
		}
	}
	return true
}

// role predicates for the unexported anchors
func rolePoolReader(fn *ssa.Function) bool {
	return recvNamed(fn, "conn") && callsAny(fn, pBinprot+".ReadResponseHeader")
}
func rolePoolSerialiser(fn *ssa.Function) bool {
	return recvNamed(fn, "conn") && callsAny(fn, pBinprot+".Write*")
}
func rolePoolReconnect(fn *ssa.Function) bool {
	return recvNamed(fn, "conn") && callsAny(fn, "net.Dial")
}
func rolePoolRecovery(fn *ssa.Function) bool {
	return recvNamed(fn, "conn") && callsAny(fn, "builtin.close") && !callsAny(fn, pBinprot+".ReadResponseHeader")
}
func roleAbort(fn *ssa.Function) bool {
	return fn.Signature.Recv() == nil && sigIs(fn, []string{"[]io.Closer", "error"}, nil)
}
func roleStatusEncoder(fn *ssa.Function) bool {
	return fn.Signature.Recv() == nil && sigIs(fn, []string{"error"}, []string{"uint16"})
}
func roleBucketFn(fn *ssa.Function) bool {
	return fn.Signature.Recv() == nil && sigIs(fn, []string{"uint64"}, []string{"uint64"}) && callsAny(fn, core.Mod+"/metrics.lzcnt")
}
func roleStdGetE(fn *ssa.Function) bool { return callsAny(fn, pBinprot+".WriteGetECmd") }
func roleMetaReader(fn *ssa.Function) bool {
	return fn.Signature.Recv() == nil && sigIs(fn, []string{"io.Reader"}, []string{"handlers/memcached/chunked.metadata", "error"})
}
func roleMetaWriter(fn *ssa.Function) bool {
	return fn.Signature.Recv() == nil && sigIs(fn, []string{"io.Writer", "handlers/memcached/chunked.metadata"}, []string{"error"})
}
func roleReqHeaderReader(fn *ssa.Function) bool {
	return fn.Signature.Recv() == nil && sigIs(fn, []string{"io.Reader"}, []string{"*protocol/binprot.RequestHeader", "error"})
}
func roleReqHeaderWriter(fn *ssa.Function) bool {
	return fn.Signature.Recv() == nil && sigIs(fn, []string{"io.Writer", "*protocol/binprot.RequestHeader"}, []string{"error"})
}
func roleResHeaderWriter(fn *ssa.Function) bool {
	return fn.Signature.Recv() == nil && sigIs(fn, []string{"io.Writer", "*protocol/binprot.ResponseHeader"}, []string{"error"})
}
func roleMakeReqHeader(fn *ssa.Function) bool {
	return fn.Signature.Recv() == nil && fn.Signature.Results().Len() == 1 && ssax.ShortType(fn.Signature.Results().At(0).Type()) == "*protocol/binprot.RequestHeader" && fn.Signature.Params().Len() > 1
}
func storesConstStatus(fn *ssa.Function, wantConst bool) bool {
	ok := false
	ssax.Instrs(fn, func(ins ssa.Instruction) {
		if st, isSt := ins.(*ssa.Store); isSt {
			if n, _ := ssax.FieldName(st.Addr); n == "Status" {
				_, isC := ssax.ConstInt(st.Val)
				if isC == wantConst {
					ok = true
				}
			}
		}
	})
	return ok
}
func roleSuccessHeaderWriter(fn *ssa.Function) bool {
	return fn.Signature.Recv() == nil && fn.Signature.Params().Len() >= 5 && storesConstStatus(fn, true)
}
func roleErrorHeaderWriter(fn *ssa.Function) bool {
	return fn.Signature.Recv() == nil && fn.Signature.Params().Len() >= 3 && storesConstStatus(fn, false)
}

// isAbortCallee: a static call of the server package's closer-aborting function (func([]io.Closer, error)).
func isAbortCallee(cc *ssa.CallCommon) bool {
	if cc == nil {
		return false
	}
	f := cc.StaticCallee()
	return f != nil && f.Pkg != nil && f.Pkg.Pkg.Path() == core.Mod+"/server" && roleAbort(f)
}

func isConstZero(v ssa.Value) bool {
	n, ok := ssax.ConstInt(v)
	return ok && n == 0
}
