package rules

import (
	"fmt"
	"go/token"
	"go/types"
	"sort"
	"strings"

	"golang.org/x/tools/go/ssa"

	"rendlint/core"
	"rendlint/ssax"
)

func init() {
	Meta["C19"] = &PropMeta{
		Title: "Cluster routing is a stable function of the key and the node set",
		Explain: "Effect and provenance analysis of the consistent-hash ring: (R19.1) Reset, Hash, Bucket and everything they call in the repository touch only their arguments/receiver and an allow-list of pure library functions (no time, randomness, mutable globals, channels); (R19.2) ring points are built from the node label and the replica counter only - the position of a node in the listing never flows into a point - and the comparator handed to sort.Sort orders equal points by the node as well (a total order, so the sorted ring does not depend on listing order); (R19.3) every node selection of the cluster handler is Continuum.Hash(<key of the command>), for writes and reads alike. " +
			"Decides that the route is a function of (key, label set) structurally; share per node and minimal disruption on removal are statistical and not decided.",
		Assume: commonAssume,
		Run:    runC19,
	}
}

const relCluster = "handlers/memcached/cluster"

var pureExternal = map[string]bool{
	"fmt.Sprintf": true, "crypto/md5.Sum": true, "sort.Sort": true, "sort.Search": true, "sort.Stable": true,
	"(encoding/binary.littleEndian).Uint32": true, "(encoding/binary.bigEndian).Uint32": true,
	"strings.Compare": true, "bytes.Compare": true, "strconv.Itoa": true, "sort.Slice": true, "sort.SliceStable": true,
}

func runC19(c *core.Ctx) {
	c.Rule("R19.1", "Reset, Hash, Bucket and their callees in the repository have no effects beyond their arguments and receiver: only allow-listed pure library calls, no mutable package-level state, no channel operations, goroutines, time or randomness", 3)
	c.Rule("R19.2", "ring points derive from the node label and the replica counter only (never from the node's position in the listing), and the comparator given to sort.Sort consults the node as well as the point, so equal points of different nodes are ordered independently of listing order", 2)
	c.Rule("R19.3", "every node selection in the cluster handler is Continuum.Hash(key of the command) - the whole key; the node list is not indexed otherwise outside construction and Close", 2)
	c.Rule("R19.5", "the node selected by hashing a key serves the request for that same key: every backend call made through the selected node carries the very key (or the command) that was hashed", 2)

	pkg := c.P.Pkg(relCluster)
	if pkg == nil {
		c.Undecided("R19.1", "cluster", "-", "package not found")
		return
	}
	// ---- R19.1
	for _, name := range []string{"(*Continuum).Reset", "(*Continuum).Hash", "(*Continuum).Bucket"} {
		fn := c.P.Func(relCluster, name)
		key := "cluster." + name + "#pure"
		if fn == nil {
			c.Undecided("R19.1", key, "-", "anchor not found")
			continue
		}
		var bad []string
		seen := map[*ssa.Function]bool{}
		var visit func(f *ssa.Function, depth int)
		visit = func(f *ssa.Function, depth int) {
			if seen[f] || depth > 6 {
				return
			}
			seen[f] = true
			for _, g := range append([]*ssa.Function{f}, f.AnonFuncs...) {
				seen[g] = true
				ssax.Instrs(g, func(ins ssa.Instruction) {
					switch x := ins.(type) {
					case *ssa.Go, *ssa.Send, *ssa.Select:
						bad = append(bad, fmt.Sprintf("%T at %s", ins, c.P.Pos(ins.Pos())))
					case *ssa.UnOp:
						if x.Op == token.ARROW {
							bad = append(bad, "channel receive at "+c.P.Pos(ins.Pos()))
						}
						if gl := ssax.GlobalLoad(x); gl != nil {
							if gl.Pkg != nil && strings.HasPrefix(gl.Pkg.Pkg.Path(), core.Mod) {
								bad = append(bad, "reads package-level variable "+gl.Name()+" at "+c.P.Pos(ins.Pos()))
							} else if full := gl.Pkg.Pkg.Path() + "." + gl.Name(); full != "encoding/binary.LittleEndian" && full != "encoding/binary.BigEndian" {
								bad = append(bad, "reads "+full+" at "+c.P.Pos(ins.Pos()))
							}
						}
					case *ssa.Store:
						if gl, _ := rootedAt(x.Addr); gl != nil {
							bad = append(bad, "writes package-level variable "+gl.Name()+" at "+c.P.Pos(ins.Pos()))
						}
					}
					cc := ssax.CallOf(ins)
					if cc == nil {
						return
					}
					if _, isB := cc.Value.(*ssa.Builtin); isB {
						return
					}
					if cc.IsInvoke() {
						recv := types.TypeString(cc.Value.Type(), nil)
						if recv == core.Mod+"/"+relCluster+".Bucket" {
							// every implementation in the repository is visited
							if it, ok := cc.Value.Type().Underlying().(*types.Interface); ok {
								for _, impl := range c.P.Implementers(it) {
									if m := c.P.Method(impl, cc.Method.Name()); m != nil && len(m.Blocks) > 0 {
										visit(m, depth+1)
									}
								}
							}
							return
						}
						if n := ssax.CalleeName(cc); n == "(net.Conn).RemoteAddr" || n == "(net.Addr).String" {
							return // the address a node was dialled at: fixed for the life of the connection
						}
						bad = append(bad, "dynamic call "+ssax.CalleeName(cc)+" at "+c.P.Pos(ins.Pos()))
						return
					}
					callee := cc.StaticCallee()
					if callee == nil {
						if _, isClosure := cc.Value.(*ssa.MakeClosure); !isClosure {
							bad = append(bad, "call of a function value at "+c.P.Pos(ins.Pos()))
						}
						return
					}
					if callee.Pkg != nil && strings.HasPrefix(callee.Pkg.Pkg.Path(), core.Mod) {
						visit(callee, depth+1)
						return
					}
					if !pureExternal[ssax.CalleeName(cc)] {
						bad = append(bad, "calls "+ssax.CalleeName(cc)+" at "+c.P.Pos(ins.Pos()))
					}
					// sort.Sort(x): the sort.Interface methods of x's type run too
					if n := ssax.CalleeName(cc); n == "sort.Sort" || n == "sort.Stable" {
						if mi, ok := cc.Args[0].(*ssa.MakeInterface); ok {
							for _, mn := range []string{"Len", "Less", "Swap"} {
								if sel := c.P.SSA.MethodSets.MethodSet(mi.X.Type()).Lookup(pkg.Pkg, mn); sel != nil {
									if m := c.P.SSA.MethodValue(sel); m != nil && len(m.Blocks) > 0 {
										visit(m, depth+1)
									}
								}
							}
						}
					}
				})
			}
		}
		visit(fn, 0)
		sort.Strings(bad)
		c.Check(len(bad) == 0, "R19.1", key, c.P.Pos(fn.Pos()), fmt.Sprintf("%d functions visited; only pure calls", len(seen)), strings.Join(bad, "; "), bad...)
	}

	// ---- R19.2
	reset := c.P.Func(relCluster, "(*Continuum).Reset")
	if reset == nil {
		c.Undecided("R19.2", "cluster.Reset", "-", "anchor not found")
	} else {
		// (a) what flows into the hashed string
		pv := &ssax.Prov{}
		indexVals := map[ssa.Value]bool{}
		bucketsParam := reset.Params[1]
		ssax.Instrs(reset, func(ins ssa.Instruction) {
			switch x := ins.(type) {
			case *ssa.IndexAddr:
				if ssax.Unwrap(x.X) == ssa.Value(bucketsParam) {
					indexVals[x.Index] = true
				}
			case *ssa.Index:
				if ssax.Unwrap(x.X) == ssa.Value(bucketsParam) {
					indexVals[x.Index] = true
				}
			}
		})
		n := 0
		ssax.Instrs(reset, func(ins ssa.Instruction) {
			cc := ssax.CallOf(ins)
			if cc == nil || ssax.CalleeName(cc) != "crypto/md5.Sum" {
				return
			}
			n++
			key := "cluster.(*Continuum).Reset#point-inputs"
			var bad []string
			var walk func(v ssa.Value, depth int)
			seen := map[ssa.Value]bool{}
			walk = func(v ssa.Value, depth int) {
				if v == nil || seen[v] || depth > 20 {
					return
				}
				seen[v] = true
				if indexVals[v] {
					bad = append(bad, "the node's position in the listing ("+v.Name()+") flows into the hashed string")
					return
				}
				for _, s := range pv.Sources(v) {
					switch s.Kind {
					case "call":
						if s.Call.IsInvoke() && s.Call.Method.Name() == "Label" {
							continue
						}
						if ssax.CalleeName(s.Call) == "fmt.Sprintf" {
							for _, a := range s.Call.Args {
								walk(a, depth+1)
							}
							continue
						}
						bad = append(bad, "result of "+ssax.CalleeName(s.Call))
					case "const":
					case "binop":
						bo := s.V.(*ssa.BinOp)
						walk(bo.X, depth+1)
						walk(bo.Y, depth+1)
					case "alloc", "composite":
						// variadic argument array: walk its element stores
						if al, ok := s.V.(*ssa.Alloc); ok {
							for _, r := range *al.Referrers() {
								if ia, ok := r.(*ssa.IndexAddr); ok {
									for _, rr := range *ia.Referrers() {
										if st, ok := rr.(*ssa.Store); ok {
											walk(st.Val, depth+1)
										}
									}
								}
							}
						}
					case "param":
						if s.V == ssa.Value(bucketsParam) {
							continue // the node itself (label source)
						}
						bad = append(bad, s.String())
					default:
						if indexVals[s.V] {
							bad = append(bad, "the node's position in the listing flows into the hashed string")
						}
					}
				}
				// phis (loop counters): operands
				if phi, ok := v.(*ssa.Phi); ok {
					for _, e := range phi.Edges {
						walk(e, depth+1)
					}
				}
			}
			walk(cc.Args[0], 0)
			sort.Strings(bad)
			c.Check(len(bad) == 0, "R19.2", key, c.P.Pos(ins.Pos()), "hashed string derives from Label() and the replica counter only", strings.Join(bad, "; "))
		})
		if n == 0 {
			c.Undecided("R19.2", "cluster.(*Continuum).Reset#point-inputs", c.P.Pos(reset.Pos()), "no md5.Sum call found")
		}
		// (b) comparator
		var sortArgT types.Type
		ssax.Instrs(reset, func(ins ssa.Instruction) {
			cc := ssax.CallOf(ins)
			if cc != nil && (ssax.CalleeName(cc) == "sort.Sort" || ssax.CalleeName(cc) == "sort.Stable") {
				if mi, ok := cc.Args[0].(*ssa.MakeInterface); ok {
					sortArgT = mi.X.Type()
				}
			}
		})
		key := "cluster.ring#comparator-total-order"
		if sortArgT == nil {
			c.Undecided("R19.2", key, c.P.Pos(reset.Pos()), "the ring is not sorted with sort.Sort/sort.Stable on a named type: idiom not recognised")
		} else {
			sel := c.P.SSA.MethodSets.MethodSet(sortArgT).Lookup(pkg.Pkg, "Less")
			var less *ssa.Function
			if sel != nil {
				less = c.P.SSA.MethodValue(sel)
			}
			if less == nil || len(less.Blocks) == 0 {
				c.Undecided("R19.2", key, c.P.Pos(reset.Pos()), "Less method not found")
			} else {
				readsPoint, readsNode := false, false
				ssax.Instrs(less, func(ins ssa.Instruction) {
					var ft types.Type
					switch x := ins.(type) {
					case *ssa.FieldAddr:
						ft = x.Type().(*types.Pointer).Elem()
					case *ssa.Field:
						ft = x.Type()
					default:
						return
					}
					if types.TypeString(ft, nil) == core.Mod+"/"+relCluster+".Bucket" {
						readsNode = true
					} else if b, ok := ft.Underlying().(*types.Basic); ok && b.Info()&types.IsInteger != 0 {
						readsPoint = true
					}
				})
				c.Check(readsPoint && readsNode, "R19.2", key, c.P.Pos(less.Pos()), "Less orders by point and, for equal points, by the node",
					"the ring comparator reads the point only: two nodes whose labels hash to the same point are ordered by how the nodes were listed, so the node chosen for keys at that point depends on listing order")
			}
		}
	}

	// ---- R19.4: what Bucket / Hash hand out comes from the sorted ring
	c.Rule("R19.4", "the node returned by a ring lookup is read from the sorted ring, never from the node list as it was passed in (whose order is the caller's)", 1)
	if bfn := c.P.Func(relCluster, "(*Continuum).Bucket"); bfn == nil {
		c.Undecided("R19.4", "cluster.(*Continuum).Bucket#result-from-ring", "-", "anchor not found")
	} else {
		pv := &ssax.Prov{}
		var bad []string
		for _, r := range ssax.Returns(bfn) {
			for _, s := range pv.Sources(r.Results[0]) {
				switch {
				case s.Kind == "const":
				case s.Kind == "param" && len(s.Path) >= 1 && s.Path[0] == "ring":
				default:
					bad = append(bad, fmt.Sprintf("the result at %s comes from %s", c.P.Pos(r.Pos()), s.String()))
				}
			}
		}
		c.Check(len(bad) == 0, "R19.4", "cluster.(*Continuum).Bucket#result-from-ring", c.P.Pos(bfn.Pos()), "every result is an element of the sorted ring",
			strings.Join(uniq(bad), "; ")+": for some hash values the chosen node depends on the order the nodes were listed")
	}

	// ---- R19.3
	impl, ok := handlerImpl(c, relCluster)
	if !ok {
		c.Undecided("R19.3", "cluster.Handler", "-", "cluster.Handler does not implement handlers.Handler")
		return
	}
	pv := &ssax.Prov{}
	nSel := 0
	for _, fn := range pkgFuncs(c, relCluster) {
		recvOK := fn.Signature.Recv() != nil && namedOf(fn.Signature.Recv().Type()) == impl.Named
		if !recvOK {
			continue
		}
		counts := map[string]int{}
		ssax.Instrs(fn, func(ins ssa.Instruction) {
			cc := ssax.CallOf(ins)
			if cc != nil && strings.HasSuffix(ssax.CalleeName(cc), "cluster.Continuum).Hash") {
				nSel++
				key := ordinalKey(counts, core.FuncName(fn)+"#Hash")
				srcs := pv.Sources(cc.Args[1])
				good := ssax.All(srcs, func(s ssax.Src) bool {
					return s.Kind == "param" && paramIndex(s.V.(*ssa.Parameter)) == 1 && (s.PathIs("Key") || s.PathIs("Keys", "[]"))
				})
				partial := ""
				for _, d := range ssax.Defs(cc.Args[1]) {
					if sl, ok := ssax.Unwrap(d).(*ssa.Slice); ok && (sl.Low != nil || sl.High != nil) {
						partial = "; only a part of the key is hashed (" + c.P.Pos(sl.Pos()) + "): commands that hash the whole key reach another node"
					}
				}
				c.Check(good && partial == "", "R19.3", key, c.P.Pos(ins.Pos()), "node selected by Hash("+strings.Join(ssax.Strings(srcs), ",")+")",
					"node selected by hashing "+strings.Join(ssax.Strings(srcs), ",")+" instead of the command's key: set and get of one key may reach different nodes"+partial)
				checkSelectionServesKey(c, pv, fn, ins.(ssa.Value), cc.Args[1], ordinalKey(counts, core.FuncName(fn)+"#served-key"))
			}
			// direct indexing of the node list
			if ia, ok := ins.(*ssa.IndexAddr); ok {
				if n, ok := ssax.FieldName(ssax.Unwrap(baseOfLoad(ia.X))); ok && n == "nodes" && fn.Name() != "Close" {
					c.Violate("R19.3", core.FuncName(fn)+"#nodes-indexed", c.P.Pos(ins.Pos()), "the node list is indexed directly, bypassing the consistent-hash ring")
				}
			}
		})
	}
	if nSel == 0 {
		c.Undecided("R19.3", "cluster.Handler#selections", "-", "no Continuum.Hash selection found")
	}
	runC19b(c)
}

func namedOf(t types.Type) *types.Named {
	if p, ok := t.(*types.Pointer); ok {
		t = p.Elem()
	}
	n, _ := t.(*types.Named)
	return n
}

func baseOfLoad(v ssa.Value) ssa.Value {
	if u, ok := v.(*ssa.UnOp); ok && u.Op == token.MUL {
		return u.X
	}
	return v
}

// checkSelectionServesKey (R19.5): follow the node returned by the ring lookup through projections (type assertion,
// field selections, loads) to the calls made through it; a []byte argument of such a call must be the hashed key
// itself, a command argument must be the command whose Key was hashed.
func checkSelectionServesKey(c *core.Ctx, pv *ssax.Prov, fn *ssa.Function, sel ssa.Value, hashed ssa.Value, key string) {
	var calls []*ssa.CallCommon
	var callIns []ssa.Instruction
	derived := map[ssa.Value]bool{sel: true}
	seen := map[ssa.Value]bool{}
	var walk func(v ssa.Value)
	walk = func(v ssa.Value) {
		if seen[v] || v.Referrers() == nil {
			return
		}
		seen[v] = true
		for _, r := range *v.Referrers() {
			switch x := r.(type) {
			case *ssa.TypeAssert, *ssa.Field, *ssa.FieldAddr, *ssa.Extract, *ssa.ChangeType, *ssa.MakeInterface, *ssa.Phi:
				derived[x.(ssa.Value)] = true
				walk(x.(ssa.Value))
			case *ssa.UnOp:
				if x.Op == token.MUL {
					derived[x] = true
					walk(x)
				}
			case *ssa.Store:
				// spilled into a local: follow the cell
				if x.Val == v {
					if al, ok := x.Addr.(*ssa.Alloc); ok {
						derived[al] = true
						walk(al)
					}
				}
			default:
				if cc := ssax.CallOf(r); cc != nil {
					calls = append(calls, cc)
					callIns = append(callIns, r)
				}
			}
		}
	}
	walk(sel)
	hashedSrc := pv.Sources(hashed)
	var bad []string
	n := 0
	for i, cc := range calls {
		args := cc.Args
		for _, a := range args {
			if derived[a] {
				continue
			}
			t := types.TypeString(a.Type(), nil)
			switch {
			case t == "[]byte":
				n++
				if ssax.Unwrap(a) != ssax.Unwrap(hashed) {
					bad = append(bad, fmt.Sprintf("%s at %s is given the key %s, the node was selected for %s", short(ssax.CalleeName(cc)), c.P.Pos(callIns[i].Pos()),
						strings.Join(ssax.Strings(pv.Sources(a)), ","), strings.Join(ssax.Strings(hashedSrc), ",")))
				}
			case strings.HasPrefix(t, pCommon+".") && strings.HasSuffix(t, "Request"):
				n++
				var cmdSrc []ssax.Src
				for _, s := range pv.Sources(a) {
					if s.Kind != "composite" {
						cmdSrc = append(cmdSrc, s)
					}
				}
				ok := len(cmdSrc) == 1 && cmdSrc[0].Kind == "param" && len(cmdSrc[0].Path) == 0 && ssax.All(hashedSrc, func(s ssax.Src) bool {
					return s.Kind == "param" && s.V == cmdSrc[0].V && s.PathIs("Key")
				})
				if !ok {
					bad = append(bad, fmt.Sprintf("%s at %s is given a command (%s) other than the one whose key was hashed (%s)", short(ssax.CalleeName(cc)), c.P.Pos(callIns[i].Pos()),
						strings.Join(ssax.Strings(cmdSrc), ","), strings.Join(ssax.Strings(hashedSrc), ",")))
				}
			}
		}
	}
	if n == 0 {
		c.Info("R19.5", key, c.P.Pos(sel.Pos()), "the selected node is not used for a keyed backend call in this function")
		return
	}
	c.Check(len(bad) == 0, "R19.5", key, c.P.Pos(sel.Pos()), fmt.Sprintf("%d keyed calls through the selected node carry the hashed key", n), strings.Join(bad, "; "))
}
