package rules

import (
	"fmt"
	"math/big"
	"sort"
	"go/token"
	"go/types"
	"strings"

	"golang.org/x/tools/go/ssa"

	"rendlint/core"
	"rendlint/ssax"
)

// checkReplyLoopExits (R10.16, shared as R4.19 and R5.8): a reply-driven loop reads the replies of requests that were
// pipelined before it, one per iteration, until the reply of the terminating no-op arrives (the read helper reports
// that as a boolean result). Every edge that leaves such a loop must carry one of two facts: the terminator was seen
// (nothing of the batch is left on the backend connection), or the read failed with an error proven *not* to be an
// application status (the connection is broken, the caller will drop it). Leaving any other way - a return on a
// token mismatch, on a chunk miss, on a count - leaves replies unread: the next command on that client connection
// reads them as its own (wrong data, or a wedge when the lengths disagree).
func checkReplyLoopExits(c *core.Ctx, rule string) {
	memo := map[*ssa.Function]bool{}
	n := 0
	for _, rel := range memcachedHandlerPkgs {
		for _, fn := range pkgFuncs(c, rel) {
			loops := ssax.Loops(fn)
			if len(loops) == 0 {
				continue
			}
			counts := map[string]int{}
			ssax.Instrs(fn, func(ins ssa.Instruction) {
				call, ok := ins.(*ssa.Call)
				if !ok {
					return
				}
				callee := call.Call.StaticCallee()
				if callee == nil || len(callee.Blocks) == 0 || !readsBackend(callee, 0, memo) {
					return
				}
				e := errResult(call)
				term := boolResult(call)
				l := ssax.InnermostLoop(loops, call.Block())
				if e == nil || term == nil || l == nil || countedLoop(l) {
					return
				}
				n++
				key := ordinalKey(counts, core.FuncName(fn)+"#loop-exit:"+short(ssax.CalleeName(&call.Call)))
				var bad []string
				keep := func(v ssa.Value) bool {
					return ssax.IsErrorValue(v) || types.Identical(v.Type().Underlying(), types.Typ[types.Bool])
				}
				ex := &ssax.Explorer{Fn: fn, Start: l.Header, Within: l.Blocks}
				ex.Enter = func(b, pred *ssa.BasicBlock, st ssax.PState) {
					fs := st.(*factState).f
					if b == l.Header {
						// a new iteration: what was known about the previous reply is gone
						delete(fs, term)
						delete(fs, e)
					}
					fs.EnterBlock(b, pred)
					fs.Retain(keep)
				}
				ex.Instr = func(ins ssa.Instruction, st ssax.PState) bool { st.(*factState).f.Step(ins); return true }
				ex.Branch = func(ifi *ssa.If, truth bool, st ssax.PState) bool {
					fs := st.(*factState).f
					ok := fs.Assume(ifi.Cond, truth)
					fs.Retain(keep)
					return ok
				}
				ex.Leave = func(from, to *ssa.BasicBlock, st ssax.PState) {
					fs := st.(*factState).f
					if !ssax.DominatesInstr(call, from.Instrs[len(from.Instrs)-1]) && from != call.Block() {
						return // left before this iteration's read: nothing was consumed by this site
					}
					if fs.Eval(term).Bool == ssax.Yes {
						return
					}
					if f := fs.Eval(e); f.Nil == ssax.No && f.App == ssax.No {
						return
					}
					what := "a jump"
					if len(to.Instrs) > 0 {
						if _, isRet := to.Instrs[len(to.Instrs)-1].(*ssa.Return); isRet && len(to.Instrs) <= 3 {
							what = "a return"
						}
					}
					bad = append(bad, fmt.Sprintf("%s at %s leaves the loop although the terminating reply was not seen and the read did not fail with an I/O error", what, c.P.Pos(lastPos(from))))
				}
				ex.Run(&factState{ssax.Facts{}})
				pos := c.P.Pos(call.Pos())
				switch {
				case ex.Exceeded:
					c.Undecided(rule, key, pos, "state space exceeded")
				case len(bad) > 0:
					c.Violate(rule, key, pos, "reply-driven loop: "+strings.Join(uniq(bad), "; ")+": replies of the pipelined batch stay unread on the backend connection and the next command of this client reads them as its own", uniq(bad)...)
				default:
					c.OK(rule, key, pos, "the loop is left only after the terminator's reply or on a broken connection")
				}
			})
		}
	}
	if n == 0 {
		c.Undecided(rule, "handlers#reply-driven-loops", "-", "no reply-driven loop with a terminator result found")
	}
}

// boolResult returns the boolean result of a call that returns (bool, ..., error).
func boolResult(call *ssa.Call) ssa.Value {
	res := call.Call.Signature().Results()
	if call.Referrers() == nil {
		return nil
	}
	for i := 0; i < res.Len(); i++ {
		if types.Identical(res.At(i).Type().Underlying(), types.Typ[types.Bool]) {
			for _, r := range *call.Referrers() {
				if ex, ok := r.(*ssa.Extract); ok && ex.Index == i {
					return ex
				}
			}
		}
	}
	return nil
}

// lastPos is the position of the last instruction of b that has one.
func lastPos(b *ssa.BasicBlock) (p token.Pos) {
	for i := len(b.Instrs) - 1; i >= 0; i-- {
		if b.Instrs[i].Pos().IsValid() {
			return b.Instrs[i].Pos()
		}
	}
	for _, ins := range b.Instrs {
		if v, ok := ins.(ssa.Value); ok && v.Pos().IsValid() {
			return v.Pos()
		}
	}
	return 0
}

// checkEveryErrorStatusDecodes (R10.21): the reply decoder maps every error status the protocol layer knows to an
// error. The set of statuses is read from the encoder's table (errorToCode: one status per error value); for each of
// them the decoder is evaluated with the status field fixed to that constant (constant propagation through its
// comparisons, range tests and table lookups - the machinery of R18.15) and must not reach `return nil`. A status that
// decodes to nil is a refused write taken for a success: the orchestrator skips the compensating L1 delete and
// acknowledges, and later reads return the value from before the write.
func checkEveryErrorStatusDecodes(c *core.Ctx, rule string) {
	dec := c.P.Func("protocol/binprot", "DecodeError")
	enc := findFunc(c, "protocol/binprot", "errorToCode", roleStatusEncoder)
	if dec == nil || enc == nil {
		c.Undecided(rule, "binprot.DecodeError#statuses", "-", "DecodeError or errorToCode not found")
		return
	}
	encT := map[string]int64{}
	for _, r := range ssax.Returns(enc) {
		if k, ok := ssax.ConstInt(r.Results[0]); ok {
			for _, ec := range ssax.DomConds(r.Block()) {
				if bo, ok := ec.Cond.(*ssa.BinOp); ok && bo.Op == token.EQL && ec.True {
					if s := ssax.SentinelOf(bo.Y); s != "" {
						encT[s] = k
					} else if s := ssax.SentinelOf(bo.X); s != "" {
						encT[s] = k
					}
				}
			}
		}
	}
	if len(encT) < 10 {
		c.Undecided(rule, "binprot.DecodeError#statuses", c.P.Pos(enc.Pos()), fmt.Sprintf("only %d error/status pairs could be read from the encoder", len(encT)))
		return
	}
	var names []string
	for s := range encT {
		names = append(names, s)
	}
	sort.Strings(names)
	for _, s := range names {
		k := encT[s]
		key := fmt.Sprintf("binprot.DecodeError#status:0x%02x", k)
		bi := &bucketInterp{c: c, fn: dec, tables: map[*ssa.Global]map[int64]int64{}, word: 8, budget: 10000, inputField: "Status",
			bitFunc: func(*ssa.Function) bool { return false }}
		bi.run(big.NewInt(k), big.NewInt(k))
		switch {
		case len(bi.undec) > 0:
			c.Undecided(rule, key, c.P.Pos(dec.Pos()), "the decoder leaves the closed form: "+bi.undec[0])
		case len(bi.pieces) == 0:
			c.Undecided(rule, key, c.P.Pos(dec.Pos()), "no return reached")
		default:
			bad := ""
			for _, p := range bi.pieces {
				if p.res.isConst && p.res.k.Sign() == 0 {
					bad = fmt.Sprintf("status 0x%02x (the status of %s) reaches `return nil` at %s", k, s, c.P.Pos(p.pos))
				}
			}
			c.Check(bad == "", rule, key, c.P.Pos(dec.Pos()), "decodes to an error", bad+": a backend reply with this error status is taken for a success - a refused write is acknowledged and not compensated")
		}
	}
}
