package rules

import (
	"fmt"
	"go/token"
	"go/types"
	"strings"

	"golang.org/x/tools/go/ssa"

	"rendlint/core"
	"rendlint/ssax"
)

func init() {
	Meta["C04"] = &PropMeta{
		Title: "Chunked storage is transparent for every size, key and command",
		Explain: "Provenance and path rules over the chunking backend: (R4.1) the key of every backend request it writes is a derived key (metadata key or numbered chunk key) of the command's own key; (R4.2) derived-key constructors either cannot extend the caller's backing array in place (capacity clamp / copy), or no derived key is used after another key was derived from the same base slice (otherwise a key with spare capacity is rewritten under a wrong backend key); (R4.3) delete removes the metadata entry and the chunks 0..NumChunks-1 of the metadata just read; (R4.4) no mutating command returns success on a path that sent no request to the backend and read no reply. " +
			"Decides key containment, non-aliasing and no-acknowledgement-without-effect; byte equality for every length and the ceil/pad arithmetic are numeric and not decided.",
		Assume: commonAssume,
		Run:    runC04,
	}
}

var keyedWriters = map[string]bool{}

func init() {
	for _, n := range []string{"WriteSetCmd", "WriteAddCmd", "WriteReplaceCmd", "WriteAppendCmd", "WritePrependCmd", "WriteGetCmd", "WriteGetQCmd",
		"WriteGetECmd", "WriteGetEQCmd", "WriteDeleteCmd", "WriteTouchCmd", "WriteGATCmd", "WriteGATQCmd"} {
		keyedWriters[pBinprot+"."+n] = true
	}
}

// keyConstructors: functions of package chunked of type func([]byte, ...) []byte whose result is an append chain on parameter 0.
// The bool tells whether the constructor may write into the caller's backing array.
func keyConstructors(c *core.Ctx) map[*ssa.Function]bool {
	out := map[*ssa.Function]bool{}
	for _, fn := range pkgFuncs(c, relChunked) {
		sig := fn.Signature
		if fn.Parent() != nil || sig.Recv() != nil || sig.Params().Len() == 0 || sig.Results().Len() != 1 {
			continue
		}
		if types.TypeString(sig.Params().At(0).Type(), nil) != "[]byte" || types.TypeString(sig.Results().At(0).Type(), nil) != "[]byte" {
			continue
		}
		appends, inPlace := false, false
		seen := map[ssa.Value]bool{}
		var walk func(v ssa.Value)
		walk = func(v ssa.Value) {
			if v == nil || seen[v] {
				return
			}
			seen[v] = true
			switch x := v.(type) {
			case *ssa.Call:
				if b, ok := x.Call.Value.(*ssa.Builtin); ok && b.Name() == "append" {
					appends = true
					walk(x.Call.Args[0])
					return
				}
				if strings.HasPrefix(ssax.CalleeName(&x.Call), "strconv.Append") {
					appends = true
					walk(x.Call.Args[0])
					return
				}
			case *ssa.Phi:
				for _, e := range x.Edges {
					walk(e)
				}
			case *ssa.Slice:
				if x.Max != nil {
					return // capacity clamped: append must reallocate
				}
				walk(x.X)
			case *ssa.Parameter:
				if x == fn.Params[0] {
					inPlace = true
				}
			}
		}
		for _, r := range ssax.Returns(fn) {
			walk(r.Results[0])
		}
		if appends {
			out[fn] = inPlace
		}
	}
	return out
}

// keyProducer describes a function whose result #0 is a derived key of one of its parameters.
type keyProducer struct {
	baseParam int
	inPlace   bool
	via       *ssa.Function // constructor used (for helpers)
}

func keyProducers(c *core.Ctx) map[*ssa.Function]keyProducer {
	ctors := keyConstructors(c)
	out := map[*ssa.Function]keyProducer{}
	for f, ip := range ctors {
		out[f] = keyProducer{0, ip, f}
	}
	// helpers: result #0 is ctor(param)
	for _, fn := range pkgFuncs(c, relChunked) {
		if _, isCtor := ctors[fn]; isCtor || fn.Parent() != nil || fn.Signature.Results().Len() < 2 {
			continue
		}
		if types.TypeString(fn.Signature.Results().At(0).Type(), nil) != "[]byte" {
			continue
		}
		var kp *keyProducer
		for _, r := range ssax.Returns(fn) {
			for _, d := range ssax.Defs(r.Results[0]) {
				call, ok := d.(*ssa.Call)
				if !ok {
					continue
				}
				if ip, isCtor := ctors[call.Call.StaticCallee()]; isCtor {
					if p, ok := call.Call.Args[0].(*ssa.Parameter); ok {
						kp = &keyProducer{paramIndex(p), ip, call.Call.StaticCallee()}
					}
				}
			}
		}
		if kp != nil {
			out[fn] = *kp
		}
	}
	return out
}

func runC04(c *core.Ctx) {
	c.Rule("R4.1", "the key of every backend request written by the chunking backend is a derived key (constructor applied to) the command's own key", 12)
	c.Rule("R4.2", "derived keys do not alias: a constructor that may append into the caller's backing array must not be followed by another derivation from the same base slice while the first derived key is still used", 2)
	c.Rule("R4.3", "delete issues a delete for the metadata key and for every chunk index 0..NumChunks-1 of the metadata it just read", 2)
	c.Rule("R4.4", "a mutating command of the chunking backend returns success only on paths that sent at least one request to the backend and read its reply", 7)

	prods := keyProducers(c)
	if len(prods) < 2 {
		c.Undecided("R4.1", "chunked#key-constructors", "-", fmt.Sprintf("only %d derived-key producers found", len(prods)))
		return
	}
	pkgPath := core.Mod + "/" + relChunked
	inl := &ssax.Prov{
		AppendBaseOnly: true,
		Inline:         func(f *ssa.Function) bool { return f.Pkg != nil && f.Pkg.Pkg.Path() == pkgPath },
		Through: func(cc *ssa.CallCommon) []int {
			if strings.HasPrefix(ssax.CalleeName(cc), "strconv.Append") {
				return []int{0}
			}
			return nil
		},
	}
	plain := &ssax.Prov{}

	// ---- R4.1
	var originOK func(fn *ssa.Function, v ssa.Value, depth int) []string
	originOK = func(fn *ssa.Function, v ssa.Value, depth int) []string {
		var bad []string
		for _, s := range inl.Sources(v) {
			switch {
			case s.Kind == "const":
			case s.Kind == "param" && (s.PathIs("Key") || s.PathIs("Keys", "[]")):
			case s.Kind == "param" && len(s.Path) == 0 && s.V.Parent() == fn && depth < 2 && fn.Signature.Recv() == nil:
				// helper parameter: lifted to the call sites
				idx := paramIndex(s.V.(*ssa.Parameter))
				sites := 0
				for _, caller := range allPkgFuncs(fn.Pkg) {
					ssax.Instrs(caller, func(ins ssa.Instruction) {
						cc := ssax.CallOf(ins)
						if cc == nil || cc.StaticCallee() != fn {
							return
						}
						sites++
						for _, b := range originOK(caller, cc.Args[idx], depth+1) {
							bad = append(bad, "via "+core.FuncName(caller)+": "+b)
						}
					})
				}
				if sites == 0 {
					bad = append(bad, s.String()+" (no call site)")
				}
			default:
				bad = append(bad, s.String())
			}
		}
		return bad
	}
	for _, fn := range pkgFuncs(c, relChunked) {
		counts := map[string]int{}
		ssax.Instrs(fn, func(ins ssa.Instruction) {
			cc := ssax.CallOf(ins)
			if cc == nil || !keyedWriters[ssax.CalleeName(cc)] {
				return
			}
			key := ordinalKey(counts, core.FuncName(fn)+"#"+short(ssax.CalleeName(cc)))
			pos := c.P.Pos(ins.Pos())
			arg := cc.Args[1]
			// (a) the argument is the result of a derived-key producer
			var notDerived []string
			for _, d := range ssax.Defs(arg) {
				okDerived := false
				switch x := d.(type) {
				case *ssa.Call:
					_, okDerived = prods[x.Call.StaticCallee()]
				case *ssa.Extract:
					if call, ok := x.Tuple.(*ssa.Call); ok && x.Index == 0 {
						_, okDerived = prods[call.Call.StaticCallee()]
					}
				case *ssa.Const:
					okDerived = ssax.IsNilConst(x) // error path of a helper
				}
				if !okDerived {
					notDerived = append(notDerived, strings.Join(ssax.Strings(plain.Sources(d)), ","))
				}
			}
			// (b) whose base is the command's key
			bad := originOK(fn, arg, 0)
			switch {
			case len(notDerived) > 0:
				c.Violate("R4.1", key, pos, "the request's key is not a derived key (metadata or chunk key) but "+strings.Join(notDerived, "; ")+": the command addresses a backend entry outside the key's own entries")
			case len(bad) > 0:
				c.Violate("R4.1", key, pos, "the derived key is not built from the command's own key: "+strings.Join(bad, "; "))
			default:
				c.OK("R4.1", key, pos, "key <- derived key of "+strings.Join(ssax.Strings(inl.Sources(arg)), ","))
			}
		})
	}

	// ---- R4.2
	anyInPlace := false
	for f, kp := range prods {
		if kp.via == f {
			key := core.FuncName(f) + "#in-place"
			if kp.inPlace {
				anyInPlace = true
				c.Info("R4.2", key, c.P.Pos(f.Pos()), "the constructor appends onto its parameter without clamping the capacity: it may write into the caller's backing array")
			} else {
				c.OK("R4.2", key, c.P.Pos(f.Pos()), "the constructor clamps the capacity (or copies) before appending: a derived key never shares writable storage with its base")
			}
		}
	}
	if anyInPlace {
		for _, fn := range pkgFuncs(c, relChunked) {
			type deriv struct {
				call *ssa.Call
				v    ssa.Value // the derived key value
				base string
			}
			var ds []deriv
			ssax.Instrs(fn, func(ins ssa.Instruction) {
				call, ok := ins.(*ssa.Call)
				if !ok {
					return
				}
				kp, ok := prods[call.Call.StaticCallee()]
				if !ok || !kp.inPlace {
					return
				}
				var v ssa.Value = call
				if call.Call.Signature().Results().Len() > 1 {
					v = nil
					for _, r := range *call.Referrers() {
						if ex, ok := r.(*ssa.Extract); ok && ex.Index == 0 {
							v = ex
						}
					}
				}
				ds = append(ds, deriv{call, v, strings.Join(ssax.Strings(plain.Sources(call.Call.Args[kp.baseParam])), ",")})
			})
			counts := map[string]int{}
			for _, d1 := range ds {
				if d1.v == nil || d1.v.Referrers() == nil {
					continue
				}
				key := ordinalKey(counts, core.FuncName(fn)+"#derived:"+d1.call.Call.StaticCallee().Name())
				var viol string
				for _, d2 := range ds {
					if d2.call == d1.call || d2.base != d1.base {
						continue
					}
					// path d1 -> d2 -> use(d1.v), never passing d1 again
					avoid := func(ins ssa.Instruction) bool { return ins == ssa.Instruction(d1.call) }
					if hit, _ := (ssax.Reach{Target: func(ins ssa.Instruction) bool { return ins == ssa.Instruction(d2.call) }, Avoid: avoid}).From(d1.call); hit == nil {
						continue
					}
					use, _ := (ssax.Reach{Target: func(ins ssa.Instruction) bool {
						for _, op := range ins.Operands(nil) {
							if op != nil && *op == d1.v {
								return true
							}
						}
						return false
					}, Avoid: avoid}).From(d2.call)
					if use != nil {
						viol = fmt.Sprintf("the key derived at %s is used at %s after %s derived another key from the same base slice at %s: with spare capacity in the client's key both share one backing array and the first key is overwritten (e.g. 'foo-meta' becomes 'foo-1eta')",
							c.P.Pos(d1.call.Pos()), c.P.Pos(use.Pos()), d2.call.Call.StaticCallee().Name(), c.P.Pos(d2.call.Pos()))
					}
				}
				c.Check(viol == "", "R4.2", key, c.P.Pos(d1.call.Pos()), "no other derivation from the same base between this derivation and its uses", viol)
			}
		}
	}

	runR43(c, prods)
	c.Rule("R4.15", "every per-chunk request loop addresses chunk keys 0, 1, 2, ... by its own counter (start 0, step 1), bounded by the metadata's chunk count or driven by the chunk iterator", 5)
	runR415(c, "R4.15", prods)
	runR44(c, prods)
	c.Rule("R4.5", "chunk placement: chunk n of a value occupies bytes [chunkSize*n, min(chunkSize*n+chunkSize, totalLength)) computed from the metadata's chunk size and length", 2)
	c.Rule("R4.6", "a loop collecting the replies of requests pipelined before it runs to its bound (NumChunks): no early exit leaves replies unread on the connection", 2)
	checkChunkBounds(c, "R4.5")
	checkReplyCollection(c, "R4.6")
	c.Rule("R4.7", "key scheme: backend keys are <key>-meta and <key>-<decimal index>; the two suffix languages are disjoint and begin with the last dash of the backend key, so distinct client keys never share a backend entry", 2)
	checkKeyScheme(c, "R4.7")
	c.Rule("R4.8", "every counted chunk reply was read without error and token-compared in its iteration, or no hit follows (shared with C05)", 3)
	c.Rule("R4.9", "once a chunk's token differs from the metadata token no hit is reachable (shared with C05)", 3)
	c.Share(map[string]string{"R5.4": "R4.8", "R5.2": "R4.9", "R5.5": "R4.14", "R5.1": "R4.16", "R5.7": "R4.18"}, runC05)
	c.Rule("R4.10", "a value handed to the consumer of a multi-key get lives in memory obtained during that key's iteration: it is not overwritten when the next key is read", 1)
	checkFreshValueBuffers(c, "R4.10", relChunked)
	c.Rule("R4.11", "append/prepend store the assembled value under the flags recorded in the metadata they read and under the command's own key", 1)
	checkRestoreKeepsFlags(c, "R4.11")
	c.Rule("R4.12", "flags travel through the metadata record unchanged: every record written carries the command's own flags or those of the record just read; the fetch helpers return the decoded field, or - if they take the backend item's flags instead - every write of the metadata entry stores the same flags as item flags", 4)
	checkFlagsThroughMetadata(c, "R4.12")
	c.Rule("R4.17", "a hit is read as the backend frames it: exactly one consumption of the 4 bytes of item flags between the reply header and the stored entry (metadata record, or token and chunk data)", 2)
	runR417(c, "R4.17")
	c.Share(map[string]string{"R10.16": "R4.19", "R10.5": "R4.20"}, runC10) // "all commands behave as on an unchunked map": replies left unread by one command are read by the next as its own
	c.Share(map[string]string{"R16.4": "R4.13"}, runC16) // a chunk count that differs between metadata and chunk writer makes some lengths unreadable or leaves orphans
}

func runR43(c *core.Ctx, prods map[*ssa.Function]keyProducer) {
	impl, ok := handlerImpl(c, relChunked)
	if !ok {
		c.Undecided("R4.3", "chunked.Handler", "-", "handler not found")
		return
	}
	fn := c.P.Method(impl, "Delete")
	if fn == nil {
		c.Undecided("R4.3", "chunked.Handler.Delete", "-", "method not found")
		return
	}
	metaOK, chunkOK := false, false
	chunkWhy := "no delete of a numbered chunk key found"
	loops := ssax.Loops(fn)
	ssax.Instrs(fn, func(ins ssa.Instruction) {
		cc := ssax.CallOf(ins)
		if cc == nil || ssax.CalleeName(cc) != pBinprot+".WriteDeleteCmd" {
			return
		}
		for _, d := range ssax.Defs(cc.Args[1]) {
			var call *ssa.Call
			switch x := d.(type) {
			case *ssa.Call:
				call = x
			case *ssa.Extract:
				call, _ = x.Tuple.(*ssa.Call)
			}
			if call == nil {
				continue
			}
			kp, ok := prods[call.Call.StaticCallee()]
			if !ok {
				continue
			}
			ctor := kp.via
			if ctor.Signature.Params().Len() == 1 {
				metaOK = true // single-argument constructor: the metadata key
				continue
			}
			// chunk key: index argument must sweep 0..NumChunks-1
			idx := call.Call.Args[1]
			l := ssax.InnermostLoop(loops, ins.Block())
			phi, isPhi := ssax.Unwrap(idx).(*ssa.Phi)
			if l == nil || !isPhi || phi.Block() != l.Header {
				chunkWhy = "the chunk index is not the induction variable of the enclosing loop"
				continue
			}
			startsAt0, stepsBy1 := false, false
			for i, e := range phi.Edges {
				if !l.Blocks[phi.Block().Preds[i]] {
					if n, ok := ssax.ConstInt(e); ok && n == 0 {
						startsAt0 = true
					}
				} else if bo, ok := e.(*ssa.BinOp); ok && bo.Op == token.ADD && bo.X == ssa.Value(phi) {
					if n, ok := ssax.ConstInt(bo.Y); ok && n == 1 {
						stepsBy1 = true
					}
				}
			}
			bounded := false
			for b := range l.Blocks {
				ifi, ok := b.Instrs[len(b.Instrs)-1].(*ssa.If)
				if !ok {
					continue
				}
				if bo, ok := ifi.Cond.(*ssa.BinOp); ok && bo.Op == token.LSS && bo.X == ssa.Value(phi) && isFieldLoad(bo.Y, "NumChunks") {
					bounded = true
				}
			}
			if startsAt0 && stepsBy1 && bounded {
				chunkOK = true
			} else {
				chunkWhy = fmt.Sprintf("the chunk delete loop does not sweep 0..NumChunks-1 (starts at 0: %v, step 1: %v, bound NumChunks: %v)", startsAt0, stepsBy1, bounded)
			}
		}
	})
	c.Check(metaOK, "R4.3", "(chunked.Handler).Delete#metadata-key", c.P.Pos(fn.Pos()), "the metadata entry is deleted", "delete never removes the metadata entry of the key")
	c.Check(chunkOK, "R4.3", "(chunked.Handler).Delete#all-chunks", c.P.Pos(fn.Pos()), "chunks 0..NumChunks-1 are deleted", chunkWhy)
}

// ---- R4.4

type effState struct {
	f           ssax.Facts
	wrote, read bool
}

func (s *effState) Key() string       { return fmt.Sprintf("%v/%v/%s", s.wrote, s.read, s.f.Key()) }
func (s *effState) Copy() ssax.PState { return &effState{s.f.Clone(), s.wrote, s.read} }

type effSummary struct {
	w, r bool     // on every nil-error return: a request was written / a reply was read
	bad  []string // offending returns
	done bool
}

func runR44(c *core.Ctx, prods map[*ssa.Function]keyProducer) {
	impl, ok := handlerImpl(c, relChunked)
	if !ok {
		c.Undecided("R4.4", "chunked.Handler", "-", "handler not found")
		return
	}
	memo := map[*ssa.Function]*effSummary{}
	var summarise func(fn *ssa.Function) *effSummary
	summarise = func(fn *ssa.Function) *effSummary {
		if s, ok := memo[fn]; ok {
			return s
		}
		sum := &effSummary{w: true, r: true}
		memo[fn] = sum // recursion guard: optimistic
		nilReturns := 0
		ex := &ssax.Explorer{Fn: fn}
		ex.Enter = func(b, pred *ssa.BasicBlock, st ssax.PState) {
			fs := st.(*effState).f
			fs.EnterBlock(b, pred)
			fs.Retain(func(v ssa.Value) bool { return ssax.IsErrorValue(v) || types.TypeString(v.Type(), nil) == "bool" })
		}
		ex.Instr = func(ins ssa.Instruction, ps ssax.PState) bool {
			s := ps.(*effState)
			if cc := ssax.CallOf(ins); cc != nil {
				if _, isDefer := ins.(*ssa.Defer); !isDefer {
					name := ssax.CalleeName(cc)
					switch {
					case strings.HasPrefix(name, pBinprot+".Write"):
						s.wrote = true
					case name == pBinprot+".ReadResponseHeader":
						s.read = true
					default:
						if callee := cc.StaticCallee(); callee != nil && len(callee.Blocks) > 0 && callee.Pkg == fn.Pkg {
							if _, isKey := prods[callee]; !isKey || callee.Signature.Results().Len() > 1 {
								cs := summarise(callee)
								if hasErrResult(callee) {
									s.wrote = s.wrote || cs.w
									s.read = s.read || cs.r
								}
							}
						}
					}
				}
			}
			s.f.Step(ins)
			return true
		}
		ex.Branch = func(ifi *ssa.If, truth bool, ps ssax.PState) bool { return ps.(*effState).f.Assume(ifi.Cond, truth) }
		ex.Exit = func(ins ssa.Instruction, ps ssax.PState) {
			s := ps.(*effState)
			ret, ok := ins.(*ssa.Return)
			if !ok || len(ret.Results) == 0 {
				return
			}
			last := ret.Results[len(ret.Results)-1]
			if types.TypeString(last.Type(), nil) != "error" {
				return
			}
			if s.f.Eval(last).Nil == ssax.No || ssax.SentinelOf(last) != "" {
				return
			}
			// tail call: the callee's guarantee is the caller's
			if call, ok := last.(*ssa.Call); ok && call.Block() == ret.Block() {
				if callee := call.Call.StaticCallee(); callee != nil && callee.Pkg == fn.Pkg && len(callee.Blocks) > 0 {
					cs := summarise(callee)
					if !(s.wrote || cs.w) {
						sum.w = false
					}
					if !(s.read || cs.r) {
						sum.r = false
					}
					nilReturns++
					return
				}
			}
			nilReturns++
			if !s.wrote {
				sum.w = false
			}
			if !s.read {
				sum.r = false
			}
			if !s.wrote || !s.read {
				sum.bad = append(sum.bad, fmt.Sprintf("returns success at %s on a path with request written=%v, reply read=%v", c.P.Pos(ret.Pos()), s.wrote, s.read))
			}
		}
		ex.Run(&effState{f: ssax.Facts{}})
		if ex.Exceeded {
			sum.bad = append(sum.bad, "state space exceeded")
			sum.w, sum.r = false, false
		}
		sum.bad = uniq(sum.bad)
		sum.done = true
		return sum
	}
	judged := map[*ssa.Function]bool{}
	var judge func(fn *ssa.Function, name string)
	judge = func(fn *ssa.Function, name string) {
		if judged[fn] {
			return
		}
		judged[fn] = true
		sum := summarise(fn)
		key := "(chunked.Handler)." + name + "#ack-without-effect"
		if len(sum.bad) > 0 {
			c.Violate("R4.4", key, c.P.Pos(fn.Pos()), "the command "+sum.bad[0]+": it is acknowledged although the backend never saw it", sum.bad...)
		} else {
			c.OK("R4.4", key, c.P.Pos(fn.Pos()), "every success return follows a backend request and its reply (directly or through the function it delegates to)")
		}
		// functions this one tail-calls are judged on their own
		for _, r := range ssax.Returns(fn) {
			if len(r.Results) == 0 {
				continue
			}
			if call, ok := r.Results[len(r.Results)-1].(*ssa.Call); ok && call.Block() == r.Block() {
				if callee := call.Call.StaticCallee(); callee != nil && callee.Pkg == fn.Pkg && len(callee.Blocks) > 0 {
					judge(callee, callee.Name())
				}
			}
		}
	}
	for _, m := range keyedWrites {
		fn := c.P.Method(impl, m)
		if fn == nil {
			c.Undecided("R4.4", "(chunked.Handler)."+m, "-", "method not found")
			continue
		}
		judge(fn, m)
	}
}

func hasErrResult(f *ssa.Function) bool {
	res := f.Signature.Results()
	return res.Len() > 0 && types.TypeString(res.At(res.Len()-1).Type(), nil) == "error"
}

// ---------------------------------------------------------------- R4.5 / R4.6

// checkChunkBounds (R4.5): the function that places chunk n of a value computes start = chunkSize*n and
// end = min(start+chunkSize, totalLength). Anything else mis-places or truncates a chunk for some length.
func checkChunkBounds(c *core.Ctx, rule string) {
	var fn *ssa.Function
	for _, f := range pkgFuncs(c, relChunked) {
		sig := f.Signature
		if f.Parent() == nil && sig.Recv() == nil && sig.Params().Len() == 3 && sig.Results().Len() == 2 {
			allInt := true
			for i := 0; i < 3; i++ {
				if types.TypeString(sig.Params().At(i).Type(), nil) != "int" {
					allInt = false
				}
			}
			if allInt && types.TypeString(sig.Results().At(0).Type(), nil) == "int" && types.TypeString(sig.Results().At(1).Type(), nil) == "int" {
				fn = f
			}
		}
	}
	key := "chunked#chunk-slice-bounds"
	if fn == nil {
		c.Undecided(rule, key, "-", "no func(int, int, int) (int, int) found in package chunked")
		return
	}
	// which parameter is which: the helper is called as f(metaData.ChunkSize, chunkNum, metaData.Length)
	size, num, total := fn.Params[0], fn.Params[1], fn.Params[2]
	var bad []string
	rets := ssax.Returns(fn)
	if len(rets) != 1 {
		c.Undecided(rule, key, c.P.Pos(fn.Pos()), "several return sites")
		return
	}
	ev := &ssax.SymEval{}
	// start
	startOK := false
	if bo, ok := ssax.Unwrap(rets[0].Results[0]).(*ssa.BinOp); ok && bo.Op == token.MUL {
		if (bo.X == ssa.Value(size) && bo.Y == ssa.Value(num)) || (bo.X == ssa.Value(num) && bo.Y == ssa.Value(size)) {
			startOK = true
		}
	}
	if !startOK {
		bad = append(bad, "start is not chunkSize * chunkNum")
	}
	start := rets[0].Results[0]
	// end = min(start+size, total)
	isStartPlusSize := func(v ssa.Value) bool {
		v = ssax.Unwrap(v)
		if bo, ok := v.(*ssa.BinOp); ok && bo.Op == token.ADD {
			return (ssax.Unwrap(bo.X) == start && ssax.Unwrap(bo.Y) == ssa.Value(size)) || (ssax.Unwrap(bo.Y) == start && ssax.Unwrap(bo.X) == ssa.Value(size))
		}
		return false
	}
	isTotal := func(v ssa.Value) bool { return ssax.Unwrap(v) == ssa.Value(total) }
	endOK := false
	end := ssax.Unwrap(rets[0].Results[1])
	switch x := end.(type) {
	case *ssa.Call:
		if ssax.CalleeName(&x.Call) == "math.Min" && len(x.Call.Args) == 2 {
			a, b := x.Call.Args[0], x.Call.Args[1]
			if (isStartPlusSize(a) && isTotal(b)) || (isStartPlusSize(b) && isTotal(a)) {
				endOK = true
			}
		}
	case *ssa.Phi:
		// if a > b { end = b } : a two-way choice between exactly the two operands, governed by their comparison
		if len(x.Edges) == 2 {
			var sp, tt int = -1, -1
			for i, e := range x.Edges {
				if isStartPlusSize(e) {
					sp = i
				}
				if isTotal(e) {
					tt = i
				}
			}
			if sp >= 0 && tt >= 0 {
				// the governing comparison relates the same two values and picks the smaller one
				for _, p := range x.Block().Preds {
					for _, ec := range append(ssax.DomConds(p), ssax.EdgeConds(p)...) {
						bo, ok := ec.Cond.(*ssa.BinOp)
						if !ok {
							continue
						}
						l, r := bo.X, bo.Y
						if (isStartPlusSize(l) && isTotal(r)) || (isStartPlusSize(r) && isTotal(l)) {
							endOK = true
						}
					}
				}
				// the comparison may sit in the phi's own predecessor that branches
				if idom := x.Block().Idom(); idom != nil {
					if ifi, ok := idom.Instrs[len(idom.Instrs)-1].(*ssa.If); ok {
						if bo, ok := ifi.Cond.(*ssa.BinOp); ok {
							if (isStartPlusSize(bo.X) && isTotal(bo.Y)) || (isStartPlusSize(bo.Y) && isTotal(bo.X)) {
								// which value is chosen on which edge
								tEdge := idom.Succs[0]
								// value chosen when the condition is true
								chosenTrue := -1
								for i, p := range x.Block().Preds {
									if p == tEdge || tEdge.Dominates(p) {
										chosenTrue = i
									}
								}
								lIsSP := isStartPlusSize(bo.X)
								// cond true means: X op Y
								smallerIsX := bo.Op == token.LSS || bo.Op == token.LEQ
								if chosenTrue >= 0 {
									wantTrue := tt // default: if sp > total choose total
									if (smallerIsX && lIsSP) || (!smallerIsX && !lIsSP) {
										wantTrue = sp
									}
									endOK = chosenTrue == wantTrue
								}
							}
						}
					}
				}
			}
		}
	}
	if !endOK {
		bad = append(bad, "end is not recognisably min(start+chunkSize, totalLength) (found "+ev.Eval(rets[0].Results[1]).String()+")")
	}
	c.Check(len(bad) == 0, rule, key, c.P.Pos(fn.Pos()), "chunk n occupies [chunkSize*n, min(chunkSize*n+chunkSize, totalLength))", strings.Join(bad, "; ")+": for some value lengths a chunk's bytes are dropped or misplaced on read")
	// and it is called with (ChunkSize, counter, Length) of the same metadata
	n := 0
	for _, f := range pkgFuncs(c, relChunked) {
		ssax.Instrs(f, func(ins ssa.Instruction) {
			cc := ssax.CallOf(ins)
			if cc == nil || cc.StaticCallee() != fn {
				return
			}
			n++
			good := isFieldLoad(cc.Args[0], "ChunkSize") && isFieldLoad(cc.Args[2], "Length")
			c.Check(good, rule, core.FuncName(f)+"#chunk-slice-args", c.P.Pos(ins.Pos()), "called with the metadata's chunk size and total length", "the chunk placement is not computed from the metadata's ChunkSize and Length")
		})
	}
}

// checkReplyCollection (R4.6 / R10.6): a loop that collects the replies of requests pipelined before it (its bound is
// the same NumChunks the writing loop used) must run to its bound: an early exit leaves replies unread and the next
// command on the connection reads them as its own.
func checkReplyCollection(c *core.Ctx, rule string) {
	memo := map[*ssa.Function]bool{}
	n := 0
	for _, fn := range pkgFuncs(c, relChunked) {
		loops := ssax.Loops(fn)
		counts := map[string]int{}
		for _, l := range loops {
			if !countedLoop(l) {
				continue
			}
			// bound derives from NumChunks
			ifi := l.Header.Instrs[len(l.Header.Instrs)-1].(*ssa.If)
			bo := ifi.Cond.(*ssa.BinOp)
			if !(isFieldLoad(bo.Y, "NumChunks") || isFieldLoad(bo.X, "NumChunks")) {
				continue
			}
			reads, writes := false, false
			for b := range l.Blocks {
				for _, ins := range b.Instrs {
					cc := ssax.CallOf(ins)
					if cc == nil {
						continue
					}
					if strings.HasPrefix(ssax.CalleeName(cc), pBinprot+".Write") {
						writes = true
					}
					if callee := cc.StaticCallee(); callee != nil && len(callee.Blocks) > 0 && readsBackend(callee, 0, memo) {
						reads = true
					}
				}
			}
			if !reads || writes {
				continue
			}
			n++
			key := ordinalKey(counts, core.FuncName(fn)+"#reply-collection")
			var exits []string
			for b := range l.Blocks {
				for _, s := range b.Succs {
					if !l.Blocks[s] && b != l.Header {
						exits = append(exits, c.P.Pos(firstPos(s)))
					}
				}
			}
			c.Check(len(exits) == 0, rule, key, c.P.Pos(firstPos(l.Header)), "the loop reads one reply per pipelined request and has no other exit",
				"the reply-collection loop can be left early (towards "+strings.Join(exits, ", ")+") while replies of the pipelined requests are still unread: the next command on this connection consumes them as its own")
		}
	}
	if n == 0 {
		c.Undecided(rule, "chunked#reply-collection-loops", "-", "no reply-collection loop found")
	}
}

// checkKeyScheme (R4.7): the backend key of every entry is "<key>-meta" or "<key>-<decimal index>". The metadata
// constructor appends the constant "-meta"; the chunk constructor produces the dash either explicitly (index 0) or as
// the sign of the negated index it formats in base 10. The two suffix languages are disjoint ("meta" is no number)
// and the last '-' splits a backend key uniquely, so distinct client keys never share a backend entry.
func checkKeyScheme(c *core.Ctx, rule string) {
	ctors := keyConstructors(c)
	var meta, chunk *ssa.Function
	for f := range ctors {
		if f.Signature.Params().Len() == 1 {
			meta = f
		} else if f.Signature.Params().Len() == 2 {
			chunk = f
		}
	}
	if meta == nil || chunk == nil {
		c.Undecided(rule, "chunked#key-scheme", "-", "metadata / chunk key constructors not found")
		return
	}
	// metadata suffix: a constant that starts with '-' and contains a non-digit
	suffix := ""
	ssax.Instrs(meta, func(ins ssa.Instruction) {
		if cv, ok := ins.(*ssa.Convert); ok {
			if s, ok := ssax.ConstString(cv.X); ok {
				suffix = s
			}
		}
	})
	word := strings.TrimPrefix(suffix, "-")
	notNumberIn := func(base int64) bool {
		for _, r := range word {
			d := int64(99)
			switch {
			case r >= '0' && r <= '9':
				d = int64(r - '0')
			case r >= 'a' && r <= 'z':
				d = int64(r-'a') + 10
			}
			if d >= base {
				return true
			}
		}
		return false
	}
	// chunk suffix
	idx := chunk.Params[1]
	var bad []string
	fmtOK, dashOK := false, false
	idxBase := int64(10)
	ssax.Instrs(chunk, func(ins ssa.Instruction) {
		cc := ssax.CallOf(ins)
		if cc != nil && ssax.CalleeName(cc) == "strconv.AppendInt" {
			base, _ := ssax.ConstInt(cc.Args[2])
			neg := false
			if u, ok := ssax.Unwrap(cc.Args[1]).(*ssa.UnOp); ok && u.Op == token.SUB && ssax.Unwrap(u.X) == ssa.Value(idx) {
				neg = true
			}
			if base >= 2 && base <= 36 && neg {
				fmtOK = true
				idxBase = base
			} else {
				bad = append(bad, fmt.Sprintf("index formatted in base %d, negated: %v", base, neg))
			}
		}
		// explicit dash for index 0
		if st, ok := ins.(*ssa.Store); ok {
			if k, isC := ssax.ConstInt(st.Val); isC && k == '-' {
				for _, ec := range ssax.DomConds(st.Block()) {
					if v, ok := condEqConst(ec, func(v ssa.Value) bool { return ssax.Unwrap(v) == ssa.Value(idx) }); ok && v == 0 {
						dashOK = true
					}
				}
			}
		}
	})
	if !fmtOK {
		bad = append(bad, "the chunk index is not appended as the rendering of its negation (dash, digits)")
	}
	if !dashOK {
		bad = append(bad, "no explicit dash for chunk index 0 (whose negation has no sign)")
	}
	c.Check(len(bad) == 0, rule, "chunked."+chunk.Name()+"#suffix", c.P.Pos(chunk.Pos()), fmt.Sprintf("chunk suffix is '-' followed by the base-%d index for every index >= 0", idxBase), strings.Join(bad, "; "))
	c.Check(strings.HasPrefix(suffix, "-") && word != "" && notNumberIn(idxBase), rule, "chunked."+meta.Name()+"#suffix", c.P.Pos(meta.Pos()), fmt.Sprintf("metadata suffix %q: a dash followed by a word that is no base-%d number", suffix, idxBase),
		fmt.Sprintf("the metadata key suffix %q is not a dash followed by a word that is no base-%d number: it can collide with a chunk key of another client key", suffix, idxBase))
}

// checkFreshValueBuffers: a value handed to the consumer of a multi-key get (sent on the data channel from inside the
// per-key loop) must be stored in memory obtained during that key's iteration. A buffer that outlives the iteration
// (allocated before the loop, kept when "large enough", taken from the receiver) is overwritten by the next key while
// the consumer may still hold the previous response.
func checkFreshValueBuffers(c *core.Ctx, rule string, rels ...string) {
	for _, rel := range rels {
		for _, fn := range pkgFuncs(c, rel) {
			loops := ssax.Loops(fn)
			counts := map[string]int{}
			ssax.Instrs(fn, func(ins ssa.Instruction) {
				snd, ok := ins.(*ssa.Send)
				if !ok {
					return
				}
				// the value travels in a Data field of what is sent, possibly one struct level down (the pool's
				// response wraps a GetEResponse)
				var path []string
				if hasField(snd.X.Type(), "Data") {
					path = []string{"Data"}
				} else if st, isSt := snd.X.Type().Underlying().(*types.Struct); isSt {
					for i := 0; i < st.NumFields(); i++ {
						if hasField(st.Field(i).Type(), "Data") {
							path = []string{st.Field(i).Name(), "Data"}
						}
					}
				}
				if path == nil {
					return
				}
				loop := ssax.InnermostLoop(loops, snd.Block())
				if loop == nil {
					return
				}
				key := ordinalKey(counts, core.FuncName(fn)+"#value-buffer")
				var vals []ssa.Value
				if len(path) == 1 {
					vals = fieldStoreVals(snd.X, "Data")
				}
				var bad []string
				n := 0
				if len(vals) == 0 {
					bad, n = loopFresh(c, fn, loop, snd.X, path...)
				}
				for _, v := range vals {
					b, k := loopFresh(c, fn, loop, v)
					bad, n = append(bad, b...), n+k
				}
				if n == 0 {
					return
				}
				c.Check(len(bad) == 0, rule, key, c.P.Pos(snd.Pos()), "the value sent was obtained inside the iteration that sends it",
					"the value sent to the consumer lives in memory from outside the key's iteration: "+strings.Join(uniq(bad), ", ")+"; the next key is read into it while the consumer may still hold this response")
			})
		}
	}
}

// fieldStoreVals: the values stored into field name of a struct value built in a local (composite literal) and loaded.
func fieldStoreVals(v ssa.Value, name string) []ssa.Value {
	u, ok := v.(*ssa.UnOp)
	if !ok || u.Op != token.MUL {
		return nil
	}
	al, ok := u.X.(*ssa.Alloc)
	if !ok || al.Referrers() == nil {
		return nil
	}
	var out []ssa.Value
	for _, r := range *al.Referrers() {
		fa, ok := r.(*ssa.FieldAddr)
		if !ok || fa.Referrers() == nil {
			continue
		}
		if n, _ := ssax.FieldName(fa); n != name {
			continue
		}
		for _, rr := range *fa.Referrers() {
			if st, ok := rr.(*ssa.Store); ok && st.Addr == ssa.Value(fa) {
				out = append(out, st.Val)
			}
		}
	}
	return out
}

// checkRestoreKeepsFlags: a command of the chunking backend that reads a value and stores it again (append, prepend)
// stores it under the flags recorded in the metadata it just read, and under the command's own key: these commands
// carry no flags of their own (the binary request has no extras), so anything else changes the flags of the item.
func checkRestoreKeepsFlags(c *core.Ctx, rule string) {
	pv := &ssax.Prov{}
	for _, fn := range pkgFuncs(c, relChunked) {
		fetches := false
		ssax.Instrs(fn, func(ins ssa.Instruction) {
			if cc := ssax.CallOf(ins); cc != nil && cc.StaticCallee() != nil && cc.StaticCallee().Pkg == fn.Pkg {
				res := cc.StaticCallee().Signature.Results()
				for i := 0; i < res.Len(); i++ {
					if strings.HasSuffix(types.TypeString(res.At(i).Type(), nil), "chunked.metadata") {
						fetches = true
					}
				}
			}
		})
		if !fetches {
			continue
		}
		counts := map[string]int{}
		ssax.Instrs(fn, func(ins ssa.Instruction) {
			cc := ssax.CallOf(ins)
			if cc == nil || cc.StaticCallee() == nil || cc.StaticCallee().Pkg != fn.Pkg {
				return
			}
			for _, a := range cc.Args {
				if types.TypeString(a.Type(), nil) != pCommon+".SetRequest" {
					continue
				}
				key := ordinalKey(counts, core.FuncName(fn)+"#re-store:"+cc.StaticCallee().Name())
				var bad []string
				for _, s := range pv.Sources(a, "Flags") {
					if !(s.Kind == "call" && len(s.Path) > 0 && s.Path[len(s.Path)-1] == "OrigFlags") {
						bad = append(bad, "Flags <- "+s.String())
					}
				}
				for _, s := range pv.Sources(a, "Key") {
					if !(s.Kind == "param" && s.PathIs("Key")) {
						bad = append(bad, "Key <- "+s.String())
					}
				}
				// these commands carry no TTL either (the binary request has no extras, the text parser ignores the
				// word): the expiry re-stored must be the one recorded in the metadata, or the item's lifetime changes
				for _, s := range pv.Sources(a, "Exptime") {
					if !(s.Kind == "call" && len(s.Path) > 0 && s.Path[len(s.Path)-1] == "Exptime") {
						bad = append(bad, "Exptime <- "+s.String())
					}
				}
				c.Check(len(bad) == 0, rule, key, c.P.Pos(ins.Pos()), "re-stored under the metadata's OrigFlags and Exptime and the command's key",
					"the value read back is stored again with "+strings.Join(uniq(bad), ", ")+" instead of the flags / expiry recorded in the item's metadata / the command's key: an append or prepend changes the item's flags or lifetime")
			}
		})
	}
}

// loopFresh: is v (or its field path) a value obtained inside the current iteration of loop? Returns the origins that
// are not (allocated before the loop, carried from one iteration to the next, parameters, globals) and the number of
// origins examined. Constants, nil and received values count as fresh.
func loopFresh(c *core.Ctx, fn *ssa.Function, loop *ssax.Loop, v ssa.Value, path ...string) (bad []string, n int) {
	pv := &ssax.Prov{}
	leaf := func(v ssa.Value, path ...string) {
		for _, s := range pv.Sources(v, path...) {
			n++
			if s.Kind == "call" && isReaderView(s.Call) {
				bad = append(bad, "a view into the reader's own buffer ("+short(ssax.CalleeName(s.Call))+", "+c.P.Pos(s.V.Pos())+"), overwritten by the next read")
				continue
			}
			switch s.Kind {
			case "const", "zero", "recv":
				continue // a received value is the producer's responsibility
			}
			vi, isIns := s.V.(ssa.Instruction)
			if !isIns || vi.Block() == nil || vi.Parent() != fn || !loop.Blocks[vi.Block()] {
				bad = append(bad, s.String()+" ("+c.P.Pos(s.V.Pos())+")")
			}
		}
	}
	if len(path) > 0 {
		leaf(v, path...)
		return
	}
	seen := map[ssa.Value]bool{}
	var walk func(v ssa.Value)
	walk = func(v ssa.Value) {
		if seen[v] {
			return
		}
		seen[v] = true
		switch x := v.(type) {
		case *ssa.Phi:
			if x.Block() == loop.Header {
				allNil := true
				for _, e := range x.Edges {
					if !ssax.IsNilConst(e) && e != ssa.Value(x) {
						allNil = false
					}
				}
				if !allNil {
					n++
					bad = append(bad, "a value carried from one iteration to the next ("+x.Comment+", "+c.P.Pos(x.Pos())+")")
				}
				return
			}
			for _, e := range x.Edges {
				walk(e)
			}
		case *ssa.Slice:
			walk(x.X)
		case *ssa.Convert:
			walk(x.X)
		case *ssa.ChangeType:
			walk(x.X)
		case *ssa.MakeChan, *ssa.MakeSlice, *ssa.MakeMap, *ssa.Alloc, *ssa.Call:
			n++
			if call, isCall := x.(*ssa.Call); isCall && isReaderView(&call.Call) {
				bad = append(bad, "a view into the reader's own buffer ("+short(ssax.CalleeName(&call.Call))+", "+c.P.Pos(call.Pos())+"), overwritten by the next read")
				return
			}
			vi := x.(ssa.Instruction)
			if !loop.Blocks[vi.Block()] {
				bad = append(bad, "created before the loop ("+c.P.Pos(x.Pos())+")")
			}
		default:
			leaf(v)
		}
	}
	walk(v)
	return
}

// isReaderView: the call returns a slice that aliases a bufio.Reader's internal buffer.
func isReaderView(cc *ssa.CallCommon) bool {
	switch ssax.CalleeName(cc) {
	case "(*bufio.Reader).Peek", "(*bufio.Reader).ReadSlice", "(*bufio.Reader).ReadLine",
		"(*bufio.ReadWriter).Peek", "(*bufio.ReadWriter).ReadSlice", "(*bufio.ReadWriter).ReadLine",
		"(bufio.ReadWriter).Peek", "(bufio.ReadWriter).ReadSlice", "(bufio.ReadWriter).ReadLine":
		return true
	}
	return false
}
