package rules

import (
	"fmt"
	"go/token"
	"go/types"
	"sort"
	"strings"

	"golang.org/x/tools/go/ssa"

	"rendlint/core"
	"rendlint/ssax"
)

func init() {
	Meta["C17"] = &PropMeta{
		Title: "The in-memory backend behaves like the reference map and is safe to share",
		Explain: "Exhaustive path exploration of every method of the in-memory handler with an abstract state (mutex mode in {none, shared, exclusive}; state of the looked-up key, a subset of {absent, live, expired}, refined on the branches over the map lookup's ok and isExpired()). Decides (R17.1) that every map access holds the handler's mutex, that map writes (assignment, delete) hold it exclusively, that each path unlocks exactly once and that the map does not escape; (R17.2) that for each key state the result and the map effect of each method are those of the reference map of the property (add on a live key fails and leaves it untouched, delete of a missing key reports not-found, expired entries behave as absent, reads never write). " +
			"Decides the per-command effect table and the lock discipline; sequence-level equality with the model follows from them only by the (unchecked) argument that the table is the model's transition function.",
		Assume: commonAssume,
		Run:    runC17,
	}
}

const (
	ksAbsent  = 1
	ksLive    = 2
	ksExpired = 4
	ksAll     = 7
)

func ksString(k int) string {
	var s []string
	if k&ksAbsent != 0 {
		s = append(s, "absent")
	}
	if k&ksLive != 0 {
		s = append(s, "live")
	}
	if k&ksExpired != 0 {
		s = append(s, "expired")
	}
	return strings.Join(s, "|")
}

type inmemState struct {
	lock    ssax.LockMode
	ks      int  // possible states of the key looked up last
	looked  bool // a lookup happened on this path
	stored  int  // key states under which a map assignment happened (bitmask)
	deleted int  // key states under which a delete happened
	storedN int
	fresh   bool // the last lookup happened in the critical section that is still open
}

func (s *inmemState) Key() string {
	return fmt.Sprintf("%d/%d/%v/%d/%d/%d/%v", s.lock, s.ks, s.looked, s.stored, s.deleted, s.storedN, s.fresh)
}
func (s *inmemState) Copy() ssax.PState { c := *s; return &c }

type inmemFinding struct {
	state  int // key-state bit the finding is about (0 = lock discipline)
	detail string
	pos    string
}

// resolveLocal follows loads of single-store locals.
func resolveLocal(v ssa.Value) ssa.Value {
	for i := 0; i < 6; i++ {
		u, ok := v.(*ssa.UnOp)
		if !ok || u.Op != token.MUL {
			return v
		}
		al, ok := u.X.(*ssa.Alloc)
		if !ok {
			return v
		}
		sts := ssax.StoresTo(al)
		if len(sts) != 1 {
			return v
		}
		v = sts[0].Val
	}
	return v
}

func runC17(c *core.Ctx) {
	c.Rule("R17.1", "every access to the in-memory map holds the handler's mutex; assignments and delete hold it exclusively; every path unlocks exactly once before returning; the map is not handed out", 10)
	c.Rule("R17.2", "per method and key state (absent, live, expired) the result and map effect are those of the reference map: add: live => ErrKeyExists and no effect, otherwise store; replace/append/prepend/touch/gat: live => store, otherwise not-found/miss and no effect on a live entry; delete: live => removed and nil, otherwise ErrKeyNotFound; get/gete: hit iff live, never a map write", 30)

	c.Rule("R17.3", "check and act are one critical section: no map write happens under a lock acquired after the lookup that decided the command (two connections adding the same missing key must not both succeed)", 10)
	c.Rule("R17.4", "one mutex per map: wherever a handler is built around a map that other handlers share, it is built around the mutex they share too", 1)

	c.Rule("R17.5", "expiry follows the reference map (memcached): now + TTL only for TTLs of at most 30 days, above that the TTL is an absolute time (shared with C09)", 1)
	runR99(c, "R17.5")
	runR176(c)
	runR177(c)
	runR178(c)

	const rel = "handlers/inmem"
	impl, ok := handlerImpl(c, rel)
	if !ok {
		c.Undecided("R17.1", "inmem.Handler", "-", "inmem.Handler does not implement handlers.Handler")
		return
	}
	st := impl.Named.Underlying().(*types.Struct)
	mapField, mutexField := "", ""
	for i := 0; i < st.NumFields(); i++ {
		switch st.Field(i).Type().Underlying().(type) {
		case *types.Map:
			mapField = st.Field(i).Name()
		}
		if ts := types.TypeString(st.Field(i).Type(), nil); ts == "*sync.RWMutex" || ts == "sync.RWMutex" || ts == "*sync.Mutex" {
			mutexField = st.Field(i).Name()
		}
	}
	if mapField == "" || mutexField == "" {
		c.Undecided("R17.1", "inmem.Handler#fields", "-", "no map / mutex field found in the handler")
		return
	}
	checkOneMutexPerMap(c, rel, impl, mapField, mutexField)
	isMap := func(v ssa.Value) bool {
		v = resolveLocal(v)
		if u, ok := v.(*ssa.UnOp); ok && u.Op == token.MUL {
			if n, ok := ssax.FieldName(u.X); ok && n == mapField {
				return true
			}
		}
		return false
	}
	// the map must not escape: every use of the field is a lookup, update, delete, len or range
	for _, fn := range pkgFuncs(c, rel) {
		ssax.Instrs(fn, func(ins ssa.Instruction) {
			v, ok := ins.(*ssa.UnOp)
			if !ok || v.Op != token.MUL {
				return
			}
			if n, ok := ssax.FieldName(v.X); !ok || n != mapField {
				return
			}
			if named := namedPtr(v.X); named == nil || named.Obj() != impl.Named.Obj() {
				return
			}
			for _, r := range *v.Referrers() {
				switch x := r.(type) {
				case *ssa.Lookup, *ssa.MapUpdate, *ssa.Range:
					continue
				case *ssa.Call:
					if b, ok := x.Call.Value.(*ssa.Builtin); ok && (b.Name() == "delete" || b.Name() == "len") {
						continue
					}
				}
				c.Violate("R17.1", core.FuncName(fn)+"#map-escapes", c.P.Pos(r.Pos()), "the shared map is used outside a lookup/update/delete: it may be accessed without the mutex")
			}
		})
	}

	methods := []string{"Set", "Add", "Replace", "Append", "Prepend", "Get", "GetE", "GAT", "Delete", "Touch"}
	for _, m := range methods {
		fn := c.P.Method(impl, m)
		if fn == nil || len(fn.Blocks) == 0 {
			c.Undecided("R17.1", "inmem.Handler."+m, "-", "method not found")
			continue
		}
		var finds []inmemFinding
		add := func(state int, pos token.Pos, format string, a ...interface{}) {
			finds = append(finds, inmemFinding{state, fmt.Sprintf(format, a...), c.P.Pos(pos)})
		}
		// which lookup does a value belong to
		lookupOf := func(v ssa.Value) *ssa.Lookup {
			v = resolveLocal(v)
			if ex, ok := v.(*ssa.Extract); ok {
				if lk, ok := ex.Tuple.(*ssa.Lookup); ok {
					return lk
				}
			}
			return nil
		}
		ex := &ssax.Explorer{Fn: fn}
		ex.Instr = func(ins ssa.Instruction, ps ssax.PState) bool {
			s := ps.(*inmemState)
			switch x := ins.(type) {
			case *ssa.Lookup:
				if isMap(x.X) {
					if s.lock == ssax.NotHeld {
						add(0, x.Pos(), "map read without the mutex")
					}
					s.ks, s.looked, s.fresh = ksAll, true, true
				}
			case *ssa.MapUpdate:
				if isMap(x.Map) {
					if s.lock != ssax.Exclusive {
						add(0, x.Pos(), "map assignment while the mutex is held in mode %s (concurrent map writes are fatal)", lockModeName(s.lock))
					}
					if s.looked && !s.fresh {
						add(-1, x.Pos(), "the entry is assigned in a critical section entered after the lookup that decided the command: another connection can change the key between the two")
					}
					ks := s.ks
					if !s.looked {
						ks = ksAll
					}
					s.stored |= ks
					s.storedN++
				}
			case *ssa.Call:
				cc := &x.Call
				if b, ok := cc.Value.(*ssa.Builtin); ok && b.Name() == "delete" && isMap(cc.Args[0]) {
					if s.lock != ssax.Exclusive {
						add(0, x.Pos(), "delete() on the shared map while the mutex is held in mode %s: a concurrent map write terminates the process", lockModeName(s.lock))
					}
					if s.looked && !s.fresh {
						add(-1, x.Pos(), "the entry is deleted in a critical section entered after the lookup that decided the command: another connection can change the key between the two")
					}
					ks := s.ks
					if !s.looked {
						ks = ksAll
					}
					s.deleted |= ks
				}
				switch ssax.CalleeName(cc) {
				case "(*sync.RWMutex).Lock", "(*sync.Mutex).Lock":
					if isHandlerMutex(cc.Args[0], mutexField) {
						if s.lock != ssax.NotHeld {
							add(0, x.Pos(), "Lock while the mutex is already held")
						}
						s.lock, s.fresh = ssax.Exclusive, false
					}
				case "(*sync.RWMutex).RLock":
					if isHandlerMutex(cc.Args[0], mutexField) {
						if s.lock != ssax.NotHeld {
							add(0, x.Pos(), "RLock while the mutex is already held")
						}
						s.lock, s.fresh = ssax.Shared, false
					}
				case "(*sync.RWMutex).Unlock", "(*sync.Mutex).Unlock":
					if isHandlerMutex(cc.Args[0], mutexField) {
						if s.lock != ssax.Exclusive {
							add(0, x.Pos(), "Unlock while the mutex is held in mode %s", lockModeName(s.lock))
						}
						s.lock = ssax.NotHeld
					}
				case "(*sync.RWMutex).RUnlock":
					if isHandlerMutex(cc.Args[0], mutexField) {
						if s.lock != ssax.Shared {
							add(0, x.Pos(), "RUnlock while the mutex is held in mode %s", lockModeName(s.lock))
						}
						s.lock = ssax.NotHeld
					}
				}
			case *ssa.Send:
				// Get / GetE answer per key through the channel
				if m == "Get" || m == "GetE" {
					miss, known := literalBool(x.X, "Miss")
					if !known {
						add(0, x.Pos(), "response sent with a Miss flag that is not a constant: cannot be judged")
						break
					}
					if miss && s.ks&ksLive != 0 {
						add(ksLive, x.Pos(), "a live key is answered with a miss")
					}
					if !miss {
						if s.ks&ksAbsent != 0 {
							add(ksAbsent, x.Pos(), "an absent key is answered with a hit")
						}
						if s.ks&ksExpired != 0 {
							add(ksExpired, x.Pos(), "an expired key is answered with a hit")
						}
					}
				}
			}
			return true
		}
		ex.Branch = func(ifi *ssa.If, truth bool, ps ssax.PState) bool {
			s := ps.(*inmemState)
			cond := ifi.Cond
			neg := false
			for {
				if u, ok := cond.(*ssa.UnOp); ok && u.Op == token.NOT {
					cond, neg = u.X, !neg
					continue
				}
				break
			}
			t := truth != neg
			if lk := lookupOf(cond); lk != nil && isMap(lk.X) {
				if ex2, ok := resolveLocal(cond).(*ssa.Extract); ok && ex2.Index == 1 {
					if t {
						s.ks &= ksLive | ksExpired
					} else {
						s.ks &= ksAbsent
					}
				}
			} else if call, ok := cond.(*ssa.Call); ok && strings.HasSuffix(ssax.CalleeName(&call.Call), "inmem.entry).isExpired") {
				if lk := lookupOf(call.Call.Args[0]); lk != nil && isMap(lk.X) {
					if t {
						s.ks &= ksExpired
					} else {
						s.ks &= ksAbsent | ksLive
					}
				}
			}
			return s.ks != 0
		}
		ex.Exit = func(ins ssa.Instruction, ps ssax.PState) {
			s := ps.(*inmemState)
			ret, ok := ins.(*ssa.Return)
			if !ok {
				return
			}
			if s.lock != ssax.NotHeld {
				add(0, ret.Pos(), "return with the mutex still held in mode %s", lockModeName(s.lock))
			}
			ks := s.ks
			if !s.looked {
				ks = ksAll
			}
			// result
			res := "?"
			if n := len(ret.Results); n > 0 {
				last := ret.Results[n-1]
				if types.TypeString(last.Type(), nil) == "error" {
					if ssax.IsNilConst(last) {
						res = "nil"
					} else if sn := ssax.SentinelOf(last); sn != "" {
						res = sn
					} else {
						res = "error?"
					}
				}
			}
			for _, bit := range []int{ksAbsent, ksLive, ksExpired} {
				if ks&bit == 0 {
					continue
				}
				name := ksString(bit)
				live := bit == ksLive
				storedHere := s.stored&bit != 0
				deletedHere := s.deleted&bit != 0
				switch m {
				case "Set":
					if !storedHere || res != "nil" {
						add(bit, ret.Pos(), "set on a %s key: stored=%v result=%s (reference map: store, nil)", name, storedHere, res)
					}
				case "Add":
					if live {
						if res != "common.ErrKeyExists" {
							add(bit, ret.Pos(), "add on a live key returns %s (reference map: ErrKeyExists)", res)
						}
						if storedHere || deletedHere {
							add(bit, ret.Pos(), "add on a live key modifies the map (stored=%v deleted=%v): the existing entry must stay untouched", storedHere, deletedHere)
						}
					} else if !storedHere || res != "nil" {
						add(bit, ret.Pos(), "add on an %s key: stored=%v result=%s (reference map: store, nil)", name, storedHere, res)
					}
				case "Replace", "Append", "Prepend", "Touch":
					if live {
						if !storedHere || res != "nil" || deletedHere {
							add(bit, ret.Pos(), "%s on a live key: stored=%v deleted=%v result=%s (reference map: store, nil)", strings.ToLower(m), storedHere, deletedHere, res)
						}
					} else if storedHere || res != "common.ErrKeyNotFound" {
						add(bit, ret.Pos(), "%s on an %s key: stored=%v result=%s (reference map: no effect, ErrKeyNotFound)", strings.ToLower(m), name, storedHere, res)
					}
				case "GAT":
					miss, known := literalBool(ret.Results[0], "Miss")
					if !known {
						add(bit, ret.Pos(), "get-and-touch returns a Miss flag that is not a constant")
					} else if live {
						if miss || !storedHere || deletedHere {
							add(bit, ret.Pos(), "get-and-touch on a live key: miss=%v stored=%v deleted=%v (reference map: hit, TTL stored)", miss, storedHere, deletedHere)
						}
					} else if !miss || storedHere {
						add(bit, ret.Pos(), "get-and-touch on an %s key: miss=%v stored=%v (reference map: miss, no effect)", name, miss, storedHere)
					}
				case "Delete":
					if live {
						if !deletedHere || res != "nil" {
							add(bit, ret.Pos(), "delete of a live key: removed=%v result=%s (reference map: removed, nil)", deletedHere, res)
						}
					} else if res != "common.ErrKeyNotFound" {
						add(bit, ret.Pos(), "delete of an %s key returns %s (reference map: ErrKeyNotFound)", name, res)
					}
				case "Get", "GetE":
					if s.stored != 0 {
						add(bit, ret.Pos(), "a read assigns to the map")
					}
					if live && s.deleted&ksLive != 0 {
						add(bit, ret.Pos(), "a read removes a live entry")
					}
				}
			}
		}
		ex.Run(&inmemState{ks: ksAll})
		fkey := "inmem.(*Handler)." + m
		if ex.Exceeded {
			c.Undecided("R17.1", fkey+"#lock-discipline", c.P.Pos(fn.Pos()), "state space exceeded")
			continue
		}
		// R17.1 obligation
		var lockF, seen = []string{}, map[string]bool{}
		for _, f := range finds {
			if f.state == 0 && !seen[f.detail+f.pos] {
				seen[f.detail+f.pos] = true
				lockF = append(lockF, f.detail+" at "+f.pos)
			}
		}
		sort.Strings(lockF)
		if len(lockF) > 0 {
			c.Violate("R17.1", fkey+"#lock-discipline", c.P.Pos(fn.Pos()), lockF[0], lockF...)
		} else {
			c.OK("R17.1", fkey+"#lock-discipline", c.P.Pos(fn.Pos()), fmt.Sprintf("%d abstract states explored; all map accesses under the mutex, writes exclusive, one unlock per path", ex.Visited))
		}
		var atom []string
		for _, f := range finds {
			if f.state == -1 && !seen[f.detail+f.pos] {
				seen[f.detail+f.pos] = true
				atom = append(atom, f.detail+" at "+f.pos)
			}
		}
		sort.Strings(atom)
		if len(atom) > 0 {
			c.Violate("R17.3", fkey+"#check-then-act", c.P.Pos(fn.Pos()), atom[0], atom...)
		} else {
			c.OK("R17.3", fkey+"#check-then-act", c.P.Pos(fn.Pos()), "every map write happens in the critical section of the lookup that decided it (or needs no lookup)")
		}
		for _, bit := range []int{ksAbsent, ksLive, ksExpired} {
			var fs []string
			seen := map[string]bool{}
			for _, f := range finds {
				if f.state == bit && !seen[f.detail+f.pos] {
					seen[f.detail+f.pos] = true
					fs = append(fs, f.detail+" at "+f.pos)
				}
			}
			sort.Strings(fs)
			key := fkey + "#" + ksString(bit)
			if len(fs) > 0 {
				c.Violate("R17.2", key, c.P.Pos(fn.Pos()), fs[0], fs...)
			} else {
				c.OK("R17.2", key, c.P.Pos(fn.Pos()), "result and map effect agree with the reference map on every path consistent with this key state")
			}
		}
	}
}

func lockModeName(m ssax.LockMode) string {
	switch m {
	case ssax.Shared:
		return "shared (RLock)"
	case ssax.Exclusive:
		return "exclusive"
	}
	return "none"
}

func namedPtr(v ssa.Value) *types.Named {
	fa, ok := v.(*ssa.FieldAddr)
	if !ok {
		return nil
	}
	pt, ok := fa.X.Type().Underlying().(*types.Pointer)
	if !ok {
		return nil
	}
	n, _ := pt.Elem().(*types.Named)
	return n
}

func isHandlerMutex(v ssa.Value, field string) bool {
	if u, ok := v.(*ssa.UnOp); ok && u.Op == token.MUL {
		n, ok := ssax.FieldName(u.X)
		return ok && n == field
	}
	n, ok := ssax.FieldName(v)
	return ok && n == field
}

// literalBool evaluates field name of a struct value built by a composite literal to a constant bool.
func literalBool(v ssa.Value, field string) (val, known bool) {
	srcs := (&ssax.Prov{}).Sources(v, field)
	if len(srcs) == 0 {
		return false, false
	}
	first := true
	for _, s := range srcs {
		var b bool
		switch s.Kind {
		case "zero":
			b = false
		case "const":
			n, ok := ssax.ConstInt(s.V)
			if !ok {
				return false, false
			}
			b = n != 0
		default:
			return false, false
		}
		if first {
			val, first = b, false
		} else if b != val {
			return false, false
		}
	}
	return val, true
}

// checkOneMutexPerMap (R17.4): every construction of the handler pairs its map with a mutex of the same sharing scope.
// A handler built once at package initialisation is one instance; a handler built per call around a shared map
// (package-level variable, parameter, captured variable) must take the mutex from the same shared place - a mutex
// created with the handler (or embedded by value) guards nothing against the other handlers using that map.
func checkOneMutexPerMap(c *core.Ctx, rel string, impl core.Impl, mapField, mutexField string) {
	pv := &ssax.Prov{}
	n := 0
	for _, fn := range pkgFuncs(c, rel) {
		isInit := fn.Name() == "init" || strings.HasPrefix(fn.Name(), "init#")
		counts := map[string]int{}
		ssax.Instrs(fn, func(ins ssa.Instruction) {
			al, ok := ins.(*ssa.Alloc)
			if !ok {
				return
			}
			nm := namedOf(al.Type())
			if nm == nil || nm.Obj() != impl.Named.Obj() {
				return
			}
			n++
			key := ordinalKey(counts, core.FuncName(fn)+"#handler-built")
			if isInit {
				c.OK("R17.4", key, c.P.Pos(al.Pos()), "built once at package initialisation: one map, one mutex")
				return
			}
			shared := func(s ssax.Src) bool { return s.Kind == "global" || s.Kind == "param" || s.Kind == "freevar" }
			var mapShared, muOwn []string
			for _, s := range pv.Sources(al, mapField) {
				if shared(s) {
					mapShared = append(mapShared, s.String())
				}
			}
			for _, s := range pv.Sources(al, mutexField) {
				if !shared(s) {
					muOwn = append(muOwn, s.String())
				}
			}
			// a mutex held by value is a new mutex in every copy of the handler, wherever the copy came from
			if st, ok := impl.Named.Underlying().(*types.Struct); ok {
				for i := 0; i < st.NumFields(); i++ {
					if st.Field(i).Name() == mutexField {
						if _, isPtr := st.Field(i).Type().(*types.Pointer); !isPtr {
							muOwn = append(muOwn, "a copy of a mutex held by value")
						}
					}
				}
			}
			c.Check(len(mapShared) == 0 || len(muOwn) == 0, "R17.4", key, c.P.Pos(al.Pos()), "map and mutex have the same sharing scope",
				fmt.Sprintf("the handler is built around the shared map %s but with a mutex of its own (%s): handlers of different connections lock different mutexes around the same map", strings.Join(mapShared, ","), strings.Join(muOwn, ",")))
		})
	}
	if n == 0 {
		c.Undecided("R17.4", "inmem.Handler#construction", "-", "no construction of the handler found")
	}
}
