package rules

import (
	"fmt"
	"go/token"
	"go/types"
	"strings"

	"golang.org/x/tools/go/ssa"

	"rendlint/core"
	"rendlint/ssax"
)

// checkFlagsThroughMetadata (R4.12, shared as R1.16): the flags a chunked get hands back travel from the set's request
// into the metadata record and out of it again. Three kinds of obligations:
//
//	record-flags  every metadata record written carries OrigFlags from the command's own Flags (set/add/replace) or
//	              from the record just read (touch, append/prepend re-store) - never a constant or another field;
//	reader-flags  what the metadata fetch helpers return as OrigFlags is the field decoded from the record; if a
//	              helper takes it from the backend item's flags instead, those become the authoritative copy and
//	item-flags    then every write of the metadata entry must pass the same flags as item flags (a constant there
//	              erases the flags at the next read). With the record authoritative the item flags are not consulted
//	              and these obligations are informational.
func checkFlagsThroughMetadata(c *core.Ctx, rule string) {
	pv := &ssax.Prov{}
	isMeta := func(v ssa.Value) bool { return strings.HasSuffix(ssax.ShortType(v.Type()), "chunked.metadata") }
	fromRecordOrCmd := func(s ssax.Src) bool {
		switch s.Kind {
		case "param":
			return len(s.Path) == 1 && s.Path[0] == "Flags"
		case "call", "outparam":
			return len(s.Path) > 0 && s.Path[len(s.Path)-1] == "OrigFlags"
		}
		return false
	}
	// reader side
	itemFlagsAuthoritative := false
	nReaders := 0
	for _, fn := range pkgFuncs(c, relChunked) {
		res := fn.Signature.Results()
		idx := -1
		for i := 0; i < res.Len(); i++ {
			if strings.HasSuffix(ssax.ShortType(res.At(i).Type()), "chunked.metadata") {
				idx = i
			}
		}
		if idx < 0 || roleMetaReader(fn) || len(fn.Blocks) == 0 {
			continue
		}
		nReaders++
		key := core.FuncName(fn) + "#reader-flags"
		var other []string
		for _, r := range ssax.Returns(fn) {
			if last := r.Results[len(r.Results)-1]; types.TypeString(last.Type(), nil) == "error" && !ssax.IsNilConst(last) {
				if ds := ssax.Defs(last); len(ds) > 0 && !ssax.IsNilConst(ds[0]) {
					continue // returned together with an error: the record is not used
				}
			}
			for _, s := range pv.Sources(r.Results[idx], "OrigFlags") {
				switch {
				case s.Kind == "zero" || s.Kind == "const":
					// the empty record returned with an error
				case (s.Kind == "call" || s.Kind == "outparam") && len(s.Path) > 0 && s.Path[len(s.Path)-1] == "OrigFlags":
				default:
					other = append(other, s.String())
				}
			}
		}
		if len(other) > 0 {
			itemFlagsAuthoritative = true
			c.Info(rule, key, c.P.Pos(fn.Pos()), "OrigFlags of the returned record is overridden from "+strings.Join(uniq(other), ", ")+": the backend item's flags are the authoritative copy")
		} else {
			c.OK(rule, key, c.P.Pos(fn.Pos()), "the returned record's OrigFlags is the field decoded from the stored record")
		}
	}
	if nReaders == 0 {
		c.Undecided(rule, "chunked#reader-flags", "-", "no metadata fetch helper found")
	}
	// reply side: a hit carries the flags recorded in the metadata it was assembled under
	for _, fn := range pkgFuncs(c, relChunked) {
		counts := map[string]int{}
		ssax.Instrs(fn, func(ins ssa.Instruction) {
			al, ok := ins.(*ssa.Alloc)
			if !ok || !strings.HasSuffix(ssax.ShortType(al.Type()), "Response") || literalField(al, "Key") == nil {
				return
			}
			if miss, known := literalBool(al, "Miss"); !known || miss {
				return
			}
			key := ordinalKey(counts, core.FuncName(fn)+"#hit-flags")
			srcs := pv.Sources(al, "Flags")
			ok2 := len(srcs) > 0 && ssax.All(srcs, func(s ssax.Src) bool {
				return (s.Kind == "call" || s.Kind == "outparam") && len(s.Path) > 0 && s.Path[len(s.Path)-1] == "OrigFlags"
			})
			c.Check(ok2, rule, key, c.P.Pos(al.Pos()), "the hit carries the OrigFlags of the metadata record it was read under",
				"the hit is built with Flags <- "+strings.Join(ssax.Strings(srcs), ",")+" instead of the flags recorded in the item's metadata: the client gets other flags than it stored")
		})
	}
	// writer side
	for _, fn := range pkgFuncs(c, relChunked) {
		counts := map[string]int{}
		ssax.Instrs(fn, func(ins ssa.Instruction) {
			cc := ssax.CallOf(ins)
			if cc == nil || cc.StaticCallee() == nil {
				return
			}
			callee := cc.StaticCallee()
			if roleMetaWriter(callee) {
				key := ordinalKey(counts, core.FuncName(fn)+"#record-flags")
				var bad []string
				for _, a := range cc.Args {
					if !isMeta(a) {
						continue
					}
					for _, s := range pv.Sources(a, "OrigFlags") {
						if !fromRecordOrCmd(s) {
							bad = append(bad, s.String())
						}
					}
				}
				c.Check(len(bad) == 0, rule, key, c.P.Pos(ins.Pos()), "the record written carries the command's flags or those of the record just read",
					"the metadata record is written with OrigFlags from "+strings.Join(uniq(bad), ", ")+": later gets return these instead of the flags last written")
				return
			}
			// writes of the metadata entry itself: Write{Set,Add,Replace}Cmd declaring metadataSize
			n := ssax.CalleeName(cc)
			if !(strings.HasSuffix(n, "binprot.WriteSetCmd") || strings.HasSuffix(n, "binprot.WriteAddCmd") || strings.HasSuffix(n, "binprot.WriteReplaceCmd")) || len(cc.Args) < 5 {
				return
			}
			isMetaWrite := false
			for _, s := range pv.Sources(cc.Args[4]) {
				if s.Kind == "const" || s.Kind == "global" {
					if k, ok := ssax.ConstInt(cc.Args[4]); ok && k > 0 && k < 64 {
						isMetaWrite = true
					}
				}
			}
			if !isMetaWrite {
				return
			}
			key := ordinalKey(counts, core.FuncName(fn)+"#item-flags")
			var bad []string
			for _, s := range pv.Sources(cc.Args[2]) {
				if !fromRecordOrCmd(s) {
					bad = append(bad, s.String())
				}
			}
			switch {
			case len(bad) == 0:
				c.OK(rule, key, c.P.Pos(ins.Pos()), "the metadata entry is stored under the command's / the record's flags")
			case !itemFlagsAuthoritative:
				c.Info(rule, key, c.P.Pos(ins.Pos()), "item flags "+strings.Join(uniq(bad), ", ")+" (not consulted: the record's OrigFlags is authoritative)")
			default:
				c.Violate(rule, key, c.P.Pos(ins.Pos()), fmt.Sprintf("the metadata entry is written with item flags %s while the metadata fetch helper takes OrigFlags from the item flags: after this write every read of the key returns these flags instead of the ones last set", strings.Join(uniq(bad), ", ")))
			}
		})
	}
}

// runR415 (R4.15, shared as R9.10): every loop of the chunking backend that issues one request per chunk addresses
// chunk keys 0, 1, 2, ... in order: the index handed to the chunk-key constructor is the loop's own counter (not an
// offset of it), which starts at 0 and advances by 1; loops driven by the stored metadata run while counter <
// NumChunks. A sweep that starts at 1, or writes chunk n under index n+1, leaves an entry of the key unread, untouched
// (it keeps its old expiry) or undeleted.
func runR415(c *core.Ctx, rule string, prods map[*ssa.Function]keyProducer) {
	n := 0
	for _, fn := range pkgFuncs(c, relChunked) {
		loops := ssax.Loops(fn)
		counts := map[string]int{}
		ssax.Instrs(fn, func(ins ssa.Instruction) {
			cc := ssax.CallOf(ins)
			if cc == nil || !strings.HasPrefix(ssax.CalleeName(cc), pBinprot+".Write") || len(cc.Args) < 2 {
				return
			}
			for _, d := range ssax.Defs(cc.Args[1]) {
				var call *ssa.Call
				switch x := d.(type) {
				case *ssa.Call:
					call = x
				case *ssa.Extract:
					call, _ = x.Tuple.(*ssa.Call)
				}
				if call == nil {
					continue
				}
				kp, ok := prods[call.Call.StaticCallee()]
				if !ok || kp.via.Signature.Params().Len() < 2 {
					continue
				}
				n++
				key := ordinalKey(counts, core.FuncName(fn)+"#chunk-sweep:"+strings.TrimPrefix(ssax.CalleeName(cc), pBinprot+"."))
				pos := c.P.Pos(ins.Pos())
				idx := ssax.Unwrap(call.Call.Args[1])
				l := ssax.InnermostLoop(loops, ins.Block())
				phi, isPhi := idx.(*ssa.Phi)
				if l == nil {
					c.Violate(rule, key, pos, "a request for a numbered chunk is issued outside a loop over the key's chunks")
					continue
				}
				if !isPhi {
					c.Violate(rule, key, pos, "the chunk index ("+idx.String()+") is not the loop's own counter: chunk n is addressed under another index, so one entry of the key is never reached and another is addressed that may not exist")
					continue
				}
				// the counter may be the phi of this loop or of an enclosing structure (set: counter lives in the same loop)
				if phi.Block() != l.Header {
					c.Violate(rule, key, pos, "the chunk index is not the induction variable of the enclosing loop")
					continue
				}
				startsAt0, stepsBy1 := false, false
				for i, e := range phi.Edges {
					if !l.Blocks[phi.Block().Preds[i]] {
						if k, ok := ssax.ConstInt(e); ok && k == 0 {
							startsAt0 = true
						}
					} else if bo, ok := e.(*ssa.BinOp); ok && bo.Op == token.ADD && bo.X == ssa.Value(phi) {
						if k, ok := ssax.ConstInt(bo.Y); ok && k == 1 {
							stepsBy1 = true
						}
					}
				}
				bounded, iterDriven := false, false
				for b := range l.Blocks {
					ifi, ok := b.Instrs[len(b.Instrs)-1].(*ssa.If)
					if !ok {
						continue
					}
					if bo, ok := ifi.Cond.(*ssa.BinOp); ok && bo.Op == token.LSS && bo.X == ssa.Value(phi) && isFieldLoad(bo.Y, "NumChunks") {
						bounded = true
					}
					if call, ok := ifi.Cond.(*ssa.Call); ok && call.Call.StaticCallee() != nil && call.Call.StaticCallee().Name() == "More" {
						iterDriven = true
					}
				}
				var bad []string
				if !startsAt0 {
					bad = append(bad, "the sweep does not start at chunk 0")
				}
				if !stepsBy1 {
					bad = append(bad, "the counter does not advance by 1")
				}
				if !bounded && !iterDriven {
					bad = append(bad, "the loop is bounded neither by counter < NumChunks nor by the chunk iterator")
				}
				c.Check(len(bad) == 0, rule, key, pos, "chunk keys 0, 1, 2, ... addressed by the loop's own counter", strings.Join(bad, "; ")+": an entry of the key is never read, touched or deleted")
			}
		})
	}
	if n == 0 {
		c.Undecided(rule, "chunked#chunk-sweeps", "-", "no request for a numbered chunk key found")
	}
}

// runR417 (R4.17): the chunking backend reads a hit the way the backend frames it: 4 bytes of extras (the item flags)
// come before the stored bytes. In every function of package chunked that reads a reply header and then the stored
// entry (metadata record, or token + chunk data), each path from the header read to the first read of the entry passes
// exactly one consumption of 4 bytes (Discard(4) or a 4-byte read). Without it the first four bytes of the record are
// the item flags; with two, four bytes of the record are lost.
func runR417(c *core.Ctx, rule string) {
	n := 0
	pv := &ssax.Prov{}
	for _, fn := range pkgFuncs(c, relChunked) {
		var hdr ssa.Instruction
		ssax.Instrs(fn, func(ins ssa.Instruction) {
			if cc := ssax.CallOf(ins); cc != nil && ssax.CalleeName(cc) == pBinprot+".ReadResponseHeader" {
				hdr = ins
			}
		})
		if hdr == nil {
			continue
		}
		fourBytes := func(ins ssa.Instruction) bool {
			cc := ssax.CallOf(ins)
			if cc == nil {
				return false
			}
			switch name := ssax.CalleeName(cc); {
			case strings.HasSuffix(name, ").Discard"):
				k, ok := ssax.ConstInt(cc.Args[len(cc.Args)-1])
				return ok && k == 4
			case name == "io.ReadAtLeast" || name == "io.ReadFull":
				if ms, ok := ssax.Unwrap(cc.Args[1]).(*ssa.MakeSlice); ok {
					k, ok := ssax.ConstInt(ms.Len)
					return ok && k == 4
				}
				for _, d := range ssax.Defs(cc.Args[1]) {
					if ms, ok := ssax.Unwrap(d).(*ssa.MakeSlice); ok {
						if k, ok := ssax.ConstInt(ms.Len); ok && k == 4 {
							return true
						}
					}
				}
			}
			return false
		}
		// the first read of the stored entry: the metadata decoder, or a read into a caller-supplied buffer
		entryRead := func(ins ssa.Instruction) bool {
			cc := ssax.CallOf(ins)
			if cc == nil {
				return false
			}
			if callee := cc.StaticCallee(); callee != nil && roleMetaReader(callee) {
				return true
			}
			if name := ssax.CalleeName(cc); name == "io.ReadAtLeast" || name == "io.ReadFull" {
				return ssax.Any(pv.Sources(cc.Args[1]), func(s ssax.Src) bool { return s.Kind == "param" })
			}
			return false
		}
		hasEntry := false
		ssax.Instrs(fn, func(ins ssa.Instruction) {
			if entryRead(ins) {
				hasEntry = true
			}
		})
		if !hasEntry {
			continue
		}
		n++
		key := core.FuncName(fn) + "#extras-skipped-once"
		miss, trail := (ssax.Reach{Target: entryRead, Avoid: fourBytes}).From(hdr)
		twice := false
		ssax.Instrs(fn, func(ins ssa.Instruction) {
			if fourBytes(ins) {
				if hit, _ := (ssax.Reach{Target: fourBytes, Avoid: entryRead}).From(ins); hit != nil {
					twice = true
				}
			}
		})
		switch {
		case miss != nil:
			c.Violate(rule, key, c.P.Pos(miss.Pos()), "the stored entry is read without the 4 bytes of item flags that precede it having been consumed ("+strings.Join(ssax.BlockTrail(c.P.Fset, trail), " -> ")+"): the record / token is decoded four bytes early")
		case twice:
			c.Violate(rule, key, c.P.Pos(fn.Pos()), "4 bytes are consumed twice before the stored entry is read: the first four bytes of the record are lost")
		default:
			c.OK(rule, key, c.P.Pos(fn.Pos()), "exactly one 4-byte consumption between the reply header and the stored entry")
		}
	}
	if n == 0 {
		c.Undecided(rule, "chunked#extras-skipped-once", "-", "no function reads a reply header and then a stored entry")
	}
}
