// Package rules holds the rule instances per property (DESIGN §4).
package rules

import (
	"fmt"

	"rendlint/core"
)

// PropMeta describes a property's check.
type PropMeta struct {
	Title   string
	Explain string
	Assume  []string
	Run     func(*core.Ctx)
}

// Meta is the registry, filled by the init functions of cXX.go.
var Meta = map[string]*PropMeta{}

// Run runs all rules of a property.
func Run(property string, c *core.Ctx) error {
	m, ok := Meta[property]
	if !ok {
		return fmt.Errorf("unknown property %s", property)
	}
	m.Run(c)
	return nil
}

var commonAssume = []string{
	"go/packages + go/types + go/ssa (x/tools v0.29.0) represent /repo's working tree faithfully for linux/amd64 (thorough: also GOARCH=386)",
	"the two assembly files (metrics/lzcnt_amd64.s, timer/timer_linux_amd64.s) are not analysed",
	"the decided clauses are structural necessary conditions of the property, not the behaviour as a whole (see level_note / DESIGN.md section 4)",
}
