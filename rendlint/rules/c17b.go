package rules

import (
	"fmt"
	"go/token"
	"go/types"
	"sort"
	"strings"

	"golang.org/x/tools/go/ssa"

	"rendlint/core"
	"rendlint/ssax"
)

// runR176 (R17.6): what the in-memory backend stores and hands out is what the reference map would hold. Per method,
// every field of the entry written into the map and of the response built for a hit has the source the reference map
// prescribes:
//
//	set/add/replace  data, flags <- the command; expiry <- the command's TTL
//	append           data <- old data followed by the command's data; flags, expiry <- the old entry
//	prepend          data <- the command's data followed by the old data; flags, expiry <- the old entry
//	touch, gat       data, flags <- the old entry; expiry <- the command's TTL
//	get/gete/gat hit Data, Flags (gete: Exptime) <- the entry looked up
func runR176(c *core.Ctx) {
	c.Rule("R17.6", "per method, every field of the entry stored and of the hit handed out has the source the reference map prescribes (command vs. old entry; append = old+new, prepend = new+old; touch/gat change the expiry only)", 10)
	const rel = "handlers/inmem"
	impl, ok := handlerImpl(c, rel)
	if !ok {
		c.Undecided("R17.6", "inmem.Handler", "-", "handler not found")
		return
	}
	pv := &ssax.Prov{}
	isOld := func(s ssax.Src, f string) bool {
		return s.Kind == "param" && len(s.Path) >= 2 && s.Path[len(s.Path)-1] == f && s.Path[len(s.Path)-2] == "[]"
	}
	isCmd := func(s ssax.Src, f string) bool {
		return s.Kind == "param" && len(s.Path) == 1 && s.Path[0] == f
	}
	fromCmdTTL := func(v ssa.Value, fn *ssa.Function) bool {
		found := false
		seen := map[ssa.Value]bool{}
		var walk func(v ssa.Value, d int)
		walk = func(v ssa.Value, d int) {
			if v == nil || seen[v] || d > 12 || found {
				return
			}
			seen[v] = true
			for _, s := range pv.Sources(v) {
				if isCmd(s, "Exptime") {
					found = true
					return
				}
				if s.Kind == "call" {
					for _, a := range s.Call.Args {
						walk(a, d+1)
					}
				}
				if bo, ok := s.V.(*ssa.BinOp); ok {
					walk(bo.X, d+1)
					walk(bo.Y, d+1)
				}
			}
		}
		walk(v, 0)
		return found
	}
	type want struct{ data, flags, exptime string }
	table := map[string]want{
		"Set": {"cmd", "cmd", "ttl"}, "Add": {"cmd", "cmd", "ttl"}, "Replace": {"cmd", "cmd", "ttl"},
		"Append": {"old+cmd", "old", "old"}, "Prepend": {"cmd+old", "old", "old"},
		"Touch": {"old", "old", "ttl"}, "GAT": {"old", "old", "ttl"},
	}
	var methods []string
	for m := range table {
		methods = append(methods, m)
	}
	sort.Strings(methods)
	fieldVal := func(v ssa.Value, f string) ssa.Value {
		// the value stored into field f of the struct v is loaded from
		if u, ok := ssax.Unwrap(v).(*ssa.UnOp); ok {
			if al, ok := u.X.(*ssa.Alloc); ok {
				return literalField(al, f)
			}
		}
		return nil
	}
	for _, m := range methods {
		fn := c.P.Method(impl, m)
		if fn == nil || len(fn.Blocks) == 0 {
			c.Undecided("R17.6", "inmem."+m+"#stored-entry", "-", "method not found")
			continue
		}
		w := table[m]
		nUpd := 0
		ssax.Instrs(fn, func(ins ssa.Instruction) {
			mu, ok := ins.(*ssa.MapUpdate)
			if !ok {
				return
			}
			nUpd++
			key := "inmem." + m + "#stored-entry"
			var bad []string
			check := func(field, cls string) {
				srcs := pv.Sources(mu.Value, field)
				switch cls {
				case "cmd":
					cf := strings.ToUpper(field[:1]) + field[1:]
					if !ssax.All(srcs, func(s ssax.Src) bool { return isCmd(s, cf) }) || len(srcs) == 0 {
						bad = append(bad, field+" <- "+strings.Join(ssax.Strings(srcs), ",")+" (the command's "+cf+" expected)")
					}
				case "old":
					if !ssax.All(srcs, func(s ssax.Src) bool { return isOld(s, field) }) || len(srcs) == 0 {
						bad = append(bad, field+" <- "+strings.Join(ssax.Strings(srcs), ",")+" (the old entry's "+field+" expected: this command does not change it)")
					}
				case "ttl":
					ok := len(srcs) > 0
					for _, s := range srcs {
						if !fromCmdTTL(s.V, fn) && !isCmd(s, "Exptime") {
							ok = false
						}
					}
					if !ok {
						bad = append(bad, field+" <- "+strings.Join(ssax.Strings(srcs), ",")+" (an expiry computed from the command's TTL expected)")
					}
				case "old+cmd", "cmd+old":
					dv := fieldVal(mu.Value, field)
					var app *ssa.Call
					if dv != nil {
						for _, d := range ssax.Defs(dv) {
							if call, ok := ssax.Unwrap(d).(*ssa.Call); ok {
								if b, ok := call.Call.Value.(*ssa.Builtin); ok && b.Name() == "append" {
									app = call
								}
							}
						}
					}
					if app == nil {
						bad = append(bad, field+" is not built by append(first, second...): idiom not recognised")
						return
					}
					first, second := pv.Sources(app.Call.Args[0]), pv.Sources(app.Call.Args[1])
					oldFirst := ssax.All(first, func(s ssax.Src) bool { return isOld(s, field) }) && ssax.All(second, func(s ssax.Src) bool { return isCmd(s, "Data") })
					cmdFirst := ssax.All(first, func(s ssax.Src) bool { return isCmd(s, "Data") }) && ssax.All(second, func(s ssax.Src) bool { return isOld(s, field) })
					if (cls == "old+cmd" && !oldFirst) || (cls == "cmd+old" && !cmdFirst) {
						bad = append(bad, field+" = append("+strings.Join(ssax.Strings(first), ",")+", "+strings.Join(ssax.Strings(second), ",")+"...): the two parts are in the wrong order or from the wrong source")
					}
				}
			}
			check("data", w.data)
			check("flags", w.flags)
			check("exptime", w.exptime)
			sort.Strings(bad)
			c.Check(len(bad) == 0, "R17.6", key, c.P.Pos(ins.Pos()), "data <- "+w.data+", flags <- "+w.flags+", expiry <- "+w.exptime, strings.Join(bad, "; ")+": the map holds something else than the reference map after this command")
		})
		if nUpd == 0 {
			c.Violate("R17.6", "inmem."+m+"#stored-entry", c.P.Pos(fn.Pos()), "the method never stores into the map")
		}
	}
	// hits handed out
	for _, m := range []string{"Get", "GetE", "GAT"} {
		fn := c.P.Method(impl, m)
		if fn == nil {
			continue
		}
		counts := map[string]int{}
		ssax.Instrs(fn, func(ins ssa.Instruction) {
			al, ok := ins.(*ssa.Alloc)
			if !ok || !strings.HasSuffix(ssax.ShortType(al.Type()), "Response") || literalField(al, "Key") == nil {
				return
			}
			if miss, known := literalBool(al, "Miss"); !known || miss {
				return
			}
			key := ordinalKey(counts, "inmem."+m+"#hit")
			var bad []string
			pairs := [][2]string{{"Data", "data"}, {"Flags", "flags"}}
			if m == "GetE" {
				pairs = append(pairs, [2]string{"Exptime", "exptime"})
			}
			for _, p := range pairs {
				v := literalField(al, p[0])
				if v == nil {
					bad = append(bad, p[0]+" is not set")
					continue
				}
				srcs := pv.Sources(v)
				if len(srcs) == 0 || !ssax.All(srcs, func(s ssax.Src) bool { return isOld(s, p[1]) }) {
					bad = append(bad, p[0]+" <- "+strings.Join(ssax.Strings(srcs), ",")+" (the entry's "+p[1]+" expected)")
				}
			}
			c.Check(len(bad) == 0, "R17.6", key, c.P.Pos(al.Pos()), "the hit carries the entry's data and flags", strings.Join(bad, "; "))
		})
	}
}

// runR177 (R17.7): one clock. The deadline stored with an entry and the test that decides whether it has passed read the
// same time source, in the same unit: every time source called in the in-memory backend is the same function (today:
// time.Now, reduced with Unix()). A check against another clock (a monotonic nanosecond counter, say) compares numbers
// from two different epochs: nothing ever expires, or everything does.
func runR177(c *core.Ctx) {
	c.Rule("R17.7", "one clock: every time source read in the in-memory backend (when an expiry is computed and when it is tested) is the same function, reduced the same way", 1)
	type use struct {
		clock, reduce, pos, fn string
	}
	var uses []use
	for _, fn := range pkgFuncs(c, "handlers/inmem") {
		ssax.Instrs(fn, func(ins ssa.Instruction) {
			call, ok := ins.(*ssa.Call)
			if !ok {
				return
			}
			name := ssax.CalleeName(&call.Call)
			isClock := name == "time.Now" || strings.HasSuffix(name, "/timer.Now") || name == "time.Since" || strings.HasSuffix(name, "/timer.Since")
			if !isClock {
				return
			}
			red := "-"
			if call.Referrers() != nil {
				for _, r := range *call.Referrers() {
					if rc := ssax.CallOf(r); rc != nil {
						red = short(ssax.CalleeName(rc))
					} else if bo, ok := r.(*ssa.BinOp); ok {
						red = bo.Op.String()
					}
				}
			}
			uses = append(uses, use{short(name), red, c.P.Pos(call.Pos()), core.FuncName(fn)})
		})
	}
	if len(uses) == 0 {
		c.Undecided("R17.7", "inmem#one-clock", "-", "the in-memory backend reads no clock")
		return
	}
	kinds := map[string][]string{}
	for _, u := range uses {
		k := u.clock + " reduced by " + u.reduce
		kinds[k] = append(kinds[k], u.fn+" ("+u.pos+")")
	}
	var desc []string
	for k, v := range kinds {
		desc = append(desc, k+": "+strings.Join(v, ", "))
	}
	sort.Strings(desc)
	c.Check(len(kinds) == 1, "R17.7", "inmem#one-clock", uses[0].pos, fmt.Sprintf("%d reads of one clock (%s)", len(uses), desc[0][:strings.Index(desc[0], ":")]),
		"the in-memory backend reads more than one clock - "+strings.Join(desc, "; ")+": deadlines are computed on one time scale and tested on another, so expired entries keep being served (or live ones are dropped)")
}

// runR178 (R17.8): the test "has this entry's deadline passed" orders two 32-bit second counts whose distance may be
// anything below 2^32 (absolute expiry times are taken as the client sent them). It therefore compares the two values
// themselves, in an unsigned type or in 64 bits - or a difference formed in 64 bits. A difference formed in 32 bits and
// read as a signed number (the "wrap-safe" idiom of sequence numbers), or operands narrowed to a signed 32-bit type,
// order deadlines more than 2^31 s ahead *before* now: such entries are treated as expired the moment they are stored.
func runR178(c *core.Ctx) {
	c.Rule("R17.8", "the expiry test compares the stored deadline and the clock value themselves (unsigned, or in 64 bits): no signed 32-bit difference or narrowing that would order a deadline more than 2^31 s ahead before now", 1)
	word := int64(8)
	if strings.Contains(c.Config, "386") {
		word = 4
	}
	size := func(t types.Type) (int64, bool) { // size in bytes, signed
		b, ok := t.Underlying().(*types.Basic)
		if !ok {
			return 0, false
		}
		switch b.Kind() {
		case types.Int8, types.Uint8:
			return 1, b.Kind() == types.Int8
		case types.Int16, types.Uint16:
			return 2, b.Kind() == types.Int16
		case types.Int32, types.Uint32:
			return 4, b.Kind() == types.Int32
		case types.Int64, types.Uint64:
			return 8, b.Kind() == types.Int64
		case types.Int, types.Uint, types.Uintptr:
			return word, b.Kind() == types.Int
		}
		return 0, false
	}
	// does v derive from a clock read / from a struct field, through conversions and arithmetic?
	var derives func(v ssa.Value, depth int) (clock, field bool)
	derives = func(v ssa.Value, depth int) (bool, bool) {
		if depth > 8 {
			return false, false
		}
		switch x := v.(type) {
		case *ssa.Convert:
			return derives(x.X, depth+1)
		case *ssa.ChangeType:
			return derives(x.X, depth+1)
		case *ssa.BinOp:
			c1, f1 := derives(x.X, depth+1)
			c2, f2 := derives(x.Y, depth+1)
			return c1 || c2, f1 || f2
		case *ssa.Call:
			name := ssax.CalleeName(&x.Call)
			if name == "time.Now" || strings.HasSuffix(name, "/timer.Now") {
				return true, false
			}
			if strings.HasPrefix(name, "(time.Time).Unix") && len(x.Call.Args) == 1 {
				return derives(x.Call.Args[0], depth+1)
			}
		case *ssa.UnOp:
			if x.Op == token.MUL {
				if _, ok := x.X.(*ssa.FieldAddr); ok {
					return false, true
				}
			}
		case *ssa.Field:
			return false, true
		case *ssa.Phi:
			var cc, ff bool
			for _, e := range x.Edges {
				c1, f1 := derives(e, depth+1)
				cc, ff = cc || c1, ff || f1
			}
			return cc, ff
		}
		return false, false
	}
	// problems inside one operand of the comparison
	var problems func(v ssa.Value, depth int) []string
	problems = func(v ssa.Value, depth int) []string {
		if depth > 8 {
			return nil
		}
		switch x := v.(type) {
		case *ssa.Convert:
			out := problems(x.X, depth+1)
			cl, fl := derives(x.X, 0)
			if sz, signed := size(x.Type()); (cl || fl) && signed && sz <= 4 {
				out = append(out, fmt.Sprintf("a second count is narrowed to the signed %d-bit type %s", sz*8, x.Type()))
			}
			return out
		case *ssa.BinOp:
			out := append(problems(x.X, depth+1), problems(x.Y, depth+1)...)
			if x.Op == token.SUB {
				c1, f1 := derives(x.X, 0)
				c2, f2 := derives(x.Y, 0)
				if (c1 && f2) || (f1 && c2) {
					if sz, _ := size(x.Type()); sz <= 4 {
						out = append(out, fmt.Sprintf("the difference of deadline and clock is formed in %d bits (%s)", sz*8, x.Type()))
					}
				}
			}
			return out
		}
		return nil
	}
	n := 0
	for _, fn := range pkgFuncs(c, "handlers/inmem") {
		counts := map[string]int{}
		ssax.Instrs(fn, func(ins ssa.Instruction) {
			bo, ok := ins.(*ssa.BinOp)
			if !ok {
				return
			}
			switch bo.Op {
			case token.LSS, token.LEQ, token.GTR, token.GEQ:
			default:
				return
			}
			c1, f1 := derives(bo.X, 0)
			c2, f2 := derives(bo.Y, 0)
			if !(c1 || c2) || !(f1 || f2) {
				return
			}
			n++
			key := ordinalKey(counts, core.FuncName(fn)+"#deadline-test")
			var bad []string
			bad = append(bad, problems(bo.X, 0)...)
			bad = append(bad, problems(bo.Y, 0)...)
			// a difference compared with a constant: the sign of a narrow difference decides
			mixedX := c1 && f1
			mixedY := c2 && f2
			if (mixedX || mixedY) && len(bad) == 0 {
				// a 64-bit difference is exact
			}
			// the comparison itself must not be signed on 32 bits
			if sz, signed := size(bo.X.Type()); signed && sz <= 4 {
				bad = append(bad, fmt.Sprintf("the comparison is made in the signed %d-bit type %s", sz*8, bo.X.Type()))
			}
			c.Check(len(bad) == 0, "R17.8", key, c.P.Pos(bo.Pos()), "deadline and clock are compared as they are",
				strings.Join(uniq(bad), "; ")+": a deadline more than 2^31 s ahead of now is ordered before now, the entry counts as expired at once")
		})
	}
	if n == 0 {
		c.Undecided("R17.8", "inmem#deadline-test", "-", "no comparison of a stored field with the clock found")
	}
}
