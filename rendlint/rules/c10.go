package rules

import (
	"fmt"
	"go/token"
	"go/types"
	"sort"
	"strings"

	"golang.org/x/tools/go/ssa"

	"rendlint/core"
	"rendlint/ssax"
)

func init() {
	Meta["C10"] = &PropMeta{
		Title: "Backend faults are contained: no hang, no crash, no stale value after an ack",
		Explain: "Path rules over the orchestrators, the connection loop and the backend handlers: (R10.1) after a successful L2 write, every L1 write whose residual failure edge can still reach a success reply passes through an L1 delete of the same key first (must-pass-through); (R10.2) in every reply-driven loop an error of the backend read that may still be an I/O error can never flow back to the loop header - only protocol statuses (proven by == sentinel or IsAppError) may continue; (R10.3) the loop answers application errors with an error reply and continues, anything else aborts the connection and returns; (R10.4) panics are recovered by the loop and nowhere swallowed; (R10.5) after a backend reply with an error status the body is discarded from the same reader before the function returns, and the reader is never Reset while that body is pending. " +
			"Decides these containment structures; staleness as a history property and promptness (timing) are not decided.",
		Assume: commonAssume,
		Run:    runC10,
	}
}

var memcachedHandlerPkgs = []string{"handlers/memcached/std", "handlers/memcached/chunked", "handlers/memcached/batched", "handlers/memcached/cluster"}

// appSentinels extracts the sentinels accepted by common.IsAppError.
func appSentinels(c *core.Ctx) map[string]bool {
	out := map[string]bool{}
	fn := c.P.Func("common", "IsAppError")
	if fn == nil {
		return out
	}
	ssax.Instrs(fn, func(ins ssa.Instruction) {
		if bo, ok := ins.(*ssa.BinOp); ok && bo.Op == token.EQL {
			for _, v := range []ssa.Value{bo.X, bo.Y} {
				if s := ssax.SentinelOf(v); s != "" {
					out[s] = true
				}
			}
		}
	})
	return out
}

// readsBackend: fn (transitively through static callees, depth <= 4) reads from a connection.
func readsBackend(fn *ssa.Function, depth int, memo map[*ssa.Function]bool) bool {
	if v, ok := memo[fn]; ok {
		return v
	}
	memo[fn] = false
	res := false
	ssax.Instrs(fn, func(ins ssa.Instruction) {
		cc := ssax.CallOf(ins)
		if cc == nil {
			return
		}
		switch ssax.CalleeName(cc) {
		case pBinprot + ".ReadResponseHeader", "io.ReadAtLeast", "io.ReadFull", "(*bufio.Reader).Discard", "(*bufio.Reader).Read", "encoding/binary.Read":
			res = true
			return
		}
		if callee := cc.StaticCallee(); callee != nil && len(callee.Blocks) > 0 && depth < 4 && callee.Pkg != nil && strings.HasPrefix(callee.Pkg.Pkg.Path(), core.Mod) {
			if readsBackend(callee, depth+1, memo) {
				res = true
			}
		}
	})
	memo[fn] = res
	return res
}

// countedLoop: the loop is bounded by an induction variable (phi of the header stepping by a constant) tested in its header.
func countedLoop(l *ssax.Loop) bool {
	induction := map[ssa.Value]bool{}
	for _, ins := range l.Header.Instrs {
		phi, ok := ins.(*ssa.Phi)
		if !ok {
			break
		}
		for _, e := range phi.Edges {
			if bo, ok := e.(*ssa.BinOp); ok && (bo.Op == token.ADD || bo.Op == token.SUB) {
				if _, isC := ssax.ConstInt(bo.Y); isC && bo.X == ssa.Value(phi) {
					induction[phi] = true
					induction[bo] = true
				}
			}
		}
	}
	// bounded: the loop header (evaluated on every iteration) ends in a test of an induction
	// variable with one successor outside the loop; other exits only make the loop shorter
	ifi, ok := l.Header.Instrs[len(l.Header.Instrs)-1].(*ssa.If)
	if !ok {
		return false
	}
	leaves := false
	for _, s := range l.Header.Succs {
		if !l.Blocks[s] {
			leaves = true
		}
	}
	bo, ok := ifi.Cond.(*ssa.BinOp)
	if !ok || !leaves {
		return false
	}
	return induction[ssax.Unwrap(bo.X)] || induction[ssax.Unwrap(bo.Y)]
}

func errResult(call *ssa.Call) ssa.Value {
	res := call.Call.Signature().Results()
	if res.Len() == 0 || types.TypeString(res.At(res.Len()-1).Type(), nil) != "error" {
		return nil
	}
	if res.Len() == 1 {
		return call
	}
	for _, r := range *call.Referrers() {
		if ex, ok := r.(*ssa.Extract); ok && ex.Index == res.Len()-1 {
			return ex
		}
	}
	return nil
}

func runC10(c *core.Ctx) {
	c.Rule("R10.1", "after L2 accepted a write, an L1 write whose residual failure edge (not one of the benign 'L1 holds no copy' statuses) can reach a success reply must pass through an L1 delete of the same key first", 3)
	c.Rule("R10.2", "in every reply-driven loop an error of the backend read that may still be an I/O error (not proven a protocol status by == sentinel or IsAppError) never flows back to the loop header", 3)
	c.Rule("R10.3", "the connection loop answers an application error with orca.Error and continues; every other error aborts the connection and returns; IsAppError accepts every status DecodeError can produce", 3)
	c.Rule("R10.4", "a panic below the loop is recovered by the loop's deferred closure, which aborts the connection; no other recover() on the request path swallows a panic", 3)
	c.Rule("R10.5", "after a backend reply with an error status the reply body (TotalBodyLength) is discarded from the same reader before the function returns, and the reader is not Reset while that body is pending", 8)

	runR101(c, "R10.1")
	runR102(c)
	runR103(c)
	// R10.4
	for _, rel := range []string{"server", "orcas", "handlers"} {
		for _, fn := range c.P.RepoFuncs(rel) {
			checkRecover(c, fn, "R10.4")
		}
	}
	runR105(c)
	c.Rule("R10.6", "a loop collecting the replies of pipelined requests runs to its bound: an error status on one reply must not leave the others unread (the backend stream would be out of sync for the next command)", 2)
	checkReplyCollection(c, "R10.6")
	c.Rule("R10.7", "code that runs on a goroutine of its own (not under the connection loop's recover) never dereferences a reply header that is nil when the header read failed: such a panic terminates the whole process", 2)
	checkNilHeaderOffLoop(c, "R10.7")
	c.Rule("R10.8", "what a handler or responder flushes reaches the socket: no buffered writer is made the sink of another buffered writer (bufio.NewWriter / (*bufio.Writer).Reset given a bufio.Writer) unless the inner one is flushed too - otherwise the next command's request sits in the inner buffer for ever and the client request that waits for its reply never terminates", 5)
	checkNestedWriters(c, "R10.8")
	c.Rule("R10.9", "every variable index into a fixed-size package-level table of the batching pool is kept below the table's size (shared with C13): a panic on a pool goroutine terminates the server process", 3)
	checkFixedTableIndices(c, "R10.9")
	c.Rule("R10.16", "a reply-driven loop over a pipelined batch is left only after the reply of the terminating no-op was read, or on a read error proven not to be an application status (broken connection): nothing of the batch stays unread for the next command", 3)
	checkReplyLoopExits(c, "R10.16")
	c.Rule("R10.21", "every error status the protocol layer has an error value for decodes to an error (never to nil = success)", 10)
	checkEveryErrorStatusDecodes(c, "R10.21")
	c.Rule("R10.15", "a backend that cannot be reached when a client connects does not bring the proxy down: the accept loop never closes the (non-nil, zero-valued) handler of a failed constructor call (shared with C15)", 2)
	runR157(c, "R10.15")
	c.Share(map[string]string{"R6.3": "R10.13", "R6.5": "R10.20"}, runC06)                     // a command whose expected reply is not counted is acknowledged (zero response) when its connection breaks: the old value stays
	c.Share(map[string]string{"R12.1": "R10.10"}, runC12)                    // a key lock leaked on an error path below blocks every later command on that stripe, on every connection
	c.Share(map[string]string{"R13.4": "R10.11", "R13.9": "R10.12", "R13.5": "R10.17", "R13.17": "R10.22"}, runC13)
	c.Share(map[string]string{"R14.13": "R10.19"}, runC14) // a failed header read must not put a nil header into the shared pool: the next user, on any connection, panics
	c.Share(map[string]string{"R15.5": "R10.18"}, runC15) // a handler channel left undrained after an error keeps the shared pooled connection's reader blocked: other connections are affected // a pooled connection wedged by a backend fault hangs every request routed to it
}

// checkNestedWriters (R10.8): every construction or re-targeting of a bufio.Writer on the request path (backend
// handlers, connection setup, responders) is one obligation. The sink must not be another *bufio.Writer that nobody
// flushes; the same for readers is harmless (double buffering) and not checked.
func checkNestedWriters(c *core.Ctx, rule string) {
	isBufWriter := func(t types.Type) bool {
		return types.TypeString(t, nil) == "*bufio.Writer"
	}
	for _, rel := range []string{"handlers/memcached", "handlers/inmem", "server", "protocol", "orcas"} {
		for _, fn := range c.P.RepoFuncs(rel) {
			counts := map[string]int{}
			ssax.Instrs(fn, func(ins ssa.Instruction) {
				cc := ssax.CallOf(ins)
				if cc == nil {
					return
				}
				var sink ssa.Value
				switch ssax.CalleeName(cc) {
				case "bufio.NewWriter", "bufio.NewWriterSize":
					sink = cc.Args[0]
				case "(*bufio.Writer).Reset":
					sink = cc.Args[1]
				default:
					return
				}
				key := ordinalKey(counts, core.FuncName(fn)+"#writer-sink")
				var inner ssa.Value
				for _, d := range ssax.Defs(sink) {
					d = ssax.Unwrap(d)
					if mi, ok := d.(*ssa.MakeInterface); ok {
						d = ssax.Unwrap(mi.X)
					}
					if isBufWriter(d.Type()) {
						inner = d
					}
				}
				if inner == nil {
					c.OK(rule, key, c.P.Pos(ins.Pos()), "the writer's sink is not a buffered writer ("+types.TypeString(sink.Type(), nil)+")")
					return
				}
				// is the inner writer flushed by anyone who can name it?
				flushed := false
				if refs := inner.Referrers(); refs != nil {
					for _, r := range *refs {
						if rc := ssax.CallOf(r); rc != nil && ssax.CalleeName(rc) == "(*bufio.Writer).Flush" {
							flushed = true
						}
					}
				}
				if flushed {
					c.Undecided(rule, key, c.P.Pos(ins.Pos()), "a bufio.Writer is given another bufio.Writer as its sink; the inner one is flushed somewhere, but that this happens after every flush of the outer writer is not decided")
					return
				}
				c.Violate(rule, key, c.P.Pos(ins.Pos()), "a bufio.Writer is given another bufio.Writer as its sink and nothing flushes the inner one: Flush on the outer writer only moves the bytes into the inner buffer, so every request written after this point never reaches the socket and the caller waits for a reply for ever")
			})
		}
	}
}

// runR101 is shared by C02 (R2.3) and C10 (R10.1).
func runR101(c *core.Ctx, rule string) {
	pv := &ssax.Prov{}
	for _, ctor := range []string{"L1L2", "L1L2Batch"} {
		role, err := resolveOrca(c, ctor)
		if err != nil {
			c.Undecided(rule, "orcas."+ctor, "-", err.Error())
			continue
		}
		for _, m := range orcaMethods(c) {
			fn := c.P.Method(role.Impl, m)
			if fn == nil || len(fn.Blocks) == 0 {
				continue
			}
			tcs := tierCalls(fn, role)
			isReply := func(ins ssa.Instruction) bool {
				for _, tc := range tcs {
					if tc.Ins == ins && tc.Tier == "res" && tc.Method != "Error" {
						return true
					}
				}
				return false
			}
			counts := map[string]int{}
			for _, w := range tcs {
				if w.Tier != "l1" || !isOneOf(w.Method, "Set", "Add", "Replace", "Append", "Prepend") {
					continue
				}
				call, ok := w.Ins.(*ssa.Call)
				if !ok {
					continue
				}
				e := errResult(call)
				key := ordinalKey(counts, core.FuncName(fn)+"#"+w.String())
				pos := c.P.Pos(w.Ins.Pos())
				if e == nil {
					c.Violate(rule, key, pos, "the error of the L1 write is dropped: a refused L1 write leaves the old value in L1 after the command was acknowledged")
					continue
				}
				wKey := ssax.Strings(pv.Sources(w.Call.Args[0], "Key"))
				// failure edges: Ifs testing e against nil
				var starts []*ssa.BasicBlock
				for _, r := range *e.Referrers() {
					bo, ok := r.(*ssa.BinOp)
					if !ok || !(ssax.IsNilConst(bo.X) || ssax.IsNilConst(bo.Y)) {
						continue
					}
					for _, rr := range *bo.Referrers() {
						if ifi, ok := rr.(*ssa.If); ok {
							if bo.Op == token.NEQ {
								starts = append(starts, ifi.Block().Succs[0])
							} else if bo.Op == token.EQL {
								starts = append(starts, ifi.Block().Succs[1])
							}
						}
					}
				}
				if len(starts) == 0 {
					c.Undecided(rule, key, pos, "the L1 write's error is never tested against nil: idiom not recognised")
					continue
				}
				benign := benignFor(ctor, m, w.Method)
				isComp := func(ins ssa.Instruction) bool {
					for _, tc := range tcs {
						if tc.Ins == ins && tc.Tier == "l1" && tc.Method == "Delete" {
							dk := ssax.Strings(pv.Sources(tc.Call.Args[0], "Key"))
							return strings.Join(dk, ",") == strings.Join(wKey, ",")
						}
					}
					// one level into same-package helpers
					if cc := ssax.CallOf(ins); cc != nil {
						if callee := cc.StaticCallee(); callee != nil && callee.Pkg == fn.Pkg && len(callee.Blocks) > 0 {
							for _, tc := range tierCalls(callee, role) {
								if tc.Tier == "l1" && tc.Method == "Delete" {
									return true
								}
							}
						}
					}
					return false
				}
				var found ssa.Instruction
				var trail []*ssa.BasicBlock
				for _, st := range starts {
					hit, tr := ssax.Reach{
						Target: func(ins ssa.Instruction) bool {
							if isReply(ins) {
								return true
							}
							if ret, ok := ins.(*ssa.Return); ok && len(ret.Results) > 0 {
								last := ret.Results[len(ret.Results)-1]
								if ssax.IsNilConst(last) {
									return true
								}
							}
							return false
						},
						Avoid: isComp,
						AvoidEdge: func(from, to *ssa.BasicBlock) bool {
							// benign status edges: e == <benign sentinel> true edge
							ifi, ok := from.Instrs[len(from.Instrs)-1].(*ssa.If)
							if !ok {
								return false
							}
							bo, ok := ifi.Cond.(*ssa.BinOp)
							if !ok || bo.Op != token.EQL || (bo.X != e && bo.Y != e) {
								return false
							}
							s := ssax.SentinelOf(bo.X)
							if s == "" {
								s = ssax.SentinelOf(bo.Y)
							}
							return benign[s] && to == from.Succs[0]
						},
					}.FromBlock(st)
					if hit != nil {
						found, trail = hit, tr
					}
				}
				if found != nil {
					c.Violate(rule, key, pos, fmt.Sprintf("a failed %s can reach the success reply at %s without deleting the key from L1: L1 keeps the value from before an acknowledged write", w.String(), c.P.Pos(found.Pos())), ssax.BlockTrail(c.P.Fset, trail)...)
				} else {
					c.OK(rule, key, pos, "on the residual failure edge the command returns the error or deletes the key from L1 before replying")
				}
			}
		}
	}
}

func runR102(c *core.Ctx) {
	app := appSentinels(c)
	if len(app) < 10 {
		c.Undecided("R10.2", "common.IsAppError", "-", "cannot extract the sentinels of IsAppError")
		return
	}
	memo := map[*ssa.Function]bool{}
	for _, rel := range memcachedHandlerPkgs {
		for _, fn := range pkgFuncs(c, rel) {
			loops := ssax.Loops(fn)
			if len(loops) == 0 {
				continue
			}
			type site struct {
				call *ssa.Call
				e    ssa.Value
				loop *ssax.Loop
			}
			var sites []site
			ssax.Instrs(fn, func(ins ssa.Instruction) {
				call, ok := ins.(*ssa.Call)
				if !ok {
					return
				}
				callee := call.Call.StaticCallee()
				reads := false
				if callee != nil && len(callee.Blocks) > 0 {
					reads = readsBackend(callee, 0, memo)
				} else {
					switch ssax.CalleeName(&call.Call) {
					case pBinprot + ".ReadResponseHeader", "io.ReadAtLeast", "(*bufio.Reader).Discard":
						reads = true
					}
				}
				if !reads {
					return
				}
				e := errResult(call)
				l := ssax.InnermostLoop(loops, call.Block())
				if e == nil || l == nil || countedLoop(l) {
					return
				}
				sites = append(sites, site{call, e, l})
			})
			if len(sites) == 0 {
				continue
			}
			counts := map[string]int{}
			for _, s := range sites {
				key := ordinalKey(counts, core.FuncName(fn)+"#loop-read:"+short(ssax.CalleeName(&s.call.Call)))
				var bad []string
				ex := &ssax.Explorer{Fn: fn, Start: s.loop.Header, Within: s.loop.Blocks}
				ex.Enter = func(b, pred *ssa.BasicBlock, st ssax.PState) {
					fs := st.(*factState).f
					if b == s.loop.Header && pred != nil && s.loop.Blocks[pred] {
						f := fs.Eval(s.e)
						if f.Nil == ssax.No && f.App != ssax.Yes && !app[f.Sent] {
							bad = append(bad, fmt.Sprintf("the loop is re-entered from block %d with the read error possibly an I/O error (known: not %v)", pred.Index, f.Not))
						}
					}
					fs.EnterBlock(b, pred)
					fs.Retain(ssax.IsErrorValue)
				}
				ex.Instr = func(ins ssa.Instruction, st ssax.PState) bool { st.(*factState).f.Step(ins); return true }
				ex.Branch = func(ifi *ssa.If, truth bool, st ssax.PState) bool {
					fs := st.(*factState).f
					ok := fs.Assume(ifi.Cond, truth)
					fs.Retain(ssax.IsErrorValue)
					return ok
				}
				ex.Run(&factState{ssax.Facts{}})
				pos := c.P.Pos(s.call.Pos())
				switch {
				case ex.Exceeded:
					c.Undecided("R10.2", key, pos, "state space exceeded")
				case len(bad) > 0:
					c.Violate("R10.2", key, pos, "reply-driven loop: "+uniq(bad)[0]+"; when the backend connection breaks the read fails at once, forever, and the request never terminates", uniq(bad)...)
				default:
					c.OK("R10.2", key, pos, "an error that may be an I/O error always leaves the loop")
				}
			}
		}
	}
}

func runR103(c *core.Ctx) {
	rows, loop, parse, err := loopTable(c)
	if err != nil {
		c.Undecided("R10.3", "server.Loop", "-", err.Error())
		return
	}
	_ = rows
	// the IsAppError test
	var isApp *ssa.Call
	ssax.Instrs(loop, func(ins ssa.Instruction) {
		if call, ok := ins.(*ssa.Call); ok && ssax.CalleeName(&call.Call) == pCommon+".IsAppError" {
			isApp = call
		}
	})
	if isApp == nil {
		c.Violate("R10.3", "server.(*DefaultServer).Loop#classification", c.P.Pos(loop.Pos()), "the loop does not classify command errors with common.IsAppError")
		return
	}
	var ifi *ssa.If
	for _, r := range *isApp.Referrers() {
		if x, ok := r.(*ssa.If); ok {
			ifi = x
		}
	}
	if ifi == nil {
		c.Undecided("R10.3", "server.(*DefaultServer).Loop#classification", c.P.Pos(isApp.Pos()), "IsAppError result is not branched on directly")
		return
	}
	isAbort := func(ins ssa.Instruction) bool {
		cc := ssax.CallOf(ins)
		return isAbortCallee(cc)
	}
	isOrcaError := func(ins ssa.Instruction) bool {
		cc := ssax.CallOf(ins)
		return cc != nil && cc.IsInvoke() && cc.Method.Name() == "Error" && types.TypeString(cc.Value.Type(), nil) == tOrca
	}
	isParse := func(ins ssa.Instruction) bool { return ins == ssa.Instruction(parse) }
	isRet := func(ins ssa.Instruction) bool { _, ok := ins.(*ssa.Return); return ok }
	appSucc, otherSucc := ifi.Block().Succs[0], ifi.Block().Succs[1]
	// app error: next Parse must be preceded by orca.Error, and no abort on the way
	hit1, _ := ssax.Reach{Target: isParse, Avoid: isOrcaError}.FromBlock(appSucc)
	hit2, _ := ssax.Reach{Target: isAbort, Avoid: isParse}.FromBlock(appSucc)
	c.Check(hit1 == nil && hit2 == nil, "R10.3", "server.(*DefaultServer).Loop#app-error", c.P.Pos(ifi.Pos()),
		"an application error is answered through orca.Error and the loop continues", "on an application error the loop can reach the next Parse without orca.Error, or aborts the connection")
	// other error: must abort and return; never parse again
	hit3, _ := ssax.Reach{Target: isParse}.FromBlock(otherSucc)
	hit4, _ := ssax.Reach{Target: isRet, Avoid: isAbort}.FromBlock(otherSucc)
	c.Check(hit3 == nil && hit4 == nil, "R10.3", "server.(*DefaultServer).Loop#fatal-error", c.P.Pos(ifi.Pos()),
		"any other error aborts the connection and ends the loop", "after a non-application error the loop keeps serving the connection or returns without closing it")
	// IsAppError ⊇ image of DecodeError
	app := appSentinels(c)
	dec := c.P.Func("protocol/binprot", "DecodeError")
	if dec == nil {
		c.Undecided("R10.3", "binprot.DecodeError", "-", "anchor not found")
		return
	}
	var missing []string
	n := 0
	for _, r := range ssax.Returns(dec) {
		for _, res := range r.Results {
			if s := ssax.SentinelOf(res); s != "" {
				n++
				if !app[s] {
					missing = append(missing, s)
				}
			}
		}
	}
	sort.Strings(missing)
	c.Check(len(missing) == 0 && n > 0, "R10.3", "common.IsAppError#covers-DecodeError", c.P.Pos(dec.Pos()),
		fmt.Sprintf("all %d statuses DecodeError produces are application errors", n), "backend statuses "+strings.Join(missing, ",")+" are not application errors: such a reply from the backend closes the client's connection instead of producing an error reply")
}

// ---- R10.5

func derivesFromField(v ssa.Value, base ssa.Value, field string) bool {
	v = ssax.Unwrap(v)
	if u, ok := v.(*ssa.UnOp); ok && u.Op == token.MUL {
		if fa, ok := u.X.(*ssa.FieldAddr); ok {
			n, _ := ssax.FieldName(fa)
			return n == field && (base == nil || fa.X == base)
		}
	}
	return false
}

func isDiscardOf(ins ssa.Instruction, h ssa.Value) bool {
	cc := ssax.CallOf(ins)
	if cc == nil || ssax.CalleeName(cc) != "(*bufio.Reader).Discard" || len(cc.Args) != 2 {
		return false
	}
	return derivesFromField(cc.Args[1], h, "TotalBodyLength")
}

func resetsReader(ins ssa.Instruction) bool {
	cc := ssax.CallOf(ins)
	if cc == nil {
		return false
	}
	if ssax.CalleeName(cc) == "(*bufio.Reader).Reset" {
		return true
	}
	if callee := cc.StaticCallee(); callee != nil && len(callee.Blocks) > 0 && callee.Pkg != nil && strings.HasPrefix(callee.Pkg.Pkg.Path(), core.Mod) {
		found := false
		ssax.Instrs(callee, func(x ssa.Instruction) {
			if xc := ssax.CallOf(x); xc != nil && ssax.CalleeName(xc) == "(*bufio.Reader).Reset" {
				found = true
			}
		})
		return found
	}
	return false
}

// headerWrappers: same-package functions returning (*binprot.ResponseHeader, error).
func isHeaderWrapper(f *ssa.Function) bool {
	if f == nil || len(f.Blocks) == 0 {
		return false
	}
	res := f.Signature.Results()
	return res.Len() == 2 && types.TypeString(res.At(0).Type(), nil) == "*"+pBinprot+".ResponseHeader" && types.TypeString(res.At(1).Type(), nil) == "error" &&
		f.Pkg != nil && f.Pkg.Pkg.Path() != pBinprot
}

func runR105(c *core.Ctx) {
	for _, rel := range memcachedHandlerPkgs {
		for _, fn := range pkgFuncs(c, rel) {
			counts := map[string]int{}
			ssax.Instrs(fn, func(ins ssa.Instruction) {
				call, ok := ins.(*ssa.Call)
				if !ok {
					return
				}
				var h, e ssa.Value
				direct := ssax.CalleeName(&call.Call) == pBinprot+".ReadResponseHeader"
				if !direct && !isHeaderWrapper(call.Call.StaticCallee()) {
					return
				}
				for _, r := range *call.Referrers() {
					if ex, ok := r.(*ssa.Extract); ok {
						if ex.Index == 0 {
							h = ex
						} else if !direct {
							e = ex
						}
					}
				}
				if h == nil {
					return
				}
				if isHeaderWrapper(fn) {
					return // the wrapper hands header and status to its caller, which is judged
				}
				if direct {
					// status error: result of DecodeError(h)
					for _, r := range *h.Referrers() {
						if dc, ok := r.(*ssa.Call); ok && ssax.CalleeName(&dc.Call) == pBinprot+".DecodeError" {
							e = dc
						}
					}
				}
				key := ordinalKey(counts, core.FuncName(fn)+"#header-read")
				pos := c.P.Pos(call.Pos())
				if e == nil {
					c.Info("R10.5", key, pos, "status of this header is not decoded here")
					return
				}
				// test blocks of e (also through a result cell: named results of functions with defers)
				var starts []*ssa.BasicBlock
				for _, b := range fn.Blocks {
					ifi, ok := b.Instrs[len(b.Instrs)-1].(*ssa.If)
					if !ok {
						continue
					}
					bo, ok := ifi.Cond.(*ssa.BinOp)
					if !ok || (bo.Op != token.NEQ && bo.Op != token.EQL) {
						continue
					}
					x := bo.X
					if ssax.IsNilConst(x) {
						x = bo.Y
					} else if !ssax.IsNilConst(bo.Y) {
						// a test against one particular status (err == common.ErrKeyExists): its equal side is an
						// error-status edge as well
						y := bo.Y
						if ssax.SentinelOf(x) != "" {
							x, y = y, x
						}
						if ssax.SentinelOf(y) != "" {
							if ds := ssax.Defs(x); len(ds) == 1 && ds[0] == e {
								if bo.Op == token.EQL {
									starts = append(starts, b.Succs[0])
								} else {
									starts = append(starts, b.Succs[1])
								}
							}
						}
						continue
					}
					if ds := ssax.Defs(x); len(ds) == 1 && ds[0] == e {
						if bo.Op == token.NEQ {
							starts = append(starts, b.Succs[0])
						} else {
							starts = append(starts, b.Succs[1])
						}
					}
				}
				// a Discard of this header's body that dominates every use of the status is enough
				domDiscard := false
				ssax.Instrs(fn, func(x ssa.Instruction) {
					if !isDiscardOf(x, h) {
						return
					}
					all := true
					for _, r := range *e.Referrers() {
						ri := r.(ssa.Instruction)
						if !(x.Block().Dominates(ri.Block()) && (x.Block() != ri.Block() || ssax.IndexIn(x) < ssax.IndexIn(ri))) {
							all = false
						}
					}
					if ec, ok := e.(*ssa.Call); ok && !(x.Block().Dominates(ec.Block())) {
						// discard after decode but before any branch on it is fine too
						_ = ec
					}
					if all {
						domDiscard = true
					}
				})
				if domDiscard {
					c.OK("R10.5", key, pos, "the reply body is discarded before the status is looked at")
					return
				}
				if len(starts) == 0 {
					c.Violate("R10.5", key, pos, "the reply's status is decoded but its error-status edge is never separated: the error body is not drained before the function returns")
					return
				}
				var notDrained, resetFirst ssa.Instruction
				var trail []*ssa.BasicBlock
				// edges that are entered with the body already discarded need nothing more
				drainedAt := func(b *ssa.BasicBlock) bool {
					done := false
					ssax.Instrs(fn, func(x ssa.Instruction) {
						if isDiscardOf(x, h) && x.Block() != b && x.Block().Dominates(b) {
							done = true
						}
					})
					return done
				}
				for _, st := range starts {
					if drainedAt(st) {
						continue
					}
					if hit, tr := (ssax.Reach{
						Target: func(x ssa.Instruction) bool { _, ok := x.(*ssa.Return); return ok },
						Avoid:  func(x ssa.Instruction) bool { return isDiscardOf(x, h) },
					}).FromBlock(st); hit != nil {
						notDrained, trail = hit, tr
					}
					if hit, tr := (ssax.Reach{
						Target: resetsReader,
						Avoid:  func(x ssa.Instruction) bool { return isDiscardOf(x, h) },
					}).FromBlock(st); hit != nil {
						resetFirst, trail = hit, tr
					}
				}
				switch {
				case resetFirst != nil:
					c.Violate("R10.5", key, pos, fmt.Sprintf("on the error-status edge the reader is reset at %s before the reply body is discarded: buffered bytes of the body are thrown away and the following Discard waits for bytes that never come", c.P.Pos(resetFirst.Pos())), ssax.BlockTrail(c.P.Fset, trail)...)
				case notDrained != nil:
					c.Violate("R10.5", key, pos, fmt.Sprintf("on the error-status edge the function can return at %s without discarding the reply body: the next reply is read from the middle of this one", c.P.Pos(notDrained.Pos())), ssax.BlockTrail(c.P.Fset, trail)...)
				default:
					c.OK("R10.5", key, pos, "error body discarded from the same reader before returning; no reset while it is pending")
				}
			})
		}
	}
}

// ---------------------------------------------------------------- R10.7

// returnsNilHeaderOnError: f returns (*binprot.ResponseHeader, error) and has a return with a nil header.
func returnsNilHeaderOnError(f *ssa.Function) bool {
	if f == nil {
		return false
	}
	res := f.Signature.Results()
	if res.Len() != 2 || types.TypeString(res.At(0).Type(), nil) != "*"+pBinprot+".ResponseHeader" {
		return false
	}
	if len(f.Blocks) == 0 {
		return false
	}
	for _, r := range ssax.Returns(f) {
		for _, d := range ssax.Defs(r.Results[0]) {
			if ssax.IsNilConst(d) {
				return true
			}
		}
	}
	return false
}

// goReachable: functions of the handler packages statically reachable from the callee of a go statement.
func goReachable(c *core.Ctx) map[*ssa.Function]bool {
	out := map[*ssa.Function]bool{}
	var visit func(f *ssa.Function, depth int)
	visit = func(f *ssa.Function, depth int) {
		if f == nil || out[f] || len(f.Blocks) == 0 || depth > 6 {
			return
		}
		out[f] = true
		for _, g := range append([]*ssa.Function{f}, f.AnonFuncs...) {
			out[g] = true
			ssax.Instrs(g, func(ins ssa.Instruction) {
				if cc := ssax.CallOf(ins); cc != nil {
					if callee := cc.StaticCallee(); callee != nil && callee.Pkg != nil && strings.HasPrefix(callee.Pkg.Pkg.Path(), core.Mod) {
						visit(callee, depth+1)
					}
				}
			})
		}
	}
	for _, fn := range c.P.RepoFuncs("handlers") {
		ssax.Instrs(fn, func(ins ssa.Instruction) {
			g, ok := ins.(*ssa.Go)
			if !ok {
				return
			}
			if callee := g.Call.StaticCallee(); callee != nil {
				visit(callee, 0)
			} else if mc, ok := g.Call.Value.(*ssa.MakeClosure); ok {
				visit(mc.Fn.(*ssa.Function), 0)
			}
		})
	}
	return out
}

func checkNilHeaderOffLoop(c *core.Ctx, rule string) {
	off := goReachable(c)
	for _, rel := range memcachedHandlerPkgs {
		for _, fn := range pkgFuncs(c, rel) {
			counts := map[string]int{}
			ssax.Instrs(fn, func(ins ssa.Instruction) {
				call, ok := ins.(*ssa.Call)
				if !ok || !returnsNilHeaderOnError(call.Call.StaticCallee()) {
					return
				}
				var h, e ssa.Value
				for _, r := range *call.Referrers() {
					if ex, ok := r.(*ssa.Extract); ok {
						if ex.Index == 0 {
							h = ex
						} else {
							e = ex
						}
					}
				}
				if h == nil || h.Referrers() == nil {
					return
				}
				key := ordinalKey(counts, core.FuncName(fn)+"#header-deref")
				// dereferences of h not guarded by e == nil
				var unsafe []string
				for _, r := range *h.Referrers() {
					fa, ok := r.(*ssa.FieldAddr)
					if !ok {
						continue
					}
					guarded := false
					for _, ec := range ssax.DomConds(fa.Block()) {
						bo, ok := ec.Cond.(*ssa.BinOp)
						if !ok {
							continue
						}
						x := bo.X
						if ssax.IsNilConst(x) {
							x = bo.Y
						} else if !ssax.IsNilConst(bo.Y) {
							continue
						}
						isE := false
						for _, d := range ssax.Defs(x) {
							if d == e {
								isE = true
							}
						}
						isH := ssax.Unwrap(x) == h
						if isE && ((bo.Op == token.NEQ && !ec.True) || (bo.Op == token.EQL && ec.True)) {
							guarded = true
						}
						if isH && ((bo.Op == token.NEQ && ec.True) || (bo.Op == token.EQL && !ec.True)) {
							guarded = true
						}
					}
					if !guarded {
						unsafe = append(unsafe, c.P.Pos(fa.Pos()))
					}
				}
				unsafe = uniq(unsafe)
				pos := c.P.Pos(call.Pos())
				switch {
				case len(unsafe) == 0:
					if off[fn] {
						c.OK(rule, key, pos, "runs on its own goroutine; the header is only dereferenced after the read succeeded")
					}
				case off[fn]:
					c.Violate(rule, key, pos, fmt.Sprintf("when the header read fails the header is nil, and it is dereferenced at %s in code that runs on a goroutine of its own: the panic is not recovered by the connection loop and terminates the server process", strings.Join(unsafe, ", ")))
				default:
					c.Info(rule, key, pos, "nil header dereferenced at "+strings.Join(unsafe, ", ")+" when the read fails; this runs under the connection loop's recover (the connection is closed)")
				}
			})
		}
	}
}
