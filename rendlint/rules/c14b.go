package rules

import (
	"fmt"
	"go/token"
	"go/types"
	"sort"
	"strings"

	"golang.org/x/tools/go/ssa"

	"rendlint/core"
	"rendlint/ssax"
)

// serverPkgs are the packages whose globals are shared by all connections of the server.
func isServerPkg(path string) bool {
	if !strings.HasPrefix(path, core.Mod+"/") {
		return false
	}
	rel := strings.TrimPrefix(path, core.Mod+"/")
	for _, p := range []string{"common", "handlers", "metrics", "orcas", "protocol", "server", "timer"} {
		if rel == p || strings.HasPrefix(rel, p+"/") {
			return true
		}
	}
	return false
}

func isSyncPrimitive(t types.Type) bool {
	s := types.TypeString(t, nil)
	switch s {
	case "*sync.Pool", "*sync.RWMutex", "*sync.Mutex", "sync.Mutex", "sync.RWMutex", "sync.Pool", "sync/atomic.Value", "*sync/atomic.Value", "sync.Once", "*sync.Once", "sync.WaitGroup":
		return true
	}
	if _, ok := t.Underlying().(*types.Chan); ok {
		return true
	}
	return false
}

type gAccess struct {
	ins    ssa.Instruction
	fn     *ssa.Function
	kind   string // load | store | atomic | mapupdate | lookup | addr-escape
	key    string
	atomic bool
	uniq   bool // store through an index claimed by an atomic increment
}

// derivesFromAtomicAdd: v's provenance contains the result of sync/atomic.Add*.
func derivesFromAtomicAdd(v ssa.Value, depth int) bool {
	if depth > 8 || v == nil {
		return false
	}
	switch x := v.(type) {
	case *ssa.Call:
		return strings.HasPrefix(ssax.CalleeName(&x.Call), "sync/atomic.Add")
	case *ssa.BinOp:
		return derivesFromAtomicAdd(x.X, depth+1) || derivesFromAtomicAdd(x.Y, depth+1)
	case *ssa.Convert:
		return derivesFromAtomicAdd(x.X, depth+1)
	case *ssa.ChangeType:
		return derivesFromAtomicAdd(x.X, depth+1)
	case *ssa.Phi:
		for _, e := range x.Edges {
			if !derivesFromAtomicAdd(e, depth+1) {
				return false
			}
		}
		return len(x.Edges) > 0
	case *ssa.Parameter:
		// result named 'slot' style: a parameter cannot be judged
		return false
	case *ssa.UnOp:
		if x.Op == token.MUL {
			// named result spilled to a cell: all stores derive from an atomic add
			if al, ok := x.X.(*ssa.Alloc); ok {
				sts := ssax.StoresTo(al)
				if len(sts) == 0 {
					return false
				}
				for _, st := range sts {
					if !derivesFromAtomicAdd(st.Val, depth+1) {
						return false
					}
				}
				return true
			}
		}
	}
	return false
}

// rootedAt reports the global an address is rooted at and whether some index on
// the global's own (first-level) slice is claimed by an atomic increment.
func rootedAt(a ssa.Value) (g *ssa.Global, uniq bool) {
	cur := a
	for i := 0; i < 16 && cur != nil; i++ {
		switch x := cur.(type) {
		case *ssa.Global:
			return x, uniq
		case *ssa.FieldAddr:
			cur = x.X
		case *ssa.IndexAddr:
			if derivesFromAtomicAdd(x.Index, 0) {
				uniq = true
			}
			cur = x.X
		case *ssa.UnOp:
			if x.Op != token.MUL {
				return nil, false
			}
			cur = x.X
		case *ssa.Slice:
			cur = x.X
		case *ssa.ChangeType:
			cur = x.X
		case *ssa.Lookup:
			cur = x.X
		default:
			return nil, false
		}
	}
	return nil, false
}

// paramWritesGuarded: every store the callee makes through pointer parameter idx is under an
// exclusive lock, and the pointer is not passed on (atomic operations excepted).
func paramWritesGuarded(fn *ssa.Function, idx int) bool {
	if len(fn.Blocks) == 0 || idx >= len(fn.Params) {
		return false
	}
	p := fn.Params[idx]
	held := ssax.HeldLocks(fn)
	ok := true
	through := func(v ssa.Value) bool {
		for _, bv := range baseChain(v) {
			if bv == ssa.Value(p) {
				return true
			}
		}
		return false
	}
	ssax.Instrs(fn, func(ins ssa.Instruction) {
		switch x := ins.(type) {
		case *ssa.Store:
			if through(x.Addr) {
				excl := false
				for _, m := range held[ins] {
					if m == ssax.Exclusive {
						excl = true
					}
				}
				if !excl {
					ok = false
				}
			}
			if _, isPtr := x.Val.Type().Underlying().(*types.Pointer); isPtr {
				if _, isLoad := x.Val.(*ssa.UnOp); !isLoad && through(x.Val) {
					ok = false // the object's address is stored somewhere
				}
			}
		}
		if cc := ssax.CallOf(ins); cc != nil {
			for i, a := range cc.Args {
				if _, isPtr := a.Type().Underlying().(*types.Pointer); isPtr && through(a) {
					if isAtomicCall(cc) && i == 0 {
						continue
					}
					if op, _ := lockOp(cc); op != "" {
						continue
					}
					if _, isLoad := a.(*ssa.UnOp); isLoad {
						continue // a pointer loaded from the object, not the object's address
					}
					ok = false
				}
			}
		}
	})
	return ok
}

func lockOp(cc *ssa.CallCommon) (string, ssa.Value) {
	switch ssax.CalleeName(cc) {
	case "(*sync.RWMutex).Lock", "(*sync.Mutex).Lock", "(*sync.RWMutex).Unlock", "(*sync.Mutex).Unlock", "(*sync.RWMutex).RLock", "(*sync.RWMutex).RUnlock":
		return ssax.CalleeName(cc), cc.Args[0]
	}
	return "", nil
}

// configSetter: the run-time writes of g all sit in exported functions that nothing in the
// server packages calls; the apps call them only from init functions, before any goroutine is started.
func configSetter(c *core.Ctx, writes []gAccess) (bool, string) {
	setters := map[string]bool{}
	for _, w := range writes {
		if w.kind != "store" || w.fn.Object() == nil || !w.fn.Object().Exported() || w.fn.Signature.Recv() != nil {
			return false, ""
		}
		setters[w.fn.Object().(*types.Func).FullName()] = true
	}
	// no caller in the main universe
	for _, fn := range c.P.RepoFuncs("") {
		if isAppFn(fn) {
			continue
		}
		found := false
		ssax.Instrs(fn, func(ins ssa.Instruction) {
			if cc := ssax.CallOf(ins); cc != nil && setters[ssax.CalleeName(cc)] {
				found = true
			}
		})
		if found {
			return false, ""
		}
	}
	sites := 0
	c.P.PreloadApps("memproxy.go", "memcached_cluster_proxy.go", "memandra.go")
	for _, file := range c.P.AppFiles() {
		app, err := c.P.LoadApp(file)
		if err != nil {
			return false, "cannot load app/" + file + ": " + err.Error()
		}
		for _, m := range app.SSA.Members {
			fn, ok := m.(*ssa.Function)
			if !ok {
				continue
			}
			for _, f := range append([]*ssa.Function{fn}, fn.AnonFuncs...) {
				var why string
				ssax.Instrs(f, func(ins ssa.Instruction) {
					cc := ssax.CallOf(ins)
					if cc == nil || !setters[ssax.CalleeName(cc)] {
						return
					}
					sites++
					if !(f.Parent() == nil && (f.Name() == "init" || strings.HasPrefix(f.Name(), "init#"))) {
						why = fmt.Sprintf("app/%s calls %s outside an init function (%s)", file, short(ssax.CalleeName(cc)), f.Name())
						return
					}
					// no goroutine may have been started before the call
					ssax.Instrs(f, func(g ssa.Instruction) {
						gi, isGo := g.(*ssa.Go)
						if !isGo {
							return
						}
						// a goroutine running a closure of the app itself that calls nothing in the setter's package cannot read the variable
						if mc, ok := gi.Call.Value.(*ssa.MakeClosure); ok {
							touches := false
							ssax.Instrs(mc.Fn.(*ssa.Function), func(x ssa.Instruction) {
								if xc := ssax.CallOf(x); xc != nil {
									for st := range setters {
										if i := strings.LastIndex(st, "."); i > 0 && strings.HasPrefix(ssax.CalleeName(xc), st[:i]+".") {
											touches = true
										}
									}
									if xc.StaticCallee() == nil {
										if _, isB := xc.Value.(*ssa.Builtin); !isB {
											touches = true
										}
									}
								}
							})
							if !touches {
								return
							}
						}
						if hit, _ := (ssax.Reach{Target: func(x ssa.Instruction) bool { return x == ins }}).From(g); hit != nil {
							why = fmt.Sprintf("app/%s: %s is called at %s after a goroutine was started at %s: the write races with readers in that goroutine", file, short(ssax.CalleeName(cc)), c.P.Pos(ins.Pos()), c.P.Pos(g.Pos()))
						}
					})
				})
				if why != "" {
					return false, why
				}
			}
		}
	}
	return true, fmt.Sprintf("configuration setter: written only by an exported function that the apps call from init() before starting any goroutine (%d call sites)", sites)
}

func runR141(c *core.Ctx, initOnly map[*ssa.Function]bool) {
	fns := c.P.RepoFuncs("")
	acc := map[*ssa.Global][]gAccess{}
	held := map[*ssa.Function]map[ssa.Instruction]map[string]ssax.LockMode{}
	for _, fn := range fns {
		ssax.Instrs(fn, func(ins ssa.Instruction) {
			switch x := ins.(type) {
			case *ssa.Store:
				if g, uniq := rootedAt(x.Addr); g != nil {
					acc[g] = append(acc[g], gAccess{ins: ins, fn: fn, kind: "store", uniq: uniq})
				}
			case *ssa.MapUpdate:
				if g, _ := rootedAt(x.Map); g != nil {
					acc[g] = append(acc[g], gAccess{ins: ins, fn: fn, kind: "mapupdate"})
				}
			case *ssa.UnOp:
				if x.Op == token.MUL {
					if g, _ := rootedAt(x.X); g != nil {
						acc[g] = append(acc[g], gAccess{ins: ins, fn: fn, kind: "load"})
					}
				}
			case *ssa.Lookup:
				if g, _ := rootedAt(x.X); g != nil {
					acc[g] = append(acc[g], gAccess{ins: ins, fn: fn, kind: "lookup"})
				}
			}
			if cc := ssax.CallOf(ins); cc != nil {
				for i, a := range cc.Args {
					if _, isPtr := a.Type().Underlying().(*types.Pointer); !isPtr {
						continue
					}
					g, _ := rootedAt(a)
					if g == nil {
						continue
					}
					// passing an address rooted at the global: atomic op, delete() or escape
					if isAtomicCall(cc) && i == 0 {
						acc[g] = append(acc[g], gAccess{ins: ins, fn: fn, kind: "atomic", atomic: true})
					} else if _, isAddr := a.(*ssa.UnOp); !isAddr {
						// &G... handed to a callee: fine when the callee writes through it only atomically or under an exclusive lock
						if callee := cc.StaticCallee(); callee != nil && paramWritesGuarded(callee, i) {
							acc[g] = append(acc[g], gAccess{ins: ins, fn: fn, kind: "load"})
						} else {
							acc[g] = append(acc[g], gAccess{ins: ins, fn: fn, kind: "addr-escape"})
						}
					}
				}
				if b, ok := cc.Value.(*ssa.Builtin); ok && b.Name() == "delete" {
					if g, _ := rootedAt(cc.Args[0]); g != nil {
						acc[g] = append(acc[g], gAccess{ins: ins, fn: fn, kind: "mapupdate"})
					}
				}
			}
		})
	}
	var globals []*ssa.Global
	for path, pkg := range c.P.SSAPkgs {
		if pkg == nil || !isServerPkg(path) {
			continue
		}
		for _, m := range pkg.Members {
			if g, ok := m.(*ssa.Global); ok && !strings.HasPrefix(g.Name(), "init$") {
				globals = append(globals, g)
			}
		}
	}
	sort.Slice(globals, func(i, j int) bool { return globals[i].String() < globals[j].String() })
	classCount := map[string]int{}
	for _, g := range globals {
		key := "global:" + short(g.Pkg.Pkg.Path()) + "." + g.Name()
		pos := c.P.Pos(g.Pos())
		elem := g.Type().(*types.Pointer).Elem()
		var runtime []gAccess
		for _, a := range acc[g] {
			if !initOnly[a.fn] {
				runtime = append(runtime, a)
			}
		}
		// (a) no run-time writes at all
		var writes, others []gAccess
		for _, a := range runtime {
			switch a.kind {
			case "store", "mapupdate", "addr-escape":
				writes = append(writes, a)
			default:
				others = append(others, a)
			}
		}
		if len(writes) == 0 {
			cls := "immutable after initialisation"
			if isSyncPrimitive(elem) {
				cls = "synchronisation primitive, never reassigned"
			}
			nAtomic := 0
			for _, a := range others {
				if a.atomic {
					nAtomic++
				}
			}
			if nAtomic > 0 {
				cls = "updated only through sync/atomic (plain accesses are judged by R14.2)"
			}
			classCount[cls]++
			c.OK("R14.1", key, pos, cls)
			continue
		}
		// (b) every run-time write goes through a slot claimed by an atomic increment
		allUniq := true
		for _, a := range writes {
			if !(a.kind == "store" && a.uniq) {
				allUniq = false
			}
		}
		if allUniq {
			classCount["unique-slot registration"]++
			c.OK("R14.1", key, pos, "run-time writes only into slots whose index was claimed by an atomic increment (write-once registration)")
			continue
		}
		// (c) all run-time accesses under one mutex, writes exclusive
		common := map[string]bool{}
		first := true
		okLock := true
		for _, a := range runtime {
			h, ok := held[a.fn]
			if !ok {
				h = ssax.HeldLocks(a.fn)
				held[a.fn] = h
			}
			hs := h[a.ins]
			// the load of the variable itself on the way to a guarded map op is judged with the op
			if first {
				for lk := range hs {
					common[lk] = true
				}
				first = false
			} else {
				for lk := range common {
					if _, ok := hs[lk]; !ok {
						delete(common, lk)
					}
				}
			}
		}
		if len(common) == 0 {
			okLock = false
		}
		if okLock {
			for _, a := range writes {
				hs := held[a.fn][a.ins]
				excl := false
				for lk := range common {
					if hs[lk] == ssax.Exclusive {
						excl = true
					}
				}
				if !excl {
					okLock = false
				}
			}
		}
		if okLock {
			var lks []string
			for lk := range common {
				lks = append(lks, short(lk))
			}
			sort.Strings(lks)
			classCount["mutex guarded"]++
			c.OK("R14.1", key, pos, "every run-time access holds "+strings.Join(lks, ",")+"; writes hold it exclusively")
			continue
		}
		if ok, why := configSetter(c, writes); ok {
			classCount["configuration setter"]++
			c.OK("R14.1", key, pos, why)
			continue
		} else if why != "" {
			c.Violate("R14.1", key, pos, why)
			continue
		}
		var ws []string
		for _, a := range writes {
			ws = append(ws, fmt.Sprintf("%s in %s at %s", a.kind, core.FuncName(a.fn), c.P.Pos(a.ins.Pos())))
		}
		sort.Strings(ws)
		c.Violate("R14.1", key, pos, "package-level variable is written at run time without a recognised synchronisation discipline: "+ws[0], ws...)
	}
	var cls []string
	for k, n := range classCount {
		cls = append(cls, fmt.Sprintf("%s: %d", k, n))
	}
	sort.Strings(cls)
	c.Notes = append(c.Notes, "R14.1 classes: "+strings.Join(cls, "; "))
}

func runR144(c *core.Ctx) {
	las := c.P.Func("server", "ListenAndServe")
	if las == nil {
		c.Undecided("R14.4", "server.ListenAndServe", "-", "anchor not found")
	} else {
		loops := ssax.Loops(las)
		var acceptLoop *ssax.Loop
		ssax.Instrs(las, func(ins ssa.Instruction) {
			cc := ssax.CallOf(ins)
			if cc != nil && cc.IsInvoke() && cc.Method.Name() == "Accept" {
				acceptLoop = ssax.InnermostLoop(loops, ins.Block())
			}
		})
		if acceptLoop == nil {
			c.Undecided("R14.4", "server.ListenAndServe#accept-loop", c.P.Pos(las.Pos()), "no accept loop found")
		} else {
			for _, pi := range []int{4, 5} {
				if pi >= len(las.Params) {
					c.Undecided("R14.4", fmt.Sprintf("server.ListenAndServe#handler-const-%d", pi-3), c.P.Pos(las.Pos()), "signature changed")
					continue
				}
				p := las.Params[pi]
				key := fmt.Sprintf("server.ListenAndServe#handler-const-%d", pi-3)
				n, inside := 0, 0
				ssax.Instrs(las, func(ins ssa.Instruction) {
					cc := ssax.CallOf(ins)
					if cc != nil && cc.Value == ssa.Value(p) {
						n++
						if acceptLoop.Blocks[ins.Block()] {
							inside++
						}
					}
				})
				// the constructor value must not be called anywhere else (e.g. hoisted before the loop)
				c.Check(n > 0 && n == inside, "R14.4", key, c.P.Pos(las.Pos()),
					"handler constructor is invoked once per accepted connection inside the accept loop",
					fmt.Sprintf("handler constructor %s is invoked %d times, %d of them inside the accept loop: connections would share a backend handler", p.Name(), n, inside))
			}
		}
	}
	if las != nil {
		loops := ssax.Loops(las)
		ssax.Instrs(las, func(ins ssa.Instruction) {
			g, ok := ins.(*ssa.Go)
			if !ok {
				return
			}
			l := ssax.InnermostLoop(loops, g.Block())
			mc, isMC := g.Call.Value.(*ssa.MakeClosure)
			if l == nil || !isMC {
				return
			}
			var bad []string
			cl := mc.Fn.(*ssa.Function)
			for i, b := range mc.Bindings {
				al, isCell := b.(*ssa.Alloc)
				if !isCell {
					continue
				}
				name := cl.FreeVars[i].Name()
				// a variable written inside the accept loop must also live inside it, otherwise every connection's
				// goroutine looks at the same cell and sees the handlers of whichever connection was accepted last
				written := false
				for _, st := range ssax.StoresTo(al) {
					if st.Parent() == las && l.Blocks[st.Block()] {
						written = true
					}
				}
				if written && !l.Blocks[al.Block()] {
					bad = append(bad, name)
				}
			}
			c.Check(len(bad) == 0, "R14.4", "server.ListenAndServe#per-connection-variables", c.P.Pos(g.Pos()), "what the per-connection goroutine captures is created per accepted connection",
				"the per-connection goroutine captures "+strings.Join(bad, ", ")+", declared outside the accept loop but assigned per connection: goroutines of different connections share the cell and can end up using another connection's backend handler")
		})
	}
	for _, name := range []string{"Regular", "Chunked"} {
		fn := c.P.Func("handlers/memcached", name)
		key := "memcached." + name + "#dial-per-connection"
		if fn == nil {
			c.Undecided("R14.4", key, "-", "anchor not found")
			continue
		}
		dialOuter := false
		ssax.Instrs(fn, func(ins ssa.Instruction) {
			if cc := ssax.CallOf(ins); cc != nil && ssax.CalleeName(cc) == "net.Dial" {
				dialOuter = true
			}
		})
		good := false
		why := "the returned closure never hands a freshly dialled connection to NewHandler"
		pv := &ssax.Prov{}
		for _, cl := range fn.AnonFuncs {
			ssax.Instrs(cl, func(ins ssa.Instruction) {
				cc := ssax.CallOf(ins)
				if cc == nil || !strings.HasSuffix(ssax.CalleeName(cc), ".NewHandler") {
					return
				}
				srcs := pv.Sources(cc.Args[0])
				if ssax.All(srcs, func(s ssax.Src) bool {
					return s.Kind == "call" && ssax.CalleeName(s.Call) == "net.Dial" && s.Res == 0 && s.Fn == cl
				}) {
					good = true
				} else {
					why = "NewHandler's connection comes from " + strings.Join(ssax.Strings(srcs), ", ")
				}
			})
		}
		if dialOuter {
			good = false
			why = "net.Dial is called in the factory, outside the per-connection closure"
		}
		c.Check(good, "R14.4", key, c.P.Pos(fn.Pos()), "the per-connection closure dials and wraps its own socket", why)
	}
}

func runR145(c *core.Ctx) {
	const rel = "handlers/memcached/batched"
	pkg := c.P.Pkg(rel)
	if pkg == nil {
		c.Undecided("R14.5", "batched", "-", "package not found")
		return
	}
	relays, _ := pkg.Members["relays"].(*ssa.Global)
	if relays == nil {
		c.Undecided("R14.5", "batched.relays", "-", "anchor not found")
	} else {
		lockKey := "G:" + core.Mod + "/" + rel + ".relayLock*"
		var bad []string
		n := 0
		for _, fn := range pkgFuncs(c, rel) {
			held := ssax.HeldLocks(fn)
			ssax.Instrs(fn, func(ins ssa.Instruction) {
				var m ssa.Value
				write := false
				switch x := ins.(type) {
				case *ssa.Lookup:
					m = x.X
				case *ssa.MapUpdate:
					m, write = x.Map, true
				case *ssa.Range:
					m = x.X
				}
				if cc := ssax.CallOf(ins); cc != nil {
					if b, ok := cc.Value.(*ssa.Builtin); ok && (b.Name() == "delete" || b.Name() == "len") && len(cc.Args) > 0 {
						m, write = cc.Args[0], b.Name() == "delete"
					}
				}
				if m == nil || ssax.GlobalLoad(m) != relays {
					return
				}
				n++
				mode := held[ins][lockKey]
				if mode == ssax.NotHeld || (write && mode != ssax.Exclusive) {
					bad = append(bad, fmt.Sprintf("%s at %s holds relayLock in mode %d", map[bool]string{true: "write", false: "read"}[write], c.P.Pos(ins.Pos()), mode))
				}
			})
		}
		if n == 0 {
			c.Undecided("R14.5", "batched.relays#under-relayLock", c.P.Pos(relays.Pos()), "no access found")
		} else {
			c.Check(len(bad) == 0, "R14.5", "batched.relays#under-relayLock", c.P.Pos(relays.Pos()), fmt.Sprintf("%d map accesses, all under relayLock (writes exclusive)", n), strings.Join(bad, "; "), bad...)
		}
	}
	// relay.conns
	var badStore, badPlain []string
	nStore, nLoad := 0, 0
	connsKey := "T:" + core.Mod + "/" + rel + ".relay.conns"
	for _, fn := range pkgFuncs(c, rel) {
		held := ssax.HeldLocks(fn)
		ssax.Instrs(fn, func(ins ssa.Instruction) {
			cc := ssax.CallOf(ins)
			if cc != nil && (ssax.CalleeName(cc) == "(*sync/atomic.Value).Store" || ssax.CalleeName(cc) == "(*sync/atomic.Value).Load") {
				_, t := ssax.AddrKeys(cc.Args[0])
				if t != connsKey {
					return
				}
				if strings.HasSuffix(ssax.CalleeName(cc), "Store") {
					nStore++
					ok := false
					for lk, mode := range held[ins] {
						if mode == ssax.Exclusive && (strings.HasSuffix(lk, "relay.addConnLock*") || strings.HasSuffix(lk, ".relayLock*")) {
							ok = true
						}
					}
					if !ok {
						badStore = append(badStore, c.P.Pos(ins.Pos()))
					}
				} else {
					nLoad++
				}
				return
			}
			// plain load/store of the field
			var addr ssa.Value
			switch x := ins.(type) {
			case *ssa.UnOp:
				if x.Op == token.MUL {
					addr = x.X
				}
			case *ssa.Store:
				addr = x.Addr
				// composite literal initialisation of a fresh relay is not shared yet
				if fa, ok := addr.(*ssa.FieldAddr); ok {
					if _, isAlloc := fa.X.(*ssa.Alloc); isAlloc {
						return
					}
				}
			}
			if addr != nil {
				if _, t := ssax.AddrKeys(addr); t == connsKey {
					badPlain = append(badPlain, c.P.Pos(ins.Pos()))
				}
			}
		})
	}
	if nStore == 0 || nLoad == 0 {
		c.Undecided("R14.5", "batched.relay.conns#store-under-lock", "-", "no Store/Load of relay.conns found")
	} else {
		c.Check(len(badStore) == 0, "R14.5", "batched.relay.conns#store-under-lock", "-", fmt.Sprintf("%d stores, all under addConnLock/relayLock", nStore), "connection list stored without the lock at "+strings.Join(badStore, ", "))
		c.Check(len(badPlain) == 0, "R14.5", "batched.relay.conns#atomic-only", "-", fmt.Sprintf("%d atomic loads, no plain access", nLoad), "relay.conns accessed plainly at "+strings.Join(badPlain, ", "))
	}
}

func safeCaptured(t types.Type, depth int) (bool, string) {
	if depth > 4 {
		return false, "type too deep"
	}
	if isSyncPrimitive(t) {
		return true, "synchronisation-safe type"
	}
	switch u := t.Underlying().(type) {
	case *types.Basic:
		return true, "immutable value"
	case *types.Signature:
		return true, "function value"
	case *types.Struct:
		for i := 0; i < u.NumFields(); i++ {
			if ok, why := safeCaptured(u.Field(i).Type(), depth+1); !ok {
				return false, u.Field(i).Name() + ": " + why
			}
		}
		return true, "struct of immutable values"
	case *types.Slice:
		if ok, _ := safeCaptured(u.Elem(), depth+1); ok {
			return true, "slice (checked read-only in the closure)"
		}
		return false, "slice of mutable elements"
	case *types.Pointer:
		return false, "pointer to " + types.TypeString(u.Elem(), nil)
	case *types.Map:
		return false, "map"
	case *types.Interface:
		return false, "interface value"
	}
	return false, types.TypeString(t, nil)
}

func runR146(c *core.Ctx) {
	type fac struct{ rel, name string }
	for _, f := range []fac{{"orcas", "Locked"}, {"orcas", "LockedWithExisting"}, {"handlers/memcached", "Regular"}, {"handlers/memcached", "Chunked"}, {"handlers/memcached", "Batched"}, {"handlers/memcached", "Cluster"}} {
		fn := c.P.Func(f.rel, f.name)
		if fn == nil {
			c.Undecided("R14.6", f.rel+"."+f.name, "-", "factory not found")
			continue
		}
		// the closure returned by the factory
		var closures []*ssa.MakeClosure
		for _, r := range ssax.Returns(fn) {
			for _, res := range r.Results {
				if mc, ok := res.(*ssa.MakeClosure); ok {
					closures = append(closures, mc)
				}
				if mi, ok := res.(*ssa.ChangeType); ok {
					if mc, ok := mi.X.(*ssa.MakeClosure); ok {
						closures = append(closures, mc)
					}
				}
			}
		}
		if len(closures) == 0 {
			c.Undecided("R14.6", short(f.rel)+"."+f.name, c.P.Pos(fn.Pos()), "factory does not return a closure")
			continue
		}
		for _, mc := range closures {
			cl := mc.Fn.(*ssa.Function)
			for i, b := range mc.Bindings {
				fv := cl.FreeVars[i]
				key := fmt.Sprintf("%s.%s#captures:%s", f.rel, f.name, fv.Name())
				t := b.Type()
				byRef := false
				if _, isAlloc := b.(*ssa.Alloc); isAlloc {
					// captured by reference: the cell is shared by all connections
					byRef = true
					t = t.(*types.Pointer).Elem()
				}
				if byRef {
					if len(ssax.StoresTo(fv)) > 0 {
						c.Violate("R14.6", key, c.P.Pos(mc.Pos()), "the per-connection closure assigns to a variable of the factory: every connection writes the same cell")
						continue
					}
				}
				ok, why := safeCaptured(t, 0)
				if ok {
					if _, isSlice := t.Underlying().(*types.Slice); isSlice {
						// no element store through the captured slice in the closure
						stored := false
						ssax.Instrs(cl, func(ins ssa.Instruction) {
							if st, isSt := ins.(*ssa.Store); isSt {
								if ia, ok := st.Addr.(*ssa.IndexAddr); ok {
									for _, bv := range baseChain(ia.X) {
										if bv == ssa.Value(fv) {
											stored = true
										}
									}
								}
							}
						})
						if stored {
							ok, why = false, "elements of the shared slice are assigned in the closure"
						}
					}
				}
				c.Check(ok, "R14.6", key, c.P.Pos(mc.Pos()), "captured "+ssax.ShortType(t)+": "+why, "captured "+ssax.ShortType(t)+" is shared by all connections and is not immutable or synchronisation-safe: "+why)
			}
		}
	}
}

// checkRandConfined (R14.12): a *math/rand.Rand is not safe for concurrent use. Every struct field of that type in the
// batching pool is used from at most one of the goroutines the package starts: the set of `go`-started functions from
// which a method call on the field's value is reachable (static calls inside the package) has at most one element.
// A generator shared by two goroutines is a data race, and a torn generator state can index out of range and panic.
func checkRandConfined(c *core.Ctx, rule string) {
	fns := pkgFuncs(c, relBatched)
	// go roots
	roots := map[*ssa.Function]bool{}
	for _, fn := range fns {
		ssax.Instrs(fn, func(ins ssa.Instruction) {
			if g, ok := ins.(*ssa.Go); ok {
				if callee := g.Call.StaticCallee(); callee != nil {
					roots[callee] = true
				}
				if mc, ok := g.Call.Value.(*ssa.MakeClosure); ok {
					roots[mc.Fn.(*ssa.Function)] = true
				}
			}
		})
	}
	// static call graph inside the package
	callees := map[*ssa.Function][]*ssa.Function{}
	for _, fn := range fns {
		ssax.Instrs(fn, func(ins ssa.Instruction) {
			if _, isGo := ins.(*ssa.Go); isGo {
				return
			}
			if cc := ssax.CallOf(ins); cc != nil {
				if callee := cc.StaticCallee(); callee != nil && callee.Pkg == fn.Pkg {
					callees[fn] = append(callees[fn], callee)
				}
			}
		})
	}
	// a function that allocates a pool object is that object's constructor: what it calls runs before the object is
	// shared, so it is not followed (the new object's generator is still private)
	constructs := func(f *ssa.Function) bool {
		found := false
		ssax.Instrs(f, func(ins ssa.Instruction) {
			if al, ok := ins.(*ssa.Alloc); ok && al.Heap {
				if n := namedOf(al.Type()); n != nil && n.Obj().Pkg() != nil && n.Obj().Pkg().Path() == core.Mod+"/"+relBatched {
					if _, isStruct := n.Underlying().(*types.Struct); isStruct {
						found = true
					}
				}
			}
		})
		return found
	}
	reach := func(root *ssa.Function) map[*ssa.Function]bool {
		seen := map[*ssa.Function]bool{}
		var walk func(f *ssa.Function)
		walk = func(f *ssa.Function) {
			if seen[f] {
				return
			}
			seen[f] = true
			if f != root && constructs(f) {
				return
			}
			for _, g := range callees[f] {
				walk(g)
			}
			for _, a := range f.AnonFuncs {
				walk(a)
			}
		}
		walk(root)
		return seen
	}
	reachOf := map[*ssa.Function]map[*ssa.Function]bool{}
	for r := range roots {
		reachOf[r] = reach(r)
	}
	// uses per field
	type fieldKey struct{ typ, field string }
	users := map[fieldKey]map[*ssa.Function]bool{}
	for _, fn := range fns {
		ssax.Instrs(fn, func(ins ssa.Instruction) {
			cc := ssax.CallOf(ins)
			if cc == nil || !strings.HasPrefix(ssax.CalleeName(cc), "(*math/rand.Rand).") || len(cc.Args) == 0 {
				return
			}
			for _, d := range ssax.Defs(cc.Args[0]) {
				u, ok := ssax.Unwrap(d).(*ssa.UnOp)
				if !ok {
					continue
				}
				fa, ok := u.X.(*ssa.FieldAddr)
				if !ok {
					continue
				}
				f, _ := ssax.FieldName(fa)
				k := fieldKey{ssax.ShortType(fa.X.Type()), f}
				if users[k] == nil {
					users[k] = map[*ssa.Function]bool{}
				}
				users[k][fn] = true
			}
		})
	}
	n := 0
	var keys []fieldKey
	for k := range users {
		keys = append(keys, k)
	}
	sort.Slice(keys, func(i, j int) bool { return keys[i].typ+keys[i].field < keys[j].typ+keys[j].field })
	for _, k := range keys {
		n++
		var from []string
		for r, set := range reachOf {
			for u := range users[k] {
				if set[u] {
					from = append(from, core.FuncName(r))
					break
				}
			}
		}
		sort.Strings(from)
		key := "batched." + strings.TrimPrefix(k.typ, "*") + "." + k.field + "#one-goroutine"
		c.Check(len(from) <= 1, rule, key, "-", fmt.Sprintf("used from %d of the goroutines the package starts", len(from)),
			"the generator in field "+k.field+" of "+k.typ+" is used from the goroutines "+strings.Join(from, " and ")+": math/rand.Rand is not safe for concurrent use - a data race, and a torn state can panic inside the generator")
	}
	if n == 0 {
		c.Info(rule, "batched#rand-fields", "-", "no *rand.Rand struct field is used in the batching pool")
	}
	// every holder has a generator of its own: what is stored into a *rand.Rand field is the result of rand.New in the
	// storing function - never a generator loaded from another object (then all holders, i.e. all client connections
	// or all pooled connections, draw from one unsynchronised generator)
	for _, fn := range c.P.RepoFuncs("") {
		ssax.Instrs(fn, func(ins ssa.Instruction) {
			st, ok := ins.(*ssa.Store)
			if !ok {
				return
			}
			fa, ok := st.Addr.(*ssa.FieldAddr)
			if !ok || types.TypeString(st.Val.Type(), nil) != "*math/rand.Rand" {
				return
			}
			f, _ := ssax.FieldName(fa)
			key := strings.TrimPrefix(ssax.ShortType(fa.X.Type()), "*") + "." + f + "#own-generator@" + core.FuncName(fn)
			fresh := true
			for _, d := range append([]ssa.Value{st.Val}, ssax.Defs(st.Val)...) {
				switch x := ssax.Unwrap(d).(type) {
				case *ssa.Call:
					if ssax.CalleeName(&x.Call) != "math/rand.New" {
						fresh = false
					}
				case *ssa.Phi:
				default:
					fresh = false
				}
			}
			c.Check(fresh, rule, key, c.P.Pos(st.Pos()), "the generator stored is created by rand.New for this holder",
				"the generator stored into field "+f+" is not created for this holder (it is taken from another object): every holder then draws from one math/rand.Rand, which is not safe for concurrent use - a data race between client connections")
		})
	}
}

// checkNoNilIntoPool (R14.13): what is put into a shared object pool is an object. A release whose argument is the
// first result of a call that can return (nil, err) must sit on the err == nil side (a deferred release evaluates its
// argument when it is registered): otherwise a typed nil pointer goes into the pool, and the next Get of *any*
// connection hands it out - that connection panics on the first field access (or, on a goroutine of its own, takes
// the whole process down).
func checkNoNilIntoPool(c *core.Ctx, rule string, wrappers map[*ssa.Function]int) {
	n := 0
	for _, fn := range c.P.RepoFuncs("") {
		counts := map[string]int{}
		ssax.Instrs(fn, func(ins ssa.Instruction) {
			var v ssa.Value
			switch x := ins.(type) {
			case *ssa.Call:
				v = releaseArg(x, wrappers)
			case *ssa.Defer:
				v = deferredReleaseArg(x, wrappers)
			}
			if v == nil {
				return
			}
			ext, ok := v.(*ssa.Extract)
			if !ok {
				return
			}
			src, ok := ext.Tuple.(*ssa.Call)
			if !ok {
				return
			}
			e := errResult(src)
			callee := src.Call.StaticCallee()
			if e == nil || callee == nil || len(callee.Blocks) == 0 || !mayReturnNilWithError(callee, ext.Index) {
				return
			}
			n++
			key := ordinalKey(counts, core.FuncName(fn)+"#released-object-exists:"+short(ssax.CalleeName(&src.Call)))
			bad := ""
			keep := func(x ssa.Value) bool { return ssax.IsErrorValue(x) || x == v }
			ex := &ssax.Explorer{Fn: fn}
			ex.Enter = func(b, pred *ssa.BasicBlock, st ssax.PState) {
				st.(*holdState).f.EnterBlock(b, pred)
				st.(*holdState).f.Retain(keep)
			}
			ex.Instr = func(i ssa.Instruction, st ssax.PState) bool {
				hs := st.(*holdState)
				fs := hs.f
				if i == ins {
					ok := fs.Eval(e).Nil == ssax.Yes || fs.Eval(v).Nil == ssax.No
					// the error may live in a local cell (named result, variable captured by a closure)
					for cell := range hs.holds {
						if fs[cell].Nil == ssax.Yes {
							ok = true
						}
					}
					if !ok {
						bad = fmt.Sprintf("the release at %s is reached while %s may have failed: its first result is nil then", c.P.Pos(ins.Pos()), short(ssax.CalleeName(&src.Call)))
					}
				}
				if st, isStore := i.(*ssa.Store); isStore {
					if cell, isCell := st.Addr.(*ssa.Alloc); isCell {
						if st.Val == e {
							hs.holds[cell] = true
						} else {
							delete(hs.holds, cell)
						}
					}
				}
				fs.Step(i)
				return true
			}
			ex.Branch = func(ifi *ssa.If, truth bool, st ssax.PState) bool {
				fs := st.(*holdState).f
				ok := fs.Assume(ifi.Cond, truth)
				fs.Retain(keep)
				return ok
			}
			ex.Run(&holdState{ssax.Facts{}, map[ssa.Value]bool{}})
			pos := c.P.Pos(ins.Pos())
			switch {
			case ex.Exceeded:
				c.Undecided(rule, key, pos, "state space exceeded")
			case bad != "":
				c.Violate(rule, key, pos, bad+": a nil pointer goes into the shared pool and is handed to the next user, which panics on its first field access")
			default:
				c.OK(rule, key, pos, "released only where the call that produced it succeeded")
			}
		})
	}
	if n == 0 {
		c.Undecided(rule, "pools#released-object-exists", "-", "no release of a fallible call's result found")
	}
}

// mayReturnNilWithError reports whether fn has a return whose idx-th result is the nil constant.
func mayReturnNilWithError(fn *ssa.Function, idx int) bool {
	for _, r := range ssax.Returns(fn) {
		if idx >= len(r.Results) {
			continue
		}
		for _, def := range append([]ssa.Value{r.Results[idx]}, ssax.Defs(r.Results[idx])...) {
			if k, ok := def.(*ssa.Const); ok && k.Value == nil {
				return true
			}
		}
	}
	return false
}

// holdState: facts plus the local cells that currently hold the error value under examination.
type holdState struct {
	f     ssax.Facts
	holds map[ssa.Value]bool
}

func (s *holdState) Key() string {
	var ks []string
	for c := range s.holds {
		ks = append(ks, c.Name())
	}
	sort.Strings(ks)
	return s.f.Key() + "|" + strings.Join(ks, ",")
}

func (s *holdState) Copy() ssax.PState {
	h := map[ssa.Value]bool{}
	for k := range s.holds {
		h[k] = true
	}
	return &holdState{s.f.Clone(), h}
}

// selPath strips field selections, slicing and conversions off v and returns the value they are applied to and the
// field names on the way (outermost first).
func selPath(v ssa.Value) (ssa.Value, []string) {
	var path []string
	for i := 0; i < 16; i++ {
		switch x := v.(type) {
		case *ssa.Field:
			f, _ := ssax.FieldName(x)
			path = append([]string{f}, path...)
			v = x.X
		case *ssa.UnOp:
			if x.Op != token.MUL {
				return v, path
			}
			if _, ok := x.X.(*ssa.FieldAddr); !ok {
				return v, path
			}
			v = x.X
		case *ssa.FieldAddr:
			f, _ := ssax.FieldName(x)
			path = append([]string{f}, path...)
			v = x.X
		case *ssa.Slice:
			v = x.X
		case *ssa.Convert:
			v = x.X
		case *ssa.ChangeType:
			v = x.X
		case *ssa.MakeInterface:
			v = x.X
		default:
			return v, path
		}
	}
	return v, path
}

func pathsOverlap(a, b []string) bool {
	for i := 0; i < len(a) && i < len(b); i++ {
		if a[i] != b[i] {
			return false
		}
	}
	return true
}

func mayCarryRef(t types.Type, depth int) bool {
	if depth > 4 {
		return true
	}
	switch u := t.Underlying().(type) {
	case *types.Slice, *types.Pointer, *types.Map, *types.Chan, *types.Interface, *types.Signature:
		return true
	case *types.Struct:
		for i := 0; i < u.NumFields(); i++ {
			if mayCarryRef(u.Field(i).Type(), depth+1) {
				return true
			}
		}
	case *types.Array:
		return mayCarryRef(u.Elem(), depth+1)
	}
	return false
}

// checkNoReleaseAfterHandOff (R14.14): memory that was handed to another goroutine (sent on a channel, alone or inside
// a struct, directly or through a converting call) is not put into an object pool afterwards by the sender: the
// receiver still holds it, and the pool hands it to the next user - the receiver's data is overwritten with another
// connection's value.
func checkNoReleaseAfterHandOff(c *core.Ctx, rule string, wrappers map[*ssa.Function]int) {
	n := 0
	for _, fn := range c.P.RepoFuncs("") {
		counts := map[string]int{}
		var sends []*ssa.Send
		ssax.Instrs(fn, func(ins ssa.Instruction) {
			if s, ok := ins.(*ssa.Send); ok && mayCarryRef(s.X.Type(), 0) {
				sends = append(sends, s)
			}
		})
		ssax.Instrs(fn, func(ins ssa.Instruction) {
			var v ssa.Value
			switch x := ins.(type) {
			case *ssa.Call:
				v = releaseArg(x, wrappers)
			case *ssa.Defer:
				v = deferredReleaseArg(x, wrappers)
			}
			if v == nil {
				return
			}
			n++
			key := ordinalKey(counts, core.FuncName(fn)+"#released-not-handed-off")
			if g := releasePool(ins, wrappers); g != nil && !poolIsDrawnFrom(c, g) {
				c.OK(rule, key, c.P.Pos(ins.Pos()), "nothing is ever taken out of this pool")
				return
			}
			root, path := selPath(v)
			var bad []string
			for _, s := range sends {
				if _, isDefer := ins.(*ssa.Defer); !isDefer {
					if hit, _ := (ssax.Reach{Target: func(i ssa.Instruction) bool { return i == ins }}).From(s); hit == nil {
						continue
					}
				}
				// what the sent value may be made of
				seen := map[ssa.Value]bool{}
				var walk func(x ssa.Value, d int) bool
				walk = func(x ssa.Value, d int) bool {
					if x == nil || seen[x] || d > 8 {
						return false
					}
					seen[x] = true
					r, p := selPath(x)
					if r == root && pathsOverlap(p, path) {
						return true
					}
					switch y := r.(type) {
					case *ssa.Call:
						for i, a := range y.Call.Args {
							if mayCarryRef(a.Type(), 0) && resultMayHold(y.Call.StaticCallee(), i) && walk(a, d+1) {
								return true
							}
						}
					case *ssa.Extract:
						return walk(y.Tuple, d+1)
					case *ssa.Phi:
						for _, e := range y.Edges {
							if walk(e, d+1) {
								return true
							}
						}
					case *ssa.UnOp:
						if y.Op == token.MUL {
							if al, ok := y.X.(*ssa.Alloc); ok && al.Referrers() != nil {
								for _, ref := range *al.Referrers() {
									switch st := ref.(type) {
									case *ssa.Store:
										if st.Addr == ssa.Value(al) && walk(st.Val, d+1) {
											return true
										}
									}
								}
								// a struct built field by field in a local
								for _, ref := range *al.Referrers() {
									if fa, ok := ref.(*ssa.FieldAddr); ok && fa.Referrers() != nil {
										for _, r2 := range *fa.Referrers() {
											if st, ok := r2.(*ssa.Store); ok && st.Addr == ssa.Value(fa) && walk(st.Val, d+1) {
												return true
											}
										}
									}
								}
							}
						}
					}
					return false
				}
				if walk(s.X, 0) {
					bad = append(bad, fmt.Sprintf("the memory released at %s was sent on a channel at %s: the receiver still holds it when the pool hands it to its next user", c.P.Pos(ins.Pos()), c.P.Pos(s.Pos())))
				}
			}
			c.Check(len(bad) == 0, rule, key, c.P.Pos(ins.Pos()), "what is released was not handed to another goroutine before", strings.Join(uniq(bad), "; "))
		})
	}
	if n == 0 {
		c.Undecided(rule, "pools#released-not-handed-off", "-", "no pool release found")
	}
}

// resultMayHold: may a result of callee be (or contain) memory reachable from its idx-th argument? Decided from the
// callee's body (provenance of its returned values); unknown callees are assumed to hand their arguments on.
func resultMayHold(callee *ssa.Function, idx int) bool {
	if callee == nil || len(callee.Blocks) == 0 || idx >= len(callee.Params) {
		return true
	}
	pv := &ssax.Prov{}
	for _, r := range ssax.Returns(callee) {
		for _, res := range r.Results {
			if !mayCarryRef(res.Type(), 0) {
				continue
			}
			for _, s := range pv.Sources(res) {
				if s.Kind == "param" && s.V == ssa.Value(callee.Params[idx]) {
					return true
				}
				if s.Kind == "call" || s.Kind == "other" {
					return true
				}
			}
			// struct results: look at the fields too
			if st, ok := res.Type().Underlying().(*types.Struct); ok {
				for i := 0; i < st.NumFields(); i++ {
					if !mayCarryRef(st.Field(i).Type(), 0) {
						continue
					}
					for _, s := range pv.Sources(res, st.Field(i).Name()) {
						if (s.Kind == "param" && s.V == ssa.Value(callee.Params[idx])) || s.Kind == "call" || s.Kind == "other" {
							return true
						}
					}
				}
			}
		}
	}
	return false
}

// releasePool names the package-level pool a release instruction puts into (through a wrapper if need be).
func releasePool(ins ssa.Instruction, wrappers map[*ssa.Function]int) *ssa.Global {
	cc := ssax.CallOf(ins)
	if cc == nil {
		return nil
	}
	if ssax.CalleeName(cc) == "(*sync.Pool).Put" {
		return globalOf(cc.Args[0])
	}
	if f := cc.StaticCallee(); f != nil {
		if _, ok := wrappers[f]; ok {
			var g *ssa.Global
			ssax.Instrs(f, func(i ssa.Instruction) {
				if c2 := ssax.CallOf(i); c2 != nil && ssax.CalleeName(c2) == "(*sync.Pool).Put" {
					g = globalOf(c2.Args[0])
				}
			})
			return g
		}
	}
	return nil
}

func poolIsDrawnFrom(c *core.Ctx, g *ssa.Global) bool {
	found := false
	for _, fn := range c.P.RepoFuncs("") {
		ssax.Instrs(fn, func(i ssa.Instruction) {
			if cc := ssax.CallOf(i); cc != nil && ssax.CalleeName(cc) == "(*sync.Pool).Get" && globalOf(cc.Args[0]) == g {
				found = true
			}
		})
	}
	return found
}
