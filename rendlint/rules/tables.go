package rules

import (
	"fmt"
	"go/token"
	"go/types"
	"sort"
	"strings"

	"golang.org/x/tools/go/ssa"

	"rendlint/core"
	"rendlint/ssax"
)

// requestTypeNames maps the values of common.RequestType to their constant names.
func requestTypeNames(c *core.Ctx) map[int64]string {
	out := map[int64]string{}
	pk := c.P.Pkg("common")
	if pk == nil {
		return out
	}
	for name, m := range pk.Members {
		if k, ok := m.(*ssa.NamedConst); ok && strings.HasPrefix(name, "Request") && types.TypeString(k.Type(), nil) == pCommon+".RequestType" {
			if v, ok := ssax.ConstInt(k.Value); ok {
				out[v] = name
			}
		}
	}
	return out
}

// loopDispatch is one row of the connection loop's dispatch table.
type loopDispatch struct {
	ReqType  int64
	Asserted types.Type // nil when the request is passed on unasserted
	Method   string     // Orca method invoked
	Call     ssa.Instruction
	Block    *ssa.BasicBlock
}

// condEqConst: cond is `v == K` established with truth; returns K.
func condEqConst(ec ssax.EdgeCond, isSubject func(ssa.Value) bool) (int64, bool) {
	bo, ok := ec.Cond.(*ssa.BinOp)
	if !ok {
		return 0, false
	}
	if !((bo.Op == token.EQL && ec.True) || (bo.Op == token.NEQ && !ec.True)) {
		return 0, false
	}
	if k, ok := ssax.ConstInt(bo.Y); ok && isSubject(bo.X) {
		return k, true
	}
	if k, ok := ssax.ConstInt(bo.X); ok && isSubject(bo.Y) {
		return k, true
	}
	return 0, false
}

// loopTable extracts the dispatch rows of server.(*DefaultServer).Loop.
func loopTable(c *core.Ctx) ([]loopDispatch, *ssa.Function, *ssa.Call, error) {
	loop := c.P.Func("server", "(*DefaultServer).Loop")
	if loop == nil {
		return nil, nil, nil, fmt.Errorf("server.(*DefaultServer).Loop not found")
	}
	var parse *ssa.Call
	ssax.Instrs(loop, func(ins ssa.Instruction) {
		if call, ok := ins.(*ssa.Call); ok && call.Call.IsInvoke() && call.Call.Method.Name() == "Parse" {
			parse = call
		}
	})
	if parse == nil {
		return nil, loop, nil, fmt.Errorf("no Parse call in Loop")
	}
	var req, rt ssa.Value
	for _, r := range *parse.Referrers() {
		if ex, ok := r.(*ssa.Extract); ok {
			switch ex.Index {
			case 0:
				req = ex
			case 1:
				rt = ex
			}
		}
	}
	if req == nil || rt == nil {
		return nil, loop, parse, fmt.Errorf("Parse results unused")
	}
	var rows []loopDispatch
	ssax.Instrs(loop, func(ins ssa.Instruction) {
		cc := ssax.CallOf(ins)
		if cc == nil || !cc.IsInvoke() || types.TypeString(cc.Value.Type(), nil) != tOrca || len(cc.Args) == 0 {
			return
		}
		// first argument derives from the parsed request?
		arg := cc.Args[0]
		var asserted types.Type
		base := arg
		if ta, ok := arg.(*ssa.TypeAssert); ok {
			asserted = ta.AssertedType
			base = ta.X
		}
		if base != req {
			return
		}
		// the request type this call is dispatched under
		for _, ec := range ssax.DomConds(ins.Block()) {
			if k, ok := condEqConst(ec, func(v ssa.Value) bool { return v == rt }); ok {
				rows = append(rows, loopDispatch{ReqType: k, Asserted: asserted, Method: cc.Method.Name(), Call: ins, Block: ins.Block()})
				return
			}
		}
	})
	sort.Slice(rows, func(i, j int) bool { return rows[i].ReqType < rows[j].ReqType })
	return rows, loop, parse, nil
}

// parserReturnPairs implements R7.1 / R11.3.
func parserReturnPairs(c *core.Ctx, rule string) {
	rows, _, _, err := loopTable(c)
	if err != nil {
		c.Undecided(rule, "server.Loop#dispatch-table", "-", err.Error())
		return
	}
	names := requestTypeNames(c)
	asserted := map[int64]types.Type{}
	hasRow := map[int64]bool{}
	for _, r := range rows {
		hasRow[r.ReqType] = true
		if r.Asserted != nil {
			asserted[r.ReqType] = r.Asserted
		}
	}
	pi := c.P.Iface("protocol", "RequestParser")
	if pi == nil {
		c.Undecided(rule, "protocol.RequestParser", "-", "interface not found")
		return
	}
	for _, impl := range c.P.Implementers(pi) {
		fn := c.P.Method(impl, "Parse")
		if fn == nil || len(fn.Blocks) == 0 {
			continue
		}
		pkgPath := impl.Pkg.Pkg.Path()
		pv := &ssax.Prov{Inline: func(f *ssa.Function) bool { return f.Pkg != nil && f.Pkg.Pkg.Path() == pkgPath }}
		counts := map[string]int{}
		for _, ret := range ssax.Returns(fn) {
			if len(ret.Results) != 4 {
				continue
			}
			if fn.Recover != nil && ret.Block() == fn.Recover {
				continue // synthetic return of the recover block
			}
			rtV := ret.Results[1]
			// a function with defers returns through result cells: resolve them
			reqDefs, errDefs := ssax.Defs(ret.Results[0]), ssax.Defs(ret.Results[3])
			if len(reqDefs) != 1 || len(errDefs) != 1 {
				c.Undecided(rule, ordinalKey(counts, core.FuncName(fn)+"#return:?"), c.P.Pos(ret.Pos()), "return value has several reaching definitions")
				continue
			}
			reqV, errV := reqDefs[0], errDefs[0]
			retBlock := ret.Block()
			if st := storeBlockOf(ret.Results[3], errV); st != nil {
				retBlock = st
			}
			// failure returns are not dispatched
			if definitelyNonNil(errV, retBlock) {
				continue
			}
			// request types this return may carry
			var ks []int64
			unknownK := false
			for _, s := range pv.Sources(rtV) {
				if k, ok := ssax.ConstInt(s.V); ok && s.Kind == "const" {
					ks = append(ks, k)
				} else {
					unknownK = true
				}
			}
			// concrete type of the request value
			var T types.Type
			nilReq := false
			switch x := reqV.(type) {
			case *ssa.MakeInterface:
				T = x.X.Type()
			case *ssa.Const:
				nilReq = x.Value == nil
			}
			for _, k := range ks {
				key := ordinalKey(counts, core.FuncName(fn)+"#return:"+names[k])
				pos := c.P.Pos(ret.Pos())
				want, needs := asserted[k]
				switch {
				case unknownK:
					c.Undecided(rule, key, pos, "the returned request type is not a constant on every path")
				case !hasRow[k]:
					c.Violate(rule, key, pos, fmt.Sprintf("the parser returns %s, for which the connection loop has no case: the request is silently dropped", names[k]))
				case !needs:
					c.OK(rule, key, pos, names[k]+" is dispatched without a type assertion")
				case nilReq:
					c.Violate(rule, key, pos, fmt.Sprintf("the parser returns a nil request with a nil error for %s; the loop asserts %s: the assertion panics", names[k], ssax.ShortType(want)))
				case T == nil:
					c.Undecided(rule, key, pos, "cannot determine the concrete type of the returned request")
				case !types.Identical(T, want):
					c.Violate(rule, key, pos, fmt.Sprintf("the parser returns a %s for %s but the loop asserts %s: the assertion panics", ssax.ShortType(T), names[k], ssax.ShortType(want)))
				default:
					c.OK(rule, key, pos, fmt.Sprintf("(%s, %s) matches the loop's assertion", ssax.ShortType(T), names[k]))
				}
			}
			if len(ks) == 0 {
				c.Undecided(rule, ordinalKey(counts, core.FuncName(fn)+"#return:?"), c.P.Pos(ret.Pos()), "returned request type has no constant source")
			}
		}
	}
}

// definitelyNonNil: the error value is a sentinel, or the return's block is only reached when it is non-nil.
func definitelyNonNil(e ssa.Value, b *ssa.BasicBlock) bool {
	if ssax.IsNilConst(e) {
		return false
	}
	if ssax.SentinelOf(e) != "" {
		return true
	}
	if _, ok := e.(*ssa.MakeInterface); ok {
		return true
	}
	for _, ec := range ssax.DomConds(b) {
		bo, ok := ec.Cond.(*ssa.BinOp)
		if !ok {
			continue
		}
		if (bo.X == e && ssax.IsNilConst(bo.Y)) || (bo.Y == e && ssax.IsNilConst(bo.X)) {
			if (bo.Op == token.NEQ && ec.True) || (bo.Op == token.EQL && !ec.True) {
				return true
			}
		}
	}
	return false
}

// storeBlockOf: when a result was spilled into a cell, the block of the store is where the path conditions hold.
func storeBlockOf(res, def ssa.Value) *ssa.BasicBlock {
	u, ok := res.(*ssa.UnOp)
	if !ok {
		return nil
	}
	al, ok := u.X.(*ssa.Alloc)
	if !ok {
		return nil
	}
	for _, st := range ssax.StoresTo(al) {
		if st.Val == def {
			return st.Block()
		}
	}
	return nil
}
