package rules

import (
	"fmt"
	"go/token"
	"go/types"
	"math/big"
	"sort"
	"strings"

	"golang.org/x/tools/go/ssa"

	"rendlint/core"
	"rendlint/ssax"
)

// ivEval: a small interval evaluator for integer expressions built from constants, package-level variables that are
// only written by their initialiser, loop counters (phi of a constant and itself plus a positive constant) bounded by
// dominating comparisons, and + - * / and conversions. Every intermediate is checked against the range of its type
// (word size from the build configuration): a value that may leave it is reported, not wrapped.
type ivEval struct {
	c    *core.Ctx
	word int64
	at   *ssa.BasicBlock // the block in which the expression is used (for dominating conditions)
	prob []string
}

func (e *ivEval) typeRange(t types.Type) (lo, hi *big.Int, ok bool) {
	b, isB := t.Underlying().(*types.Basic)
	if !isB || b.Info()&types.IsInteger == 0 {
		return nil, nil, false
	}
	bits := int64(64)
	switch b.Kind() {
	case types.Int8, types.Uint8:
		bits = 8
	case types.Int16, types.Uint16:
		bits = 16
	case types.Int32, types.Uint32:
		bits = 32
	case types.Int, types.Uint, types.Uintptr:
		bits = e.word * 8
	}
	one := big.NewInt(1)
	if b.Info()&types.IsUnsigned != 0 {
		return big.NewInt(0), new(big.Int).Sub(new(big.Int).Lsh(one, uint(bits)), one), true
	}
	h := new(big.Int).Lsh(one, uint(bits-1))
	return new(big.Int).Neg(h), new(big.Int).Sub(h, one), true
}

// constGlobal returns the constant a package-level variable is initialised with, if nothing else ever stores to it.
func (e *ivEval) constGlobal(g *ssa.Global) (*big.Int, bool) {
	var val *big.Int
	stores := 0
	for _, fn := range e.c.P.RepoFuncs("") {
		ssax.Instrs(fn, func(ins ssa.Instruction) {
			st, ok := ins.(*ssa.Store)
			if !ok || st.Addr != ssa.Value(g) {
				return
			}
			stores++
			if fn.Name() != "init" && !strings.HasPrefix(fn.Name(), "init#") {
				stores += 100
				return
			}
			if k, isC := ssax.Unwrap(st.Val).(*ssa.Const); isC && k.Value != nil {
				if bv, ok := new(big.Int).SetString(k.Value.ExactString(), 10); ok {
					val = bv
				}
			}
		})
	}
	// address taken anywhere else? (then it may be written through the pointer)
	if g.Referrers() != nil {
		return nil, false
	}
	return val, stores == 1 && val != nil
}

func (e *ivEval) eval(v ssa.Value, depth int) (lo, hi *big.Int, ok bool) {
	if depth > 12 {
		return nil, nil, false
	}
	clamp := func(lo, hi *big.Int, t types.Type, what string, pos token.Pos) (*big.Int, *big.Int, bool) {
		tl, th, isInt := e.typeRange(t)
		if !isInt {
			return nil, nil, false
		}
		if lo.Cmp(tl) < 0 || hi.Cmp(th) > 0 {
			e.prob = append(e.prob, fmt.Sprintf("%s at %s can take values in [%v, %v], outside the range of %s: it wraps around", what, e.c.P.Pos(pos), lo, hi, t))
			return nil, nil, false
		}
		return lo, hi, true
	}
	switch x := v.(type) {
	case *ssa.Const:
		if x.Value == nil {
			return nil, nil, false
		}
		if bv, ok := new(big.Int).SetString(x.Value.ExactString(), 10); ok {
			return bv, bv, true
		}
		return nil, nil, false
	case *ssa.Convert:
		l, h, ok := e.eval(x.X, depth+1)
		if !ok {
			return nil, nil, false
		}
		l, h, ok = clamp(l, h, x.Type(), "the conversion to "+x.Type().String(), x.Pos())
		if !ok {
			return nil, nil, false
		}
		return e.refine(v, l, h)
	case *ssa.ChangeType:
		return e.eval(x.X, depth+1)
	case *ssa.UnOp:
		if x.Op == token.MUL {
			if g, isG := x.X.(*ssa.Global); isG {
				if k, ok := e.constGlobal(g); ok {
					return k, k, true
				}
			}
		}
		return nil, nil, false
	case *ssa.Call:
		if b, isB := x.Call.Value.(*ssa.Builtin); isB && (b.Name() == "len" || b.Name() == "cap") {
			_, th, _ := e.typeRange(x.Type())
			return e.refine(v, big.NewInt(0), th)
		}
		return nil, nil, false
	case *ssa.Phi:
		// loop counter: constant start, steps by positive constants
		var start *big.Int
		for _, ed := range x.Edges {
			if k, isC := ed.(*ssa.Const); isC && k.Value != nil {
				bv, _ := new(big.Int).SetString(k.Value.ExactString(), 10)
				if start == nil || bv.Cmp(start) < 0 {
					start = bv
				}
				continue
			}
			bo, isB := ed.(*ssa.BinOp)
			if !isB || bo.Op != token.ADD || bo.X != ssa.Value(x) {
				return nil, nil, false
			}
			if k, isC := ssax.ConstInt(bo.Y); !isC || k <= 0 {
				return nil, nil, false
			}
		}
		if start == nil {
			return nil, nil, false
		}
		_, th, okT := e.typeRange(x.Type())
		if !okT {
			return nil, nil, false
		}
		return e.refine(v, start, th)
	case *ssa.BinOp:
		l1, h1, ok1 := e.eval(x.X, depth+1)
		l2, h2, ok2 := e.eval(x.Y, depth+1)
		if !ok1 || !ok2 {
			return nil, nil, false
		}
		var lo, hi *big.Int
		switch x.Op {
		case token.ADD:
			lo, hi = new(big.Int).Add(l1, l2), new(big.Int).Add(h1, h2)
		case token.SUB:
			lo, hi = new(big.Int).Sub(l1, h2), new(big.Int).Sub(h1, l2)
		case token.MUL:
			ps := []*big.Int{new(big.Int).Mul(l1, l2), new(big.Int).Mul(l1, h2), new(big.Int).Mul(h1, l2), new(big.Int).Mul(h1, h2)}
			sort.Slice(ps, func(i, j int) bool { return ps[i].Cmp(ps[j]) < 0 })
			lo, hi = ps[0], ps[3]
		case token.QUO:
			if l2.Sign() <= 0 || l1.Sign() < 0 {
				return nil, nil, false
			}
			lo, hi = new(big.Int).Quo(l1, h2), new(big.Int).Quo(h1, l2)
		default:
			return nil, nil, false
		}
		lo, hi, ok := clamp(lo, hi, x.Type(), "the result of "+x.Op.String(), x.Pos())
		if !ok {
			return nil, nil, false
		}
		return e.refine(v, lo, hi)
	}
	return nil, nil, false
}

// refine narrows [lo,hi] of v by the comparisons with constants that dominate the use.
func (e *ivEval) refine(v ssa.Value, lo, hi *big.Int) (*big.Int, *big.Int, bool) {
	lo, hi = new(big.Int).Set(lo), new(big.Int).Set(hi)
	if e.at == nil {
		return lo, hi, true
	}
	for _, ec := range ssax.DomConds(e.at) {
		bo, ok := ec.Cond.(*ssa.BinOp)
		if !ok {
			continue
		}
		x, y, op := bo.X, bo.Y, bo.Op
		var k *big.Int
		constOf := func(w ssa.Value) *big.Int {
			if c, isC := w.(*ssa.Const); isC && c.Value != nil {
				bv, ok := new(big.Int).SetString(c.Value.ExactString(), 10)
				if ok {
					return bv
				}
			}
			return nil
		}
		if x == v {
			k = constOf(y)
		} else if y == v {
			k = constOf(x)
			switch op {
			case token.LSS:
				op = token.GTR
			case token.LEQ:
				op = token.GEQ
			case token.GTR:
				op = token.LSS
			case token.GEQ:
				op = token.LEQ
			}
		}
		if k == nil {
			continue
		}
		if !ec.True {
			switch op {
			case token.LSS:
				op = token.GEQ
			case token.LEQ:
				op = token.GTR
			case token.GTR:
				op = token.LEQ
			case token.GEQ:
				op = token.LSS
			default:
				continue
			}
		}
		one := big.NewInt(1)
		switch op {
		case token.LSS:
			if b := new(big.Int).Sub(k, one); b.Cmp(hi) < 0 {
				hi = b
			}
		case token.LEQ:
			if k.Cmp(hi) < 0 {
				hi = k
			}
		case token.GTR:
			if b := new(big.Int).Add(k, one); b.Cmp(lo) > 0 {
				lo = b
			}
		case token.GEQ:
			if k.Cmp(lo) > 0 {
				lo = k
			}
		}
	}
	return lo, hi, lo.Cmp(hi) <= 0
}

// checkRandBoundsOnPoolGoroutines (R13.17, shared as R10.22): rand.Intn / Int31n / Int63n panic when their argument is
// not positive. On a goroutine of the batching pool (reconnect runs on the recovery goroutine) nothing recovers a panic:
// the process dies, "the pool serves normally again without restarting the process" is lost with it. The argument of
// every such call must have a proven positive lower bound, and no intermediate of its computation may leave the range
// of its type (an int that wraps on 32-bit builds turns a large delay into a negative one).
func checkRandBoundsOnPoolGoroutines(c *core.Ctx, rule string) {
	fns := pkgFuncs(c, relBatched)
	roots := map[*ssa.Function]bool{}
	callees := map[*ssa.Function][]*ssa.Function{}
	for _, fn := range fns {
		ssax.Instrs(fn, func(ins ssa.Instruction) {
			if g, ok := ins.(*ssa.Go); ok {
				if callee := g.Call.StaticCallee(); callee != nil {
					roots[callee] = true
				}
				return
			}
			if cc := ssax.CallOf(ins); cc != nil {
				if callee := cc.StaticCallee(); callee != nil && callee.Pkg == fn.Pkg {
					callees[fn] = append(callees[fn], callee)
				}
			}
		})
	}
	onPool := map[*ssa.Function]bool{}
	var walk func(f *ssa.Function)
	walk = func(f *ssa.Function) {
		if onPool[f] {
			return
		}
		onPool[f] = true
		for _, g := range callees[f] {
			walk(g)
		}
		for _, a := range f.AnonFuncs {
			walk(a)
		}
	}
	for r := range roots {
		walk(r)
	}
	word := int64(8)
	if strings.Contains(c.Config, "386") {
		word = 4
	}
	n := 0
	for _, fn := range fns {
		if !onPool[fn] {
			continue
		}
		counts := map[string]int{}
		ssax.Instrs(fn, func(ins ssa.Instruction) {
			cc := ssax.CallOf(ins)
			if cc == nil {
				return
			}
			name := ssax.CalleeName(cc)
			var arg ssa.Value
			switch name {
			case "math/rand.Intn", "math/rand.Int31n", "math/rand.Int63n":
				arg = cc.Args[0]
			case "(*math/rand.Rand).Intn", "(*math/rand.Rand).Int31n", "(*math/rand.Rand).Int63n":
				arg = cc.Args[1]
			default:
				return
			}
			key := ordinalKey(counts, core.FuncName(fn)+"#"+short(name)+"-argument-positive")
			// the length of the relay's connection list: positive because a relay is published only once it has a
			// connection and the list only grows - that is R6.16, not an arithmetic fact
			if call, isCall := ssax.Unwrap(arg).(*ssa.Call); isCall {
				if b, isB := call.Call.Value.(*ssa.Builtin); isB && b.Name() == "len" {
					if ta, isTA := ssax.Unwrap(call.Call.Args[0]).(*ssa.TypeAssert); isTA {
						if ld, isLd := ta.X.(*ssa.Call); isLd && ssax.CalleeName(&ld.Call) == "(*sync/atomic.Value).Load" {
							c.Info(rule, key, c.P.Pos(ins.Pos()), "length of the relay's connection list: positive by R6.16 (published with a connection, the list only grows)")
							return
						}
					}
				}
			}
			n++
			ev := &ivEval{c: c, word: word, at: ins.Block()}
			lo, hi, ok := ev.eval(arg, 0)
			switch {
			case len(ev.prob) > 0:
				c.Violate(rule, key, c.P.Pos(ins.Pos()), "in the argument of "+short(name)+": "+ev.prob[0]+"; a non-positive argument makes "+short(name)+" panic on a pool goroutine, which nothing recovers: the process dies")
			case !ok:
				c.Undecided(rule, key, c.P.Pos(ins.Pos()), "no bounds could be derived for the argument of "+short(name))
			case lo.Sign() <= 0:
				c.Violate(rule, key, c.P.Pos(ins.Pos()), fmt.Sprintf("the argument of %s ranges over [%v, %v]: with a non-positive argument it panics on a pool goroutine, which nothing recovers - the process dies instead of reconnecting", short(name), lo, hi))
			default:
				c.OK(rule, key, c.P.Pos(ins.Pos()), fmt.Sprintf("argument in [%v, %v]", lo, hi))
			}
		})
	}
	if n == 0 {
		c.Info(rule, "batched#rand-arguments", "-", "no bounded random draw on a pool goroutine")
	}
}
