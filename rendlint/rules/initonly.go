package rules

import (
	"strings"

	"golang.org/x/tools/go/ssa"

	"rendlint/core"
	"rendlint/ssax"
)

// initOnlySet computes the functions that, inside the repository, run only during
// package initialisation: the package initialisers and init functions themselves,
// and functions all of whose (>=1) static call sites lie in such functions and
// whose value is never taken. Registration code of the metrics package is of this kind.
func initOnlySet(c *core.Ctx) map[*ssa.Function]bool {
	fns := c.P.RepoFuncs("")
	// call sites and value uses
	callers := map[*ssa.Function][]*ssa.Function{}
	valueUsed := map[*ssa.Function]bool{}
	for _, f := range fns {
		if isAppFn(f) {
			// the binaries' own wiring is judged separately (configuration setters, R14.1)
			continue
		}
		ssax.Instrs(f, func(ins ssa.Instruction) {
			cc := ssax.CallOf(ins)
			var callee *ssa.Function
			if cc != nil {
				callee = cc.StaticCallee()
				if callee != nil {
					if _, isGo := ins.(*ssa.Go); isGo {
						valueUsed[callee] = true // runs concurrently, not "during init"
					} else {
						callers[callee] = append(callers[callee], f)
					}
				}
			}
			for _, op := range ins.Operands(nil) {
				if op == nil || *op == nil {
					continue
				}
				if g, ok := (*op).(*ssa.Function); ok {
					if cc != nil && cc.Value == *op && callee == g {
						continue
					}
					valueUsed[g] = true
				}
				if mc, ok := (*op).(*ssa.MakeClosure); ok {
					_ = mc
				}
			}
			if mc, ok := ins.(*ssa.MakeClosure); ok {
				if g, ok := mc.Fn.(*ssa.Function); ok {
					// closure created: treat as value use unless immediately called/deferred in place
					used := false
					for _, r := range *mc.Referrers() {
						if rc := ssax.CallOf(r); rc != nil && rc.Value == ssa.Value(mc) {
							if _, isGo := r.(*ssa.Go); !isGo {
								callers[g] = append(callers[g], f)
								continue
							}
						}
						used = true
					}
					if used {
						valueUsed[g] = true
					}
				}
			}
		})
	}
	set := map[*ssa.Function]bool{}
	for _, f := range fns {
		if f.Name() == "init" || strings.HasPrefix(f.Name(), "init#") {
			if f.Parent() == nil && f.Signature.Recv() == nil {
				set[f] = true
			}
		}
	}
	for changed := true; changed; {
		changed = false
		for _, f := range fns {
			if set[f] || valueUsed[f] || len(callers[f]) == 0 {
				continue
			}
			all := true
			for _, caller := range callers[f] {
				if !set[caller] {
					all = false
					break
				}
			}
			if all {
				set[f] = true
				changed = true
			}
		}
	}
	return set
}

func isAppFn(f *ssa.Function) bool {
	for f.Parent() != nil {
		f = f.Parent()
	}
	return f.Pkg != nil && strings.HasPrefix(f.Pkg.Pkg.Path(), core.Mod+"/app/")
}
