package rules

import (
	"fmt"
	"go/token"
	"go/types"
	"sort"
	"strings"

	"golang.org/x/tools/go/ssa"

	"rendlint/core"
	"rendlint/ssax"
)

func init() {
	Meta["C15"] = &PropMeta{
		Title: "A client disconnect at any byte releases everything held for that connection",
		Explain: "Resource pairing on the accept path and the connection loop: (R15.1) every return of the connection loop is preceded by abort(conns) with the closer slice the server was constructed with, and the panic path aborts in the deferred closure; (R15.2) abort closes every non-nil element of its slice; (R15.3) in ListenAndServe the client socket and both backend handlers, once acquired, are closed or handed over on every path to the next accept, and the per-connection goroutine either aborts all three or hands all three to the server constructor on every path; (R15.4) the per-connection backend handlers close exactly the connection their constructor stored, and the dialling constructors hand the fresh socket to the handler or close it. " +
			"Decides that no exit path of the per-connection code skips a close; goroutine termination inside the backend handlers and 'keeps accepting' as liveness are not decided.",
		Assume: commonAssume,
		Run:    runC15,
	}
}

func isAbortCall(ins ssa.Instruction) bool {
	cc := ssax.CallOf(ins)
	return isAbortCallee(cc)
}

func runC15(c *core.Ctx) {
	defer func() {
		c.Share(map[string]string{"R12.1": "R15.6"}, runC12)
		c.Share(map[string]string{"R14.4": "R15.8"}, runC14) // the handlers closed at disconnect are the ones opened for that client: per-connection variables, not shared with the accept loop
		c.Rule("R15.7", "a handler that failed to open is not touched: where the accept loop uses the handler value on the failure edge of its constructor call, every handler constructor wired into the proxy returns the nil interface with its error", 2)
		runR157(c, "R15.7") // the client going away makes the reply fail: that exit, too, must release the key lock
	}()
	c.Rule("R15.1", "every return of the connection loop is preceded by abort of the closer slice the server holds; the panic path aborts it in the deferred closure", 3)
	c.Rule("R15.2", "abort closes every non-nil element of the slice it is given", 1)
	c.Rule("R15.3", "on the accept path the client socket and both backend handlers are closed or handed over on every path to the next accept; the per-connection goroutine aborts all three or gives all three to the server constructor on every path", 4)
	c.Rule("R15.4", "per-connection backend handlers close the connection their constructor stored; dialling constructors hand the fresh socket to the handler", 4)

	pv := &ssax.Prov{}
	// ---- R15.1
	loop := c.P.Func("server", "(*DefaultServer).Loop")
	if loop == nil {
		c.Undecided("R15.1", "server.Loop", "-", "anchor not found")
	} else {
		connsOK := func(ins ssa.Instruction) bool {
			cc := ssax.CallOf(ins)
			return ssax.All(pv.Sources(cc.Args[0]), func(s ssax.Src) bool {
				return (s.Kind == "param" || s.Kind == "freevar") && s.PathIs("conns")
			})
		}
		n := 0
		for _, r := range ssax.Returns(loop) {
			if loop.Recover != nil && r.Block() == loop.Recover {
				continue
			}
			n++
			key := fmt.Sprintf("server.(*DefaultServer).Loop#return@%d", n)
			hit, trail := (ssax.Reach{
				Target: func(ins ssa.Instruction) bool { return ins == ssa.Instruction(r) },
				Avoid:  func(ins ssa.Instruction) bool { return isAbortCall(ins) && connsOK(ins) },
			}).FromBlock(loop.Blocks[0])
			c.Check(hit == nil, "R15.1", key, c.P.Pos(r.Pos()), "abort(s.conns, ...) precedes this return on every path",
				"the connection loop can return without aborting its closers: the client socket and both backend connections stay open", ssax.BlockTrail(c.P.Fset, trail)...)
		}
		if n == 0 {
			c.Undecided("R15.1", "server.(*DefaultServer).Loop#returns", c.P.Pos(loop.Pos()), "the loop never returns")
		}
		// deferred closure
		okDefer := false
		for _, cl := range loop.AnonFuncs {
			if !hasRecover(cl) {
				continue
			}
			ssax.Instrs(cl, func(ins ssa.Instruction) {
				if isAbortCall(ins) && connsOK(ins) {
					for _, ec := range ssax.DomConds(ins.Block()) {
						if bo, ok := ec.Cond.(*ssa.BinOp); ok && (isRecoverResult(bo.X) || isRecoverResult(bo.Y)) && (bo.Op == token.NEQ) == ec.True {
							okDefer = true
						}
					}
				}
			})
		}
		c.Check(okDefer, "R15.1", "server.(*DefaultServer).Loop#panic-path", c.P.Pos(loop.Pos()), "the deferred closure aborts s.conns when it recovered a panic", "a panic in the loop does not close the connection's sockets")
		// the constructor stores its closer slice where Loop reads it
		if def := c.P.Func("server", "Default"); def != nil {
			stored := false
			ssax.Instrs(def, func(ins ssa.Instruction) {
				if st, ok := ins.(*ssa.Store); ok {
					if n, _ := ssax.FieldName(st.Addr); n == "conns" && st.Val == ssa.Value(def.Params[0]) {
						stored = true
					}
				}
			})
			c.Check(stored, "R15.1", "server.Default#keeps-closers", c.P.Pos(def.Pos()), "the server keeps the closer slice it is constructed with", "the server constructor drops the closers it is given")
		}
	}

	// ---- R15.2
	ab := findFunc(c, "server", "abort", roleAbort)
	if ab == nil {
		c.Undecided("R15.2", "server.abort", "-", "anchor not found")
	} else {
		loops := ssax.Loops(ab)
		var closeCall ssa.Instruction
		ssax.Instrs(ab, func(ins ssa.Instruction) {
			cc := ssax.CallOf(ins)
			if cc != nil && cc.IsInvoke() && cc.Method.Name() == "Close" {
				closeCall = ins
			}
		})
		good := false
		why := "abort never calls Close"
		if closeCall != nil {
			cc := ssax.CallOf(closeCall)
			srcs := pv.Sources(cc.Value)
			elem := ssax.All(srcs, func(s ssax.Src) bool {
				return s.Kind == "param" && paramIndex(s.V.(*ssa.Parameter)) == 0 && s.PathIs("[]")
			})
			l := ssax.InnermostLoop(loops, closeCall.Block())
			why = "Close is not applied to every element of the slice"
			if elem && l != nil {
				// only the element's nil test may guard the Close inside the loop
				good = true
				for _, ec := range ssax.DomConds(closeCall.Block()) {
					if !l.Blocks[ec.If.Block()] || ec.If.Block() == l.Header {
						continue
					}
					bo, ok := ec.Cond.(*ssa.BinOp)
					if !ok || !(ssax.IsNilConst(bo.X) || ssax.IsNilConst(bo.Y)) {
						good = false
						why = "Close of an element is skipped under a condition other than the element being nil"
					}
				}
				// the loop sweeps the whole slice: no exit except the range's own
				for b := range l.Blocks {
					for _, s := range b.Succs {
						if !l.Blocks[s] && b != l.Header {
							good = false
							why = "the closing loop can stop before the end of the slice"
						}
					}
				}
			}
		}
		c.Check(good, "R15.2", "server.abort#closes-all", c.P.Pos(ab.Pos()), "every non-nil closer of the slice is closed", why)
	}

	runR153(c)
	runR154(c)
	c.Rule("R15.9", "a handler holding a list of backend connections closes every element of the list (the indices its Close calls can take cover 0 .. len-1)", 1)
	checkCloseCoversAllNodes(c, "R15.9")
	c.Rule("R15.5", "a get drains both channels of the backend handler: the loop that receives from them is left only when both are closed, and nothing returns from inside it (the handler's producer goroutine blocks forever on an unbuffered send otherwise)", 4)
	runR155(c)
}

func runR153(c *core.Ctx) {
	las := c.P.Func("server", "ListenAndServe")
	if las == nil {
		c.Undecided("R15.3", "server.ListenAndServe", "-", "anchor not found")
		return
	}
	var accept *ssa.Call
	ssax.Instrs(las, func(ins ssa.Instruction) {
		if call, ok := ins.(*ssa.Call); ok && call.Call.IsInvoke() && call.Call.Method.Name() == "Accept" {
			accept = call
		}
	})
	if accept == nil {
		c.Undecided("R15.3", "server.ListenAndServe#accept", c.P.Pos(las.Pos()), "no Accept call")
		return
	}
	type res struct {
		name    string
		acq     *ssa.Call
		aliases map[ssa.Value]bool
	}
	ext0 := func(call *ssa.Call) ssa.Value {
		for _, r := range *call.Referrers() {
			if ex, ok := r.(*ssa.Extract); ok && ex.Index == 0 {
				return ex
			}
		}
		return nil
	}
	var resources []*res
	remote := &res{name: "client socket", acq: accept, aliases: map[ssa.Value]bool{}}
	if v := ext0(accept); v != nil {
		remote.aliases[v] = true
	}
	ssax.Instrs(las, func(ins ssa.Instruction) {
		call, ok := ins.(*ssa.Call)
		if !ok {
			return
		}
		if call.Call.IsInvoke() && call.Call.Method.Name() == "Configure" {
			if v := ext0(call); v != nil {
				remote.aliases[v] = true
			}
		}
		for i, pi := range []int{4, 5} {
			if pi < len(las.Params) && call.Call.Value == ssa.Value(las.Params[pi]) {
				r := &res{name: fmt.Sprintf("L%d handler", i+1), acq: call, aliases: map[ssa.Value]bool{}}
				if v := ext0(call); v != nil {
					r.aliases[v] = true
				}
				resources = append(resources, r)
			}
		}
	})
	resources = append([]*res{remote}, resources...)
	var goIns *ssa.Go
	ssax.Instrs(las, func(ins ssa.Instruction) {
		if g, ok := ins.(*ssa.Go); ok {
			goIns = g
		}
	})
	handedOver := func(ins ssa.Instruction, r *res) bool {
		if ins != ssa.Instruction(goIns) || goIns == nil {
			return false
		}
		for _, a := range goIns.Call.Args {
			if r.aliases[a] {
				return true
			}
		}
		if mc, ok := goIns.Call.Value.(*ssa.MakeClosure); ok {
			for _, b := range mc.Bindings {
				if r.aliases[b] {
					return true
				}
				// captured by reference: the cell holds the value
				if al, ok := b.(*ssa.Alloc); ok {
					for _, st := range ssax.StoresTo(al) {
						if r.aliases[st.Val] {
							return true
						}
					}
				}
			}
		}
		return false
	}
	for _, r := range resources {
		key := "server.ListenAndServe#" + strings.ReplaceAll(r.name, " ", "-")
		e := errResult(r.acq)
		// start: the success edge of the acquisition
		var start *ssa.BasicBlock
		if e != nil {
			for _, ref := range *e.Referrers() {
				if bo, ok := ref.(*ssa.BinOp); ok && (ssax.IsNilConst(bo.X) || ssax.IsNilConst(bo.Y)) {
					for _, rr := range *bo.Referrers() {
						if ifi, ok := rr.(*ssa.If); ok && ifi.Block() == r.acq.Block() {
							if bo.Op == token.NEQ {
								start = ifi.Block().Succs[1]
							} else {
								start = ifi.Block().Succs[0]
							}
						}
					}
				}
			}
		}
		if start == nil {
			c.Undecided("R15.3", key, c.P.Pos(r.acq.Pos()), "the acquisition's error is not tested right after the call")
			continue
		}
		isRelease := func(ins ssa.Instruction) bool {
			if cc := ssax.CallOf(ins); cc != nil && cc.IsInvoke() && cc.Method.Name() == "Close" {
				for _, d := range ssax.Defs(cc.Value) {
					if r.aliases[d] {
						return true
					}
				}
			}
			// handed to abort in its closer slice (abort closes every non-nil element, R15.2)
			if isAbortCall(ins) {
				if cc := ssax.CallOf(ins); cc != nil && len(cc.Args) > 0 {
					for _, s := range (&ssax.Prov{}).Sources(cc.Args[0], "[]") {
						if r.aliases[s.V] || (s.Kind == "call" && s.Call == &r.acq.Call && s.Res == 0) {
							return true
						}
						if s.Kind == "call" && s.Res == 0 {
							for a := range r.aliases {
								if ex, ok := a.(*ssa.Extract); ok {
									if call, ok := ex.Tuple.(*ssa.Call); ok && &call.Call == s.Call {
										return true
									}
								}
							}
						}
					}
				}
			}
			return handedOver(ins, r)
		}
		hit, trail := (ssax.Reach{
			Target: func(ins ssa.Instruction) bool { return ins == ssa.Instruction(accept) },
			Avoid:  isRelease,
		}).FromBlock(start)
		c.Check(hit == nil, "R15.3", key, c.P.Pos(r.acq.Pos()), "closed or handed to the connection's goroutine on every path to the next accept",
			"the "+r.name+" acquired here can reach the next Accept without being closed or handed over: it leaks on an error path", ssax.BlockTrail(c.P.Fset, trail)...)
	}
	// the goroutine: every return aborts all three or passed them to the server constructor
	if goIns == nil {
		c.Undecided("R15.3", "server.ListenAndServe#goroutine", c.P.Pos(las.Pos()), "no per-connection goroutine")
		return
	}
	mc, ok := goIns.Call.Value.(*ssa.MakeClosure)
	if !ok {
		c.Undecided("R15.3", "server.ListenAndServe#goroutine", c.P.Pos(goIns.Pos()), "the goroutine is not a closure")
		return
	}
	cl := mc.Fn.(*ssa.Function)
	pv := &ssax.Prov{}
	holdsAll := func(slice ssa.Value) bool {
		// the client socket (the goroutine's parameter) and the two handlers captured from the accept loop
		seen := map[string]bool{}
		hasParam := false
		for _, s := range pv.Sources(slice, "[]") {
			switch s.Kind {
			case "param":
				hasParam = true
				seen[s.String()] = true
			case "freevar", "call":
				seen[fmt.Sprintf("%s@%p", s.String(), s.V)] = true
			}
		}
		return hasParam && len(seen) >= 3
	}
	owns := func(ins ssa.Instruction) bool {
		cc := ssax.CallOf(ins)
		if cc == nil {
			return false
		}
		if isAbortCall(ins) {
			return holdsAll(cc.Args[0])
		}
		// server constructor: a call of the ServerConst free variable with the closer slice first
		isFV := false
		if _, ok := cc.Value.(*ssa.FreeVar); ok {
			isFV = true
		} else if u, ok := cc.Value.(*ssa.UnOp); ok && u.Op == token.MUL {
			_, isFV = u.X.(*ssa.FreeVar)
		}
		if isFV && strings.HasSuffix(types.TypeString(cc.Value.Type(), nil), "server.ServerConst") && len(cc.Args) == 3 {
			return holdsAll(cc.Args[0])
		}
		return false
	}
	n := 0
	for _, r := range ssax.Returns(cl) {
		n++
		hit, trail := (ssax.Reach{Target: func(ins ssa.Instruction) bool { return ins == ssa.Instruction(r) }, Avoid: owns}).FromBlock(cl.Blocks[0])
		c.Check(hit == nil, "R15.3", fmt.Sprintf("server.ListenAndServe$goroutine#return@%d", n), c.P.Pos(r.Pos()),
			"all three closers are aborted or owned by the server before the goroutine ends",
			"the per-connection goroutine can end without closing the client socket and both backend handlers, or hands the server a closer slice that lacks one of them", ssax.BlockTrail(c.P.Fset, trail)...)
	}
}

func runR154(c *core.Ctx) {
	pv := &ssax.Prov{}
	for _, rel := range []string{"handlers/memcached/std", "handlers/memcached/chunked"} {
		impl, ok := handlerImpl(c, rel)
		if !ok {
			c.Undecided("R15.4", rel+".Handler", "-", "handler not found")
			continue
		}
		ctor := c.P.Func(rel, "NewHandler")
		cls := c.P.Method(impl, "Close")
		key := short(rel) + ".Handler#close-own-connection"
		if ctor == nil || cls == nil {
			c.Undecided("R15.4", key, "-", "constructor or Close not found")
			continue
		}
		// field holding the constructor's connection parameter
		field := ""
		ssax.Instrs(ctor, func(ins ssa.Instruction) {
			if st, ok := ins.(*ssa.Store); ok {
				if ssax.Unwrap(st.Val) == ssa.Value(ctor.Params[0]) {
					if n, ok := ssax.FieldName(st.Addr); ok {
						field = n
					}
				}
			}
		})
		closes := false
		ssax.Instrs(cls, func(ins ssa.Instruction) {
			cc := ssax.CallOf(ins)
			if cc != nil && cc.IsInvoke() && cc.Method.Name() == "Close" {
				if ssax.All(pv.Sources(cc.Value), func(s ssax.Src) bool { return s.Kind == "param" && s.PathIs(field) }) {
					closes = true
				}
			}
		})
		c.Check(field != "" && closes, "R15.4", key, c.P.Pos(cls.Pos()), "Close closes the connection stored by NewHandler (field "+field+")", "the handler's Close does not close the connection its constructor stored: the backend socket outlives the client connection")
	}
	for _, name := range []string{"Regular", "Chunked"} {
		fn := c.P.Func("handlers/memcached", name)
		key := "memcached." + name + "#socket-ownership"
		if fn == nil || len(fn.AnonFuncs) == 0 {
			c.Undecided("R15.4", key, "-", "constructor not found")
			continue
		}
		cl := fn.AnonFuncs[0]
		var dial *ssa.Call
		ssax.Instrs(cl, func(ins ssa.Instruction) {
			if call, ok := ins.(*ssa.Call); ok && ssax.CalleeName(&call.Call) == "net.Dial" {
				dial = call
			}
		})
		if dial == nil {
			c.Undecided("R15.4", key, c.P.Pos(cl.Pos()), "no net.Dial")
			continue
		}
		var conn ssa.Value
		for _, r := range *dial.Referrers() {
			if ex, ok := r.(*ssa.Extract); ok && ex.Index == 0 {
				conn = ex
			}
		}
		// every return either returns a handler built from conn, or follows the error edge of the dial
		derr := errResult(dial)
		good := conn != nil && derr != nil
		for _, r := range ssax.Returns(cl) {
			if !good {
				break
			}
			fromConn := false
			for _, s := range pv.Sources(r.Results[0]) {
				if s.Kind == "call" && strings.HasSuffix(ssax.CalleeName(s.Call), ".NewHandler") && len(s.Call.Args) > 0 && ssax.Unwrap(s.Call.Args[0]) == conn {
					fromConn = true
				}
			}
			onErr := false
			for _, ec := range ssax.DomConds(r.Block()) {
				if bo, ok := ec.Cond.(*ssa.BinOp); ok && (bo.X == derr || bo.Y == derr) && (bo.Op == token.NEQ) == ec.True {
					onErr = true
				}
			}
			if !fromConn && !onErr {
				good = false
			}
		}
		c.Check(good, "R15.4", key, c.P.Pos(dial.Pos()), "a successfully dialled socket always ends up in the returned handler", "a dialled socket can be dropped without being wrapped in the returned handler or closed")
	}
}

func runR155(c *core.Ctx) {
	for _, ctor := range inScopeCtors {
		role, err := resolveOrca(c, ctor)
		if err != nil {
			continue
		}
		for _, m := range []string{"Get", "GetE"} {
			fn := c.P.Method(role.Impl, m)
			if fn == nil || len(fn.Blocks) == 0 {
				continue
			}
			loops := ssax.Loops(fn)
			counts := map[string]int{}
			ssax.Instrs(fn, func(ins ssa.Instruction) {
				sel, ok := ins.(*ssa.Select)
				if !ok {
					return
				}
				l := ssax.InnermostLoop(loops, sel.Block())
				if l == nil {
					return
				}
				key := ordinalKey(counts, core.FuncName(fn)+"#drain")
				var chans []ssa.Value
				for _, st := range sel.States {
					if st.Dir == types.RecvOnly {
						chans = append(chans, st.Chan)
					}
				}
				var bad []string
				for b := range l.Blocks {
					for _, x := range b.Instrs {
						if _, isRet := x.(*ssa.Return); isRet {
							bad = append(bad, "return inside the receive loop at "+c.P.Pos(x.Pos()))
						}
					}
					for _, s := range b.Succs {
						if l.Blocks[s] {
							continue
						}
						if _, isPanic := s.Instrs[len(s.Instrs)-1].(*ssa.Panic); isPanic {
							continue // "blocking select matched no case": unreachable by construction
						}
						// the exit edge must be taken only when every channel is nil (closed and cleared)
						conds := append(ssax.DomConds(b), edgeCondOf(b, s)...)
						for _, ch := range chans {
							okc := false
							for _, ec := range conds {
								bo, isBo := ec.Cond.(*ssa.BinOp)
								if !isBo || !(ssax.IsNilConst(bo.Y) || ssax.IsNilConst(bo.X)) {
									continue
								}
								x := bo.X
								if ssax.IsNilConst(x) {
									x = bo.Y
								}
								if sameChanVar(x, ch) && ((bo.Op == token.EQL && ec.True) || (bo.Op == token.NEQ && !ec.True)) {
									okc = true
								}
							}
							if !okc {
								bad = append(bad, "the loop is left at "+c.P.Pos(firstPos(s))+" while a handler channel may still be open")
							}
						}
					}
				}
				c.Check(len(bad) == 0, "R15.5", key, c.P.Pos(sel.Pos()), "the receive loop ends only when both handler channels are closed", strings.Join(uniq(bad), "; ")+": the handler's goroutine is left blocked on its next send and never ends")
			})
		}
	}
}

// sameChanVar: x is the channel variable ch, possibly after being set to nil in this iteration (a phi of ch and nil).
func sameChanVar(x, ch ssa.Value) bool {
	seen := map[ssa.Value]bool{}
	var walk func(v ssa.Value) bool
	walk = func(v ssa.Value) bool {
		if v == ch || ssax.IsNilConst(v) {
			return true
		}
		if seen[v] {
			return true
		}
		seen[v] = true
		phi, ok := v.(*ssa.Phi)
		if !ok {
			return false
		}
		for _, e := range phi.Edges {
			if !walk(e) {
				return false
			}
		}
		return true
	}
	return walk(x)
}

// runR157 (R15.7, shared as R10.15): a handler that failed to open is not touched. Where the accept loop uses the
// handler value of a handler-constructor call on that call's own failure edge (hands it to abort, closes it), every
// handler constructor in the repository must return the nil interface together with its error - a zero-valued concrete
// handler wrapped in the interface is non-nil, gets closed, and its Close dereferences a connection that was never
// opened: a panic in the accept loop, which no recover guards, ends the process.
func runR157(c *core.Ctx, rule string) {
	las := c.P.Func("server", "ListenAndServe")
	if las == nil {
		c.Undecided(rule, "server.ListenAndServe#failed-handler-untouched", "-", "anchor not found")
		return
	}
	// constructors that can return a non-nil handler together with an error
	var dirty []string
	wired := wiredHandlerConstructors(c)
	for _, fn := range c.P.RepoFuncs("") {
		if wired != nil && !wired[fn] {
			continue // not a constructor the proxy (app/memproxy.go) hands to the accept loop
		}
		sig := fn.Signature
		if sig.Params().Len() != 0 || sig.Results().Len() != 2 || ssax.ShortType(sig.Results().At(0).Type()) != "handlers.Handler" || types.TypeString(sig.Results().At(1).Type(), nil) != "error" {
			continue
		}
		for _, r := range ssax.Returns(fn) {
			if len(r.Results) != 2 || ssax.IsNilConst(r.Results[1]) {
				continue
			}
			for _, d := range ssax.Defs(r.Results[0]) {
				if !ssax.IsNilConst(d) && !definitelyNilOn(r.Results[1], r.Block()) {
					dirty = append(dirty, core.FuncName(fn)+" can return a non-nil handler with an error ("+c.P.Pos(r.Pos())+")")
				}
			}
		}
	}
	dirty = uniq(dirty)
	n := 0
	for i, pi := range []int{4, 5} {
		if pi >= len(las.Params) {
			continue
		}
		var acq *ssa.Call
		ssax.Instrs(las, func(ins ssa.Instruction) {
			if call, ok := ins.(*ssa.Call); ok && call.Call.Value == ssa.Value(las.Params[pi]) {
				acq = call
			}
		})
		if acq == nil {
			continue
		}
		n++
		key := fmt.Sprintf("server.ListenAndServe#failed-L%d-handler-untouched", i+1)
		var hv ssa.Value
		for _, r := range *acq.Referrers() {
			if ex, ok := r.(*ssa.Extract); ok && ex.Index == 0 {
				hv = ex
			}
		}
		e := errResult(acq)
		if hv == nil || e == nil {
			c.OK(rule, key, c.P.Pos(acq.Pos()), "the handler value is not used")
			continue
		}
		// the handler value and the local cells it is spilled to (variables captured by the connection's goroutine)
		cells := map[ssa.Value]bool{}
		for _, r := range *hv.Referrers() {
			if st, ok := r.(*ssa.Store); ok && st.Val == hv {
				cells[st.Addr] = true
			}
		}
		used := ""
		for _, st := range failureStarts(e, las) {
			hit, _ := (ssax.Reach{
				Target: func(ins ssa.Instruction) bool {
					if _, isStore := ins.(*ssa.Store); isStore {
						return false
					}
					for _, op := range ins.Operands(nil) {
						if op == nil || *op == nil {
							continue
						}
						if *op == hv {
							return true
						}
						if u, ok := (*op).(*ssa.UnOp); ok && u.Op == token.MUL && cells[u.X] {
							return true
						}
					}
					return false
				},
				Avoid: func(ins ssa.Instruction) bool {
					call, ok := ins.(*ssa.Call)
					return ok && call.Call.IsInvoke() && call.Call.Method.Name() == "Accept"
				},
			}).FromBlock(st)
			if hit != nil {
				used = c.P.Pos(hit.Pos())
			}
		}
		switch {
		case used == "":
			c.OK(rule, key, c.P.Pos(acq.Pos()), "on the failure edge of the constructor call the handler value is not used")
		case len(dirty) == 0:
			c.OK(rule, key, c.P.Pos(acq.Pos()), "the handler value is used on the failure edge ("+used+"), and every handler constructor returns the nil interface with its error")
		default:
			c.Violate(rule, key, c.P.Pos(acq.Pos()), "the handler value of the failed constructor call is used at "+used+", and "+strings.Join(dirty, "; ")+": the non-nil zero handler is closed, its Close dereferences a connection that was never opened, and the panic - in the accept loop, outside any recover - ends the process")
		}
	}
	if n == 0 {
		c.Undecided(rule, "server.ListenAndServe#failed-handler-untouched", c.P.Pos(las.Pos()), "no handler constructor call found")
	}
}

// definitelyNilOn: the error value is the nil constant on every path into block b (through its reaching definitions,
// or because b is dominated by the test e == nil).
func definitelyNilOn(e ssa.Value, b *ssa.BasicBlock) bool {
	ds := ssax.Defs(e)
	if len(ds) == 0 {
		return false
	}
	for _, d := range ds {
		if ssax.IsNilConst(d) {
			continue
		}
		ok := false
		for _, ec := range ssax.DomConds(b) {
			bo, isBO := ec.Cond.(*ssa.BinOp)
			if !isBO || !(ssax.IsNilConst(bo.X) || ssax.IsNilConst(bo.Y)) {
				continue
			}
			x := bo.X
			if ssax.IsNilConst(x) {
				x = bo.Y
			}
			same := false
			for _, dd := range ssax.Defs(x) {
				if dd == d {
					same = true
				}
			}
			if same && ((bo.Op == token.EQL && ec.True) || (bo.Op == token.NEQ && !ec.True)) {
				ok = true
			}
		}
		if !ok {
			return false
		}
	}
	return true
}

// wiredHandlerConstructors: the handler-constructor functions app/memproxy.go can hand to server.ListenAndServe (the
// closures returned by the factories it calls, and plain functions it passes). nil when main cannot be analysed.
func wiredHandlerConstructors(c *core.Ctx) map[*ssa.Function]bool {
	app, err := c.P.LoadApp("memproxy.go")
	if err != nil {
		return nil
	}
	mainFn := app.SSA.Func("main")
	if mainFn == nil {
		return nil
	}
	out := map[*ssa.Function]bool{}
	pv := &ssax.Prov{}
	var add func(v ssa.Value, d int)
	add = func(v ssa.Value, d int) {
		if v == nil || d > 6 {
			return
		}
		for _, dd := range ssax.Defs(v) {
			switch x := ssax.Unwrap(dd).(type) {
			case *ssa.Function:
				out[x] = true
			case *ssa.MakeClosure:
				out[x.Fn.(*ssa.Function)] = true
			case *ssa.ChangeType:
				add(x.X, d+1)
			case *ssa.Call:
				if f := x.Call.StaticCallee(); f != nil {
					for _, r := range ssax.Returns(f) {
						if len(r.Results) > 0 {
							add(r.Results[0], d+1)
						}
					}
				}
			case *ssa.Phi:
				for _, e := range x.Edges {
					add(e, d+1)
				}
			}
		}
	}
	_ = pv
	ssax.Instrs(mainFn, func(ins ssa.Instruction) {
		cc := ssax.CallOf(ins)
		if cc == nil || ssax.CalleeName(cc) != core.Mod+"/server.ListenAndServe" || len(cc.Args) < 6 {
			return
		}
		add(cc.Args[4], 0)
		add(cc.Args[5], 0)
	})
	if len(out) == 0 {
		return nil
	}
	return out
}

// checkCloseCoversAllNodes (R15.9): a handler that holds a list of backend connections (the cluster handler: one per
// node) closes all of them when the client goes away. Every Close call whose receiver is selected from an element of a
// slice field of the handler contributes the indices it can see: a constant, or the counter of the loop it sits in
// (start .. bound). Together they must cover 0 .. len(list)-1; anything less leaves backend connections open for
// every client that disconnects.
func checkCloseCoversAllNodes(c *core.Ctx, rule string) {
	n := 0
	for _, rel := range []string{"handlers/memcached/cluster"} {
		for _, fn := range pkgFuncs(c, rel) {
			if fn.Name() != "Close" || fn.Signature.Recv() == nil {
				continue
			}
			type span struct {
				lo  int64 // first index
				hi  int64 // one past the last index, relative to len when rel is set
				rel bool
			}
			spans := map[string][]span{}
			loops := ssax.Loops(fn)
			ssax.Instrs(fn, func(ins ssa.Instruction) {
				cc := ssax.CallOf(ins)
				if cc == nil || !strings.HasSuffix(ssax.CalleeName(cc), ".Close") {
					return
				}
				var recv ssa.Value
				if cc.IsInvoke() {
					recv = cc.Value
				} else if len(cc.Args) > 0 {
					recv = cc.Args[0]
				}
				// the element the receiver is selected from
				var ia *ssa.IndexAddr
				v := recv
				for i := 0; i < 12 && v != nil && ia == nil; i++ {
					switch x := v.(type) {
					case *ssa.IndexAddr:
						ia = x
					case *ssa.Field:
						v = x.X
					case *ssa.FieldAddr:
						v = x.X
					case *ssa.UnOp:
						v = x.X
					case *ssa.MakeInterface:
						v = x.X
					case *ssa.ChangeInterface:
						v = x.X
					case *ssa.Alloc:
						// a local copy of the element (for _, node := range list)
						v = nil
						if x.Referrers() != nil {
							for _, r := range *x.Referrers() {
								if st, ok := r.(*ssa.Store); ok && st.Addr == ssa.Value(x) {
									v = st.Val
								}
							}
						}
					default:
						v = nil
					}
				}
				if ia == nil {
					return
				}
				_, path := selPath(ia.X)
				list := strings.Join(path, ".")
				if list == "" {
					return
				}
				if k, isC := ssax.ConstInt(ia.Index); isC {
					spans[list] = append(spans[list], span{lo: k, hi: k + 1})
					return
				}
				if l := ssax.InnermostLoop(loops, ia.Block()); l != nil && isRangeLoop(l) && strings.HasPrefix(ia.Block().Comment, "rangeindex.body") {
					// for ... range list: every element
					spans[list] = append(spans[list], span{lo: 0, hi: 0, rel: true})
					return
				}
				// a loop counter: phi(start, phi+1) tested against len(list) (+ constant) in the loop header
				phi, ok := ssax.Unwrap(ia.Index).(*ssa.Phi)
				if !ok {
					spans[list] = append(spans[list], span{lo: -1})
					return
				}
				l := ssax.InnermostLoop(loops, ins.Block())
				start := int64(-1)
				for _, e := range phi.Edges {
					if k, isC := ssax.ConstInt(e); isC {
						if _, isConst := e.(*ssa.Const); isConst {
							start = k
						}
					}
				}
				// range loops start at -1 and pre-increment: the index used is phi+1 ... handled through the comment
				if l != nil && isRangeLoop(l) {
					spans[list] = append(spans[list], span{lo: 0, hi: 0, rel: true})
					return
				}
				if l == nil || start < 0 {
					spans[list] = append(spans[list], span{lo: -1})
					return
				}
				ifi, ok := l.Header.Instrs[len(l.Header.Instrs)-1].(*ssa.If)
				bo, ok2 := ssa.Value(nil), false
				if ok {
					bo, ok2 = ifi.Cond.(*ssa.BinOp), true
				}
				cond, _ := bo.(*ssa.BinOp)
				if !ok || !ok2 || cond == nil || ssax.Unwrap(cond.X) != ssa.Value(phi) || (cond.Op != token.LSS && cond.Op != token.LEQ) {
					spans[list] = append(spans[list], span{lo: -1})
					return
				}
				off := int64(0)
				bound := ssax.Unwrap(cond.Y)
				if b2, isB := bound.(*ssa.BinOp); isB && (b2.Op == token.ADD || b2.Op == token.SUB) {
					if k, isC := ssax.ConstInt(b2.Y); isC {
						off = k
						if b2.Op == token.SUB {
							off = -k
						}
						bound = ssax.Unwrap(b2.X)
					}
				}
				call, isCall := bound.(*ssa.Call)
				isLen := false
				if isCall {
					if b, isB := call.Call.Value.(*ssa.Builtin); isB && b.Name() == "len" {
						_, p2 := selPath(call.Call.Args[0])
						isLen = strings.Join(p2, ".") == list
					}
				}
				if !isLen {
					spans[list] = append(spans[list], span{lo: -1})
					return
				}
				if cond.Op == token.LEQ {
					off++
				}
				spans[list] = append(spans[list], span{lo: start, hi: off, rel: true})
			})
			var lists []string
			for l := range spans {
				lists = append(lists, l)
			}
			sort.Strings(lists)
			for _, list := range lists {
				n++
				key := core.FuncName(fn) + "#closes-all:" + list
				ss := spans[list]
				unknown := false
				for _, s := range ss {
					if s.lo < 0 {
						unknown = true
					}
				}
				if unknown {
					c.Undecided(rule, key, c.P.Pos(fn.Pos()), "a Close on an element of "+list+" uses an index that is neither a constant nor a recognised loop counter")
					continue
				}
				// coverage: constants and [start, len+off) spans must chain from 0 to len
				sort.Slice(ss, func(i, j int) bool { return ss[i].lo < ss[j].lo })
				next, done := int64(0), false
				for _, s := range ss {
					if done || s.lo > next {
						break
					}
					if s.rel {
						if s.hi >= 0 {
							done = true
						}
						continue
					}
					if s.hi > next {
						next = s.hi
					}
				}
				c.Check(done, rule, key, c.P.Pos(fn.Pos()), "the closes cover every element of "+list,
					"the Close calls on the elements of "+list+" do not cover the whole list (a loop that starts late or stops before the last element): the backend connections left out stay open every time a client disconnects")
			}
		}
	}
	if n == 0 {
		c.Undecided(rule, "cluster.Handler.Close#closes-all", "-", "no Close over a list of connections found in the cluster handler")
	}
}
