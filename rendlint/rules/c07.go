package rules

import (
	"fmt"
	"go/token"
	"go/types"
	"sort"
	"strings"

	"golang.org/x/tools/go/ssa"

	"rendlint/core"
	"rendlint/ssax"
)

func init() {
	Meta["C07"] = &PropMeta{
		Title: "Wire decoding is faithful, exact and independent of packet boundaries",
		Explain: "Table and provenance rules over both parsers against the memcached protocol specification: (R7.1) every (request value, request type) pair returned matches the connection loop's assertions; (R7.2) the binary parser maps each opcode value to the request type and quiet-ness the specification gives it, and the quiet-get batch decoders grow keys, opaques and quiet flags together from the same header, mark quiet per opcode and set the no-op terminator fields only under a no-op header; (R7.3) the four header (de)serialisers use the specification's offsets and agree pairwise; (R7.4) decoded fields come from the right wire positions (flags then exptime, key of KeyLength bytes, opaque from the header, data of total-extras-key bytes); (R7.5) on each success path a decoder consumes exactly the request's declared bytes under the specification's extras length; (R7.6) parsers read only through full reads (ReadAtLeast/ReadFull with min == len(buf), ReadString, Peek), which is what makes decoding independent of how the stream is segmented; (R7.7) the first byte decides the protocol (0x80 binary, a lowercase letter text); (R7.8) text command lines are split at the specification's positions. " +
			"Decides the decoder's tables and data flow; end-to-end fidelity for arbitrary byte strings as a run-time fact is not decided.",
		Assume: commonAssume,
		Run:    runC07,
	}
}

type opSpec struct {
	rt     string
	quiet  int // 0 false, 1 true, -1 not applicable
	extras int64
}

var binarySpec = map[int64]opSpec{
	0x00: {"RequestGet", 0, 0}, 0x09: {"RequestGet", 1, 0},
	0x01: {"RequestSet", 0, 8}, 0x11: {"RequestSet", 1, 8},
	0x02: {"RequestAdd", 0, 8}, 0x12: {"RequestAdd", 1, 8},
	0x03: {"RequestReplace", 0, 8}, 0x13: {"RequestReplace", 1, 8},
	0x0e: {"RequestAppend", 0, 0}, 0x19: {"RequestAppend", 1, 0},
	0x0f: {"RequestPrepend", 0, 0}, 0x1a: {"RequestPrepend", 1, 0},
	0x04: {"RequestDelete", -1, 0}, 0x1c: {"RequestTouch", -1, 4}, 0x1d: {"RequestGat", -1, 4},
	0x0a: {"RequestNoop", -1, 0}, 0x07: {"RequestQuit", 0, 0}, 0x17: {"RequestQuit", 1, 0},
	0x0b: {"RequestVersion", -1, 0}, 0x10: {"RequestStat", -1, 0},
	0x40: {"RequestGetE", 0, 0}, 0x41: {"RequestGetE", 1, 0},
}

func opcodeCond(b *ssa.BasicBlock) (int64, bool) {
	for _, ec := range ssax.DomConds(b) {
		if v, ok := condEqConst(ec, func(v ssa.Value) bool { return isFieldLoad(v, "Opcode") }); ok {
			return v, true
		}
	}
	return 0, false
}

// parseRow is one success return of the binary Parse method.
type parseRow struct {
	opcode int64
	rt     int64
	block  *ssa.BasicBlock
	req    ssa.Value
	pos    token.Pos
}

func binaryParseRows(c *core.Ctx) ([]parseRow, *ssa.Function) {
	impl := core.Impl{Named: c.P.Named("protocol/binprot", "BinaryParser"), Pkg: c.P.Pkg("protocol/binprot")}
	if impl.Named == nil {
		return nil, nil
	}
	fn := c.P.Method(impl, "Parse")
	if fn == nil {
		return nil, nil
	}
	var rows []parseRow
	// results travel through result cells (the function defers): group the stores by block
	type cellStore struct {
		idx int
		st  *ssa.Store
	}
	var stores []cellStore
	for _, r := range ssax.Returns(fn) {
		if fn.Recover != nil && r.Block() == fn.Recover {
			continue
		}
		for i, res := range r.Results {
			if u, ok := res.(*ssa.UnOp); ok {
				if al, ok := u.X.(*ssa.Alloc); ok {
					for _, st := range ssax.StoresTo(al) {
						stores = append(stores, cellStore{i, st})
					}
				}
			}
		}
		break
	}
	byBlock := map[*ssa.BasicBlock]map[int]ssa.Value{}
	for _, cs := range stores {
		if byBlock[cs.st.Block()] == nil {
			byBlock[cs.st.Block()] = map[int]ssa.Value{}
		}
		byBlock[cs.st.Block()][cs.idx] = cs.st.Val
	}
	for b, vals := range byBlock {
		errV, rtV := vals[3], vals[1]
		if errV == nil || rtV == nil || definitelyNonNil(errV, b) {
			continue
		}
		op, ok := opcodeCond(b)
		if !ok {
			continue
		}
		pv := &ssax.Prov{Inline: func(f *ssa.Function) bool { return f.Pkg == fn.Pkg }}
		for _, s := range pv.Sources(rtV) {
			if k, ok := ssax.ConstInt(s.V); ok && s.Kind == "const" {
				rows = append(rows, parseRow{op, k, b, vals[0], firstPos(b)})
			}
		}
	}
	sort.Slice(rows, func(i, j int) bool { return rows[i].opcode < rows[j].opcode })
	return rows, fn
}

func runC07(c *core.Ctx) {
	c.Rule("R7.1", "every (request value, request type) pair a parser returns is one the connection loop's assertion for that type accepts", 20)
	c.Rule("R7.2", "the binary parser maps each opcode value to the request type and quiet flag of the memcached specification; the quiet-get batch decoders append key, opaque and quiet flag together from the same header, mark quiet per opcode and set NoopEnd/NoopOpaque only under a no-op header", 22)
	c.Rule("R7.3", "the four header (de)serialisers use the specification's byte offsets (opcode 1, key length 2:4, extras 4, status 6:8, total body 8:12, opaque 12:16) and check/emit the right magic byte", 4)
	c.Rule("R7.4", "decoded fields come from the right wire positions: flags from the first extras word and exptime from the second, key of KeyLength bytes, opaque from the header, data of total-extras-key bytes", 5)
	c.Rule("R7.5", "on each success path a single-request decoder consumes extras(spec) + key + value bytes, i.e. exactly the declared body of a well-formed request", 10)
	c.Rule("R7.6", "request parsers read only through ReadAtLeast/ReadFull with min == len(buf), ReadString and Peek - never a bare Read that may return short", 6)
	c.Rule("R7.7", "the first byte of a connection decides the protocol: binary iff it equals 0x80, text iff it is a lowercase letter; both look at Peek(1) only", 2)
	c.Rule("R7.8", "text command lines are split at the specification's positions: storage commands key[1] flags[2] exptime[3] bytes[4]; touch key[1] exptime[2]; delete key[1]; get keys[1:]", 4)

	parserReturnPairs(c, "R7.1")
	names := requestTypeNames(c)

	// ---- R7.2 (a) opcode table
	rows, parse := binaryParseRows(c)
	if parse == nil {
		c.Undecided("R7.2", "binprot.BinaryParser.Parse", "-", "parser not found")
	} else {
		seen := map[int64]bool{}
		for _, r := range rows {
			seen[r.opcode] = true
			key := fmt.Sprintf("binprot.Parse#opcode:0x%02x", r.opcode)
			spec, ok := binarySpec[r.opcode]
			pos := c.P.Pos(r.pos)
			if !ok {
				c.Info("R7.2", key, pos, "opcode outside the property's supported subset is decoded as "+names[r.rt])
				continue
			}
			var bad []string
			if names[r.rt] != spec.rt {
				bad = append(bad, fmt.Sprintf("decoded as %s, the specification says %s", names[r.rt], spec.rt))
			}
			if spec.quiet >= 0 && spec.rt != "RequestGet" && spec.rt != "RequestGetE" {
				q, known := rowQuiet(r)
				if !known {
					bad = append(bad, "quiet flag is not a constant")
				} else if q != (spec.quiet == 1) {
					bad = append(bad, fmt.Sprintf("quiet=%v, the specification says %v", q, spec.quiet == 1))
				}
			}
			c.Check(len(bad) == 0, "R7.2", key, pos, fmt.Sprintf("0x%02x -> %s", r.opcode, spec.rt), strings.Join(bad, "; "))
		}
		for op, spec := range binarySpec {
			if !seen[op] {
				c.Violate("R7.2", fmt.Sprintf("binprot.Parse#opcode:0x%02x", op), c.P.Pos(parse.Pos()), fmt.Sprintf("no case decodes opcode 0x%02x (%s): the supported command is answered as unknown", op, spec.rt))
			}
		}
	}
	// ---- R7.2 (b) batch decoders
	for _, d := range []struct {
		name       string
		quietOp    int64
		nonQuietOp int64
	}{{"readBatchGet", 0x09, 0x00}, {"readBatchGetE", 0x41, 0x40}} {
		fn := c.P.Func("protocol/binprot", d.name)
		if fn == nil {
			c.Undecided("R7.2", "binprot."+d.name, "-", "decoder not found")
			continue
		}
		checkBatchDecoder(c, fn, d.quietOp, d.nonQuietOp)
	}

	runR73(c)
	runR74(c)
	runR75(c)
	runR76(c)
	runR77(c)
	runR78(c)
	c.Rule("R7.10", "a text storage command consumes its data block and the line terminator that follows it: the buffer holds length+2 bytes, or a further read of the stream lies on every path from the data read to a success return", 1)
	runR710(c, "R7.10")
	c.Rule("R7.11", "every multi-byte integer put on or taken off a memcached wire (client side and backend side) is in network byte order", 8)
	runR711(c, "R7.11")
	c.Rule("R7.12", "the protocol of a connection is the one whose disambiguator recognised the first byte: parser and responder come from one component, selected under that component's own CanParse (or the nothing-matched fallback)", 2)
	runR712(c, "R7.12")
	c.Rule("R7.9", "a request header has one owner: a decoder handed the header its caller releases never puts it back into the pool itself (a header released twice is given to two connections, whose requests then overwrite each other's length fields)", 2)
	runR147(c, "R7.9", poolWrappers(c), "protocol")
	c.Rule("R7.14", "the byte slices a parser puts into a request (Key, Data, Keys[i]) are never views into the connection's read buffer (Peek / ReadSlice / ReadLine results)", 8)
	checkParsedBytesArePrivate(c, "R7.14")
	c.Share(map[string]string{"R14.3": "R7.13"}, runC14) // the scratch buffer a header is decoded from belongs to one decoder: released twice it is shared with another connection's decoder
}

// rowQuiet: the quiet flag of the request built in the row's block.
func rowQuiet(r parseRow) (bool, bool) {
	// helper call with a constant quiet argument in the same block
	for _, ins := range r.block.Instrs {
		if call, ok := ins.(*ssa.Call); ok {
			if callee := call.Call.StaticCallee(); callee != nil && callee.Pkg != nil && strings.HasSuffix(callee.Pkg.Pkg.Path(), "binprot") {
				for i, p := range callee.Params {
					if p.Name() == "quiet" || (types.TypeString(p.Type(), nil) == "bool" && i < len(call.Call.Args)) {
						if v, ok := ssax.ConstInt(call.Call.Args[i]); ok {
							return v != 0, true
						}
					}
				}
			}
		}
	}
	if mi, ok := r.req.(*ssa.MakeInterface); ok && hasField(mi.X.Type(), "Quiet") {
		return literalBool(mi.X, "Quiet")
	}
	return false, false
}

func checkBatchDecoder(c *core.Ctx, fn *ssa.Function, quietOp, nonQuietOp int64) {
	pv := &ssax.Prov{}
	type app struct {
		kind  string
		call  *ssa.Call
		block *ssa.BasicBlock
	}
	var apps []app
	ssax.Instrs(fn, func(ins ssa.Instruction) {
		call, ok := ins.(*ssa.Call)
		if !ok {
			return
		}
		if b, ok := call.Call.Value.(*ssa.Builtin); !ok || b.Name() != "append" {
			return
		}
		switch types.TypeString(call.Type(), nil) {
		case "[][]byte":
			apps = append(apps, app{"keys", call, call.Block()})
		case "[]uint32":
			apps = append(apps, app{"opaques", call, call.Block()})
		case "[]bool":
			apps = append(apps, app{"quiet", call, call.Block()})
		}
	})
	key := "binprot." + fn.Name()
	byBlock := map[*ssa.BasicBlock]map[string]*ssa.Call{}
	for _, a := range apps {
		if byBlock[a.block] == nil {
			byBlock[a.block] = map[string]*ssa.Call{}
		}
		byBlock[a.block][a.kind] = a.call
	}
	elem := func(call *ssa.Call) ssa.Value {
		// the appended element: variadic slice literal of one element
		for _, s := range pv.Sources(call.Call.Args[1], "[]") {
			_ = s
		}
		if sl, ok := call.Call.Args[1].(*ssa.Slice); ok {
			if al, ok := sl.X.(*ssa.Alloc); ok {
				for _, r := range *al.Referrers() {
					if ia, ok := r.(*ssa.IndexAddr); ok {
						for _, st := range ssax.StoresTo(ia) {
							return st.Val
						}
					}
				}
			}
		}
		return nil
	}
	n := 0
	var blocks []*ssa.BasicBlock
	for b := range byBlock {
		blocks = append(blocks, b)
	}
	sort.Slice(blocks, func(i, j int) bool { return blocks[i].Index < blocks[j].Index })
	for _, b := range blocks {
		m := byBlock[b]
		n++
		op, hasOp := opcodeCond(b)
		// the loop body is entered under the loop condition opcode == quietOp, which DomConds reports as well
		k := fmt.Sprintf("%s#append@0x%02x", key, op)
		pos := c.P.Pos(firstPos(b))
		var bad []string
		if m["keys"] == nil || m["opaques"] == nil || m["quiet"] == nil {
			bad = append(bad, fmt.Sprintf("keys, opaques and quiet flags do not grow together (keys:%v opaques:%v quiet:%v)", m["keys"] != nil, m["opaques"] != nil, m["quiet"] != nil))
		} else {
			// same header for key length and opaque
			var hdrK, hdrO ssa.Value
			if kv := elem(m["keys"]); kv != nil {
				for _, d := range ssax.Defs(kv) {
					if ex, ok := d.(*ssa.Extract); ok {
						if call, ok := ex.Tuple.(*ssa.Call); ok && len(call.Call.Args) == 2 {
							if u, ok := ssax.Unwrap(call.Call.Args[1]).(*ssa.UnOp); ok {
								if fa, ok := u.X.(*ssa.FieldAddr); ok {
									if fn, _ := ssax.FieldName(fa); fn == "KeyLength" {
										hdrK = fa.X
									}
								}
							}
						}
					}
				}
			}
			if ov := elem(m["opaques"]); ov != nil {
				if u, ok := ssax.Unwrap(ov).(*ssa.UnOp); ok {
					if fa, ok := u.X.(*ssa.FieldAddr); ok {
						if fn, _ := ssax.FieldName(fa); fn == "OpaqueToken" {
							hdrO = fa.X
						}
					}
				}
			}
			if hdrK == nil || hdrO == nil || hdrK != hdrO {
				bad = append(bad, "the key is not read with the KeyLength of the header whose opaque is recorded")
			}
			qv := elem(m["quiet"])
			q, isConst := ssax.ConstInt(qv)
			if !hasOp || !isConst {
				bad = append(bad, "quiet flag or governing opcode is not constant")
			} else if (op == quietOp) != (q == 1) {
				bad = append(bad, fmt.Sprintf("a key read under opcode 0x%02x is marked quiet=%v", op, q == 1))
			} else if op != quietOp && op != nonQuietOp {
				bad = append(bad, fmt.Sprintf("keys are read under opcode 0x%02x", op))
			}
		}
		c.Check(len(bad) == 0, "R7.2", k, pos, "key, opaque and quiet flag appended together from one header, quiet per opcode", strings.Join(bad, "; "))
	}
	if n < 2 {
		c.Undecided("R7.2", key+"#appends", c.P.Pos(fn.Pos()), "expected a quiet-key loop and a closing non-quiet key")
	}
	// NoopEnd / NoopOpaque: true / header opaque only under a no-op header
	var bad []string
	found := false
	ssax.Instrs(fn, func(ins ssa.Instruction) {
		phi, ok := ins.(*ssa.Phi)
		if !ok {
			return
		}
		isBool := types.TypeString(phi.Type(), nil) == "bool"
		isU32 := types.TypeString(phi.Type(), nil) == "uint32"
		if !isBool && !isU32 {
			return
		}
		for i, e := range phi.Edges {
			pred := phi.Block().Preds[i]
			op, hasOp := opcodeCond(pred)
			if isBool {
				if v, ok := ssax.ConstInt(e); ok && v == 1 && phi.Comment == "noopEnd" {
					found = true
					if !hasOp || op != 0x0a {
						bad = append(bad, "NoopEnd is set on a path that is not governed by a no-op header")
					}
				}
			}
			if isU32 && phi.Comment == "noopOpaque" {
				if _, isC := ssax.ConstInt(e); !isC {
					if !hasOp || op != 0x0a || !isFieldLoad(e, "OpaqueToken") {
						bad = append(bad, "NoopOpaque is taken from something other than the no-op header's opaque")
					}
				}
			}
		}
	})
	if !found {
		// fall back to the returned literal
		for _, r := range ssax.Returns(fn) {
			if len(r.Results) == 2 && ssax.IsNilConst(r.Results[1]) {
				srcs := pv.Sources(r.Results[0], "NoopEnd")
				if ssax.Any(srcs, func(s ssax.Src) bool { v, ok := ssax.ConstInt(s.V); return s.Kind == "const" && ok && v == 1 }) {
					found = true
				}
			}
		}
	}
	if !found {
		bad = append(bad, "NoopEnd is never set: a quiet batch closed by a no-op gets no terminator")
	}
	c.Check(len(bad) == 0, "R7.2", key+"#noop-terminator", c.P.Pos(fn.Pos()), "NoopEnd/NoopOpaque are set exactly under a closing no-op header", strings.Join(uniq(bad), "; "))
}

// ---------------------------------------------------------------- R7.3

var headerSpec = map[string][2]int64{
	"Opcode": {1, 2}, "KeyLength": {2, 4}, "ExtraLength": {4, 5}, "Status": {6, 8}, "TotalBodyLength": {8, 12}, "OpaqueToken": {12, 16},
}

func runR73(c *core.Ctx) {
	type codec struct {
		name   string
		reader bool
		magic  string
		fields []string
	}
	for _, cd := range []codec{
		{"readRequestHeader", true, "MagicRequest", []string{"Opcode", "KeyLength", "ExtraLength", "TotalBodyLength", "OpaqueToken"}},
		{"writeRequestHeader", false, "", []string{"Opcode", "KeyLength", "ExtraLength", "TotalBodyLength", "OpaqueToken"}},
		{"ReadResponseHeader", true, "MagicResponse", []string{"Opcode", "KeyLength", "ExtraLength", "Status", "TotalBodyLength", "OpaqueToken"}},
		{"writeResponseHeader", false, "", []string{"Opcode", "KeyLength", "ExtraLength", "Status", "TotalBodyLength", "OpaqueToken"}},
	} {
		fn := findFunc(c, "protocol/binprot", cd.name, map[string]func(*ssa.Function) bool{
			"readRequestHeader": roleReqHeaderReader, "writeRequestHeader": roleReqHeaderWriter, "writeResponseHeader": roleResHeaderWriter,
		}[cd.name])
		key := "binprot." + cd.name + "#layout"
		if fn == nil {
			c.Undecided("R7.3", key, "-", "codec not found")
			continue
		}
		got := map[string][2]int64{}
		var orderBad []string
		for _, a := range ssax.BufAccesses(fn) {
			if a.Width > 1 && a.Order != "big" {
				orderBad = append(orderBad, fmt.Sprintf("bytes [%d:%d] are (de)serialised in %s-endian order at %s; the protocol is network byte order", a.Lo, a.Hi, map[string]string{"little": "little", "": "unknown"}[a.Order], c.P.Pos(a.Ins.Pos())))
			}
			switch {
			case cd.reader && (a.Kind == "get" || a.Kind == "load"):
				v, ok := a.Ins.(ssa.Value)
				if !ok || v.Referrers() == nil {
					continue
				}
				for _, r := range *v.Referrers() {
					if st, ok := r.(*ssa.Store); ok {
						if n, ok := ssax.FieldName(st.Addr); ok {
							got[n] = [2]int64{a.Lo, a.Hi}
						}
					}
				}
			case !cd.reader && (a.Kind == "put" || a.Kind == "store"):
				if u, ok := ssax.Unwrap(a.Val).(*ssa.UnOp); ok {
					if n, ok := ssax.FieldName(u.X); ok {
						got[n] = [2]int64{a.Lo, a.Hi}
					}
				}
			}
		}
		var bad []string
		bad = append(bad, orderBad...)
		for _, f := range cd.fields {
			g, ok := got[f]
			if !ok {
				bad = append(bad, f+" is not (de)serialised")
			} else if g != headerSpec[f] {
				bad = append(bad, fmt.Sprintf("%s at bytes [%d:%d], the specification says [%d:%d]", f, g[0], g[1], headerSpec[f][0], headerSpec[f][1]))
			}
		}
		// magic
		if cd.reader {
			want, _ := namedConst(c, "protocol/binprot", cd.magic)
			okMagic := false
			ssax.Instrs(fn, func(ins ssa.Instruction) {
				if bo, ok := ins.(*ssa.BinOp); ok && (bo.Op == token.NEQ || bo.Op == token.EQL) {
					if k, ok := ssax.ConstInt(bo.Y); ok && k == want {
						if u, ok := bo.X.(*ssa.UnOp); ok {
							if ia, ok := u.X.(*ssa.IndexAddr); ok {
								if i, ok := ssax.ConstInt(ia.Index); ok && i == 0 {
									okMagic = true
								}
							}
						}
					}
				}
			})
			if !okMagic {
				bad = append(bad, fmt.Sprintf("byte 0 is not checked against the magic 0x%02x", want))
			}
		} else if g, ok := got["Magic"]; !ok || g != [2]int64{0, 1} {
			bad = append(bad, "the magic byte is not written at offset 0")
		}
		c.Check(len(bad) == 0, "R7.3", key, c.P.Pos(fn.Pos()), fmt.Sprintf("%d fields at the specification's offsets", len(cd.fields)), strings.Join(bad, "; "))
	}
	// request headers built by the serialisers carry the request magic
	if mk := findFunc(c, "protocol/binprot", "makeRequestHeader", roleMakeReqHeader); mk != nil {
		want, _ := namedConst(c, "protocol/binprot", "MagicRequest")
		good := false
		ssax.Instrs(mk, func(ins ssa.Instruction) {
			if st, ok := ins.(*ssa.Store); ok {
				if n, _ := ssax.FieldName(st.Addr); n == "Magic" {
					if k, ok := ssax.ConstInt(st.Val); ok && k == want && want == 0x80 {
						good = true
					}
				}
			}
		})
		c.Check(good, "R7.3", "binprot.makeRequestHeader#magic", c.P.Pos(mk.Pos()), "request headers carry magic 0x80", "request headers are not built with magic 0x80")
	}
}

// ---------------------------------------------------------------- R7.4

func isCallTo(v ssa.Value, suffix string, res int) *ssa.Call {
	for _, d := range ssax.Defs(v) {
		switch x := d.(type) {
		case *ssa.Extract:
			if call, ok := x.Tuple.(*ssa.Call); ok && x.Index == res && strings.HasSuffix(ssax.CalleeName(&call.Call), suffix) {
				return call
			}
		case *ssa.Call:
			if res == 0 && strings.HasSuffix(ssax.CalleeName(&x.Call), suffix) {
				return x
			}
		}
	}
	return nil
}

func literalField(al *ssa.Alloc, field string) ssa.Value {
	for _, r := range *al.Referrers() {
		if fa, ok := r.(*ssa.FieldAddr); ok && fa.X == ssa.Value(al) {
			if n, _ := ssax.FieldName(fa); n == field {
				for _, st := range ssax.StoresTo(fa) {
					return st.Val
				}
			}
		}
	}
	return nil
}

func runR74(c *core.Ctx) {
	const rel = "protocol/binprot"
	for _, fn := range pkgFuncs(c, rel) {
		if fn.Parent() != nil {
			continue
		}
		counts := map[string]int{}
		ssax.Instrs(fn, func(ins ssa.Instruction) {
			al, ok := ins.(*ssa.Alloc)
			if !ok {
				return
			}
			tn := ssax.ShortType(al.Type())
			if !isOneOf(tn, "*common.SetRequest", "*common.TouchRequest", "*common.GATRequest", "*common.DeleteRequest") {
				return
			}
			if literalField(al, "Key") == nil {
				return // zero-valued error return
			}
			key := ordinalKey(counts, core.FuncName(fn)+"#literal:"+strings.TrimPrefix(tn, "*common."))
			var bad []string
			// key
			kc := isCallTo(literalField(al, "Key"), "binprot.readString", 0)
			if kc == nil || !isFieldLoad(kc.Call.Args[1], "KeyLength") {
				bad = append(bad, "Key is not read with the header's KeyLength")
			}
			// opaque
			if ov := literalField(al, "Opaque"); ov == nil || !isFieldLoad(ov, "OpaqueToken") {
				bad = append(bad, "Opaque does not come from the header's opaque")
			}
			// extras
			var fc, ec *ssa.Call
			if hasField(al.Type().(*types.Pointer).Elem(), "Exptime") {
				ev := literalField(al, "Exptime")
				ec = isCallTo(ev, "binprot.readUInt32", 0)
				if noExtrasDecoder(fn) {
					// no extras: flags and exptime are zero
					if k, ok := ssax.ConstInt(ev); !ok || k != 0 {
						bad = append(bad, "append/prepend carry no extras, Exptime must be 0")
					}
				} else if ec == nil {
					bad = append(bad, "Exptime is not read from the extras")
				}
			}
			if hasField(al.Type().(*types.Pointer).Elem(), "Flags") && !noExtrasDecoder(fn) {
				fc = isCallTo(literalField(al, "Flags"), "binprot.readUInt32", 0)
				if fc == nil {
					bad = append(bad, "Flags is not read from the extras")
				} else if ec != nil {
					if fc == ec {
						bad = append(bad, "Flags and Exptime are the same extras word")
					} else if !(fc.Block().Dominates(ec.Block()) && (fc.Block() != ec.Block() || ssax.IndexIn(fc) < ssax.IndexIn(ec))) {
						bad = append(bad, "Exptime is read before Flags: the extras words are swapped")
					}
				}
			}
			// the key is read after the extras
			if kc != nil {
				for _, x := range []*ssa.Call{fc, ec} {
					if x != nil && !(x.Block().Dominates(kc.Block())) {
						bad = append(bad, "the key is read before the extras")
					}
				}
			}
			// data
			if hasField(al.Type().(*types.Pointer).Elem(), "Data") {
				dv := literalField(al, "Data")
				ms, isMk := ssax.Unwrap(dv).(*ssa.MakeSlice)
				filled := false
				if isMk {
					for _, r := range *ms.Referrers() {
						if cc := ssax.CallOf(r); cc != nil && ssax.CalleeName(cc) == "io.ReadAtLeast" {
							filled = true
						}
					}
				}
				if !isMk || !filled {
					bad = append(bad, "Data is not a buffer filled by a full read")
				} else if kc != nil && !kc.Block().Dominates(ms.Block()) {
					bad = append(bad, "the value is read before the key")
				}
			}
			c.Check(len(bad) == 0, "R7.4", key, c.P.Pos(al.Pos()), "fields come from their wire positions", strings.Join(bad, "; "))
		})
	}
}

// ---------------------------------------------------------------- R7.5

// consumedOn sums the bytes read along the success path starting after instruction index i of block b.
func consumedOn(c *core.Ctx, b *ssa.BasicBlock, i int) (ssax.Lin, string) {
	sum := ssax.NewLin(0)
	ev := &ssax.SymEval{}
	for steps := 0; steps < 200; steps++ {
		for ; i < len(b.Instrs); i++ {
			ins := b.Instrs[i]
			if _, ok := ins.(*ssa.Return); ok {
				return sum, ""
			}
			if _, ok := ins.(*ssa.RunDefers); ok {
				return sum, ""
			}
			call, ok := ins.(*ssa.Call)
			if !ok {
				continue
			}
			name := ssax.CalleeName(&call.Call)
			switch {
			case strings.HasSuffix(name, "binprot.readUInt32"):
				sum = sum.Add(ssax.NewLin(4))
			case strings.HasSuffix(name, "binprot.readString"):
				sum = sum.Add(ev.Eval(call.Call.Args[1]))
			case name == "io.ReadAtLeast":
				sum = sum.Add(ev.Eval(call.Call.Args[2]))
			case strings.HasSuffix(name, "binprot.setRequest") || strings.HasSuffix(name, "binprot.appendPrependRequest") ||
				strings.HasSuffix(name, "binprot.readBatchGet") || strings.HasSuffix(name, "binprot.readBatchGetE"):
				return sum, "delegates to " + short(name)
			}
		}
		switch len(b.Succs) {
		case 0:
			return sum, ""
		case 1:
			b, i = b.Succs[0], 0
		case 2:
			ifi := b.Instrs[len(b.Instrs)-1].(*ssa.If)
			bo, ok := ifi.Cond.(*ssa.BinOp)
			if !ok {
				return sum, "branch on a non-comparison"
			}
			if ssax.IsNilConst(bo.X) || ssax.IsNilConst(bo.Y) {
				if bo.Op == token.NEQ {
					b, i = b.Succs[1], 0
				} else {
					b, i = b.Succs[0], 0
				}
				continue
			}
			// a length guard (F1's repair): the well-formed request takes the edge that goes on
			if bo.Op == token.LSS || bo.Op == token.GTR || bo.Op == token.LEQ || bo.Op == token.GEQ {
				// follow the successor that does not return immediately with an error
				next := b.Succs[1]
				if isErrorReturnBlock(b.Succs[1]) {
					next = b.Succs[0]
				}
				b, i = next, 0
				continue
			}
			return sum, "branch that is not an error test"
		}
	}
	return sum, "path too long"
}

func isErrorReturnBlock(b *ssa.BasicBlock) bool {
	for _, ins := range b.Instrs {
		if r, ok := ins.(*ssa.Return); ok && len(r.Results) > 0 {
			return !ssax.IsNilConst(r.Results[len(r.Results)-1])
		}
	}
	return false
}

func runR75(c *core.Ctx) {
	rows, parse := binaryParseRows(c)
	if parse == nil {
		return
	}
	helperExtras := map[*ssa.Function]map[int64]bool{}
	for _, r := range rows {
		spec, ok := binarySpec[r.opcode]
		if !ok {
			continue
		}
		key := fmt.Sprintf("binprot.Parse#consumes:0x%02x", r.opcode)
		// the case starts at the block that tested the opcode; walk from the first block dominated by that test
		start := r.block
		for {
			conds := ssax.EdgeConds(start)
			if len(conds) == 0 {
				break
			}
			if _, isOp := condEqConst(conds[0], func(v ssa.Value) bool { return isFieldLoad(v, "Opcode") }); isOp {
				break
			}
			if len(start.Preds) != 1 {
				break
			}
			start = start.Preds[0]
		}
		sum, note := consumedOn(c, start, 0)
		if strings.HasPrefix(note, "delegates to") {
			for _, ins := range r.block.Instrs {
				if call, ok := ins.(*ssa.Call); ok {
					if callee := call.Call.StaticCallee(); callee != nil && strings.HasSuffix(note, callee.Name()) {
						if helperExtras[callee] == nil {
							helperExtras[callee] = map[int64]bool{}
						}
						helperExtras[callee][spec.extras] = true
					}
				}
			}
			continue
		}
		if note != "" {
			c.Undecided("R7.5", key, c.P.Pos(r.pos), note)
			continue
		}
		// expected: extras(spec) + KeyLength (key commands) or 0
		want := ssax.NewLin(spec.extras)
		d := sum.Sub(want)
		okRow := false
		if d.IsConst() && d.Const == 0 {
			okRow = true // header-only command
		}
		if len(d.Terms) == 1 && d.Const == 0 {
			for sym, coef := range d.Terms {
				if coef == 1 && strings.HasSuffix(sym, ".KeyLength") {
					okRow = true
				}
			}
		}
		c.Check(okRow, "R7.5", key, c.P.Pos(r.pos), "consumes "+sum.String()+" = extras + key", fmt.Sprintf("the decoder consumes %s bytes after the header, the specification gives this command %d extras bytes plus the key", sum.String(), spec.extras))
	}
	// helpers: consumed == total under the specification's extras
	var helpers []*ssa.Function
	for h := range helperExtras {
		helpers = append(helpers, h)
	}
	sort.Slice(helpers, func(i, j int) bool { return helpers[i].Name() < helpers[j].Name() })
	for _, h := range helpers {
		if strings.HasPrefix(h.Name(), "readBatch") {
			continue
		}
		key := "binprot." + h.Name() + "#consumes"
		if len(helperExtras[h]) != 1 {
			c.Undecided("R7.5", key, c.P.Pos(h.Pos()), "called for opcodes with different extras lengths")
			continue
		}
		var extras int64
		for e := range helperExtras[h] {
			extras = e
		}
		sum, note := consumedOn(c, h.Blocks[0], 0)
		if note != "" {
			c.Undecided("R7.5", key, c.P.Pos(h.Pos()), note)
			continue
		}
		// substitute ExtraLength := extras(spec); result must be exactly TotalBodyLength
		res := ssax.NewLin(sum.Const)
		for sym, coef := range sum.Terms {
			if strings.HasSuffix(sym, ".ExtraLength") {
				res.Const += coef * extras
			} else {
				res = res.Add(ssax.Sym(sym).Scale(coef))
			}
		}
		good := res.Const == 0 && len(res.Terms) == 1
		for sym, coef := range res.Terms {
			if !(coef == 1 && strings.HasSuffix(sym, ".TotalBodyLength")) {
				good = false
			}
		}
		c.Check(good, "R7.5", key, c.P.Pos(h.Pos()), fmt.Sprintf("consumes %s = TotalBodyLength when extras = %d", sum.String(), extras),
			fmt.Sprintf("the decoder consumes %s bytes; with the specification's %d extras bytes that is %s, not the declared body length: the next request is decoded from the middle of this one", sum.String(), extras, res.String()))
	}
}

// ---------------------------------------------------------------- R7.6 / R7.7 / R7.8

func runR76(c *core.Ctx) {
	for _, rel := range parserPkgs {
		for _, fn := range pkgFuncs(c, rel) {
			// only the request side: functions reading from the client (parsers), not the response header reader used by handlers
			counts := map[string]int{}
			ssax.Instrs(fn, func(ins ssa.Instruction) {
				cc := ssax.CallOf(ins)
				if cc == nil {
					return
				}
				name := ssax.CalleeName(cc)
				pos := c.P.Pos(ins.Pos())
				switch {
				case name == "io.ReadAtLeast" || name == "io.ReadFull":
					key := ordinalKey(counts, core.FuncName(fn)+"#full-read")
					if name == "io.ReadFull" {
						c.OK("R7.6", key, pos, "io.ReadFull")
						return
					}
					ev := &ssax.SymEval{}
					min := ev.Eval(cc.Args[2])
					var blen ssax.Lin
					if n, ok := sliceConstLen(cc.Args[1]); ok {
						blen = ssax.NewLin(n)
					} else if ms, ok := ssax.Unwrap(cc.Args[1]).(*ssa.MakeSlice); ok {
						blen = ev.Eval(ms.Len)
					} else {
						// pooled fixed-size buffer: judged by the constant minimum against the header length
						blen = min
						if k, ok := ssax.ConstInt(cc.Args[2]); !ok || k != 24 {
							c.Undecided("R7.6", key, pos, "buffer of unknown length")
							return
						}
					}
					c.Check(min.Equal(blen), "R7.6", key, pos, "ReadAtLeast with min == len(buf) = "+min.String(), fmt.Sprintf("ReadAtLeast may return with %s of %s bytes read: the rest of the buffer is stale and the stream position depends on how the packet was segmented", min.String(), blen.String()))
				case (cc.IsInvoke() && cc.Method.Name() == "Read" && types.TypeString(cc.Value.Type(), nil) == "io.Reader") || name == "(*bufio.Reader).Read":
					c.Violate("R7.6", ordinalKey(counts, core.FuncName(fn)+"#bare-read"), pos, "a bare Read may return fewer bytes than asked for: decoding would depend on packet boundaries")
				case name == "(*bufio.Reader).ReadLine" || name == "(*bufio.Reader).ReadSlice":
					c.Violate("R7.6", ordinalKey(counts, core.FuncName(fn)+"#partial-line-read"), pos, short(name)+" returns at most one buffer of a longer line (isPrefix / ErrBufferFull): a long command line is cut and its rest is decoded as another request")
				case name == "(*bufio.Reader).ReadString" || name == "(*bufio.Reader).ReadBytes":
					c.OK("R7.6", ordinalKey(counts, core.FuncName(fn)+"#line-read"), pos, "whole-line read")
				}
			})
		}
	}
}

func runR77(c *core.Ctx) {
	for _, rel := range parserPkgs {
		n := c.P.Named(rel, "disam")
		key := short(rel) + ".CanParse#first-byte"
		if n == nil {
			c.Undecided("R7.7", key, "-", "disambiguator not found")
			continue
		}
		fn := c.P.Method(core.Impl{Named: n, Pkg: c.P.Pkg(rel)}, "CanParse")
		if fn == nil {
			c.Undecided("R7.7", key, "-", "CanParse not found")
			continue
		}
		peek1 := false
		var cmps []string
		ssax.Instrs(fn, func(ins ssa.Instruction) {
			if cc := ssax.CallOf(ins); cc != nil && cc.IsInvoke() && cc.Method.Name() == "Peek" {
				if k, ok := ssax.ConstInt(cc.Args[0]); ok && k == 1 {
					peek1 = true
				}
			}
			if bo, ok := ins.(*ssa.BinOp); ok {
				if k, ok := ssax.ConstInt(bo.Y); ok {
					if u, ok := bo.X.(*ssa.UnOp); ok {
						if ia, ok := u.X.(*ssa.IndexAddr); ok {
							if i, ok := ssax.ConstInt(ia.Index); ok && i == 0 {
								cmps = append(cmps, fmt.Sprintf("%s%d", bo.Op.String(), k))
							}
						}
					}
				}
			}
		})
		sort.Strings(cmps)
		got := strings.Join(cmps, " ")
		want := "==128"
		if strings.HasSuffix(rel, "textprot") {
			want = "<=122 >=97"
		}
		c.Check(peek1 && got == want, "R7.7", key, c.P.Pos(fn.Pos()), "decides on Peek(1): first byte "+got, fmt.Sprintf("the protocol is decided by %q on Peek(1)=%v, expected %q", got, peek1, want))
	}
}

func clPartIndex(v ssa.Value) (int64, bool) {
	// []byte(clParts[i]) / strings.TrimSpace(clParts[i]) / ParseUint(TrimSpace(clParts[i]))
	for depth := 0; depth < 6 && v != nil; depth++ {
		v = ssax.Unwrap(v)
		switch x := v.(type) {
		case *ssa.UnOp:
			if ia, ok := x.X.(*ssa.IndexAddr); ok {
				return ssax.ConstInt(ia.Index)
			}
			return 0, false
		case *ssa.Extract:
			v = x.Tuple
		case *ssa.Call:
			if len(x.Call.Args) == 0 {
				return 0, false
			}
			v = x.Call.Args[0]
		default:
			return 0, false
		}
	}
	return 0, false
}

func runR78(c *core.Ctx) {
	const rel = "protocol/textprot"
	want := map[string]map[string]int64{
		"SetRequest":    {"Key": 1, "Flags": 2, "Exptime": 3},
		"TouchRequest":  {"Key": 1, "Exptime": 2},
		"DeleteRequest": {"Key": 1},
	}
	for _, fn := range pkgFuncs(c, rel) {
		counts := map[string]int{}
		ssax.Instrs(fn, func(ins ssa.Instruction) {
			al, ok := ins.(*ssa.Alloc)
			if !ok {
				return
			}
			tn := strings.TrimPrefix(ssax.ShortType(al.Type()), "*common.")
			w, ok := want[tn]
			if !ok || literalField(al, "Key") == nil {
				return
			}
			key := ordinalKey(counts, core.FuncName(fn)+"#literal:"+tn)
			var bad []string
			for f, idx := range w {
				var got int64 = -1
				for _, d := range ssax.Defs(literalField(al, f)) {
					if i, ok := clPartIndex(d); ok {
						got = i
					}
				}
				if got != idx {
					bad = append(bad, fmt.Sprintf("%s is taken from word %d of the command line, the specification says %d", f, got, idx))
				}
			}
			if tn == "SetRequest" {
				// data length: word 4
				dv := literalField(al, "Data")
				if ms, ok := ssax.Unwrap(dv).(*ssa.MakeSlice); ok {
					if i, ok := clPartIndex(ms.Len); !ok || i != 4 {
						bad = append(bad, "the data block length is not word 4 of the command line")
					}
				} else if sl, ok := ssax.Unwrap(dv).(*ssa.Slice); ok && sl.High != nil && (sl.Low == nil || isConstZero(sl.Low)) {
					// buf[:length] of a buffer allocated with the declared length plus a constant (data block and
					// terminator read in one go)
					ms, isMS := ssax.Unwrap(sl.X).(*ssa.MakeSlice)
					if i, ok := clPartIndex(sl.High); !ok || i != 4 {
						bad = append(bad, "the data block length is not word 4 of the command line")
					} else if !isMS {
						bad = append(bad, "Data is not a buffer sized by the command line")
					} else {
						ev := &ssax.SymEval{}
						d := ev.Eval(ms.Len).Sub(ev.Eval(sl.High))
						if !d.IsConst() || d.Const < 0 {
							bad = append(bad, "the data buffer is not sized by word 4 of the command line (plus a constant)")
						}
					}
				} else {
					bad = append(bad, "Data is not a buffer sized by the command line")
				}
			}
			sort.Strings(bad)
			c.Check(len(bad) == 0, "R7.8", key, c.P.Pos(al.Pos()), "fields taken from the specification's positions", strings.Join(bad, "; "))
		})
	}
	// get: keys are clParts[1:]
	if fn := c.P.Func(rel, "(TextParser).Parse"); fn != nil {
		good := false
		ssax.Instrs(fn, func(ins ssa.Instruction) {
			if sl, ok := ins.(*ssa.Slice); ok && sl.Low != nil && sl.High == nil {
				if k, ok := ssax.ConstInt(sl.Low); ok && k == 1 && types.TypeString(sl.Type(), nil) == "[]string" {
					good = true
				}
			}
		})
		c.Check(good, "R7.8", "(textprot.TextParser).Parse#get-keys", c.P.Pos(fn.Pos()), "get keys are the words after the command", "get does not take its keys from words 1.. of the command line")
	}
}

// noExtrasDecoder: a data-command decoder that reads no extras words (append/prepend carry none).
func noExtrasDecoder(fn *ssa.Function) bool {
	return !callsAny(fn, pBinprot+".readUInt32") && callsAny(fn, "io.ReadAtLeast")
}

// runR710 (R7.10, shared as R8.13): a text storage command consumes its data block AND the line terminator that follows
// it. Either the data buffer is sized by the declared length plus at least two bytes (and filled by a full read, R7.6),
// or every path from the read of the data block to a success return passes a further read of the same stream (the
// terminator line). A terminator left in the stream is decoded as an empty command: the client gets an extra error
// reply and every later reply is attributed to the wrong request.
func runR710(c *core.Ctx, rule string) {
	const rel = "protocol/textprot"
	n := 0
	pv := &ssax.Prov{}
	for _, fn := range pkgFuncs(c, rel) {
		ssax.Instrs(fn, func(ins ssa.Instruction) {
			al, ok := ins.(*ssa.Alloc)
			if !ok || strings.TrimPrefix(ssax.ShortType(al.Type()), "*common.") != "SetRequest" || literalField(al, "Key") == nil {
				return
			}
			dv := literalField(al, "Data")
			if dv == nil {
				return
			}
			var ms *ssa.MakeSlice
			var declared ssa.Value
			switch x := ssax.Unwrap(dv).(type) {
			case *ssa.MakeSlice:
				ms, declared = x, x.Len
			case *ssa.Slice:
				if m, ok := ssax.Unwrap(x.X).(*ssa.MakeSlice); ok && x.High != nil {
					ms, declared = m, x.High
				}
			}
			if ms == nil {
				return // R7.8 reports a Data that is not a buffer sized by the command line
			}
			n++
			key := core.FuncName(fn) + "#terminator-consumed"
			ev := &ssax.SymEval{}
			if d := ev.Eval(ms.Len).Sub(ev.Eval(declared)); d.IsConst() && d.Const >= 2 {
				c.OK(rule, key, c.P.Pos(ms.Pos()), fmt.Sprintf("the data buffer holds the declared length plus %d bytes: the terminator is read with the data block", d.Const))
				return
			}
			// the read that fills the buffer
			var dataRead ssa.Instruction
			ssax.Instrs(fn, func(i ssa.Instruction) {
				cc := ssax.CallOf(i)
				if cc == nil {
					return
				}
				if nm := ssax.CalleeName(cc); nm != "io.ReadAtLeast" && nm != "io.ReadFull" {
					return
				}
				if ssax.Any(pv.Sources(cc.Args[1]), func(s ssax.Src) bool { return s.V == ssa.Value(ms) }) || ssax.Unwrap(cc.Args[1]) == ssa.Value(ms) {
					dataRead = i
				}
			})
			if dataRead == nil {
				c.Undecided(rule, key, c.P.Pos(ms.Pos()), "the read that fills the data buffer was not found (not io.ReadAtLeast/io.ReadFull into the buffer): idiom not recognised")
				return
			}
			isStreamRead := func(i ssa.Instruction) bool {
				cc := ssax.CallOf(i)
				if cc == nil {
					return false
				}
				switch ssax.CalleeName(cc) {
				case "(*bufio.Reader).ReadString", "(*bufio.Reader).ReadBytes", "(*bufio.Reader).ReadLine", "(*bufio.Reader).ReadSlice",
					"(*bufio.Reader).Discard", "(*bufio.Reader).ReadByte", "(*bufio.Reader).ReadRune", "io.ReadFull", "io.ReadAtLeast":
					return true
				}
				return false
			}
			hit, trail := (ssax.Reach{
				Target: func(i ssa.Instruction) bool {
					ret, ok := i.(*ssa.Return)
					if !ok || len(ret.Results) == 0 {
						return false
					}
					last := ret.Results[len(ret.Results)-1]
					return !definitelyNonNil(last, ret.Block())
				},
				Avoid: isStreamRead,
			}).From(dataRead)
			c.Check(hit == nil, rule, key, c.P.Pos(dataRead.Pos()), "after the data block the terminator line is read before the request is returned",
				"the request can be returned right after its data block was read ("+strings.Join(ssax.BlockTrail(c.P.Fset, trail), " -> ")+"): the \\r\\n that ends the data block stays in the stream and is decoded as an empty command - an extra error reply, and every later reply belongs to the wrong request")
		})
	}
	if n == 0 {
		c.Undecided(rule, "textprot#terminator-consumed", "-", "no text storage command decoder found")
	}
}

// runR711 (R7.11): everything rend puts on or takes off a memcached wire is in network byte order. One obligation per
// function of the protocol package and of the backend handlers that (de)serialises a multi-byte integer through
// encoding/binary: every such access is big-endian, for the fixed-offset forms (PutUintNN / UintNN) and for
// binary.Write / binary.Read alike. (The header codecs are also covered field by field by R7.3.)
func runR711(c *core.Ctx, rule string) {
	n := 0
	for _, rel := range []string{"protocol/binprot", "handlers/memcached/std", "handlers/memcached/batched", "handlers/memcached/chunked"} {
		for _, fn := range pkgFuncs(c, rel) {
			var bad []string
			k := 0
			ssax.Instrs(fn, func(ins ssa.Instruction) {
				cc := ssax.CallOf(ins)
				if cc == nil {
					return
				}
				name := ssax.CalleeName(cc)
				switch {
				case strings.HasPrefix(name, "(encoding/binary.bigEndian)."):
					k++
				case strings.HasPrefix(name, "(encoding/binary.littleEndian)."):
					k++
					bad = append(bad, "little-endian access at "+c.P.Pos(ins.Pos()))
				case name == "encoding/binary.Write" || name == "encoding/binary.Read":
					k++
					ord := cc.Args[1]
					if mi, ok := ord.(*ssa.MakeInterface); ok {
						ord = mi.X
					}
					if g := ssax.GlobalLoad(ord); g == nil || g.Name() != "BigEndian" {
						bad = append(bad, name+" with a byte order other than binary.BigEndian at "+c.P.Pos(ins.Pos()))
					}
				}
			})
			if k == 0 || !touchesStream(fn) {
				continue
			}
			n++
			c.Check(len(bad) == 0, rule, core.FuncName(fn)+"#network-byte-order", c.P.Pos(fn.Pos()), fmt.Sprintf("%d multi-byte accesses, all big-endian", k),
				strings.Join(bad, "; ")+": the field is decoded/encoded with its bytes reversed (a key length of 3 becomes 768)")
		}
	}
	if n == 0 {
		c.Undecided(rule, "wire#network-byte-order", "-", "no encoding/binary access found in the wire-facing packages")
	}
}

// touchesStream: the function handles a reader/writer (a parameter, or any operand, of an io / bufio stream type).
func touchesStream(fn *ssa.Function) bool {
	isStream := func(t types.Type) bool {
		switch types.TypeString(t, nil) {
		case "*bufio.Reader", "*bufio.Writer", "*bufio.ReadWriter", "io.Reader", "io.Writer", "io.ReadWriter":
			return true
		}
		return false
	}
	for _, p := range fn.Params {
		if isStream(p.Type()) {
			return true
		}
	}
	found := false
	ssax.Instrs(fn, func(ins ssa.Instruction) {
		for _, op := range ins.Operands(nil) {
			if op != nil && *op != nil && isStream((*op).Type()) {
				found = true
			}
		}
	})
	return found
}

// runR712 (R7.12): the protocol a connection speaks is the one whose disambiguator recognised its first byte. In the
// per-connection goroutine every (request parser, responder) pair is created from ONE protocol component, in a block
// reached only when that component's own CanParse answered true - or in the fallback taken when no component matched.
// A parser of one protocol paired with the responder of another answers binary requests in text (or the reverse).
func runR712(c *core.Ctx, rule string) {
	las := c.P.Func("server", "ListenAndServe")
	if las == nil {
		c.Undecided(rule, "server.ListenAndServe#protocol-selection", "-", "anchor not found")
		return
	}
	n := 0
	for _, fn := range las.AnonFuncs {
		type sel struct {
			parser, responder *ssa.Call
		}
		byBlock := map[*ssa.BasicBlock]*sel{}
		var order []*ssa.BasicBlock
		ssax.Instrs(fn, func(ins ssa.Instruction) {
			call, ok := ins.(*ssa.Call)
			if !ok || !call.Call.IsInvoke() || !strings.HasSuffix(types.TypeString(call.Call.Value.Type(), nil), "protocol.Components") {
				return
			}
			s := byBlock[call.Block()]
			if s == nil {
				s = &sel{}
				byBlock[call.Block()] = s
				order = append(order, call.Block())
			}
			switch call.Call.Method.Name() {
			case "NewRequestParser":
				s.parser = call
			case "NewResponder":
				s.responder = call
			}
		})
		counts := map[string]int{}
		// the "some component matched" flag: a bool phi that receives true from a block holding a selection
		isMatchedFlag := func(v ssa.Value) bool {
			phi, ok := v.(*ssa.Phi)
			if !ok {
				return false
			}
			for i, e := range phi.Edges {
				if k, isC := ssax.ConstInt(e); isC && k == 1 {
					if s := byBlock[phi.Block().Preds[i]]; s != nil && s.parser != nil {
						return true
					}
				}
			}
			return false
		}
		for _, b := range order {
			s := byBlock[b]
			if s.parser == nil && s.responder == nil {
				continue
			}
			n++
			key := ordinalKey(counts, "server.ListenAndServe$goroutine#protocol-selection")
			pos := c.P.Pos(b.Instrs[0].Pos())
			if s.parser != nil {
				pos = c.P.Pos(s.parser.Pos())
			}
			var bad []string
			if s.parser == nil || s.responder == nil {
				bad = append(bad, "a request parser and a responder are not created together")
			} else if s.parser.Call.Value != s.responder.Call.Value {
				bad = append(bad, "the request parser and the responder are created from different protocol components")
			}
			guarded := false
			for _, ec := range ssax.DomConds(b) {
				if ec.True {
					for _, d := range ssax.Defs(ec.Cond) {
						ex, ok := d.(*ssa.Extract)
						if !ok || ex.Index != 0 {
							continue
						}
						cp, ok := ex.Tuple.(*ssa.Call)
						if !ok || !cp.Call.IsInvoke() || cp.Call.Method.Name() != "CanParse" {
							continue
						}
						for _, dd := range ssax.Defs(cp.Call.Value) {
							if nd, ok := dd.(*ssa.Call); ok && nd.Call.IsInvoke() && nd.Call.Method.Name() == "NewDisambiguator" && s.parser != nil && nd.Call.Value == s.parser.Call.Value {
								guarded = true
							}
						}
					}
				} else if isMatchedFlag(ec.Cond) {
					guarded = true // the fallback: nothing matched
				}
			}
			if !guarded {
				bad = append(bad, "the selection is not guarded by the component's own CanParse (nor is it the nothing-matched fallback)")
			}
			c.Check(len(bad) == 0, rule, key, pos, "parser and responder of one component, selected by its own disambiguator (or the fallback)",
				strings.Join(bad, "; ")+": the first byte no longer decides which protocol the connection is parsed and answered in")
		}
	}
	if n == 0 {
		c.Undecided(rule, "server.ListenAndServe#protocol-selection", c.P.Pos(las.Pos()), "no protocol selection found in the per-connection goroutine")
	}
}

// checkParsedBytesArePrivate (R7.14): the byte slices a parser puts into a request (Key, Data, the elements of Keys)
// are the request's own memory. A slice that is a view into the connection's read buffer (the result of Peek,
// ReadSlice or ReadLine of a bufio.Reader) is overwritten by the next read from the socket - while the same request is
// still being decoded (the keys of a quiet-get batch that arrives in several reads all become the last key), or while
// the orchestrator is still using it: what was decoded then depends on how the stream was split into reads.
func checkParsedBytesArePrivate(c *core.Ctx, rule string) {
	pv := &ssax.Prov{MaxDepth: 4, AppendMemory: true, Inline: func(f *ssa.Function) bool {
		return f.Pkg != nil && strings.Contains(f.Pkg.Pkg.Path(), "/protocol/")
	}}
	n := 0
	for _, rel := range []string{"protocol/binprot", "protocol/textprot"} {
		for _, fn := range pkgFuncs(c, rel) {
			counts := map[string]int{}
			ssax.Instrs(fn, func(ins ssa.Instruction) {
				st, ok := ins.(*ssa.Store)
				if !ok {
					return
				}
				fa, ok := st.Addr.(*ssa.FieldAddr)
				if !ok {
					return
				}
				owner := ssax.ShortType(fa.X.Type())
				if !strings.Contains(owner, "common.") || !strings.HasSuffix(owner, "Request") {
					return
				}
				f, _ := ssax.FieldName(fa)
				var path []string
				switch types.TypeString(st.Val.Type(), nil) {
				case "[]byte":
				case "[][]byte":
					path = []string{"[]"}
				default:
					return
				}
				n++
				key := ordinalKey(counts, core.FuncName(fn)+"#"+strings.TrimPrefix(owner, "*")+"."+f)
				var views []string
				for _, s := range pv.Sources(st.Val, path...) {
					if (s.Kind == "call" || s.Kind == "outparam") && s.Call != nil && isReaderView(s.Call) {
						views = append(views, s.String())
					}
				}
				c.Check(len(views) == 0, rule, key, c.P.Pos(st.Pos()), "the bytes are not a view into the connection's read buffer",
					fmt.Sprintf("field %s of the request may be a view into the connection's read buffer (%s): it is overwritten by the next read from the socket, so the decoded request depends on how the stream was split into reads", f, strings.Join(uniq(views), ", ")))
			})
		}
	}
	if n == 0 {
		c.Undecided(rule, "parsers#request-bytes", "-", "no request with byte fields is built in the parsers")
	}
}
