package ssax

import (
	"fmt"
	"go/token"
	"go/types"
	"sort"
	"strings"

	"golang.org/x/tools/go/ssa"
)

// Tri is a three-valued truth.
type Tri int8

const (
	Unknown Tri = iota
	Yes
	No
)

// Fact is what is known about an error (or bool) value on a path.
type Fact struct {
	Nil  Tri      // Yes: == nil, No: != nil
	Sent string   // equal to this sentinel (package.Name); implies Nil == No
	Not  []string // known different from these sentinels
	App  Tri      // common.IsAppError(v) known true / false
	Bool Tri      // for boolean values
	// Alias: this (phi) value is, on the current path, a copy of that value (possibly behind NOTs): assuming the one
	// assumes the other. Set by EnterBlock when the incoming operand carries no fact of its own.
	Alias ssa.Value
	// integer interval (for small counters and constants): known lower / upper bound
	HasLo, HasHi bool
	Lo, Hi       int64
}

func (f Fact) key() string {
	a := ""
	if f.Alias != nil {
		a = f.Alias.Name()
	}
	iv := ""
	if f.HasLo || f.HasHi {
		lo, hi := f.Lo, f.Hi
		if !f.HasLo {
			lo = 0
		}
		if !f.HasHi {
			hi = 0
		}
		iv = fmt.Sprintf("[%v%d,%v%d]", f.HasLo, lo, f.HasHi, hi)
	}
	return fmt.Sprintf("%d/%s/%s/%d/%d/%s%s", f.Nil, f.Sent, strings.Join(f.Not, ","), f.App, f.Bool, a, iv)
}

func (f Fact) zero() bool {
	return f.Nil == Unknown && f.Sent == "" && len(f.Not) == 0 && f.App == Unknown && f.Bool == Unknown && f.Alias == nil && !f.HasLo && !f.HasHi
}

// Facts maps SSA values (and Alloc cells, for variables that live in memory) to facts.
type Facts map[ssa.Value]Fact

// Retain drops the facts about values that do not satisfy keep.
func (fs Facts) Retain(keep func(ssa.Value) bool) {
	for k := range fs {
		if !keep(k) {
			delete(fs, k)
		}
	}
}

// IsErrorValue reports whether v is of type error, or a cell holding an error.
func IsErrorValue(v ssa.Value) bool {
	t := v.Type()
	if types.TypeString(t, nil) == "error" {
		return true
	}
	if p, ok := t.(*types.Pointer); ok && types.TypeString(p.Elem(), nil) == "error" {
		return true
	}
	return false
}

// Clone copies the map.
func (fs Facts) Clone() Facts {
	out := make(Facts, len(fs))
	for k, v := range fs {
		out[k] = v
	}
	return out
}

// Key is a canonical rendering.
func (fs Facts) Key() string {
	var parts []string
	for k, v := range fs {
		if v.zero() {
			continue
		}
		parts = append(parts, fmt.Sprintf("%s@%p=%s", k.Name(), k, v.key()))
	}
	sort.Strings(parts)
	return strings.Join(parts, ";")
}

// SentinelOf returns "pkg.Name" if v is a load of a package-level error variable.
func SentinelOf(v ssa.Value) string {
	if g := GlobalLoad(v); g != nil {
		if types.TypeString(g.Type().(*types.Pointer).Elem(), nil) == "error" {
			return g.Pkg.Pkg.Name() + "." + g.Name()
		}
	}
	return ""
}

// Eval returns what is known about v.
func (fs Facts) Eval(v ssa.Value) Fact {
	switch x := v.(type) {
	case *ssa.Const:
		if x.Value == nil {
			return Fact{Nil: Yes}
		}
		if b, ok := ConstInt(x); ok && types.Identical(x.Type().Underlying(), types.Typ[types.Bool]) {
			if b != 0 {
				return Fact{Bool: Yes}
			}
			return Fact{Bool: No}
		}
		if isIntType(x.Type()) {
			if k, ok := ConstInt(x); ok {
				return Fact{HasLo: true, HasHi: true, Lo: k, Hi: k}
			}
		}
		return Fact{}
	case *ssa.BinOp:
		if (x.Op == token.ADD || x.Op == token.SUB) && isIntType(x.Type()) {
			if k, ok := ConstInt(x.Y); ok {
				if _, isC := x.Y.(*ssa.Const); isC {
					f := fs.Eval(x.X)
					if !f.HasLo && !f.HasHi {
						return fs[v]
					}
					if x.Op == token.SUB {
						k = -k
					}
					return Fact{HasLo: f.HasLo, HasHi: f.HasHi, Lo: f.Lo + k, Hi: f.Hi + k}
				}
			}
		}
		return fs[v]
	case *ssa.Convert:
		if isIntType(x.Type()) && isIntType(x.X.Type()) {
			f := fs.Eval(x.X)
			if f.HasLo || f.HasHi {
				return Fact{HasLo: f.HasLo, HasHi: f.HasHi, Lo: f.Lo, Hi: f.Hi}
			}
		}
		return fs[v]
	case *ssa.MakeInterface:
		return Fact{Nil: No}
	case *ssa.UnOp:
		if x.Op == token.MUL {
			if s := SentinelOf(x); s != "" {
				return Fact{Nil: No, Sent: s}
			}
			// load from a tracked cell
			if f, ok := fs[x.X]; ok {
				return f
			}
			return Fact{}
		}
		if x.Op == token.NOT {
			f := fs.Eval(x.X)
			switch f.Bool {
			case Yes:
				return Fact{Bool: No}
			case No:
				return Fact{Bool: Yes}
			}
			return Fact{}
		}
	case *ssa.ChangeInterface:
		return fs.Eval(x.X)
	}
	return fs[v]
}

// Set records a fact for v.
func (fs Facts) Set(v ssa.Value, f Fact) {
	if f.zero() {
		delete(fs, v)
	} else {
		fs[v] = f
	}
}

// target returns the map key facts about v should be stored under: the value itself,
// or the memory cell when v is a load.
func target(v ssa.Value) ssa.Value {
	if u, ok := v.(*ssa.UnOp); ok && u.Op == token.MUL {
		if _, ok := u.X.(*ssa.Global); !ok {
			return u.X
		}
	}
	if ci, ok := v.(*ssa.ChangeInterface); ok {
		return target(ci.X)
	}
	return v
}

// Assume refines the facts with cond == truth. It returns false when that is
// contradictory (the edge is infeasible).
func (fs Facts) Assume(cond ssa.Value, truth bool) bool {
	switch c := cond.(type) {
	case *ssa.UnOp:
		if c.Op == token.NOT {
			return fs.Assume(c.X, !truth)
		}
	case *ssa.BinOp:
		if isIntType(c.X.Type()) && isIntType(c.Y.Type()) {
			if ok, decided := fs.assumeInt(c, truth); decided {
				return ok
			}
		}
		if c.Op == token.EQL || c.Op == token.NEQ {
			eq := (c.Op == token.EQL) == truth
			x, y := c.X, c.Y
			if IsNilConst(x) || SentinelOf(x) != "" {
				x, y = y, x
			}
			if IsNilConst(y) {
				f := fs.Eval(x)
				if eq {
					if f.Nil == No {
						return false
					}
					fs.Set(target(x), Fact{Nil: Yes, App: No})
				} else {
					if f.Nil == Yes {
						return false
					}
					f.Nil = No
					fs.Set(target(x), f)
				}
				return true
			}
			if s := SentinelOf(y); s != "" {
				f := fs.Eval(x)
				if eq {
					if f.Nil == Yes || (f.Sent != "" && f.Sent != s) || contains(f.Not, s) {
						return false
					}
					fs.Set(target(x), Fact{Nil: No, Sent: s, App: f.App})
				} else {
					if f.Sent == s {
						return false
					}
					if f.Sent == "" && !contains(f.Not, s) {
						f.Not = append(append([]string{}, f.Not...), s)
						sort.Strings(f.Not)
					}
					fs.Set(target(x), f)
				}
				return true
			}
			// boolean comparison with constant
			if b, ok := ConstInt(y); ok && types.Identical(y.Type().Underlying(), types.Typ[types.Bool]) {
				return fs.Assume(x, (b != 0) == eq)
			}
		}
	case *ssa.Call:
		if CalleeName(&c.Call) == "github.com/netflix/rend/common.IsAppError" && len(c.Call.Args) == 1 {
			x := c.Call.Args[0]
			f := fs.Eval(x)
			if truth {
				if f.Nil == Yes || f.App == No {
					return false
				}
				f.Nil = No
				f.App = Yes
			} else {
				if f.App == Yes {
					return false
				}
				f.App = No
			}
			fs.Set(target(x), f)
			return true
		}
	}
	// generic boolean value
	f := fs.Eval(cond)
	if f.Alias != nil && f.Alias != cond {
		al := f.Alias
		f.Alias = nil
		fs.Set(target(cond), f)
		if !fs.Assume(al, truth) {
			return false
		}
	}
	if truth {
		if f.Bool == No {
			return false
		}
		fs.Set(target(cond), Fact{Bool: Yes})
	} else {
		if f.Bool == Yes {
			return false
		}
		fs.Set(target(cond), Fact{Bool: No})
	}
	return true
}

func contains(xs []string, s string) bool {
	for _, x := range xs {
		if x == s {
			return true
		}
	}
	return false
}

// Step applies the effect of an instruction on the facts: stores into cells,
// and forgetting facts about values that are (re)defined.
func (fs Facts) Step(ins ssa.Instruction) {
	switch x := ins.(type) {
	case *ssa.Store:
		if _, ok := x.Addr.(*ssa.Alloc); ok {
			f := fs.Eval(x.Val)
			if _, isConst := x.Val.(*ssa.Const); !isConst && f.zero() && isBool(x.Val.Type()) {
				f = Fact{Alias: x.Val}
			}
			fs.Set(x.Addr, f)
		} else if _, ok := x.Addr.(*ssa.FreeVar); ok {
			fs.Set(x.Addr, fs.Eval(x.Val))
		}
	case ssa.Value:
		// a value defined again (loop): forget what was known about the previous instance
		if _, ok := fs[x]; ok {
			delete(fs, x)
		}
	}
}

// EnterBlock evaluates the phis of b for the edge pred -> b.
func (fs Facts) EnterBlock(b, pred *ssa.BasicBlock) {
	if pred == nil {
		return
	}
	idx := -1
	for i, p := range b.Preds {
		if p == pred {
			idx = i
			break
		}
	}
	if idx < 0 {
		return
	}
	type upd struct {
		phi *ssa.Phi
		f   Fact
	}
	var us []upd
	for _, ins := range b.Instrs {
		phi, ok := ins.(*ssa.Phi)
		if !ok {
			break
		}
		f := fs.Eval(phi.Edges[idx])
		if _, isConst := phi.Edges[idx].(*ssa.Const); !isConst && f.zero() && isBool(phi.Type()) {
			f = Fact{Alias: phi.Edges[idx]}
		}
		if isIntType(phi.Type()) && (f.HasLo || f.HasHi) && b.Dominates(pred) {
			// back edge of a loop: widen so that the state space stays finite - keep "beyond the initial value" only
			f.HasHi = false
			if f.HasLo {
				init, known := int64(0), false
				for j, p := range b.Preds {
					if !b.Dominates(p) {
						if k, ok := ConstInt(phi.Edges[j]); ok {
							if !known || k < init {
								init, known = k, true
							}
						} else {
							known = false
							break
						}
					}
				}
				if known && f.Lo > init+1 {
					f.Lo = init + 1
				} else if !known {
					f.HasLo = false
				}
			}
		}
		us = append(us, upd{phi, f})
	}
	for _, u := range us {
		fs.Set(u.phi, u.f)
	}
}

func isIntType(t types.Type) bool {
	b, ok := t.Underlying().(*types.Basic)
	return ok && b.Info()&types.IsInteger != 0
}

// assumeInt refines integer interval facts with (x op y) == truth where one side is a constant. decided is false when
// the comparison has no constant side (nothing is learnt); ok is false when the edge is infeasible.
func (fs Facts) assumeInt(c *ssa.BinOp, truth bool) (ok, decided bool) {
	op := c.Op
	x, y := c.X, c.Y
	k, isK := ConstInt(y)
	if _, isC := y.(*ssa.Const); !isC {
		isK = false
	}
	if !isK {
		// constant on the left: mirror
		if kk, ok2 := ConstInt(x); ok2 {
			if _, isC := x.(*ssa.Const); isC {
				k, isK = kk, true
				x = y
				switch op {
				case token.LSS:
					op = token.GTR
				case token.LEQ:
					op = token.GEQ
				case token.GTR:
					op = token.LSS
				case token.GEQ:
					op = token.LEQ
				}
			}
		}
	}
	if !isK {
		return true, false
	}
	if !truth {
		switch op {
		case token.LSS:
			op = token.GEQ
		case token.LEQ:
			op = token.GTR
		case token.GTR:
			op = token.LEQ
		case token.GEQ:
			op = token.LSS
		case token.EQL:
			op = token.NEQ
		case token.NEQ:
			op = token.EQL
		default:
			return true, false
		}
	}
	f := fs.Eval(x)
	lo, hi, hasLo, hasHi := f.Lo, f.Hi, f.HasLo, f.HasHi
	switch op {
	case token.EQL:
		if (hasLo && k < lo) || (hasHi && k > hi) {
			return false, true
		}
		lo, hi, hasLo, hasHi = k, k, true, true
	case token.NEQ:
		if hasLo && hasHi && lo == hi && lo == k {
			return false, true
		}
		if hasLo && lo == k {
			lo++
		}
		if hasHi && hi == k {
			hi--
		}
	case token.LSS:
		if hasLo && lo >= k {
			return false, true
		}
		if !hasHi || hi > k-1 {
			hi, hasHi = k-1, true
		}
	case token.LEQ:
		if hasLo && lo > k {
			return false, true
		}
		if !hasHi || hi > k {
			hi, hasHi = k, true
		}
	case token.GTR:
		if hasHi && hi <= k {
			return false, true
		}
		if !hasLo || lo < k+1 {
			lo, hasLo = k+1, true
		}
	case token.GEQ:
		if hasHi && hi < k {
			return false, true
		}
		if !hasLo || lo < k {
			lo, hasLo = k, true
		}
	default:
		return true, false
	}
	// record on the variable itself (phis and loads are variables; arithmetic is not tracked back)
	record := false
	switch xx := x.(type) {
	case *ssa.Phi, *ssa.Parameter, *ssa.Call, *ssa.Extract:
		record = true
	case *ssa.UnOp:
		// loads: only of local cells, whose stores Step tracks
		if xx.Op == token.MUL {
			_, record = xx.X.(*ssa.Alloc)
		}
	}
	if record {
		g := fs[target(x)]
		g.Lo, g.Hi, g.HasLo, g.HasHi = lo, hi, hasLo, hasHi
		fs.Set(target(x), g)
	}
	return true, true
}

func isBool(t types.Type) bool {
	b, ok := t.Underlying().(*types.Basic)
	return ok && b.Kind() == types.Bool
}

// PhiOperand returns the operand of phi for the edge pred -> phi.Block().
func PhiOperand(phi *ssa.Phi, pred *ssa.BasicBlock) ssa.Value {
	for i, p := range phi.Block().Preds {
		if p == pred {
			return phi.Edges[i]
		}
	}
	return nil
}

// PState is a path state for Explore.
type PState interface {
	Key() string
	Copy() PState
}

// Explorer enumerates abstract paths of a function: every (block, state) pair is
// visited once, so the exploration is exhaustive and terminates when the state
// space is finite.
type Explorer struct {
	Fn *ssa.Function
	// Enter is called when control enters block b from pred (nil for the entry block); it may evaluate phis.
	Enter func(b, pred *ssa.BasicBlock, st PState)
	// Instr is called for every non-control instruction; returning false prunes the path.
	Instr func(ins ssa.Instruction, st PState) bool
	// Branch refines the state for one edge of an If; returning false means infeasible.
	Branch func(ifi *ssa.If, truth bool, st PState) bool
	// Exit is called at Return and Panic instructions.
	Exit func(ins ssa.Instruction, st PState)
	// Start is the block exploration begins at (default: the entry block).
	Start *ssa.BasicBlock
	// Within, when non-nil, restricts the exploration to these blocks.
	Within map[*ssa.BasicBlock]bool
	// Leave, when non-nil, is called for every feasible edge that leaves Within (with the state refined for the edge).
	Leave func(from, to *ssa.BasicBlock, st PState)
	// MaxStates bounds the exploration (default 200000).
	MaxStates int
	// Exceeded is set when MaxStates was hit.
	Exceeded bool
	Visited  int
}

// Run explores from the entry block.
func (e *Explorer) Run(init PState) {
	if len(e.Fn.Blocks) == 0 {
		return
	}
	max := e.MaxStates
	if max == 0 {
		max = 200000
	}
	type item struct {
		b, pred *ssa.BasicBlock
		st      PState
	}
	seen := map[string]bool{}
	start := e.Start
	if start == nil {
		start = e.Fn.Blocks[0]
	}
	stack := []item{{start, nil, init}}
	for len(stack) > 0 {
		it := stack[len(stack)-1]
		stack = stack[:len(stack)-1]
		st := it.st
		if e.Enter != nil {
			e.Enter(it.b, it.pred, st)
		}
		k := fmt.Sprintf("%d|%s", it.b.Index, st.Key())
		if seen[k] {
			continue
		}
		seen[k] = true
		e.Visited++
		if e.Visited > max {
			e.Exceeded = true
			return
		}
		alive := true
		for _, ins := range it.b.Instrs {
			switch x := ins.(type) {
			case *ssa.If:
				for i, s := range it.b.Succs {
					if e.Within != nil && !e.Within[s] {
						if e.Leave != nil {
							ns := st.Copy()
							if e.Branch == nil || e.Branch(x, i == 0, ns) {
								e.Leave(it.b, s, ns)
							}
						}
						continue
					}
					ns := st.Copy()
					if e.Branch == nil || e.Branch(x, i == 0, ns) {
						stack = append(stack, item{s, it.b, ns})
					}
				}
				alive = false
			case *ssa.Jump:
				if e.Within == nil || e.Within[it.b.Succs[0]] {
					stack = append(stack, item{it.b.Succs[0], it.b, st})
				} else if e.Leave != nil {
					e.Leave(it.b, it.b.Succs[0], st)
				}
				alive = false
			case *ssa.Return, *ssa.Panic:
				if e.Exit != nil {
					e.Exit(ins, st)
				}
				alive = false
			default:
				if _, isPhi := ins.(*ssa.Phi); isPhi {
					continue
				}
				if e.Instr != nil && !e.Instr(ins, st) {
					alive = false
				}
			}
			if !alive {
				break
			}
		}
	}
}
