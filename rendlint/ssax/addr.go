package ssax

import (
	"go/token"
	"go/types"
	"strings"

	"golang.org/x/tools/go/ssa"
)

// AddrKeys canonicalises an address (or pointer value) into location classes:
// a global-rooted path ("G:pkg.var*[].f") when the address is rooted at a
// package-level variable, and a type-level path ("T:pkg.Struct.f.g") when it
// selects fields of a named struct. Either may be empty.
func AddrKeys(a ssa.Value) (global, typ string) {
	return globalKey(a, 0), typeKey(a)
}

func pkgOf(g *ssa.Global) string {
	if g.Pkg == nil {
		return "?"
	}
	return g.Pkg.Pkg.Path()
}

func globalKey(a ssa.Value, depth int) string {
	if depth > 12 {
		return ""
	}
	switch x := a.(type) {
	case *ssa.Global:
		return "G:" + pkgOf(x) + "." + x.Name()
	case *ssa.FieldAddr:
		b := globalKey(x.X, depth+1)
		if b == "" {
			return ""
		}
		n, _ := FieldName(x)
		return b + "." + n
	case *ssa.IndexAddr:
		b := globalKey(x.X, depth+1)
		if b == "" {
			return ""
		}
		return b + "[]"
	case *ssa.UnOp:
		if x.Op == token.MUL {
			b := globalKey(x.X, depth+1)
			if b == "" {
				return ""
			}
			return b + "*"
		}
	case *ssa.Slice:
		return globalKey(x.X, depth+1)
	case *ssa.ChangeType:
		return globalKey(x.X, depth+1)
	case *ssa.Convert:
		return globalKey(x.X, depth+1)
	case *ssa.Phi:
		// all edges must agree
		k := ""
		for i, e := range x.Edges {
			ek := globalKey(e, depth+1)
			if i == 0 {
				k = ek
			} else if ek != k {
				return ""
			}
		}
		return k
	}
	return ""
}

func namedOf(t types.Type) *types.Named {
	if p, ok := t.Underlying().(*types.Pointer); ok {
		t = p.Elem()
	}
	if p, ok := t.(*types.Pointer); ok {
		t = p.Elem()
	}
	n, _ := t.(*types.Named)
	return n
}

func typeKey(a ssa.Value) string {
	var fields []string
	suffix := ""
	cur := a
	for i := 0; i < 12; i++ {
		switch x := cur.(type) {
		case *ssa.FieldAddr:
			n, _ := FieldName(x)
			fields = append([]string{n}, fields...)
			base := x.X
			if nt := namedOf(base.Type()); nt != nil && nt.Obj().Pkg() != nil {
				if _, isFA := base.(*ssa.FieldAddr); !isFA {
					return "T:" + nt.Obj().Pkg().Path() + "." + nt.Obj().Name() + "." + strings.Join(fields, ".") + suffix
				}
			}
			cur = base
			continue
		case *ssa.IndexAddr:
			if len(fields) == 0 {
				suffix = "[]" + suffix
			} else {
				fields[0] = "[]." + fields[0]
			}
			cur = x.X
			continue
		case *ssa.UnOp:
			if x.Op == token.MUL {
				if len(fields) == 0 {
					suffix = "*" + suffix
				} else {
					fields[0] = "*." + fields[0]
				}
				cur = x.X
				continue
			}
		case *ssa.Field:
			// value-typed receiver field: h.rw where h is a struct value
			if nt := namedOf(x.X.Type()); nt != nil && nt.Obj().Pkg() != nil {
				n, _ := FieldName(x)
				fields = append([]string{n}, fields...)
				return "T:" + nt.Obj().Pkg().Path() + "." + nt.Obj().Name() + "." + strings.Join(fields, ".") + suffix
			}
		}
		break
	}
	return ""
}

// HasPrefixPath reports whether loc lies inside (or equals) the aggregate addressed by agg.
func HasPrefixPath(loc, agg string) bool {
	if agg == "" || loc == "" {
		return false
	}
	if loc == agg {
		return true
	}
	return strings.HasPrefix(loc, agg+".") || strings.HasPrefix(loc, agg+"[") || strings.HasPrefix(loc, agg+"*")
}

// LockMode of a held lock.
type LockMode int

const (
	NotHeld LockMode = iota
	Shared
	Exclusive
)

// lockCallKind classifies a call as a lock operation on sync.Mutex / sync.RWMutex / sync.Locker.
func lockCallKind(cc *ssa.CallCommon) (op string, lock ssa.Value) {
	name := CalleeName(cc)
	switch name {
	case "(*sync.RWMutex).Lock", "(*sync.Mutex).Lock":
		return "Lock", cc.Args[0]
	case "(*sync.RWMutex).Unlock", "(*sync.Mutex).Unlock":
		return "Unlock", cc.Args[0]
	case "(*sync.RWMutex).RLock":
		return "RLock", cc.Args[0]
	case "(*sync.RWMutex).RUnlock":
		return "RUnlock", cc.Args[0]
	}
	if cc.IsInvoke() && types.TypeString(cc.Value.Type(), nil) == "sync.Locker" {
		return cc.Method.Name(), cc.Value
	}
	return "", nil
}

// LockKey names a mutex value by its location class.
func LockKey(v ssa.Value) string {
	g, t := AddrKeys(v)
	if t != "" {
		return t
	}
	if g != "" {
		return g
	}
	// pointer loaded from a field: key of the load
	if u, ok := v.(*ssa.UnOp); ok && u.Op == token.MUL {
		g, t := AddrKeys(u.X)
		if t != "" {
			return t + "*"
		}
		if g != "" {
			return g + "*"
		}
	}
	return ""
}

// HeldLocks computes, for every instruction of fn, the locks that are held on
// every path reaching it (must analysis), with their mode. Deferred unlocks do
// not release before the function exits.
func HeldLocks(fn *ssa.Function) map[ssa.Instruction]map[string]LockMode {
	type state map[string]LockMode
	in := map[*ssa.BasicBlock]state{}
	out := map[ssa.Instruction]map[string]LockMode{}
	if len(fn.Blocks) == 0 {
		return out
	}
	clone := func(s state) state {
		c := state{}
		for k, v := range s {
			c[k] = v
		}
		return c
	}
	meet := func(a, b state) state {
		c := state{}
		for k, v := range a {
			if bv, ok := b[k]; ok {
				if bv < v {
					v = bv
				}
				if v != NotHeld {
					c[k] = v
				}
			}
		}
		return c
	}
	equal := func(a, b state) bool {
		if len(a) != len(b) {
			return false
		}
		for k, v := range a {
			if b[k] != v {
				return false
			}
		}
		return true
	}
	in[fn.Blocks[0]] = state{}
	work := []*ssa.BasicBlock{fn.Blocks[0]}
	outB := map[*ssa.BasicBlock]state{}
	for len(work) > 0 {
		b := work[0]
		work = work[1:]
		st := clone(in[b])
		for _, ins := range b.Instrs {
			out[ins] = clone(st)
			if _, isCall := ins.(*ssa.Call); !isCall {
				continue
			}
			cc := CallOf(ins)
			op, lk := lockCallKind(cc)
			if op == "" {
				continue
			}
			k := LockKey(lk)
			if k == "" {
				continue
			}
			switch op {
			case "Lock":
				st[k] = Exclusive
			case "RLock":
				st[k] = Shared
			case "Unlock", "RUnlock":
				delete(st, k)
			}
		}
		outB[b] = st
		for _, s := range b.Succs {
			old, seen := in[s]
			var nw state
			if !seen {
				nw = clone(st)
			} else {
				nw = meet(old, st)
			}
			if !seen || !equal(old, nw) {
				in[s] = nw
				work = append(work, s)
			}
		}
	}
	return out
}
