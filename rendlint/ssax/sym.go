package ssax

import (
	"fmt"
	"go/token"
	"go/types"
	"sort"
	"strings"

	"golang.org/x/tools/go/ssa"
)

// Lin is a linear expression: sum of coef*symbol plus a constant.
type Lin struct {
	Terms map[string]int64
	Const int64
}

// NewLin makes a constant expression.
func NewLin(c int64) Lin { return Lin{Terms: map[string]int64{}, Const: c} }

// Sym makes a single-symbol expression.
func Sym(s string) Lin { return Lin{Terms: map[string]int64{s: 1}} }

// Add returns a+b.
func (a Lin) Add(b Lin) Lin {
	out := Lin{Terms: map[string]int64{}, Const: a.Const + b.Const}
	for k, v := range a.Terms {
		out.Terms[k] += v
	}
	for k, v := range b.Terms {
		out.Terms[k] += v
	}
	out.norm()
	return out
}

// Scale returns k*a.
func (a Lin) Scale(k int64) Lin {
	out := Lin{Terms: map[string]int64{}, Const: a.Const * k}
	for s, v := range a.Terms {
		out.Terms[s] = v * k
	}
	out.norm()
	return out
}

// Sub returns a-b.
func (a Lin) Sub(b Lin) Lin { return a.Add(b.Scale(-1)) }

func (a *Lin) norm() {
	for k, v := range a.Terms {
		if v == 0 {
			delete(a.Terms, k)
		}
	}
}

// IsConst reports whether the expression has no symbols.
func (a Lin) IsConst() bool { return len(a.Terms) == 0 }

// Equal compares two expressions.
func (a Lin) Equal(b Lin) bool {
	if a.Const != b.Const || len(a.Terms) != len(b.Terms) {
		return false
	}
	for k, v := range a.Terms {
		if b.Terms[k] != v {
			return false
		}
	}
	return true
}

// String renders the expression canonically.
func (a Lin) String() string {
	var ks []string
	for k := range a.Terms {
		ks = append(ks, k)
	}
	sort.Strings(ks)
	var parts []string
	for _, k := range ks {
		v := a.Terms[k]
		switch v {
		case 1:
			parts = append(parts, "+"+k)
		case -1:
			parts = append(parts, "-"+k)
		default:
			parts = append(parts, fmt.Sprintf("%+d*%s", v, k))
		}
	}
	if a.Const != 0 || len(parts) == 0 {
		parts = append(parts, fmt.Sprintf("%+d", a.Const))
	}
	return strings.TrimPrefix(strings.Join(parts, " "), "+")
}

// SymEval evaluates SSA values to linear expressions.
type SymEval struct {
	// Name returns the symbol for an atom (a value that is not arithmetic); "" = use the default.
	Name func(v ssa.Value) string
	// UnsignedSub is set when an unsigned subtraction was met during evaluation.
	UnsignedSub bool
	// Subs collects the unsigned subtractions met.
	Subs []*ssa.BinOp
	// MinArithBits is the smallest bit width of an integer addition/subtraction/multiplication met (0 = none).
	MinArithBits int
	// Atoms maps every symbol produced to the value it names (filled during evaluation).
	Atoms map[string]ssa.Value
	pv    Prov
}

func isUnsigned(t types.Type) bool {
	b, ok := t.Underlying().(*types.Basic)
	return ok && b.Info()&types.IsUnsigned != 0
}

// atom names a non-arithmetic value: by provenance when it has exactly one leaf, else by identity.
func (e *SymEval) atom(v ssa.Value) Lin {
	l := e.atom0(v)
	if e.Atoms == nil {
		e.Atoms = map[string]ssa.Value{}
	}
	for sym := range l.Terms {
		if _, ok := e.Atoms[sym]; !ok {
			e.Atoms[sym] = v
		}
	}
	return l
}

func (e *SymEval) atom0(v ssa.Value) Lin {
	if e.Name != nil {
		if s := e.Name(v); s != "" {
			return Sym(s)
		}
	}
	srcs := e.pv.Sources(v)
	names := Strings(srcs)
	if len(names) == 1 && (srcs[0].Kind == "param" || srcs[0].Kind == "global" || srcs[0].Kind == "freevar") {
		return Sym(names[0])
	}
	// a field of some object: name it by the object's SSA value and the field
	if u, ok := v.(*ssa.UnOp); ok && u.Op == token.MUL {
		if fa, ok := u.X.(*ssa.FieldAddr); ok {
			f, _ := FieldName(fa)
			bf := ""
			if i, ok := fa.X.(ssa.Instruction); ok && i.Parent() != nil {
				bf = i.Parent().Name()
			}
			return Sym(fmt.Sprintf("%s@%s.%s", fa.X.Name(), bf, f))
		}
	}
	fn := ""
	if i, ok := v.(ssa.Instruction); ok && i.Parent() != nil {
		fn = i.Parent().Name()
	}
	return Sym(fmt.Sprintf("%s@%s", v.Name(), fn))
}

// Eval evaluates v.
func (e *SymEval) Eval(v ssa.Value) Lin { return e.eval(v, 0) }

func (e *SymEval) eval(v ssa.Value, depth int) Lin {
	if depth > 24 {
		return e.atom(v)
	}
	if n, ok := ConstInt(v); ok {
		if _, isConst := Unwrap(v).(*ssa.Const); isConst {
			return NewLin(n)
		}
	}
	switch x := v.(type) {
	case *ssa.Convert:
		// integer conversions are treated as value preserving (widening in all uses here)
		if _, ok := x.X.Type().Underlying().(*types.Basic); ok {
			return e.eval(x.X, depth+1)
		}
	case *ssa.ChangeType:
		return e.eval(x.X, depth+1)
	case *ssa.BinOp:
		if x.Op == token.ADD || x.Op == token.SUB || x.Op == token.MUL {
			if b, ok := x.Type().Underlying().(*types.Basic); ok {
				if w := basicBits(b); w > 0 && (e.MinArithBits == 0 || w < e.MinArithBits) {
					e.MinArithBits = w
				}
			}
		}
		switch x.Op {
		case token.ADD:
			return e.eval(x.X, depth+1).Add(e.eval(x.Y, depth+1))
		case token.SUB:
			if isUnsigned(x.Type()) {
				e.UnsignedSub = true
				e.Subs = append(e.Subs, x)
			}
			return e.eval(x.X, depth+1).Sub(e.eval(x.Y, depth+1))
		case token.MUL:
			a, b := e.eval(x.X, depth+1), e.eval(x.Y, depth+1)
			if a.IsConst() {
				return b.Scale(a.Const)
			}
			if b.IsConst() {
				return a.Scale(b.Const)
			}
		}
	case *ssa.Call:
		if b, ok := x.Call.Value.(*ssa.Builtin); ok && b.Name() == "len" {
			arg := x.Call.Args[0]
			if s, ok := ConstString(arg); ok {
				return NewLin(int64(len(s)))
			}
			// len of a slice of known bounds
			if sl, ok := arg.(*ssa.Slice); ok && sl.Low == nil && sl.High == nil {
				arg = sl.X
			}
			if ms, ok := arg.(*ssa.MakeSlice); ok {
				return e.eval(ms.Len, depth+1)
			}
			srcs := e.pv.Sources(arg)
			names := Strings(srcs)
			if len(names) == 1 {
				return Sym("len(" + names[0] + ")")
			}
			return Sym("len(" + arg.Name() + ")")
		}
	}
	return e.atom(v)
}

func basicBits(b *types.Basic) int {
	switch b.Kind() {
	case types.Int8, types.Uint8:
		return 8
	case types.Int16, types.Uint16:
		return 16
	case types.Int32, types.Uint32:
		return 32
	case types.Int, types.Uint, types.Int64, types.Uint64, types.Uintptr:
		return 64
	}
	return 0
}
