// Package ssax holds the SSA/CFG utilities the rules are written with.
package ssax

import (
	"go/constant"
	"go/token"
	"go/types"
	"strings"

	"golang.org/x/tools/go/ssa"
)

// CallOf returns the CallCommon of a Call, Defer or Go instruction.
func CallOf(ins ssa.Instruction) *ssa.CallCommon {
	switch c := ins.(type) {
	case *ssa.Call:
		return &c.Call
	case *ssa.Defer:
		return &c.Call
	case *ssa.Go:
		return &c.Call
	}
	return nil
}

// CalleeName returns a printable identity of the callee: the full name of the
// static callee ("github.com/x/y.F", "(*T).M"), or for interface invokes
// "(pkg.Iface).Method". Empty for dynamic calls of function values.
func CalleeName(cc *ssa.CallCommon) string {
	if cc == nil {
		return ""
	}
	if cc.IsInvoke() {
		recv := cc.Value.Type()
		return "(" + types.TypeString(recv, nil) + ")." + cc.Method.Name()
	}
	if f := cc.StaticCallee(); f != nil {
		if f.Object() != nil {
			return f.Object().(*types.Func).FullName()
		}
		return f.String()
	}
	if b, ok := cc.Value.(*ssa.Builtin); ok {
		return "builtin." + b.Name()
	}
	return ""
}

// IsCallTo reports whether cc statically calls the function with the given full name.
func IsCallTo(cc *ssa.CallCommon, full string) bool { return CalleeName(cc) == full }

// InvokeOn reports whether cc is an interface invoke of method name on an
// interface type whose string is ifaceType.
func InvokeOn(cc *ssa.CallCommon, ifaceType, method string) bool {
	return cc != nil && cc.IsInvoke() && cc.Method.Name() == method && types.TypeString(cc.Value.Type(), nil) == ifaceType
}

// Instrs calls f for every instruction of fn.
func Instrs(fn *ssa.Function, f func(ssa.Instruction)) {
	for _, b := range fn.Blocks {
		for _, ins := range b.Instrs {
			f(ins)
		}
	}
}

// AllCalls lists (instruction, CallCommon) of fn.
func AllCalls(fn *ssa.Function) []ssa.Instruction {
	var out []ssa.Instruction
	Instrs(fn, func(ins ssa.Instruction) {
		if CallOf(ins) != nil {
			out = append(out, ins)
		}
	})
	return out
}

// IndexIn returns the index of ins in its block.
func IndexIn(ins ssa.Instruction) int {
	for i, x := range ins.Block().Instrs {
		if x == ins {
			return i
		}
	}
	return -1
}

// Reach describes a forward search through the instruction-level CFG.
type Reach struct {
	// Target stops the search successfully.
	Target func(ssa.Instruction) bool
	// Avoid instructions are not passed through (the search does not continue after them and they are no targets).
	Avoid func(ssa.Instruction) bool
	// AvoidEdge forbids taking the edge from -> to.
	AvoidEdge func(from, to *ssa.BasicBlock) bool
	// Within restricts the search to a block set (nil = whole function).
	Within map[*ssa.BasicBlock]bool
}

// From searches from the instruction after start (start itself is not examined).
// It returns the first target found and the block trail leading to it.
func (r Reach) From(start ssa.Instruction) (ssa.Instruction, []*ssa.BasicBlock) {
	return r.search(start.Block(), IndexIn(start)+1)
}

// FromBlock searches from the first instruction of b.
func (r Reach) FromBlock(b *ssa.BasicBlock) (ssa.Instruction, []*ssa.BasicBlock) {
	return r.search(b, 0)
}

func (r Reach) search(b0 *ssa.BasicBlock, i0 int) (ssa.Instruction, []*ssa.BasicBlock) {
	type item struct {
		b    *ssa.BasicBlock
		i    int
		prev *item
	}
	seen := map[*ssa.BasicBlock]bool{}
	queue := []*item{{b0, i0, nil}}
	trail := func(it *item) []*ssa.BasicBlock {
		var t []*ssa.BasicBlock
		for x := it; x != nil; x = x.prev {
			t = append([]*ssa.BasicBlock{x.b}, t...)
		}
		return t
	}
	for len(queue) > 0 {
		it := queue[0]
		queue = queue[1:]
		blocked := false
		for i := it.i; i < len(it.b.Instrs); i++ {
			ins := it.b.Instrs[i]
			if r.Avoid != nil && r.Avoid(ins) {
				blocked = true
				break
			}
			if r.Target != nil && r.Target(ins) {
				return ins, trail(it)
			}
		}
		if blocked {
			continue
		}
		for _, s := range it.b.Succs {
			if r.Within != nil && !r.Within[s] {
				continue
			}
			if r.AvoidEdge != nil && r.AvoidEdge(it.b, s) {
				continue
			}
			if seen[s] {
				continue
			}
			seen[s] = true
			queue = append(queue, &item{s, 0, it})
		}
	}
	return nil, nil
}

// Loop is a natural loop.
type Loop struct {
	Header *ssa.BasicBlock
	Blocks map[*ssa.BasicBlock]bool
}

// Loops returns the natural loops of fn (one per header; back edges to the same header are merged).
func Loops(fn *ssa.Function) []*Loop {
	byHeader := map[*ssa.BasicBlock]*Loop{}
	var order []*ssa.BasicBlock
	for _, b := range fn.Blocks {
		for _, s := range b.Succs {
			if s.Dominates(b) { // back edge b -> s
				l := byHeader[s]
				if l == nil {
					l = &Loop{Header: s, Blocks: map[*ssa.BasicBlock]bool{s: true}}
					byHeader[s] = l
					order = append(order, s)
				}
				// add all blocks that reach b without passing s
				stack := []*ssa.BasicBlock{b}
				for len(stack) > 0 {
					x := stack[len(stack)-1]
					stack = stack[:len(stack)-1]
					if l.Blocks[x] {
						continue
					}
					l.Blocks[x] = true
					stack = append(stack, x.Preds...)
				}
			}
		}
	}
	var out []*Loop
	for _, h := range order {
		out = append(out, byHeader[h])
	}
	return out
}

// InnermostLoop returns the smallest loop containing b, or nil.
func InnermostLoop(loops []*Loop, b *ssa.BasicBlock) *Loop {
	var best *Loop
	for _, l := range loops {
		if l.Blocks[b] && (best == nil || len(l.Blocks) < len(best.Blocks)) {
			best = l
		}
	}
	return best
}

// EdgeCond is a branch condition known to hold on entry to a block.
type EdgeCond struct {
	Cond ssa.Value
	True bool
	If   *ssa.If
}

// EdgeConds returns the conditions established by the chain of single-predecessor
// blocks leading to b (nearest first).
func EdgeConds(b *ssa.BasicBlock) []EdgeCond {
	var out []EdgeCond
	seen := map[*ssa.BasicBlock]bool{}
	for len(b.Preds) == 1 && !seen[b] {
		seen[b] = true
		p := b.Preds[0]
		if ifi, ok := p.Instrs[len(p.Instrs)-1].(*ssa.If); ok && p.Succs[0] != p.Succs[1] {
			out = append(out, EdgeCond{ifi.Cond, p.Succs[0] == b, ifi})
		}
		b = p
	}
	return out
}

// DomConds returns the branch conditions that hold whenever b executes: for every
// dominator d of b ending in an If, if exactly one successor of d dominates b (or is b
// via a single-pred edge) the corresponding condition is included.
func DomConds(b *ssa.BasicBlock) []EdgeCond {
	var out []EdgeCond
	for d := b.Idom(); d != nil; d = d.Idom() {
		ifi, ok := d.Instrs[len(d.Instrs)-1].(*ssa.If)
		if !ok || d.Succs[0] == d.Succs[1] {
			continue
		}
		t, f := d.Succs[0], d.Succs[1]
		// successor s "owns" b if s dominates b and s's only predecessor is d
		tOwns := len(t.Preds) == 1 && t.Dominates(b)
		fOwns := len(f.Preds) == 1 && f.Dominates(b)
		if tOwns && !fOwns {
			out = append(out, EdgeCond{ifi.Cond, true, ifi})
		} else if fOwns && !tOwns {
			out = append(out, EdgeCond{ifi.Cond, false, ifi})
		}
	}
	return out
}

// ConstInt returns the int64 value of a constant (through conversions).
func ConstInt(v ssa.Value) (int64, bool) {
	for {
		switch x := v.(type) {
		case *ssa.Convert:
			v = x.X
			continue
		case *ssa.ChangeType:
			v = x.X
			continue
		case *ssa.Const:
			if x.Value == nil {
				return 0, false
			}
			if x.Value.Kind() == constant.Int {
				n, ok := constant.Int64Val(x.Value)
				if !ok {
					// uint64 beyond int64
					u, ok2 := constant.Uint64Val(x.Value)
					return int64(u), ok2
				}
				return n, ok
			}
			if x.Value.Kind() == constant.Bool {
				if constant.BoolVal(x.Value) {
					return 1, true
				}
				return 0, true
			}
			return 0, false
		}
		return 0, false
	}
}

// ConstString returns the string value of a constant.
func ConstString(v ssa.Value) (string, bool) {
	if c, ok := v.(*ssa.Const); ok && c.Value != nil && c.Value.Kind() == constant.String {
		return constant.StringVal(c.Value), true
	}
	return "", false
}

// IsNilConst reports whether v is the nil constant.
func IsNilConst(v ssa.Value) bool {
	c, ok := v.(*ssa.Const)
	return ok && c.Value == nil
}

// GlobalLoad returns the global a value is loaded from (v = *G), or nil.
func GlobalLoad(v ssa.Value) *ssa.Global {
	if u, ok := v.(*ssa.UnOp); ok && u.Op == token.MUL {
		if g, ok := u.X.(*ssa.Global); ok {
			return g
		}
	}
	return nil
}

// Unwrap strips conversions, interface makes and type changes.
func Unwrap(v ssa.Value) ssa.Value {
	for {
		switch x := v.(type) {
		case *ssa.Convert:
			v = x.X
		case *ssa.ChangeType:
			v = x.X
		case *ssa.MakeInterface:
			v = x.X
		case *ssa.ChangeInterface:
			v = x.X
		default:
			return v
		}
	}
}

// FieldName returns the name of the field selected by a Field or FieldAddr.
func FieldName(v ssa.Value) (string, bool) {
	switch x := v.(type) {
	case *ssa.Field:
		if st, ok := x.X.Type().Underlying().(*types.Struct); ok {
			return st.Field(x.Field).Name(), true
		}
	case *ssa.FieldAddr:
		if pt, ok := x.X.Type().Underlying().(*types.Pointer); ok {
			if st, ok := pt.Elem().Underlying().(*types.Struct); ok {
				return st.Field(x.Field).Name(), true
			}
		}
	}
	return "", false
}

// ShortType renders a type without the module prefix.
func ShortType(t types.Type) string {
	return strings.ReplaceAll(types.TypeString(t, nil), "github.com/netflix/rend/", "")
}

// Returns lists the Return instructions of fn.
func Returns(fn *ssa.Function) []*ssa.Return {
	var out []*ssa.Return
	for _, b := range fn.Blocks {
		if len(b.Instrs) == 0 {
			continue
		}
		if r, ok := b.Instrs[len(b.Instrs)-1].(*ssa.Return); ok {
			out = append(out, r)
		}
	}
	return out
}

// BlockTrail renders a block trail with the first source line of each block.
func BlockTrail(fset *token.FileSet, trail []*ssa.BasicBlock) []string {
	var out []string
	for _, b := range trail {
		line := 0
		for _, ins := range b.Instrs {
			if ins.Pos().IsValid() {
				line = fset.Position(ins.Pos()).Line
				break
			}
		}
		s := "block " + itoa(b.Index)
		if b.Comment != "" {
			s += " (" + b.Comment + ")"
		}
		if line > 0 {
			s += " line " + itoa(line)
		}
		out = append(out, s)
	}
	return out
}

func itoa(i int) string {
	if i == 0 {
		return "0"
	}
	neg := i < 0
	if neg {
		i = -i
	}
	var b []byte
	for i > 0 {
		b = append([]byte{byte('0' + i%10)}, b...)
		i /= 10
	}
	if neg {
		b = append([]byte{'-'}, b...)
	}
	return string(b)
}

// DominatesInstr reports whether instruction a is executed before b on every path that reaches b.
func DominatesInstr(a, b ssa.Instruction) bool {
	if a.Block() == b.Block() {
		return IndexIn(a) < IndexIn(b)
	}
	return a.Block().Dominates(b.Block())
}
